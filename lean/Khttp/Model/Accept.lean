/-
  The listener side of `serve_epoll` (src/server/epoll.rs): an EDGE-TRIGGERED listening socket and the accept loop

      if token == LISTENER_TOKEN {
          while let Ok((stream, _peer)) = listener.accept() { … register the connection … }
      }

  `Model/Epoll.lean` treats "the listener may be ready at any time" as given and has no accept queue; this file models exactly that
  part: the kernel's queue of completed connections (`backlog`), the edge-triggered readiness of the listener (`edge`: the listener is
  in the epoll ready list — set by every arrival, cleared when `epoll_wait` reports it) and the loop that takes connections off the
  queue.  The loop is parametric in `cap`: `none` is the code as it is (accept until `accept()` fails, i.e. until the queue is empty);
  `some k` is the variant "at most k connections per listener event" (a fairness bound a maintainer might add), which the theorems of
  `Props/C14Accept.lean` refute.

  Kernel semantics assumed (epoll(7), EPOLLET): an edge-triggered descriptor is reported once per readiness CHANGE — here: once after one
  or more connections have arrived since it was last reported — and not again while connections merely remain queued.
-/
namespace Khttp.Accept

structure St where
  /-- connections the kernel has completed and `accept()` has not yet returned -/
  backlog : Nat := 0
  /-- the listener sits in the epoll ready list: an arrival happened since the listener was last reported -/
  edge : Bool := false
  /-- the event loop is inside its accept loop (between the report of the listener event and the end of the `while let`) -/
  inLoop : Bool := false
  /-- connections accepted so far (all rounds) -/
  accepted : Nat := 0
  /-- connections accepted in the current round -/
  taken : Nat := 0
  deriving Repr, DecidableEq

inductive Ev where
  | arrive      -- a client's connection is completed by the kernel
  | report      -- `epoll_wait` returns the listener event; the loop enters `while let Ok(..) = listener.accept()`
  | acceptOne   -- `listener.accept()` returned `Ok`
  | endLoop     -- the accept loop ends: `accept()` returned `Err(WouldBlock)` (queue empty) — or, with a cap, the cap was reached
  deriving Repr, DecidableEq

def enabled (cap : Option Nat) (s : St) : Ev → Bool
  | .arrive => true
  | .report => s.edge && !s.inLoop
  | .acceptOne => s.inLoop && decide (0 < s.backlog) && (match cap with | none => true | some k => decide (s.taken < k))
  | .endLoop => s.inLoop && (decide (s.backlog = 0) || (match cap with | none => false | some k => decide (s.taken = k)))

def step (s : St) : Ev → St
  | .arrive => { s with backlog := s.backlog + 1, edge := true }
  | .report => { s with edge := false, inLoop := true, taken := 0 }
  | .acceptOne => { s with backlog := s.backlog - 1, accepted := s.accepted + 1, taken := s.taken + 1 }
  | .endLoop => { s with inLoop := false }

/-- run a sequence of events from a state; `none` if one of them is not enabled -/
def run (cap : Option Nat) : St → List Ev → Option St
  | s, [] => some s
  | s, e :: es => if enabled cap s e then run cap (step s e) es else none

def Reachable (cap : Option Nat) (s : St) : Prop := ∃ es, run cap {} es = some s

/-- connections are waiting and nothing the server does will ever look at the listener again: only a NEW arrival can rescue them -/
def Stranded (s : St) : Prop := 0 < s.backlog ∧ s.edge = false ∧ s.inLoop = false

end Khttp.Accept
