/-
  Basic vocabulary of the khttp model: bytes, parse errors, and the `Res` result type in which
  *failure is explicit*: a Rust panic (`buf[i]` out of range, bad slice, `unwrap` on `None`,
  `unreachable!`) is `.panic site`, a violated precondition of an `unsafe` operation
  (`get_unchecked`, `read_unaligned`, `from_utf8_unchecked`) is `.ub site`.
  No Mathlib; this file is linked into the `kmodel` executable.
-/
namespace Khttp

abbrev Bytes := List UInt8

/-- `HttpParsingError` without the I/O variant. -/
inductive PErr where
  | eof      -- UnexpectedEof
  | ver      -- UnsupportedHttpVersion
  | status   -- MalformedStatusLine
  | header   -- MalformedHeader
  deriving DecidableEq, Repr, Inhabited

def PErr.name : PErr → String
  | .eof => "eof" | .ver => "ver" | .status => "status" | .header => "header"

inductive Res (α : Type) where
  | ok    (a : α)
  | err   (e : PErr)
  | panic (site : String)
  | ub    (site : String)
  deriving Repr

namespace Res
@[inline] def bind {α β} (x : Res α) (f : α → Res β) : Res β :=
  match x with
  | .ok a => f a
  | .err e => .err e
  | .panic s => .panic s
  | .ub s => .ub s

instance : Monad Res where
  pure := .ok
  bind := Res.bind

def isOk {α} : Res α → Bool | .ok _ => true | _ => false
def isPanic {α} : Res α → Bool | .panic _ => true | _ => false
def isUb {α} : Res α → Bool | .ub _ => true | _ => false
/-- neither a panic nor undefined behaviour -/
def Safe {α} (r : Res α) : Prop := r.isPanic = false ∧ r.isUb = false

@[simp] theorem bind_ok {α β} (a : α) (f : α → Res β) : (Res.ok a >>= f) = f a := rfl
@[simp] theorem bind_err {α β} (e : PErr) (f : α → Res β) : (Res.err e >>= f) = Res.err e := rfl
@[simp] theorem bind_panic {α β} (s : String) (f : α → Res β) : (Res.panic s >>= f) = Res.panic s := rfl
@[simp] theorem bind_ub {α β} (s : String) (f : α → Res β) : (Res.ub s >>= f) = Res.ub s := rfl
@[simp] theorem pure_eq {α} (a : α) : (pure a : Res α) = .ok a := rfl
end Res

-- ASCII constants
def SP : UInt8 := 0x20
def HT : UInt8 := 0x09
def CR : UInt8 := 0x0d
def LF : UInt8 := 0x0a
def COLON : UInt8 := 0x3a
def SLASH : UInt8 := 0x2f
def QMARK : UInt8 := 0x3f
def STAR : UInt8 := 0x2a
def COMMA : UInt8 := 0x2c

def str (s : String) : Bytes := s.toUTF8.toList

/-- `buf[i]` (panics when out of range) -/
@[inline] def idx (bs : Bytes) (i : Nat) (site : String) : Res UInt8 :=
  match bs[i]? with
  | some b => .ok b
  | none => .panic site

/-- `*buf.get_unchecked(i)` (UB when out of range) -/
@[inline] def idxUnchecked (bs : Bytes) (i : Nat) (site : String) : Res UInt8 :=
  match bs[i]? with
  | some b => .ok b
  | none => .ub site

/-- `&buf[a..b]` (panics unless `a ≤ b ≤ len`) -/
@[inline] def slice (bs : Bytes) (a b : Nat) (site : String) : Res Bytes :=
  if a ≤ b ∧ b ≤ bs.length then .ok ((bs.drop a).take (b - a)) else .panic site

/-- `&buf[a..]` (panics unless `a ≤ len`) -/
@[inline] def sliceFrom (bs : Bytes) (a : Nat) (site : String) : Res Bytes :=
  if a ≤ bs.length then .ok (bs.drop a) else .panic site

/-- `&buf[..b]` (panics unless `b ≤ len`) -/
@[inline] def sliceTo (bs : Bytes) (b : Nat) (site : String) : Res Bytes :=
  if b ≤ bs.length then .ok (bs.take b) else .panic site

/-- `from_utf8_unchecked`: the properties demand ASCII, which implies valid UTF-8. -/
@[inline] def isAscii (b : UInt8) : Bool := b < 0x80
@[inline] def asciiStr (bs : Bytes) (site : String) : Res Bytes :=
  if bs.all isAscii then .ok bs else .ub site

def toLower (b : UInt8) : UInt8 := if 0x41 ≤ b ∧ b ≤ 0x5a then b + 0x20 else b
/-- `eq_ignore_ascii_case` -/
def eqIgnoreCase (a b : Bytes) : Bool := a.map toLower == b.map toLower

/-- Rust's `u8::is_ascii_whitespace`: HT, LF, FF, CR, SP -/
def isAsciiWs (b : UInt8) : Bool := b == 0x09 || b == 0x0a || b == 0x0c || b == 0x0d || b == 0x20
def trimStart (bs : Bytes) : Bytes := bs.dropWhile isAsciiWs
def trimEnd (bs : Bytes) : Bytes := (bs.reverse.dropWhile isAsciiWs).reverse
def trimAscii (bs : Bytes) : Bytes := trimEnd (trimStart bs)

def isDigit (b : UInt8) : Bool := 0x30 ≤ b && b ≤ 0x39
def isAlpha (b : UInt8) : Bool := (0x41 ≤ b && b ≤ 0x5a) || (0x61 ≤ b && b ≤ 0x7a)

/-- `memchr(c, buf)` -/
def memchr (c : UInt8) (bs : Bytes) : Option Nat :=
  let i := bs.findIdx (· == c)
  if i < bs.length then some i else none

/-- `a.starts_with(b)` -/
def startsWith (a pre : Bytes) : Bool := pre.isPrefixOf a

/-- `slice.split(|b| b == c)` -/
def splitOn (c : UInt8) : Bytes → List Bytes
  | [] => [[]]
  | b :: bs =>
    if b == c then [] :: splitOn c bs
    else match splitOn c bs with
      | [] => [[b]]          -- unreachable: splitOn never returns []
      | h :: t => (b :: h) :: t

end Khttp
