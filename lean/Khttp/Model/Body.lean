/-
  Model of `/repo/src/body_reader.rs`: `StreamWithLeftover`, `io::Take`, `io::BufReader`, `FixedReader`,
  `ChunkedReader`, `BodyReader` (+ `drain`, failure flag) and two runners (`Read` / `BufRead` callers).
  State-passing style: every operation returns its result together with the new reader state (also on errors:
  a Rust `Err` leaves the reader in whatever state it had reached).

  Trusted-base assumptions (semantics of `std` that the model encodes, see the report):
  * the raw stream (`Src`) never fails with an I/O error; a `read` with a non-empty buffer returns `0` only at EOF
    and otherwise between 1 and `buf.len()` bytes of the current pending segment (`segs`);
  * `io::Take`, `io::BufReader::{fill_buf, consume, read, read_exact, read_line}` behave as written below
    (Rust 1.8x `std`): `fill_buf` refills only an empty buffer by ONE `read` of `capacity` bytes, `read` bypasses an
    empty buffer for requests `>= capacity`, `read_exact` = loop of `read` (the std fast path for an already
    buffered request is observationally the same), `read_line` = `read_until(b'\n')` followed by a UTF-8 check of
    the appended bytes (`InvalidData` on failure, the bytes stay consumed);
  * `usize` is 64 bit (`usize::from_str_radix` overflows at `2^64`).
  No Mathlib; linked into `kmodel`.
-/
import Khttp.Model.Basic
import Khttp.Gen.Consts
namespace Khttp.Body
open Khttp

/-- the `io::ErrorKind`s the body reader can produce; `fuel` is a model artefact (a loop of the model ran out of
fuel) that is proved unreachable for the runners in `Khttp/Props/C06.lean` -/
inductive IoErr where
  | unexpectedEof
  | invalidData
  | fuel
  deriving DecidableEq, Repr, Inhabited

def IoErr.name : IoErr → String
  | .unexpectedEof => "eof" | .invalidData => "invalid" | .fuel => "fuel"

/-- `io::Result<α>` -/
inductive IoRes (α : Type) where
  | ok (a : α)
  | err (e : IoErr)
  deriving Repr

def SEMI : UInt8 := 0x3b

/-! ## The raw stream -/

/-- The underlying stream (a socket whose pending TCP segments are known): `data` = bytes not yet delivered,
`segs` = sizes of the pending segments in order (a segment of 0 counts as 1); when `segs` is exhausted everything
that is left is one segment. A `read` takes from the current segment only and leaves the rest of it pending.
`starved` (ghost): some `read` with a non-empty buffer found no data (returned `0` = EOF).
No I/O errors other than EOF. -/
structure Src where
  data : Bytes
  segs : List Nat
  starved : Bool := false
  deriving Repr

/-- `stream.read(&mut buf[..n])` -/
def Src.read (s : Src) (n : Nat) : Bytes × Src :=
  if n = 0 then ([], s)
  else if s.data.isEmpty then ([], { s with starved := true })
  else match s.segs with
    | [] =>
      let k := min n s.data.length
      (s.data.take k, { s with data := s.data.drop k, segs := [] })
    | g :: gs =>
      let g' := max g 1
      let k := min n (min g' s.data.length)
      (s.data.take k, { s with data := s.data.drop k, segs := if k < g' then (g' - k) :: gs else gs })

/-- infallible readers (`Read::read` of the layers below `BufReader`); `bound` is an upper bound on the number of
bytes the reader can still deliver (only used as loop fuel) -/
class RawRead (ρ : Type) where
  read : ρ → Nat → Bytes × ρ
  bound : ρ → Nat

instance : RawRead Src := ⟨Src.read, fun s => s.data.length⟩

/-! ## `StreamWithLeftover` -/

/-- `lo` = `leftover[offset..]` -/
structure Swl where
  lo : Bytes
  src : Src
  deriving Repr

def Swl.read (s : Swl) (n : Nat) : Bytes × Swl :=
  if 0 < s.lo.length then
    let toCopy := min s.lo.length n
    (s.lo.take toCopy, { s with lo := s.lo.drop toCopy })
  else
    let (out, src) := s.src.read n
    (out, { s with src := src })

instance : RawRead Swl := ⟨Swl.read, fun s => s.lo.length + s.src.data.length⟩

/-! ## `io::Take` -/

structure Take where
  inner : Swl
  limit : Nat
  deriving Repr

/-- `Take::read`; the `assert!(n <= limit)` of std cannot fire: `Swl.read` returns at most `max` bytes
(`Lemmas/BodyBuf.lean`, `Swl.read_spec`), so `limit - out.length` is the exact subtraction. -/
def Take.read (t : Take) (n : Nat) : Bytes × Take :=
  if t.limit = 0 then ([], t)
  else
    let max := min n t.limit
    let (out, inner) := t.inner.read max
    (out, { inner := inner, limit := t.limit - out.length })

instance : RawRead Take := ⟨Take.read, fun t => t.inner.lo.length + t.inner.src.data.length⟩

/-! ## `io::BufReader` (capacity `BUF_SIZE`) -/

/-- `buf` = the unconsumed part `buffer[pos..filled]` of the internal buffer -/
structure BufReader (ρ : Type) where
  inner : ρ
  buf : Bytes
  deriving Repr

namespace BufReader
variable {ρ : Type} [RawRead ρ]

def capacity : Nat := Gen.bodyBufSize

def new (inner : ρ) : BufReader ρ := { inner := inner, buf := [] }

/-- `fill_buf`: refill (one `read` of `capacity` bytes) only when `pos == filled` -/
def fillBuf (b : BufReader ρ) : Bytes × BufReader ρ :=
  if b.buf.isEmpty then
    let (d, inner) := RawRead.read b.inner capacity
    (d, { inner := inner, buf := d })
  else (b.buf, b)

/-- `consume(amt)`: `pos = min(pos + amt, filled)` -/
def consume (b : BufReader ρ) (amt : Nat) : BufReader ρ := { b with buf := b.buf.drop amt }

/-- `read(&mut buf[..n])` -/
def read (b : BufReader ρ) (n : Nat) : Bytes × BufReader ρ :=
  if b.buf.isEmpty && capacity ≤ n then
    let (d, inner) := RawRead.read b.inner n
    (d, { inner := inner, buf := [] })
  else
    let (rem, b1) := b.fillBuf
    let out := rem.take n
    (out, b1.consume out.length)

/-- `default_read_exact`: `need` bytes still to fill, `acc` = bytes filled so far -/
def readExactLoop : Nat → BufReader ρ → Nat → Bytes → IoRes Bytes × BufReader ρ
  | 0, b, _, _ => (.err .fuel, b)
  | fuel + 1, b, need, acc =>
    if need = 0 then (.ok acc, b)
    else
      let (out, b1) := b.read need
      if out.isEmpty then (.err .unexpectedEof, b1)
      else readExactLoop fuel b1 (need - out.length) (acc ++ out)

/-- `read_exact(&mut [0u8; n])`, returns the filled array -/
def readExact (b : BufReader ρ) (n : Nat) : IoRes Bytes × BufReader ρ := readExactLoop (n + 1) b n []

/-- `read_until(b'\n', &mut acc)` -/
def readUntilLoop : Nat → BufReader ρ → Bytes → IoRes Bytes × BufReader ρ
  | 0, b, _ => (.err .fuel, b)
  | fuel + 1, b, acc =>
    let (avail, b1) := b.fillBuf
    match memchr LF avail with
    | some i => (.ok (acc ++ avail.take (i + 1)), b1.consume (i + 1))
    | none =>
      let b2 := b1.consume avail.length
      if avail.length = 0 then (.ok (acc ++ avail), b2)
      else readUntilLoop fuel b2 (acc ++ avail)

end BufReader

/-- `core::str::from_utf8(..).is_ok()` (well-formed UTF-8 of Unicode table 3-7: no overlongs, no surrogates,
nothing above U+10FFFF) -/
def validUtf8Aux : Nat → Bytes → Bool
  | 0, _ => false
  | _ + 1, [] => true
  | fuel + 1, b0 :: rest =>
    let cont (b : UInt8) : Bool := 0x80 ≤ b && b ≤ 0xbf
    if b0 < 0x80 then validUtf8Aux fuel rest
    else if 0xc2 ≤ b0 && b0 ≤ 0xdf then
      match rest with
      | b1 :: r => cont b1 && validUtf8Aux fuel r
      | _ => false
    else if 0xe0 ≤ b0 && b0 ≤ 0xef then
      match rest with
      | b1 :: b2 :: r =>
        (if b0 == 0xe0 then 0xa0 ≤ b1 && b1 ≤ 0xbf
         else if b0 == 0xed then 0x80 ≤ b1 && b1 ≤ 0x9f
         else cont b1) && cont b2 && validUtf8Aux fuel r
      | _ => false
    else if 0xf0 ≤ b0 && b0 ≤ 0xf4 then
      match rest with
      | b1 :: b2 :: b3 :: r =>
        (if b0 == 0xf0 then 0x90 ≤ b1 && b1 ≤ 0xbf
         else if b0 == 0xf4 then 0x80 ≤ b1 && b1 ≤ 0x8f
         else cont b1) && cont b2 && cont b3 && validUtf8Aux fuel r
      | _ => false
    else false

def validUtf8 (bs : Bytes) : Bool := validUtf8Aux (bs.length + 1) bs

namespace BufReader
variable {ρ : Type} [RawRead ρ]

/-- `read_line(&mut line)` on an EMPTY `String`: returns the bytes appended (`Ok(n)` has `n = line.len()`);
`n = 0` only at EOF. The UTF-8 check is done after the bytes have been consumed. -/
def readLine (b : BufReader ρ) : IoRes Bytes × BufReader ρ :=
  match readUntilLoop (RawRead.bound b.inner + b.buf.length + 1) b [] with
  | (.ok line, b1) => if validUtf8 line then (.ok line, b1) else (.err .invalidData, b1)
  | (.err e, b1) => (.err e, b1)

end BufReader

instance {ρ} [RawRead ρ] : RawRead (BufReader ρ) :=
  ⟨BufReader.read, fun b => RawRead.bound b.inner + b.buf.length⟩

/-! ## `FixedReader` -/

structure FixedReader where
  inner : BufReader Take
  remaining : Nat
  deriving Repr

namespace FixedReader

def new (leftover : Bytes) (stream : Src) (len : Nat) : FixedReader :=
  { inner := BufReader.new { inner := { lo := leftover, src := stream }, limit := len }, remaining := len }

def read (r : FixedReader) (n : Nat) : IoRes Bytes × FixedReader :=
  if r.remaining = 0 then (.ok [], r)
  else
    let toRead := min r.remaining n
    let (out, inner) := r.inner.read toRead
    if out.length = 0 then (.err .unexpectedEof, { r with inner := inner })
    else (.ok out, { inner := inner, remaining := r.remaining - out.length })

def fillBuf (r : FixedReader) : IoRes Bytes × FixedReader :=
  if r.remaining = 0 then (.ok [], r)
  else
    let (buf, inner) := r.inner.fillBuf
    if buf.isEmpty then (.err .unexpectedEof, { r with inner := inner })
    else (.ok (buf.take (min buf.length r.remaining)), { r with inner := inner })

/-- precondition (Rust: `debug_assert!`, and `remaining -= amt` would underflow): `amt ≤ remaining`.
The runner `runBuf` only consumes a part of what `fillBuf` returned, which is at most `remaining` bytes. -/
def consume (r : FixedReader) (amt : Nat) : FixedReader :=
  { inner := r.inner.consume amt, remaining := r.remaining - amt }

end FixedReader

/-! ## `ChunkedReader` -/

inductive ChunkState where
  | size | data | crlf | trailer | done
  deriving DecidableEq, Repr, Inhabited

structure ChunkedReader where
  inner : BufReader Swl
  state : ChunkState
  rem : Nat
  deriving Repr

def isHexDigit (b : UInt8) : Bool :=
  (0x30 ≤ b && b ≤ 0x39) || (0x41 ≤ b && b ≤ 0x46) || (0x61 ≤ b && b ≤ 0x66)

def hexDigitVal (b : UInt8) : Nat :=
  if 0x30 ≤ b && b ≤ 0x39 then b.toNat - 0x30
  else if 0x41 ≤ b && b ≤ 0x46 then b.toNat - 0x41 + 10
  else b.toNat - 0x61 + 10

/-- numeric value of a string of hex digits -/
def hexValue (ds : Bytes) : Nat := ds.foldl (fun a d => a * 16 + hexDigitVal d) 0

def usizeLimit : Nat := 2 ^ 64

/-- `usize::from_str_radix(hex, 16)` on a non-empty string of hex digits: fails exactly on overflow -/
def parseHexUsize (ds : Bytes) : Option Nat :=
  let v := hexValue ds
  if v < usizeLimit then some v else none

/-- `s.trim_end_matches(['\r', '\n'])` -/
def trimEndCrLf (bs : Bytes) : Bytes := (bs.reverse.dropWhile fun b => b == CR || b == LF).reverse

/-- `line.split(';').next().unwrap_or("")` -/
def firstField (line : Bytes) : Bytes :=
  match splitOn SEMI line with
  | h :: _ => h
  | [] => []

namespace ChunkedReader

def new (leftover : Bytes) (stream : Src) : ChunkedReader :=
  { inner := BufReader.new { lo := leftover, src := stream }, state := .size, rem := 0 }

def readChunkSize (c : ChunkedReader) : IoRes Unit × ChunkedReader :=
  match c.inner.readLine with
  | (.err e, inner) => (.err e, { c with inner := inner })
  | (.ok line, inner) =>
    let c := { c with inner := inner }
    -- `read_line == 0 || !line.ends_with('\n')`: end of stream before or inside the size line
    if line.length = 0 || line.getLast? != some LF then (.err .unexpectedEof, c)
    else
      let hex := trimEndCrLf (firstField line)
      if hex.isEmpty || !hex.all isHexDigit then (.err .invalidData, c)
      else match parseHexUsize hex with
        | none => (.err .invalidData, c)
        | some v => (.ok (), { c with rem := v, state := if v = 0 then .trailer else .data })

/-- the inner loop of the `Trailer` arm: skip lines until EOF or an empty line -/
def trailerLoop : Nat → BufReader Swl → IoRes Unit × BufReader Swl
  | 0, b => (.err .fuel, b)
  | fuel + 1, b =>
    match b.readLine with
    | (.err e, b1) => (.err e, b1)
    | (.ok line, b1) =>
      if line.length = 0 || line == [CR, LF] || line == [LF] then (.ok (), b1)
      else trailerLoop fuel b1

/-- `advance`'s `loop`, one `match self.state` per unit of fuel -/
def advanceLoop : Nat → ChunkedReader → IoRes Bool × ChunkedReader
  | 0, c => (.err .fuel, c)
  | fuel + 1, c =>
    match c.state with
    | .size =>
      match c.readChunkSize with
      | (.err e, c1) => (.err e, c1)
      | (.ok _, c1) => advanceLoop fuel c1
    | .data =>
      if c.rem = 0 then advanceLoop fuel { c with state := .crlf }
      else (.ok true, c)
    | .crlf =>
      match c.inner.readExact 2 with
      | (.err e, inner) => (.err e, { c with inner := inner })
      | (.ok crlf, inner) =>
        if crlf != [CR, LF] then (.err .invalidData, { c with inner := inner })
        else advanceLoop fuel { c with inner := inner, state := .size }
    | .trailer =>
      match trailerLoop (RawRead.bound c.inner + 1) c.inner with
      | (.err e, inner) => (.err e, { c with inner := inner })
      | (.ok _, inner) => advanceLoop fuel { c with inner := inner, state := .done }
    | .done => (.ok false, c)

/-- The loop of `advance` runs at most 6 times (`Data(0) → Crlf → Size → Trailer → Done → return`):
`Size` is only re-entered from `Crlf`, and `Crlf` only from `Data`, which returns when data is available. -/
def advance (c : ChunkedReader) : IoRes Bool × ChunkedReader := advanceLoop 8 c

/-- `while self.advance()? { … }` of `read`: `n` = `out.len()`, `acc` = the `written` bytes.
`rem - out.length` is exact (`out.length ≤ min rem n`). On an error the bytes already written are dropped (Rust
returns `Err` without the count). -/
def readLoop : Nat → ChunkedReader → Nat → Bytes → IoRes Bytes × ChunkedReader
  | 0, c, _, _ => (.err .fuel, c)
  | fuel + 1, c, n, acc =>
    match c.advance with
    | (.err e, c1) => (.err e, c1)
    | (.ok false, c1) => (.ok acc, c1)
    | (.ok true, c1) =>
      if n = 0 then (.ok acc, c1)
      else
        let toRead := min c1.rem n
        let (out, inner) := c1.inner.read toRead
        if out.length = 0 then (.err .unexpectedEof, { c1 with inner := inner })
        else
          let c2 := { c1 with inner := inner, rem := c1.rem - out.length }
          let n' := n - out.length
          if c2.rem = 0 || n' = 0 then (.ok (acc ++ out), c2)
          else readLoop fuel c2 n' (acc ++ out)

def read (c : ChunkedReader) (n : Nat) : IoRes Bytes × ChunkedReader := readLoop (n + 1) c n []

def fillBuf (c : ChunkedReader) : IoRes Bytes × ChunkedReader :=
  match c.advance with
  | (.err e, c1) => (.err e, c1)
  | (.ok false, c1) => (.ok [], c1)
  | (.ok true, c1) =>
    let (buf, inner) := c1.inner.fillBuf
    let c2 := { c1 with inner := inner }
    if buf.isEmpty then (.err .unexpectedEof, c2)
    else (.ok (buf.take (min buf.length c2.rem)), c2)

/-- precondition (Rust: `debug_assert!`, and `remaining_in_chunk -= amt` would underflow): `amt ≤ rem` -/
def consume (c : ChunkedReader) (amt : Nat) : ChunkedReader :=
  { c with inner := c.inner.consume amt, rem := c.rem - amt }

end ChunkedReader

/-! ## `BodyReader` -/

inductive BodyEncoding where
  | fixed (r : FixedReader)
  | chunked (c : ChunkedReader)
  | eof (r : BufReader Swl)
  | empty (s : Src)
  deriving Repr

/-- `fail` models the `AtomicBool` registered with `on_failure` (set on every `Err` of `read` / `fill_buf`) -/
structure BodyReader where
  enc : BodyEncoding
  fail : Bool
  deriving Repr

namespace BodyReader

def newFixed (leftover : Bytes) (stream : Src) (len : Nat) : BodyReader :=
  { enc := .fixed (FixedReader.new leftover stream len), fail := false }
def newChunked (leftover : Bytes) (stream : Src) : BodyReader :=
  { enc := .chunked (ChunkedReader.new leftover stream), fail := false }
def newEof (leftover : Bytes) (stream : Src) : BodyReader :=
  { enc := .eof (BufReader.new { lo := leftover, src := stream }), fail := false }
def newEmpty (stream : Src) : BodyReader := { enc := .empty stream, fail := false }

/-- `from_request` after the headers have been interpreted: `chunked` = `is_transfer_encoding_chunked()`,
`cl` = `get_content_length()` -/
def fromRequest (leftover : Bytes) (stream : Src) (chunked : Bool) (cl : Option Nat) : BodyReader :=
  if chunked then newChunked leftover stream
  else match cl with
    | some n => if 0 < n then newFixed leftover stream n else newEmpty stream
    | none => newEmpty stream

/-- `from_response` (client side): as `from_request`, except that a response without framing fields is delimited by
the end of the connection -/
def fromResponse (leftover : Bytes) (stream : Src) (chunked : Bool) (cl : Option Nat) : BodyReader :=
  if chunked then newChunked leftover stream
  else match cl with
    | some n => if 0 < n then newFixed leftover stream n else newEmpty stream
    | none => newEof leftover stream

/-- the raw stream (`inner()`) -/
def src (r : BodyReader) : Src :=
  match r.enc with
  | .fixed f => f.inner.inner.inner.src
  | .chunked c => c.inner.inner.src
  | .eof b => b.inner.src
  | .empty s => s

/-- upper bound on the bytes still deliverable (loop fuel of the runners) -/
def bound (r : BodyReader) : Nat :=
  match r.enc with
  | .fixed f => RawRead.bound f.inner
  | .chunked c => RawRead.bound c.inner
  | .eof b => RawRead.bound b
  | .empty _ => 0

def note {α} (r : BodyReader) (res : IoRes α) : Bool :=
  match res with
  | .err _ => true
  | .ok _ => r.fail

def read (r : BodyReader) (n : Nat) : IoRes Bytes × BodyReader :=
  match r.enc with
  | .fixed f => let (res, f1) := f.read n; (res, { enc := .fixed f1, fail := r.note res })
  | .chunked c => let (res, c1) := c.read n; (res, { enc := .chunked c1, fail := r.note res })
  | .eof b => let (out, b1) := b.read n; (.ok out, { r with enc := .eof b1 })
  | .empty _ => (.ok [], r)

def fillBuf (r : BodyReader) : IoRes Bytes × BodyReader :=
  match r.enc with
  | .fixed f => let (res, f1) := f.fillBuf; (res, { enc := .fixed f1, fail := r.note res })
  | .chunked c => let (res, c1) := c.fillBuf; (res, { enc := .chunked c1, fail := r.note res })
  | .eof b => let (out, b1) := b.fillBuf; (.ok out, { r with enc := .eof b1 })
  | .empty _ => (.ok [], r)

def consume (r : BodyReader) (amt : Nat) : BodyReader :=
  match r.enc with
  | .fixed f => { r with enc := .fixed (f.consume amt) }
  | .chunked c => { r with enc := .chunked (c.consume amt) }
  | .eof b => { r with enc := .eof (b.consume amt) }
  | .empty _ => r

def drainLoop : Nat → BodyReader → BodyReader
  | 0, r => r
  | fuel + 1, r =>
    match r.read 1024 with
    | (.ok out, r1) => if out.length = 0 then r1 else drainLoop fuel r1
    | (.err _, r1) => r1

/-- `drain` (run by `Drop`) -/
def drain (r : BodyReader) : BodyReader :=
  match r.enc with
  | .eof _ => r
  | .empty _ => r
  | _ => drainLoop (r.bound + 2) r

end BodyReader

/-! ## Runners: a caller using `Read`, a caller using `BufRead` -/

inductive Outcome where
  | eof                -- `Ok(0)` / empty `fill_buf`
  | err (e : IoErr)
  deriving DecidableEq, Repr, Inhabited

def defaultReadSize : Nat := 1024

/-- next size of a schedule: head of the list (0 counts as 1); an exhausted schedule repeats its last size -/
def nextSize (sched : List Nat) (last : Nat) : Nat :=
  match sched with
  | [] => last
  | k :: _ => max k 1

def runReadLoop : Nat → BodyReader → List Nat → Nat → List Bytes → List Bytes × Outcome × BodyReader
  | 0, r, _, _, acc => (acc, .err .fuel, r)
  | fuel + 1, r, reads, last, acc =>
    let n := nextSize reads last
    match r.read n with
    | (.err e, r1) => (acc, .err e, r1)
    | (.ok out, r1) =>
      if out.length = 0 then (acc, .eof, r1)
      else runReadLoop fuel r1 reads.tail n (acc ++ [out])

/-- successive `read` calls with buffer sizes `reads` until `Ok(0)` or an error; also returns the final reader -/
def runRead' (r : BodyReader) (reads : List Nat) : List Bytes × Outcome × BodyReader :=
  runReadLoop (r.bound + 2) r reads defaultReadSize []

def runRead (r : BodyReader) (reads : List Nat) : List Bytes × Outcome :=
  let (cs, o, _) := runRead' r reads; (cs, o)

def runBufLoop : Nat → BodyReader → List Nat → Nat → List Bytes → List Bytes × Outcome × BodyReader
  | 0, r, _, _, acc => (acc, .err .fuel, r)
  | fuel + 1, r, consumes, last, acc =>
    let k := nextSize consumes last
    match r.fillBuf with
    | (.err e, r1) => (acc, .err e, r1)
    | (.ok avail, r1) =>
      if avail.length = 0 then (acc, .eof, r1)
      else
        let amt := min k avail.length
        runBufLoop fuel (r1.consume amt) consumes.tail k (acc ++ [avail.take amt])

/-- `fill_buf` then `consume(min k available)` with `k` from `consumes` until an empty slice or an error -/
def runBuf' (r : BodyReader) (consumes : List Nat) : List Bytes × Outcome × BodyReader :=
  runBufLoop (r.bound + 2) r consumes defaultReadSize []

def runBuf (r : BodyReader) (consumes : List Nat) : List Bytes × Outcome :=
  let (cs, o, _) := runBuf' r consumes; (cs, o)

end Khttp.Body
