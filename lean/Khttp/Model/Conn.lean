/-
  Model of `handle_one_request` / `handle_connection` (src/server/mod.rs): one keep-alive connection.

  The socket is the list of TCP segments the server will see (`Sock`, Khttp/Model/ReadLoop.lean).  User code —
  route handlers and the pre-routing hook — is a parameter (`Cfg`): a handler gets the parsed request, the route
  parameters and the body reader, and returns the responses it sent, the body reader as it left it, and whether
  it returned `Ok`.  Everything khttp itself does around it is modelled: the read loop, hook handling, routing,
  choice of the body reader, the drop-drain of the body, the failure flag, the keep-alive decision, 400/431.
-/
import Khttp.Model.ReadLoop
import Khttp.Model.Body
import Khttp.Model.Router
namespace Khttp
open Khttp.Body Khttp.Router

/-- what a client observes of one response -/
structure Resp where
  status : Nat
  /-- the response headers carried a `connection: close` token (`headers.is_connection_close()`) -/
  close : Bool
  body : Bytes
  deriving Repr, DecidableEq

structure HandlerOut where
  resps : List Resp
  body : BodyReader
  /-- `false`: the handler returned `Err(_)` -/
  ok : Bool

abbrev Handler := Request → Params → BodyReader → HandlerOut

/-- what user code can do with the body reader it is handed: calls of its `Read` / `BufRead` interface -/
inductive BodyOp where
  | read (n : Nat)          -- `read(&mut buf)` with `buf.len() = n`
  | fillBuf                 -- `fill_buf()`
  | consume (amt : Nat)     -- `consume(amt)`; the `BufRead` contract requires `amt ≤` the length `fill_buf` returned
  deriving Repr, DecidableEq

def applyBodyOp (b : BodyReader) : BodyOp → BodyReader
  | .read n => (b.read n).2
  | .fillBuf => b.fillBuf.2
  | .consume amt => b.consume amt

def applyBodyOps (b : BodyReader) (ops : List BodyOp) : BodyReader := ops.foldl applyBodyOp b

/-- a handler that only uses the body reader through its public interface (it cannot forge another one) -/
def Handler.UsesBodyViaApi (h : Handler) : Prop :=
  ∀ req ps b, ∃ ops, (h req ps b).body = applyBodyOps b ops

inductive HookOut where
  | proceed
  | drop (resp : Option Resp)     -- the hook (optionally) answered and returned `PreRoutingAction::Drop`

structure Cfg where
  max : Nat
  hook : Option (Request → HookOut)
  /-- registered routes, the handler of route `i`, and the fallback handler -/
  routes : List (Method × Bytes)
  handler : Nat → Handler
  fallback : Handler

-- ------------------------------------------------------------------ Sock <-> Src

/-- the raw stream the body reader sees: the pending segments of the socket -/
def Sock.toSrc (s : Sock) : Src :=
  { data := s.pending, segs := (s.segs.filter (fun g => !g.isEmpty)).map List.length, starved := false }

/-- cut `data` back into segments of the given sizes (what is left when the sizes run out is one segment) -/
def splitSizes : Nat → Bytes → List Nat → List Bytes
  | 0, d, _ => if d.isEmpty then [] else [d]          -- unreachable with fuel = d.length
  | _, [], _ => []
  | _, d, [] => [d]
  | fuel + 1, d, g :: gs => d.take (max g 1) :: splitSizes fuel (d.drop (max g 1)) gs

def Sock.ofSrc (src : Src) (eof : Bool) : Sock := { segs := splitSizes src.data.length src.data src.segs, eof := eof }

-- ------------------------------------------------------------------ handle_one_request

structure OneOut where
  resps : List Resp
  /-- the value `handle_one_request` returns as `Ok(keep_alive)`; `Err` and `Ok(false)` both end the connection -/
  keep : Bool
  sock : Sock
  /-- the server is blocked in a socket read that the client will never satisfy -/
  hang : Bool
  /-- largest length requested from the socket while reading the head (C10) -/
  maxRecv : Nat
  /-- a request head was parsed (the pre-routing hook, if configured, ran exactly once for it) -/
  parsed : Bool
  /-- `handle_one_request` returned `Err` (handler error): the connection's final I/O result -/
  failed : Bool := false

def BAD_REQUEST : Resp := ⟨400, true, []⟩
def HEAD_TOO_LARGE : Resp := ⟨431, true, []⟩

/-- the body reader ran into the end of the pending data although the peer has not closed: the real server
    would block there -/
def starvedHang (b : BodyReader) (eof : Bool) : Bool := b.src.starved && !eof

def handleOne (cfg : Cfg) (s : Sock) : OneOut :=
  let (res, s1, log) := readRequest cfg.max s
  let maxRecv := log.foldl (fun a e => Nat.max a e.2) 0
  match res with
  | .error .invalid => ⟨[BAD_REQUEST], false, s1, false, maxRecv, false, false⟩
  | .error .tooLarge => ⟨[HEAD_TOO_LARGE], false, s1, false, maxRecv, false, false⟩
  | .error .readEof => ⟨[], false, s1, false, maxRecv, false, false⟩
  | .error .hang => ⟨[], false, s1, true, maxRecv, false, false⟩
  | .ok ok =>
    let req := ok.req
    let leftover := ok.buf.drop req.off
    let mkBody := fun (_ : Unit) => BodyReader.fromRequest leftover s1.toSrc req.headers.chunked req.headers.cl
    let hookOut := match cfg.hook with
      | some h => h req
      | none => .proceed
    match hookOut with
    | .drop resp =>
      let resps := resp.toList
      let respKeep := !(resps.any (·.close))
      if req.headers.close || !respKeep then ⟨resps, false, s1, false, maxRecv, true, false⟩
      else
        -- discard the unread body so that the next request is parsed from the right place
        let b := (mkBody ()).drain
        ⟨resps, !b.fail, Sock.ofSrc b.src s1.eof, starvedHang b s1.eof, maxRecv, true, false⟩
    | .proceed =>
      let path := match req.uri.path with
        | .ok p => p
        | _ => []            -- unreachable: accessors are panic-free on parsed targets (C01_accessors_safe)
      let (rid, params) := (build cfg.routes).matchRoute req.method path
      let h := match rid with
        | some i => cfg.handler i
        | none => cfg.fallback
      let out := h req params (mkBody ())
      -- `ctx` (and the body reader in it) is dropped inside the handler call: drain
      let b := out.body.drain
      let s2 := Sock.ofSrc b.src s1.eof
      let hang := starvedHang b s1.eof
      if !out.ok then ⟨out.resps, false, s2, hang, maxRecv, true, true⟩
      else
        let respKeep := !(out.resps.any (·.close))
        ⟨out.resps, !(req.headers.close || b.fail) && respKeep, s2, hang, maxRecv, true, false⟩

-- ------------------------------------------------------------------ handle_connection

inductive ConnEnd where
  | closed   -- handle_connection returned; the stream is dropped (connection closed)
  | hang     -- blocked waiting for bytes the client never sends (connection stays open)
  deriving Repr, DecidableEq

structure ConnOut where
  /-- per `handle_one_request` call, in order: was a head parsed (pre-routing hook ran), and the responses sent -/
  reqs : List (Bool × List Resp)
  fin : ConnEnd
  maxRecv : Nat
  /-- `handle_connection` returned `Err(_)` (what the teardown hook receives) -/
  failed : Bool
  /-- what is left unread on the socket when the connection handling ends -/
  sock : Sock

/-- all responses of the connection, in order -/
def ConnOut.resps (o : ConnOut) : List Resp := o.reqs.flatMap (·.2)
/-- number of request heads parsed = number of pre-routing hook invocations -/
def ConnOut.parsed (o : ConnOut) : Nat := (o.reqs.filter (·.1)).length

def connLoop (cfg : Cfg) : Nat → Sock → List (Bool × List Resp) → Nat → ConnOut
  | 0, s, acc, mr => ⟨acc, .hang, mr, false, s⟩     -- unreachable: every request consumes at least one byte
  | fuel + 1, s, acc, mr =>
    let o := handleOne cfg s
    let acc := acc ++ [(o.parsed, o.resps)]
    let mr := Nat.max mr o.maxRecv
    if o.hang then ⟨acc, .hang, mr, false, o.sock⟩
    else if !o.keep then ⟨acc, .closed, mr, o.failed, o.sock⟩
    else connLoop cfg fuel o.sock acc mr

/-- `handle_connection(stream, config)` -/
def handleConnection (cfg : Cfg) (s : Sock) : ConnOut :=
  connLoop cfg (s.pending.length + 2) s [] 0

end Khttp
