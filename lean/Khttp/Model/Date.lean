/-
  Model of `/repo/src/date.rs`: `format_http_date`, `write_2d`, `write_4d`, `divmod_i64` and the per-thread
  `DateCache` used by `get_date_now`.

  Conventions
  * `i64` values are modelled by `Int`.  For every `i64` input all intermediate values of `format_http_date`
    stay far inside the `i64` range (|days| ≤ 2^63/86400, |year| < 3·10^11), so no debug-mode overflow panic is
    possible and unbounded `Int` arithmetic is exact.
  * `div_euclid` / `rem_euclid` are `Int.ediv` / `Int.emod`, which is what `/` and `%` mean on `Int` in Lean 4.
  * Rust `/` on `i64` truncates towards zero: `Int.tdiv` (the model keeps `tdiv`; the operands are always ≥ 0).
  * `x as u8` / `x as u16` from `i64`/`usize` are truncations: `% 256` / `% 65536` (Euclidean, i.e. two's complement).
  * `u8` / `u16` arithmetic inside `write_2d` / `write_4d`: `/`, `%` are exact on `Nat`; `b'0' + x` panics in a
    debug build when the sum exceeds 255 (`addU8`).
  * `buf[a..b].copy_from_slice(src)` panics unless `a ≤ b ≤ buf.len()` and `src.len() = b - a`;
    `&S[a..b]` panics unless `a ≤ b ≤ S.len()`; `buf[i] = v` panics unless `i < buf.len()`;
    `usize - 1` panics (debug) on 0.  All of these are explicit `Res.panic`s in `formatHttpDateR`.
  No Mathlib; linked into the `kmodel` executable.
-/
import Khttp.Model.Basic
import Khttp.Gen.Consts

namespace Khttp.Date
open Khttp

/-- `divmod_i64` -/
@[inline] def divmodI64 (n d : Int) : Int × Int :=
  let q := n / d          -- n.div_euclid(d)
  let r := n % d          -- n.rem_euclid(d)
  (q, r)

/-- the weekday computation: `wday` in `1..=7`, 1 = Monday … 7 = Sunday -/
def wdayOf (daysTotal : Int) : Int :=
  let wday := (3 + daysTotal) % 7            -- rem_euclid
  if wday ≤ 0 then wday + 7 else wday

/-- `let mut k = x / d; if k == cap { k -= 1; }` (Rust `/` on `i64`: truncating) -/
def divCap (x d cap : Int) : Int :=
  let k := x.tdiv d
  if k = cap then k - 1 else k

/-- The 400/100/4/1-year decomposition of `days_total` (days since 2000-03-01):
    returns `(year, remdays)` as they stand right before the month loop. -/
def yearSplit (daysTotal : Int) : Int × Int :=
  let qcCycles := daysTotal / Gen.daysPer400Y            -- div_euclid
  let remdays := daysTotal % Gen.daysPer400Y             -- rem_euclid
  let cCycles := divCap remdays Gen.daysPer100Y 4
  let remdays := remdays - cCycles * Gen.daysPer100Y
  let qCycles := divCap remdays Gen.daysPer4Y 25
  let remdays := remdays - qCycles * Gen.daysPer4Y
  let remyears := divCap remdays 365 4
  let remdays := remdays - remyears * 365
  let year := 2000 + remyears + 4 * qCycles + 100 * cCycles + 400 * qcCycles
  (year, remdays)

/-- `while mon_idx < 12 { let ml = MONTHS[mon_idx]; if rd < ml { break } rd -= ml; mon_idx += 1 }`.
    The list argument is the not yet visited tail `MONTHS[mon_idx..]`; `MONTHS` has exactly 12 entries
    (`months_len` below), so "tail exhausted" is the loop condition `mon_idx < 12` failing and `MONTHS[mon_idx]`
    never goes out of range. -/
def monthLoop : List Int → Nat → Int → Nat × Int
  | [], monIdx, rd => (monIdx, rd)
  | ml :: rest, monIdx, rd =>
    if rd < ml then (monIdx, rd)
    else monthLoop rest (monIdx + 1) (rd - ml)

theorem months_len : Gen.months.length = 12 := rfl

/-- The values computed by `format_http_date` *before* the narrowing casts. -/
structure Fields where
  year : Int    -- `year` (i64) as passed to `year as u16`
  mon  : Nat    -- `mon` (usize) as passed to `mon as u8`; 1 = January
  mday : Int    -- `rd + 1` (i64) as passed to `as u8`
  wday : Int    -- `wday` (i64), 1 = Monday … 7 = Sunday
  hour : Int    -- i64, before `as u8`
  min  : Int
  sec  : Int
  deriving Repr, DecidableEq

/-- The calendar part of `format_http_date`: `(year, mon, rd + 1)` from `days_total`
    (`mon` after the `if mon > 12 { year += 1; mon -= 12 }` adjustment). -/
def civilOf (daysTotal : Int) : Int × Nat × Int :=
  let (year, remdays) := yearSplit daysTotal
  let (monIdx, rd) := monthLoop Gen.months 0 remdays
  let mday := rd + 1                       -- before `as u8`
  let mon := monIdx + 3
  let (year, mon) := if mon > 12 then (year + 1, mon - 12) else (year, mon)
  (year, mon, mday)

/-- First half of `format_http_date`: all the arithmetic. -/
def dateFields (secsSinceEpoch : Int) : Fields :=
  let (d, secsOfDay) := divmodI64 secsSinceEpoch Gen.secsPerDay
  let daysTotal := d - Gen.leapoch
  let wday := wdayOf daysTotal
  let (year, mon, mday) := civilOf daysTotal
  let (hour, rem) := divmodI64 secsOfDay Gen.secsPerHour
  let (min, sec) := divmodI64 rem Gen.secsPerMin
  { year, mon, mday, wday, hour, min, sec }

/-- `x as u8` for an `i64` (or `usize`) `x` -/
def asU8 (x : Int) : Nat := (x % 256).toNat
/-- `x as u16` for an `i64` `x` -/
def asU16 (x : Int) : Nat := (x % 65536).toNat

/-- `a + b` on `u8` (debug build: overflow panics) -/
def addU8 (a b : Nat) (site : String) : Res UInt8 :=
  if a + b < 256 then .ok (UInt8.ofNat (a + b)) else .panic site

/-- `buf[i] = v` -/
def setIdx (buf : Bytes) (i : Nat) (v : UInt8) (site : String) : Res Bytes :=
  if i < buf.length then .ok (buf.set i v) else .panic site

/-- `buf[a..b].copy_from_slice(src)` -/
def copyInto (buf : Bytes) (a b : Nat) (src : Bytes) (site : String) : Res Bytes :=
  if a ≤ b ∧ b ≤ buf.length then
    if src.length = b - a then .ok (buf.take a ++ src ++ buf.drop b) else .panic site
  else .panic site

/-- `write_2d(&mut buf[a..a+2], v)`; `v : u8` given as a `Nat < 256` -/
def write2d (buf : Bytes) (a : Nat) (v : Nat) : Res Bytes := do
  let sub ← slice buf a (a + 2) "write_2d: buf[a..a+2]"
  let d0 ← addU8 48 (v / 10) "write_2d: b'0' + v / 10"
  let sub ← setIdx sub 0 d0 "write_2d: buf[0]"
  let d1 ← addU8 48 (v % 10) "write_2d: b'0' + v % 10"
  let sub ← setIdx sub 1 d1 "write_2d: buf[1]"
  copyInto buf a (a + 2) sub "write_2d: write back"

/-- `write_4d(&mut buf[a..a+4], v)`; `v : u16` given as a `Nat < 65536`.
    `(x as u8)` on the `u16` quotients is again `% 256`. -/
def write4d (buf : Bytes) (a : Nat) (v : Nat) : Res Bytes := do
  let sub ← slice buf a (a + 4) "write_4d: buf[a..a+4]"
  let d0 ← addU8 48 (v / 1000 % 256) "write_4d: b'0' + (v / 1000) as u8"
  let sub ← setIdx sub 0 d0 "write_4d: buf[0]"
  let d1 ← addU8 48 (v / 100 % 10 % 256) "write_4d: b'0' + (v / 100 % 10) as u8"
  let sub ← setIdx sub 1 d1 "write_4d: buf[1]"
  let d2 ← addU8 48 (v / 10 % 10 % 256) "write_4d: b'0' + (v / 10 % 10) as u8"
  let sub ← setIdx sub 2 d2 "write_4d: buf[2]"
  let d3 ← addU8 48 (v % 10 % 256) "write_4d: b'0' + (v % 10) as u8"
  let sub ← setIdx sub 3 d3 "write_4d: buf[3]"
  copyInto buf a (a + 4) sub "write_4d: write back"

/-- `(x as usize) - 1` (debug build: underflow panics) -/
def subOne (x : Nat) (site : String) : Res Nat :=
  if 1 ≤ x then .ok (x - 1) else .panic site

/-- Second half of `format_http_date`: narrowing casts and the writes into the 37-byte buffer. -/
def render (buf : Bytes) (f : Fields) : Res Bytes := do
  -- let woff = ((wday as usize) - 1) * 3;        (wday ≥ 1 always, so `as usize` is exact)
  let w1 ← subOne f.wday.toNat "woff: wday - 1"
  let woff := w1 * 3
  let mday := asU8 f.mday
  let mon := asU8 f.mon
  let hour := asU8 f.hour
  let min := asU8 f.min
  let sec := asU8 f.sec
  -- buf[6..9].copy_from_slice(&WDAY_STRS[woff..woff + 3]);
  let ws ← slice Gen.wdayStrs woff (woff + 3) "WDAY_STRS[woff..woff+3]"
  let buf ← copyInto buf 6 9 ws "buf[6..9]"
  -- write_2d(&mut buf[11..13], mday);
  let buf ← write2d buf 11 mday
  -- let moff = ((mon as usize) - 1) * 3;
  let m1 ← subOne mon "moff: mon - 1"
  let moff := m1 * 3
  -- buf[14..17].copy_from_slice(&MON_STRS[moff..moff + 3]);
  let ms ← slice Gen.monStrs moff (moff + 3) "MON_STRS[moff..moff+3]"
  let buf ← copyInto buf 14 17 ms "buf[14..17]"
  -- write_4d(&mut buf[18..22], year as u16);
  let buf ← write4d buf 18 (asU16 f.year)
  -- write_2d(&mut buf[23..25], hour); write_2d(&mut buf[26..28], min); write_2d(&mut buf[29..31], sec);
  let buf ← write2d buf 23 hour
  let buf ← write2d buf 26 min
  write2d buf 29 sec

/-- `format_http_date(&mut buf, secs)` with `buf = HEADER_TEMPLATE` (every caller passes a fresh template),
    panics explicit. -/
def formatHttpDateR (secs : Int) : Res Bytes :=
  render Gen.headerTemplate (dateFields secs)

/-- `get_date_from_secs(secs)`.  Total version: `Props/C18.lean` proves (`formatHttpDateR_ok`) that
    `formatHttpDateR` is `.ok` for **every** `secs`, so the `[]` branch is dead. -/
def formatHttpDate (secs : Int) : Bytes :=
  match formatHttpDateR secs with
  | .ok b => b
  | _ => []

/-- `i64::MIN` -/
def i64Min : Int := -9223372036854775808

/-- the thread-local `DateCache` -/
structure DateCache where
  buf : Bytes
  lastSec : Int
  deriving Repr, DecidableEq

/-- the `const` initialiser of `DATE_CACHE` -/
def DateCache.init : DateCache := { buf := Gen.headerTemplate, lastSec := i64Min }

/-- `get_date_now()` where `now` is the value returned by `now_unix_sec()` in this call.
    (`format_http_date` cannot panic — `formatHttpDateR_ok` — hence no `Res` here.) -/
def getDateNow (c : DateCache) (now : Int) : DateCache × Bytes :=
  if c.lastSec ≠ now then
    let buf := formatHttpDate now            -- let mut buf = HEADER_TEMPLATE; format_http_date(&mut buf, now);
    let c := { c with buf := buf, lastSec := now }
    (c, c.buf)
  else
    (c, c.buf)

/-- successive `get_date_now()` calls of one thread, given the successive clock readings -/
def runCache : DateCache → List Int → List Bytes
  | _, [] => []
  | c, now :: rest =>
    let (c', out) := getDateNow c now
    out :: runCache c' rest

end Khttp.Date
