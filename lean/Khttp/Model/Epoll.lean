/-
Model of `/repo/src/server/epoll.rs` (`Server::serve_epoll`, `EpollJob::run`, `Reaper`) as a labelled transition
system over connection ids `c : Nat`.  One transition = one synchronisation action of the Rust code (an atomic
load/store/CAS, a system call, a channel or mutex operation); the steps of one thread happen in program order,
the steps of different threads interleave arbitrarily (sequentially consistent interleaving semantics — see
"memory orderings" below for why this is adequate for the orderings the code uses).

Rust source being abstracted (line numbers of `/repo/src/server/epoll.rs`):

```
 40  fn run(self) {                                                        -- worker thread, one `EpollJob`
 41      let handle = &*(self.handle_ptr as *const Handle);     -- raw-pointer dereference
 42      let stream = &*(handle.stream_ptr);                    -- raw-pointer dereference
 45      let result = handle_one_request(stream, &mut response, &handle.handler_config);   [handleKeep/handleClose]
 47      if let Ok(true) = result {
 48          handle.in_flight.store(false, Ordering::Release);                             [storeInFlight]
 49          return; }
 53      let reaper = Arc::clone(&handle.reaper);
 55      let _ = epoll_ctl(handle.epfd, EPOLL_CTL_DEL, handle.fd, ptr::null_mut());        [del]
 56      let stream = *Box::from_raw(handle.stream_ptr);
 57      match … teardown hook … { Some(hook) => (hook)(stream, …), None => drop(stream) } [dropStream]
 62      handle.closed.store(true, Ordering::Release);                                     [setClosed]
 66      reaper.dead.lock().unwrap().push(self.handle_ptr);                                [push]
 67      reaper.wake();                                                                    [wake]
 98  fn free_dead(&self) { let dead = take(&mut *self.dead.lock().unwrap()); for ptr in dead { drop(Box::from_raw(ptr)) } }
122  loop {
123      let n = epoll_wait(epfd, events, max_events, -1);                                 [batchStart]
131      for ev in &events[..n] {
134          if token == LISTENER_TOKEN {
136              while let Ok((mut stream, _)) = listener.accept() {                       [acceptConn / acceptDone]
137                  … setup hook: Proceed / Drop => continue / StopAccepting => return Ok(()) [stopAccepting]
147                  let stream_ptr = Box::into_raw(Box::new(stream));                     [acceptConn]
149                  let handle = Box::new(Handle { in_flight: false, closed: false, … });  [boxHandle]
164                  if epoll_ctl(epfd, EPOLL_CTL_ADD, fd, &mut cev) == -1 {               [addOk / addFail]
168                      drop(Box::from_raw(handle_ptr as *mut Handle));                   [failFreeHandle]
169                      *Box::from_raw(stream_ptr) … teardown hook / drop(stream)         [failTeardown]
177          } else if token == WAKE_TOKEN { reaper.drain_wake();                          [drainWake]
180          } else {
184              if !handle.closed.load(Ordering::Acquire)                                 [loadClosed]
185                  && handle.in_flight.compare_exchange(false, true, Acquire, Relaxed).is_ok()   [cas]
190              { worker_pool.execute(EpollJob { handle_ptr: token }); }                  [execute]
196      reaper.free_dead();                                                               [batchEnd]
```

Threads of the model: the *event loop* (the thread inside `serve_epoll`), `nWorkers` *workers* (the `ThreadPool`
of `/repo/src/threadpool.rs`) and the *clients* (environment: `cSend`, `cClose`).

Abstractions / assumptions (stated, not proved):
* The worker pool is abstracted as an unbounded FIFO `jobs` plus `nWorkers` workers running one job at a time.
  This is what `Khttp/Props/C13.lean` proves of `Khttp/Model/Pool.lean` (`C13_fifo`, `C13_at_most_once`,
  `C13_no_job_lost`, `C13_lock_not_held_while_running`); the receiver-lock dance is folded into `take`.
* `handle_one_request` (`/repo/src/server/mod.rs`) is abstracted as: block until the connection is readable;
  then either consume the OLDEST complete request, answer it and report keep-alive (`handleKeep`), or report
  "close" (`handleClose`), having answered the oldest request (`ans = true`: `Connection: close`, handler asked
  to close) or not (`ans = false`: end of stream, i/o error, malformed head).  It terminates and does not panic
  once the connection is readable (the accepted socket is BLOCKING and has no read timeout: when nothing is
  readable the step is simply not enabled).  It consumes exactly one request: the bytes of a second, pipelined
  request that are already in the socket buffer when `read_request` calls `read` are read into the same buffer
  and dropped — that behaviour is outside this abstraction (requests of the model arrive one `cSend` at a time).
* epoll, level triggered (connections are registered with `EPOLLIN | EPOLLRDHUP`, no `EPOLLET`): `epoll_wait`
  may return ANY non-empty duplicate-free list of tokens that are ready when it returns: a registered connection
  is ready iff it has unconsumed data or the peer has closed; the wake eventfd is ready iff its counter is
  non-zero (`wakePending`); the (edge triggered) listener may be ready at any time.  `epoll_wait` blocks
  (`batchStart` not enabled) when nothing is ready.  `EINTR` (`continue` on line 126) is a no-op and not a step.
* `EPOLL_CTL_ADD` may fail (`addFail`) or succeed (`addOk`) nondeterministically; `EPOLL_CTL_DEL` succeeds (the
  descriptor is still open and registered when it is executed: DEL precedes the drop of the stream).
* Connection ids are fresh (`next`); in the Rust code the identity of a connection is the ADDRESS of its `Handle`
  box, which the allocator may reuse after `free_dead` — sound because `C15_no_use_after_free` shows that no
  token harvested before the free is used after it.
* The setup hook's `Drop` answer (`continue` on line 140; the hook has consumed the stream) creates no connection
  record and is not a step.  `StopAccepting` is the step `stopAccepting` (the loop returns; see
  `C15_after_stop_full` in `Props/C15.lean`).
* Any `Err` of `listener.accept()` ends the `while let` (step `acceptDone`), not only `WouldBlock`.  A fatal error of
  `epoll_wait` (line 127, `return Err(e)`) leaves the loop exactly like `stopAccepting` does and is not a separate
  step.  Neither exit closes `epfd` or the wake eventfd (raw descriptors, no owner): they stay open.
* `free_dead` is one atomic step (the `take` under the mutex is atomic; the frees that follow touch memory that
  only this thread can reach).  Modelling the frees at the moment of the `take` is the earliest possible, i.e.
  the most adversarial choice for use-after-free.

Memory orderings.  Every atomic access carries the ordering the code uses as DATA (`Event.sync`), exported as
`expectedSkeleton` and compared against the Rust source by a separate tool.  The interleaving semantics is adequate
because every hand-over of non-atomic data in the code is covered by a release/acquire pair that the skeleton pins
down (`orderings_sufficient`): worker `in_flight.store(false, Release)` → loop CAS `Acquire` → mpsc send/recv →
next worker; worker `closed.store(true, Release)` → loop `closed.load(Acquire)`; `Mutex` around `Reaper.dead`
(push → take); `epoll_ctl`/`epoll_wait`/eventfd are system calls.
-/
import Khttp.Model.Pool
namespace Khttp.Epoll
open Khttp.Pool (upd upd_same upd_other)

/-! ## Annotation of steps: synchronisation actions and their memory orderings -/

inductive MemOrd where
  | relaxed | acquire | release | acqRel | seqCst
  deriving DecidableEq, Repr, Inhabited

def MemOrd.name : MemOrd → String
  | .relaxed => "Relaxed" | .acquire => "Acquire" | .release => "Release" | .acqRel => "AcqRel" | .seqCst => "SeqCst"

/-- `o` is at least an acquire operation (for loads / RMW) -/
def MemOrd.isAcquire : MemOrd → Bool
  | .acquire | .acqRel | .seqCst => true
  | _ => false
/-- `o` is at least a release operation (for stores / RMW) -/
def MemOrd.isRelease : MemOrd → Bool
  | .release | .acqRel | .seqCst => true
  | _ => false

def boolName : Bool → String
  | true => "true" | false => "false"

/-- The synchronisation actions of epoll.rs, one constructor per code site. -/
inductive Sync where
  | handleOne                                            -- line 45
  | storeInFlight (v : Bool) (o : MemOrd)                -- line 48
  | epollDel                                             -- line 55
  | takeStream                                           -- lines 56–60
  | storeClosed (v : Bool) (o : MemOrd)                  -- line 62
  | reaperPush                                           -- line 66
  | reaperWake                                           -- line 67
  | loadClosed (o : MemOrd)                              -- line 184
  | casInFlight (exp new : Bool) (succ fail : MemOrd)    -- line 187
  | execute                                              -- line 190
  | freeDead                                             -- line 196
  | boxStream                                            -- line 147
  | boxHandle                                            -- lines 149–158
  | epollAdd                                             -- line 164
  | failFreeHandle                                       -- line 168
  | failTakeStream                                       -- lines 169–174
  deriving DecidableEq, Repr, Inhabited

def Sync.render : Sync → String
  | .handleOne => "job: handle_one_request"
  | .storeInFlight v o => s!"job.keep: store in_flight {boolName v} {o.name}"
  | .epollDel => "job.close: epoll_ctl DEL"
  | .takeStream => "job.close: take stream + teardown"
  | .storeClosed v o => s!"job.close: store closed {boolName v} {o.name}"
  | .reaperPush => "job.close: reaper push"
  | .reaperWake => "job.close: reaper wake"
  | .loadClosed o => s!"loop.event: load closed {o.name}"
  | .casInFlight e n so fo => s!"loop.event: cas in_flight {boolName e} {boolName n} {so.name} {fo.name}"
  | .execute => "loop.event: execute"
  | .freeDead => "loop.batch_end: free_dead"
  | .boxStream => "accept: box stream"
  | .boxHandle => "accept: box handle"
  | .epollAdd => "accept: epoll_ctl ADD"
  | .failFreeHandle => "accept.fail: free handle"
  | .failTakeStream => "accept.fail: take stream + teardown"

/-! ## State -/

/-- Where the code is with connection `c` as far as jobs / workers are concerned. -/
inductive Phase where
  /-- no job exists for `c` and no worker is inside `EpollJob::run` for it (the task text calls this `none`) -/
  | idle
  /-- an `EpollJob` for `c` sits in the pool's channel (after `execute`, before a worker received it) -/
  | jobQueued
  /-- a worker is inside `handle_one_request` (line 45), nothing read yet -/
  | handling
  /-- `handle_one_request` returned `Ok(true)`; about to `in_flight.store(false)` (line 48) -/
  | keep
  /-- `handle_one_request` returned something else; about to `EPOLL_CTL_DEL` (line 55) -/
  | closing
  /-- `EPOLL_CTL_DEL` done; about to take and drop the stream (lines 56–60) -/
  | deleted
  /-- stream dropped / given to the teardown hook; about to `closed.store(true)` (line 62) -/
  | streamDropped
  /-- `closed` set; about to push the record to the reaper queue (line 66) -/
  | closedSet
  /-- record pushed (the task text calls this `queued`); about to `reaper.wake()` (line 67) -/
  | pushed
  deriving DecidableEq, Repr, Inhabited

/-- a worker thread is inside `EpollJob::run` for the connection -/
def Phase.isWorking : Phase → Bool
  | .handling | .keep | .closing | .deleted | .streamDropped | .closedSet | .pushed => true
  | _ => false

/-- phases before `EPOLL_CTL_DEL` -/
def Phase.isOpen : Phase → Bool
  | .idle | .jobQueued | .handling | .keep | .closing => true
  | _ => false

/-- phases of the close path after `EPOLL_CTL_DEL` -/
def Phase.isClosing : Phase → Bool
  | .deleted | .streamDropped | .closedSet | .pushed => true
  | _ => false

/-- Everything the model knows about one connection. -/
structure Conn where
  /-- ghost: `listener.accept()` returned this connection and its `TcpStream` was boxed (line 147) -/
  accepted : Bool := false
  /-- ghost: the `Handle` box was allocated (line 149) -/
  boxed : Bool := false
  /-- the socket is in the epoll interest list (between a successful `EPOLL_CTL_ADD` and `EPOLL_CTL_DEL`) -/
  registered : Bool := false
  /-- ghost: ids of all requests the client has sent, oldest first -/
  sent : List Nat := []
  /-- requests that arrived and were not consumed by a worker yet, oldest first (the task's `arrived`) -/
  pending : List Nat := []
  /-- ghost: requests answered, in the order in which they were answered -/
  answered : List Nat := []
  /-- the client closed its end (EOF / RDHUP visible to the server) -/
  peerClosed : Bool := false
  /-- `Handle.in_flight` -/
  inFlight : Bool := false
  /-- `Handle.closed` -/
  closedFlag : Bool := false
  /-- the `Handle` box is allocated and not freed -/
  handleLive : Bool := false
  /-- the boxed `TcpStream` exists (socket open) -/
  streamLive : Bool := false
  /-- ghost: how many times the stream was dropped / handed to the teardown hook (= socket closed) -/
  streamClosedCount : Nat := 0
  /-- ghost: how many times `drop(Box::from_raw(handle_ptr))` was executed for this record -/
  handleFreedCount : Nat := 0
  /-- ghost: how many times the teardown decision (hook call or plain drop) was executed -/
  teardownCount : Nat := 0
  phase : Phase := .idle
  /-- ghost: the worker that took the last job of this connection -/
  owner : Nat := 0
  /-- ghost: the code is done with the connection: close path of `EpollJob::run` returned (line 68) or the
      `EPOLL_CTL_ADD` failure branch completed (line 174) -/
  ended : Bool := false
  /-- ghost: `EPOLL_CTL_ADD` failed for this connection -/
  addFailed : Bool := false
  deriving DecidableEq, Repr, Inhabited

/-- level-triggered readiness of the socket: unconsumed data or EOF -/
def Conn.readable (k : Conn) : Bool := !k.pending.isEmpty || k.peerClosed

/-- `epoll_event.u64` -/
inductive Token where
  | conn (c : Nat)     -- a `*mut Handle`
  | wake               -- `WAKE_TOKEN`
  | listener           -- `LISTENER_TOKEN`
  deriving DecidableEq, Repr, Inhabited

/-- Control state of the event-loop thread (`rest` of `State` holds the events of the batch not processed yet,
    i.e. `events[idx..n]`; the event being processed stays at its head until its `if` is finished). -/
inductive Mode where
  /-- inside / about to call `epoll_wait` (line 123) -/
  | waiting
  /-- in the `for` loop (line 131), about to look at the head of `rest`; `rest = []`: about to `free_dead` -/
  | batch
  /-- `closed.load` returned `false` for the head event `c`, about to CAS `in_flight` (line 185) -/
  | loaded (c : Nat)
  /-- the CAS succeeded, about to `worker_pool.execute` (line 190) -/
  | won (c : Nat)
  /-- listener event: `accept` returned connection `c`, stream boxed (line 147), about to box the handle -/
  | acc1 (c : Nat)
  /-- handle boxed (line 158), about to `EPOLL_CTL_ADD` (line 164) -/
  | acc2 (c : Nat)
  /-- `EPOLL_CTL_ADD` failed, about to free the handle (line 168) -/
  | accF1 (c : Nat)
  /-- handle freed, about to take the stream and run the teardown (lines 169–174) -/
  | accF2 (c : Nat)
  /-- `serve_epoll` returned `Ok(())` (line 141) -/
  | stopped
  deriving DecidableEq, Repr, Inhabited

structure State where
  /-- `self.thread_count` -/
  nWorkers : Nat
  conn : Nat → Conn
  /-- number of connections accepted so far = next fresh id -/
  next : Nat
  /-- ghost: next fresh request id -/
  nextReq : Nat
  mode : Mode
  rest : List Token
  /-- the pool's channel: connection ids of the queued `EpollJob`s, oldest first -/
  jobs : List Nat
  /-- the connection whose job worker `w` is running -/
  worker : Nat → Option Nat
  /-- `Reaper.dead` -/
  reaper : List Nat
  /-- the eventfd counter is non-zero -/
  wakePending : Bool

/-- State when `serve_epoll` enters its `loop` (line 122): listener and eventfd registered, `n` workers spawned. -/
def init (n : Nat) : State :=
  { nWorkers := n, conn := fun _ => {}, next := 0, nextReq := 0, mode := .waiting, rest := []
    jobs := [], worker := fun _ => none, reaper := [], wakePending := false }

/-- is the token ready (would `epoll_wait` report it)? -/
def State.ready (s : State) : Token → Bool
  | .conn c => (s.conn c).registered && (s.conn c).readable
  | .wake => s.wakePending
  | .listener => true

/-- the task's `inReaper` -/
def State.inReaper (s : State) (c : Nat) : Bool := s.reaper.contains c

/-! ## Events -/

inductive Event where
  -- clients (environment)
  | cSend (c : Nat)                       -- a complete request arrives on connection c
  | cClose (c : Nat)                      -- the peer closes
  -- event loop
  | batchStart (evs : List Token)         -- `epoll_wait` returns `evs`
  | drainWake                             -- WAKE_TOKEN: `reaper.drain_wake()`
  | loadClosed (c : Nat) (v : Bool)       -- `handle.closed.load(Acquire)` returned `v` (`true`: event skipped)
  | cas (c : Nat) (ok : Bool)             -- `in_flight.compare_exchange(false,true,Acquire,Relaxed)`, `ok = is_ok()`
  | execute (c : Nat)                     -- `worker_pool.execute(EpollJob{..})`
  | batchEnd                              -- `reaper.free_dead()`, back to `epoll_wait`
  | acceptConn (c : Nat)                  -- `accept` returned Ok, hook said Proceed, stream boxed
  | boxHandle (c : Nat)
  | addOk (c : Nat)                       -- `EPOLL_CTL_ADD` returned 0
  | addFail (c : Nat)                     -- `EPOLL_CTL_ADD` returned -1
  | failFreeHandle (c : Nat)
  | failTeardown (c : Nat)
  | acceptDone                            -- `accept` returned Err (WouldBlock): listener event finished
  | stopAccepting                         -- setup hook returned `StopAccepting`: `serve_epoll` returns
  -- workers
  | take (w c : Nat)                      -- worker w received the oldest job (connection c), `run` starts
  | handleKeep (w c : Nat)                -- `handle_one_request` answered the oldest request, returned Ok(true)
  | handleClose (w c : Nat) (ans : Bool)  -- … returned Ok(false)/Err; `ans`: the oldest request was answered
  | storeInFlight (w c : Nat)
  | del (w c : Nat)
  | dropStream (w c : Nat)
  | setClosed (w c : Nat)
  | push (w c : Nat)
  | wake (w c : Nat)
  deriving DecidableEq, Repr, Inhabited

/-- The synchronisation action (with memory orderings) that a step stands for.  `none`: environment steps and
    steps of the pool / kernel that are not code sites of epoll.rs listed in the skeleton. -/
def Event.sync : Event → Option Sync
  | .handleKeep _ _ => some .handleOne
  | .handleClose _ _ _ => some .handleOne
  | .storeInFlight _ _ => some (.storeInFlight false .release)
  | .del _ _ => some .epollDel
  | .dropStream _ _ => some .takeStream
  | .setClosed _ _ => some (.storeClosed true .release)
  | .push _ _ => some .reaperPush
  | .wake _ _ => some .reaperWake
  | .loadClosed _ _ => some (.loadClosed .acquire)
  | .cas _ _ => some (.casInFlight false true .acquire .relaxed)
  | .execute _ => some .execute
  | .batchEnd => some .freeDead
  | .acceptConn _ => some .boxStream
  | .boxHandle _ => some .boxHandle
  | .addOk _ => some .epollAdd
  | .addFail _ => some .epollAdd
  | .failFreeHandle _ => some .failFreeHandle
  | .failTeardown _ => some .failTakeStream
  | _ => none

/-- The code sites in the order of the task description: worker job, keep-alive branch, close branch, loop event,
    end of batch, accept, failed accept.  Within a site: program order. -/
def skeletonSyncs : List Sync :=
  [ .handleOne,
    .storeInFlight false .release,
    .epollDel, .takeStream, .storeClosed true .release, .reaperPush, .reaperWake,
    .loadClosed .acquire, .casInFlight false true .acquire .relaxed, .execute,
    .freeDead,
    .boxStream, .boxHandle, .epollAdd,
    .failFreeHandle, .failTakeStream ]

/-- The ordered list of synchronisation actions per code site, to be compared with the list extracted from the
    Rust source. -/
def expectedSkeleton : List String := skeletonSyncs.map Sync.render

/-- the code site an action belongs to (the prefix of its rendering before the colon) -/
def Sync.site : Sync → String
  | .handleOne => "job"
  | .storeInFlight _ _ => "job.keep"
  | .epollDel | .takeStream | .storeClosed _ _ | .reaperPush | .reaperWake => "job.close"
  | .loadClosed _ | .casInFlight _ _ _ _ | .execute => "loop.event"
  | .freeDead => "loop.batch_end"
  | .boxStream | .boxHandle | .epollAdd => "accept"
  | .failFreeHandle | .failTakeStream => "accept.fail"

/-- the part of the skeleton that belongs to one code site (`"job"`, `"job.keep"`, `"job.close"`, `"loop.event"`,
    `"loop.batch_end"`, `"accept"`, `"accept.fail"`), in program order — for a comparison site by site -/
def skeletonOfSite (site : String) : List String :=
  (skeletonSyncs.filter fun a => a.site = site).map Sync.render

/-- the orderings / values an action must have for the interleaving model to be adequate (see the header) -/
def Sync.orderOk : Sync → Bool
  | .storeInFlight v o => v = false && o.isRelease
  | .storeClosed v o => v = true && o.isRelease
  | .loadClosed o => o.isAcquire
  | .casInFlight e n so _ => e = false && n = true && so.isAcquire
  | _ => true

/-- The connection whose `Handle` record the step dereferences (reads or writes a field of `*handle_ptr`).
    `execute`, `push`, `wake`, `take` only pass the pointer VALUE (or use the `Arc<Reaper>` cloned on line 53). -/
def Event.accessesRecord : Event → Option Nat
  | .loadClosed c _ => some c
  | .cas c _ => some c
  | .handleKeep _ c => some c
  | .handleClose _ c _ => some c
  | .storeInFlight _ c => some c
  | .del _ c => some c
  | .dropStream _ c => some c
  | .setClosed _ c => some c
  | .addOk c => some c          -- `cev.u64 = handle_ptr` only, but the record must exist to be registered
  | .addFail c => some c
  | .failFreeHandle c => some c
  | _ => none

/-- The connection whose boxed `TcpStream` the step uses (reads, writes, or takes out of its box). -/
def Event.accessesStream : Event → Option Nat
  | .handleKeep _ c => some c
  | .handleClose _ c _ => some c
  | .del _ c => some c          -- `handle.fd` must still denote this socket
  | .dropStream _ c => some c
  | .addOk c => some c
  | .addFail c => some c
  | .failTeardown c => some c
  | _ => none

/-! ## Guards and effects -/

/-- Guard of each step.  A blocked thread is a thread none of whose steps is enabled. -/
def enabled (s : State) : Event → Prop
  | .cSend c => (s.conn c).accepted = true ∧ (s.conn c).peerClosed = false
  | .cClose c => (s.conn c).accepted = true ∧ (s.conn c).peerClosed = false
  /- line 123: `epoll_wait(…, -1)` returns `n ≥ 1` events: any duplicate-free list of ready tokens. -/
  | .batchStart evs => s.mode = .waiting ∧ evs ≠ [] ∧ evs.Nodup ∧ ∀ t ∈ evs, s.ready t = true
  | .drainWake => s.mode = .batch ∧ s.rest.head? = some .wake
  /- line 184: NO `handleLive` conjunct here or below: that a dereferenced record is live is a THEOREM
     (`C15_no_use_after_free`), not an assumption. -/
  | .loadClosed c v => s.mode = .batch ∧ s.rest.head? = some (.conn c) ∧ v = (s.conn c).closedFlag
  | .cas c ok => s.mode = .loaded c ∧ ok = !(s.conn c).inFlight
  | .execute c => s.mode = .won c
  | .batchEnd => s.mode = .batch ∧ s.rest = []
  | .acceptConn c => s.mode = .batch ∧ s.rest.head? = some .listener ∧ c = s.next
  | .boxHandle c => s.mode = .acc1 c
  | .addOk c => s.mode = .acc2 c
  | .addFail c => s.mode = .acc2 c
  | .failFreeHandle c => s.mode = .accF1 c
  | .failTeardown c => s.mode = .accF2 c
  | .acceptDone => s.mode = .batch ∧ s.rest.head? = some .listener
  | .stopAccepting => s.mode = .batch ∧ s.rest.head? = some .listener
  /- threadpool.rs line 59: an idle worker receives the OLDEST job. -/
  | .take w c => w < s.nWorkers ∧ s.worker w = none ∧ s.jobs.head? = some c
  /- line 45, blocking read: needs something to read. -/
  | .handleKeep w c => s.worker w = some c ∧ (s.conn c).phase = .handling ∧ (s.conn c).pending ≠ []
  | .handleClose w c ans => s.worker w = some c ∧ (s.conn c).phase = .handling ∧ (s.conn c).readable = true ∧
      (ans = true → (s.conn c).pending ≠ [])
  | .storeInFlight w c => s.worker w = some c ∧ (s.conn c).phase = .keep
  | .del w c => s.worker w = some c ∧ (s.conn c).phase = .closing
  | .dropStream w c => s.worker w = some c ∧ (s.conn c).phase = .deleted
  | .setClosed w c => s.worker w = some c ∧ (s.conn c).phase = .streamDropped
  | .push w c => s.worker w = some c ∧ (s.conn c).phase = .closedSet
  | .wake w c => s.worker w = some c ∧ (s.conn c).phase = .pushed

instance (s : State) (e : Event) : Decidable (enabled s e) := by
  cases e <;> (dsimp only [enabled]; infer_instance)

/-- the record of `c` after `free_dead` found it `m` times in the reaper queue -/
def Conn.freed (k : Conn) (m : Nat) : Conn :=
  if m = 0 then k else { k with handleLive := false, handleFreedCount := k.handleFreedCount + m }

/-- the oldest pending request moves to `answered` -/
def Conn.answerOldest (k : Conn) : Conn :=
  { k with pending := k.pending.tail, answered := k.answered ++ k.pending.take 1 }

/-- Effect of each step (only meaningful when `enabled`). -/
def apply (s : State) : Event → State
  | .cSend c =>
      let k := s.conn c
      { s with conn := upd s.conn c { k with sent := k.sent ++ [s.nextReq], pending := k.pending ++ [s.nextReq] }
               nextReq := s.nextReq + 1 }
  | .cClose c => { s with conn := upd s.conn c { s.conn c with peerClosed := true } }
  | .batchStart evs => { s with mode := .batch, rest := evs }
  /- line 179: `read` resets the eventfd counter; the event is finished. -/
  | .drainWake => { s with wakePending := false, rest := s.rest.tail }
  /- line 184: `true` → the `&&` short-circuits, the event is finished. -/
  | .loadClosed c v => if v then { s with rest := s.rest.tail } else { s with mode := .loaded c }
  /- line 185: success sets `in_flight`; failure: the event is finished. -/
  | .cas c ok =>
      if ok then { s with mode := .won c, conn := upd s.conn c { s.conn c with inFlight := true } }
      else { s with mode := .batch, rest := s.rest.tail }
  /- line 190: the job is appended to the channel; the event is finished. -/
  | .execute c =>
      { s with mode := .batch, rest := s.rest.tail, jobs := s.jobs ++ [c]
               conn := upd s.conn c { s.conn c with phase := .jobQueued } }
  /- line 196: `take` the queue and free every element (once PER OCCURRENCE in the queue). -/
  | .batchEnd =>
      { s with mode := .waiting, rest := [], reaper := []
               conn := fun k => (s.conn k).freed (s.reaper.count k) }
  /- lines 136–147 -/
  | .acceptConn c =>
      { s with mode := .acc1 c, next := s.next + 1
               conn := upd s.conn c { s.conn c with accepted := true, streamLive := true } }
  /- lines 149–158: `in_flight: false`, `closed: false` -/
  | .boxHandle c =>
      { s with mode := .acc2 c
               conn := upd s.conn c { s.conn c with boxed := true, handleLive := true, inFlight := false
                                                    closedFlag := false } }
  /- line 164 returned 0: registered; back to `listener.accept()` (the listener event is still the head) -/
  | .addOk c => { s with mode := .batch, conn := upd s.conn c { s.conn c with registered := true } }
  | .addFail c => { s with mode := .accF1 c, conn := upd s.conn c { s.conn c with addFailed := true } }
  /- line 168 -/
  | .failFreeHandle c =>
      let k := s.conn c
      { s with mode := .accF2 c
               conn := upd s.conn c { k with handleLive := false, handleFreedCount := k.handleFreedCount + 1 } }
  /- lines 169–174; back to `listener.accept()` -/
  | .failTeardown c =>
      let k := s.conn c
      { s with mode := .batch
               conn := upd s.conn c { k with streamLive := false, streamClosedCount := k.streamClosedCount + 1
                                             teardownCount := k.teardownCount + 1, ended := true } }
  | .acceptDone => { s with rest := s.rest.tail }
  /- line 141: `return Ok(())`: the loop is gone (its `events` buffer with it); the pool's `Drop` lets the
     workers finish the queued jobs, so worker steps stay possible. -/
  | .stopAccepting => { s with mode := .stopped, rest := [] }
  | .take w c =>
      { s with jobs := s.jobs.tail, worker := upd s.worker w (some c)
               conn := upd s.conn c { s.conn c with phase := .handling, owner := w } }
  | .handleKeep _ c => { s with conn := upd s.conn c { (s.conn c).answerOldest with phase := .keep } }
  | .handleClose _ c ans =>
      let k := if ans then (s.conn c).answerOldest else s.conn c
      { s with conn := upd s.conn c { k with phase := .closing } }
  /- line 48–49: re-arm; `run` returns, the worker is idle again -/
  | .storeInFlight w c =>
      { s with worker := upd s.worker w none
               conn := upd s.conn c { s.conn c with inFlight := false, phase := .idle } }
  | .del _ c => { s with conn := upd s.conn c { s.conn c with registered := false, phase := .deleted } }
  | .dropStream _ c =>
      let k := s.conn c
      { s with conn := upd s.conn c { k with streamLive := false, streamClosedCount := k.streamClosedCount + 1
                                             teardownCount := k.teardownCount + 1, phase := .streamDropped } }
  | .setClosed _ c => { s with conn := upd s.conn c { s.conn c with closedFlag := true, phase := .closedSet } }
  | .push _ c => { s with reaper := s.reaper ++ [c], conn := upd s.conn c { s.conn c with phase := .pushed } }
  /- line 67–68: eventfd written; `run` returns -/
  | .wake w c =>
      { s with wakePending := true, worker := upd s.worker w none
               conn := upd s.conn c { s.conn c with phase := .idle, ended := true } }

/-- Executable step function (used to replay recorded traces of the real server). -/
def step? (s : State) (e : Event) : Option State :=
  if enabled s e then some (apply s e) else none

/-- Labelled step relation. -/
def StepE (s : State) (e : Event) (t : State) : Prop := enabled s e ∧ t = apply s e

/-- Unlabelled step relation: all interleavings of loop, workers and clients are the paths of this relation. -/
def Step (s t : State) : Prop := ∃ e, StepE s e t

theorem step?_eq_some {s t : State} {e : Event} : step? s e = some t ↔ StepE s e t := by
  unfold step? StepE
  by_cases h : enabled s e <;> simp [h, eq_comm]

/-- Reachable states: reflexive-transitive closure of `Step` from `init n`, any `n ≥ 1`
    (`ThreadPool::new` asserts `size > 0`). -/
inductive Reachable : State → Prop
  | init (n : Nat) (h : 1 ≤ n) : Reachable (init n)
  | step {s t : State} : Reachable s → Step s t → Reachable t

/-- Replay of a list of events; `none` as soon as one event is not enabled. -/
def replay? (s : State) : List Event → Option State
  | [] => some s
  | e :: es => match step? s e with
    | some t => replay? t es
    | none => none

inductive Steps : State → State → Prop
  | refl (s : State) : Steps s s
  | tail {s t u : State} : Steps s t → Step t u → Steps s u

theorem Steps.trans {s t u : State} (h1 : Steps s t) (h2 : Steps t u) : Steps s u := by
  induction h2 with
  | refl => exact h1
  | tail _ st ih => exact .tail ih st

theorem Reachable.steps {s t : State} (h : Reachable s) (h2 : Steps s t) : Reachable t := by
  induction h2 with
  | refl => exact h
  | tail _ st ih => exact .step ih st

theorem replay?_steps {s t : State} {es : List Event} (h : replay? s es = some t) : Steps s t := by
  induction es generalizing s with
  | nil => simp [replay?] at h; subst h; exact .refl _
  | cons e es ih =>
    simp only [replay?] at h
    split at h
    · rename_i u hu
      have : Step s u := ⟨e, step?_eq_some.mp hu⟩
      exact Steps.trans (.tail (.refl _) this) (ih h)
    · simp at h

theorem replay?_append {s : State} {es fs : List Event} :
    replay? s (es ++ fs) = (replay? s es).bind fun t => replay? t fs := by
  induction es generalizing s with
  | nil => simp [replay?]
  | cons e es ih =>
    simp only [List.cons_append, replay?]
    cases step? s e with
    | none => simp
    | some t => exact ih

/-! ## Derived observations -/

/-- number of workers `w < n` that are running a job of connection `c` -/
def workersOnBelow (f : Nat → Option Nat) (c : Nat) : Nat → Nat
  | 0 => 0
  | n + 1 => workersOnBelow f c n + (if f n = some c then 1 else 0)

def State.workersOn (s : State) (c : Nat) : Nat := workersOnBelow s.worker c s.nWorkers

/-- number of queued jobs of connection `c` -/
def State.jobsFor (s : State) (c : Nat) : Nat := s.jobs.count c

/-- the loop has won the CAS for `c` and not yet submitted the job (0 or 1) -/
def State.inHand (s : State) (c : Nat) : Nat := if s.mode = .won c then 1 else 0

/-- `c` is the connection the loop thread is setting up (between `accept` and the end of the `ADD` branch) -/
def State.inSetup (s : State) (c : Nat) : Bool :=
  s.mode = .acc1 c || s.mode = .acc2 c || s.mode = .accF1 c || s.mode = .accF2 c

/-- worker `w` sits in the blocking `read` of `handle_one_request` on a connection with nothing to read -/
def State.blocked (s : State) (w : Nat) : Bool :=
  match s.worker w with
  | some c => (s.conn c).phase = .handling && !(s.conn c).readable
  | none => false

/-- events of the environment -/
def Event.isClient : Event → Bool
  | .cSend _ | .cClose _ => true
  | _ => false

/-- events of the event-loop thread -/
def Event.isLoop : Event → Bool
  | .batchStart _ | .drainWake | .loadClosed _ _ | .cas _ _ | .execute _ | .batchEnd | .acceptConn _
  | .boxHandle _ | .addOk _ | .addFail _ | .failFreeHandle _ | .failTeardown _ | .acceptDone
  | .stopAccepting => true
  | _ => false

/-- the worker executing the event -/
def Event.workerOf : Event → Option Nat
  | .take w _ | .handleKeep w _ | .handleClose w _ _ | .storeInFlight w _ | .del w _ | .dropStream w _
  | .setClosed w _ | .push w _ | .wake w _ => some w
  | _ => none

end Khttp.Epoll
