/-
  Model of `ResponseHandle` (src/server/mod.rs): the per-connection handle through which handlers and
  pre-routing hooks answer, with its sticky `keep_alive` flag.  Each sending method first records a
  `connection: close` announced by the response headers (`headers.is_connection_close()`), then hands the
  message to one printer entry point; `ok*` delegate to `send*`; the interim responses (100, 417) never
  touch the flag.  The control skeleton of every method is extracted from the source on every run
  (`Gen.handle*`, tools/extract_skeleton.py) and compared with `expectedSkeleton` below by `decide`
  (Props/C09Handle.lean).
-/
import Khttp.Model.Headers
namespace Khttp.Handle
open Khttp

/-- the public sending methods of `ResponseHandle` -/
inductive Method where
  | ok | send | ok0 | send0 | okr | sendr | continue100 | expectationFailed417
  deriving DecidableEq, Repr

/-- the printer entry point a call ends in -/
inductive Entry where
  | bytes | empty | reader | interim100 | interim417
  deriving DecidableEq, Repr

/-- `ResponseHandle` without the stream: `ResponseHandle::new` starts with `keep_alive: true` -/
structure RH where
  keepAlive : Bool := true
  deriving DecidableEq, Repr

def new : RH := {}

/-- `if headers.is_connection_close() { self.keep_alive = false; }` -/
def record (h : RH) (hs : Headers) : RH := if hs.close then { keepAlive := false } else h

/-- one call: the new handle state and the printer entry point reached -/
def call (h : RH) : Method → Headers → RH × Entry
  | .send, hs => (record h hs, .bytes)
  | .ok, hs => (record h hs, .bytes)              -- `self.send(&Status::OK, headers, body)`
  | .send0, hs => (record h hs, .empty)
  | .ok0, hs => (record h hs, .empty)             -- `self.send0(&Status::OK, headers)`
  | .sendr, hs => (record h hs, .reader)
  | .okr, hs => (record h hs, .reader)            -- `self.sendr(&Status::OK, headers, body)`
  | .continue100, _ => (h, .interim100)
  | .expectationFailed417, _ => (h, .interim417)

/-- a final (non-interim) response -/
def Method.final : Method → Bool
  | .continue100 | .expectationFailed417 => false
  | _ => true

/-- the handle after a sequence of calls -/
def run (h : RH) (calls : List (Method × Headers)) : RH := calls.foldl (fun h c => (call h c.1 c.2).1) h

/-- the token sequence the extractor produces for each method of the source as modelled above -/
def expectedSkeleton : List (String × List String) :=
  [("new", ["{", "keep_alive: true", "}"]),
   ("ok", ["-> send"]),
   ("send", ["close?", "{", "keep_alive = false", "}", "print bytes"]),
   ("ok0", ["-> send0"]),
   ("send0", ["close?", "{", "keep_alive = false", "}", "print empty"]),
   ("okr", ["-> sendr"]),
   ("sendr", ["close?", "{", "keep_alive = false", "}", "print reader"]),
   ("send_100_continue", ["print 100"]),
   ("send_417_expectation_failed", ["print 417"])]

end Khttp.Handle
