/-
  Model of src/http/headers.rs: the `Headers` collection with its derived flags.
-/
import Khttp.Model.Basic
namespace Khttp

structure Headers where
  fields : List (Bytes × Bytes) := []
  cl : Option Nat := none
  chunked : Bool := false
  close : Bool := false
  printDate : Bool := true
  invalidCl : Bool := false
  teFinalNotChunked : Bool := false
  deriving Repr, DecidableEq

namespace Headers

def CONTENT_LENGTH : Bytes := str "content-length"
def TRANSFER_ENCODING : Bytes := str "transfer-encoding"
def CONNECTION : Bytes := str "connection"

def new : Headers := {}
def newNodate : Headers := { printDate := false }

/-- `parse_content_length`: `1*DIGIT` with surrounding ASCII whitespace, in range of `u64` -/
def parseContentLength (v : Bytes) : Option Nat :=
  let d := trimAscii v
  if d.isEmpty || !d.all isDigit then none
  else
    let n := d.foldl (fun a b => a * 10 + (b.toNat - 48)) 0
    if n < 2 ^ 64 then some n else none

/-- tokens of a comma-separated list value, each trimmed on both sides -/
def tokens (v : Bytes) : List Bytes := (splitOn COMMA v).map trimAscii

/-- the TE loop of `add`: returns (some token is chunked, last non-empty token is chunked) -/
def teScan (v : Bytes) : Bool × Bool :=
  (tokens v).foldl (fun (acc : Bool × Bool) t =>
    if t.isEmpty then acc
    else
      let c := eqIgnoreCase t (str "chunked")
      (acc.1 || c, c)) (false, false)

def add (h : Headers) (name value : Bytes) : Headers :=
  if eqIgnoreCase name CONTENT_LENGTH then
    let p := parseContentLength value
    { h with
      invalidCl := h.invalidCl || p.isNone || (h.cl.isSome && h.cl != p)
      cl := p }
  else
    let h :=
      if eqIgnoreCase name TRANSFER_ENCODING then
        let (anyC, lastC) := teScan value
        { h with chunked := h.chunked || anyC, teFinalNotChunked := !lastC }
      else if eqIgnoreCase name CONNECTION then
        { h with close := h.close || (tokens value).any (fun t => eqIgnoreCase t (str "close")) }
      else h
    { h with fields := h.fields ++ [(name, value)] }

def remove (h : Headers) (name : Bytes) : Headers :=
  let h :=
    if eqIgnoreCase name CONTENT_LENGTH then { h with cl := none, invalidCl := false }
    else if eqIgnoreCase name TRANSFER_ENCODING then { h with chunked := false, teFinalNotChunked := false }
    else if eqIgnoreCase name CONNECTION then { h with close := false }
    else h
  { h with fields := h.fields.filter (fun kv => !eqIgnoreCase kv.1 name) }

def replace (h : Headers) (name value : Bytes) : Headers := (h.remove name).add name value

def setContentLength (h : Headers) (n : Option Nat) : Headers := { h with cl := n, invalidCl := false }

def setTransferEncodingChunked (h : Headers) : Headers :=
  { h with chunked := true, teFinalNotChunked := false,
           fields := h.fields ++ [(TRANSFER_ENCODING, str "chunked")] }

def setConnectionClose (h : Headers) : Headers :=
  { h with close := true, fields := h.fields ++ [(CONNECTION, str "close")] }

/-- `get`: last field with that name, ignoring case -/
def get (h : Headers) (name : Bytes) : Option Bytes :=
  (h.fields.reverse.find? (fun kv => eqIgnoreCase kv.1 name)).map (·.2)

def getAll (h : Headers) (name : Bytes) : List (Bytes × Bytes) :=
  h.fields.filter (fun kv => eqIgnoreCase kv.1 name)

def hasInvalidFraming (h : Headers) : Bool := h.invalidCl || h.teFinalNotChunked

/-- `Headers::close()`: the static header set of 400 / 431 responses -/
def closeStatic : Headers := newNodate.setConnectionClose

/-- `get_count` -/
def getCount (h : Headers) : Nat := h.fields.length

/-- the inner loop shared by `get_transfer_encoding` / `get_connection_values`:
    comma-split, each element trimmed **at the start only** (`trim_ascii_start`) -/
def startTrimmedElems (v : Bytes) : List Bytes := (splitOn COMMA v).map trimStart

/-- `get_transfer_encoding` -/
def getTransferEncoding (h : Headers) : List Bytes :=
  (h.getAll TRANSFER_ENCODING).flatMap fun kv => startTrimmedElems kv.2

/-- `get_connection_values` -/
def getConnectionValues (h : Headers) : List Bytes :=
  (h.getAll CONNECTION).flatMap fun kv => startTrimmedElems kv.2

/-- `is_100_continue` -/
def is100Continue (h : Headers) : Bool :=
  match h.get (str "expect") with
  | some v => eqIgnoreCase v (str "100-continue")
  | none => false

end Headers

/-- one call of the mutating public interface of `Headers` (the operations C19 quantifies over) -/
inductive HdrOp where
  | add (name value : Bytes)
  | replace (name value : Bytes)
  | remove (name : Bytes)
  /-- `set_content_length(len)`; the Rust argument is `Option<u64>` -/
  | setCl (len : Option Nat)
  | setTeChunked
  | setConnClose
  deriving Repr, DecidableEq

namespace Headers

def applyOp (h : Headers) : HdrOp → Headers
  | .add n v => h.add n v
  | .replace n v => h.replace n v
  | .remove n => h.remove n
  | .setCl n => h.setContentLength n
  | .setTeChunked => h.setTransferEncodingChunked
  | .setConnClose => h.setConnectionClose

/-- the collection after a sequence of calls -/
def run (init : Headers) (ops : List HdrOp) : Headers := ops.foldl applyOp init

end Headers
end Khttp
