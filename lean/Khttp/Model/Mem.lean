/-
  MEMORY MODEL of the STREAMING paths of khttp (property C20: "bodies are streamed with bounded memory").

  Two explicit state machines over LENGTHS ONLY (no byte contents: memory use does not depend on them):

  * `SendState` / `sendStep` — `HttpPrinter::write_response` / `write_request` of src/printer.rs with a body given as a
    reader: `decide_body_strategy` (incl. `Take::read_to_end` for a declared length ≤ PROBE_MAX and `probe_body` for
    an undeclared one), `build_*_head`, `write_vectored_bytes` (Fast), `BufWriter::new` + `write_all(head)`,
    `write_streaming` (= `io::copy(body.take(cl), &mut BufWriter)`), `write_chunk`, `write_chunked`, final drop/flush.
  * `RecvState` / `recvStep` — a server thread of src/server/mod.rs receiving requests: the thread-local
    `REQUEST_BUFFER` (`read_request`), then `BodyReader::from_request` of src/body_reader.rs (`FixedReader` /
    `ChunkedReader` over `BufReader::with_capacity(BUF_SIZE, ..)`, `read_chunk_size`'s `String`, the CRLF after a
    chunk, the trailer loop), a handler reading through its own `callerBuf`-byte buffer (and possibly giving up
    early), and `Drop for BodyReader` (`drain` through a 1024-byte stack buffer).  The machine serves an unbounded
    sequence of requests on the same thread (keep-alive or successive connections): `REQUEST_BUFFER` is sized once.

  The state of each machine contains EVERY buffer that lives on the heap, as a `VecS` (current length and capacity),
  plus the byte counters needed to say that nothing accumulates.  `heapBytes` = sum of the capacities of the heap
  resident buffers; `stackBytes` = the fixed-size arrays (`[MaybeUninit<u8>; 128 * 1024]` of `write_chunked`, the
  copy buffer of `io::copy`, the 32-byte probe of `read_to_end`, `[0u8; 1024]` of `drain`, `[0u8; 2]`) counted apart.

  One STEP = one event: one `read` of the body reader / socket returning a piece, one `Vec::reserve`, one
  `write_all` into the `BufWriter`, one flush, one `read` return, ...  Every step takes a `Choice`: everything the code
  cannot control (`n`: how many bytes the reader / socket returns — ARBITRARY PIECE SCHEDULE, clamped to
  `1 ..= offered` (0 only at end of data); `cap`: which capacity the allocator/`Vec` growth policy picks — clamped to
  the assumed range; `alt`: which of two std behaviours / caller behaviours happens; `req`: the next request).
  "Every state reached" = `foldl step init choices` for EVERY list of choices.

  MODELLED vs ASSUMED vs MEASURED
  * modelled (from the Rust source, constant by constant — thresholds come from `Khttp.Gen`): which buffers exist when,
    what is requested of them (`with_capacity(128)`, `reserve(min(max − len, 1024))`, `Vec::with_capacity(cl)`,
    `head.reserve(body.len())`, `BufReader::with_capacity(BUF_SIZE)`, `resize_with(max_request_head)`, ...), the loop
    structure, the `Take` limit, the order of reads and writes.
  * ASSUMED about `std` / the allocator (`StdCfg`, not proved, stated here):
      - `Vec::with_capacity(n)` / `Box<[u8]>` of `n` bytes use exactly `n` bytes of heap; allocator headers, size-class
        rounding and fragmentation are NOT modelled (they are measured);
      - `Vec::reserve(k)` / `extend_from_slice` / `String` growth: no-op when the spare capacity suffices, otherwise
        the new capacity is SOME value in `[len + k, max(vecMinCap, 2·(len + k))]` (covers exact growth and amortised
        doubling `max(2·cap, len + k, 8)`); the bound is proved for the WORST case of every such choice;
      - `BufWriter::new` allocates `bwCap` = 8192 bytes once; `write_all(b)`: appended if `b.len() <` spare, else
        flush first when it does not fit, then written directly (bypassing the buffer) when `b.len() ≥ capacity`;
        `io::copy` into a `BufWriter` of capacity ≥ 8192 reads straight into its spare capacity (flushing when the
        spare capacity drops under 8192), otherwise goes through an 8192-byte STACK buffer; both are modelled;
      - `write!(w, "{:X}\r\n", n)` on an `io::Write` formats on the stack; it is nevertheless COUNTED AS HEAP here
        (`sizeLine`, ≤ 16 hex digits + CRLF, kept until the chunk data has been written) — a pessimistic choice;
      - `Take::read_to_end` (`default_read_to_end`): reads into the spare capacity; when the vector is full it
        either reads through a 32-byte stack probe (newer std; appends what it got) or `reserve(32)`s (older std);
      - `BufReader::with_capacity(c, _)` allocates `c` bytes once; `read(b)` with an empty buffer and `b.len() ≥ c`
        bypasses it; otherwise at most ONE inner `read` refills it; `read_until` appends to the `String` the part of
        the line found in the buffer; `read_exact`/`read_line` allocate nothing else;
      - thread-local `REQUEST_BUFFER` is allocated once per thread (counted from the start);
      - `io::Error::new(kind, &str)` allocates a small box: ERROR PATHS ARE OUT OF SCOPE (well-formed messages).
  * NOT modelled: the parsed `Headers` of the request / response (a vector of references into the head, bounded by
    the head length, hence by `max_request_head`; independent of the body), the reader / writer objects
    themselves (sockets, the caller's reader), what a handler does with the bytes it has read.
  * MEASURED by the harness (domain MEM, counting allocator): peak live heap ≤ ~140 KiB for bodies from 1 KiB to
    64 MiB in every direction / framing.  The numbers printed by the driver (`Khttp/Driver/Mem.lean`) are the
    model's, to be compared with the measured ones.

  No Mathlib; linked into `kmodel`.
-/
import Khttp.Model.Printer
import Khttp.Gen.Consts
namespace Khttp.Mem
open Khttp

-- ------------------------------------------------------------------------------------------------ vectors

/-- a heap buffer: only its length and capacity matter -/
structure VecS where
  len : Nat := 0
  cap : Nat := 0
  deriving Repr, DecidableEq, Inhabited

/-- `x` forced into `[lo, hi]` (for `lo ≤ hi`) -/
def clamp (x lo hi : Nat) : Nat := max lo (min x hi)

/-- how many bytes a `read` offered `limit` bytes returns when the environment proposes `c`:
    at least 1 (a reader returns 0 only at end of data / for an empty buffer), at most `limit` -/
def piece (c limit : Nat) : Nat := min limit (max 1 c)

/-- what is assumed about `std` (see the file header) -/
structure StdCfg where
  /-- `RawVec::MIN_NON_ZERO_CAP` for 1-byte elements -/
  vecMinCap : Nat := 8
  /-- `BufWriter::new`: `DEFAULT_BUF_SIZE` -/
  bwCap : Nat := 8192
  /-- `io::copy`: `DEFAULT_BUF_SIZE` -/
  copyBuf : Nat := 8192
  /-- `default_read_to_end`: `PROBE_SIZE` -/
  rtProbe : Nat := 32
  deriving Repr

/-- capacity chosen when a vector must hold `need` bytes and does not: any value in
    `[need, max(vecMinCap, 2·need)]` -/
def growCap (std : StdCfg) (need choice : Nat) : Nat := clamp choice need (max std.vecMinCap (2 * need))

/-- `Vec::reserve(k)` -/
def VecS.reserve (v : VecS) (std : StdCfg) (k choice : Nat) : VecS :=
  if v.len + k ≤ v.cap then v else { v with cap := growCap std (v.len + k) choice }

/-- `Vec::extend_from_slice` of `k` bytes -/
def VecS.extend (v : VecS) (std : StdCfg) (k choice : Nat) : VecS :=
  let v' := v.reserve std k choice
  { v' with len := v'.len + k }

/-- length of `{:X}` of `n` (by definition the length of the printer model's rendering) -/
def hexLen (n : Nat) : Nat := (Printer.hexUpper n).length

/-- 16 hex digits (a `usize`) + CRLF -/
def sizeLineMax : Nat := 18

/-- what the environment decides at a step -/
structure Choice where
  /-- bytes returned by the `read` of this step (clamped by `piece`) -/
  n : Nat := 0
  /-- capacity picked by a growing vector (clamped by `growCap`) -/
  cap : Nat := 0
  /-- which alternative (std variant / caller decision) -/
  alt : Bool := false
  deriving Repr, Inhabited

-- ================================================================================================ SENDING

inductive Framing where
  /-- `content-length: cl` given by the caller -/
  | declared (cl : Nat)
  /-- `transfer-encoding: chunked` given by the caller -/
  | chunked
  /-- neither: `probe_body`, then Fast or AutoChunked -/
  | auto
  deriving Repr, DecidableEq, Inhabited

/-- the four cases of the property's quantifier -/
inductive FClass where
  | fastDeclared   -- declared length ≤ PROBE_MAX: the documented "Fast" case, the whole body is collected
  | streaming      -- declared length > PROBE_MAX
  | chunked
  | auto
  deriving Repr, DecidableEq, Inhabited

def Framing.cls (t : Printer.Thresholds) : Framing → FClass
  | .declared cl => if cl ≤ t.probeMax then .fastDeclared else .streaming
  | .chunked => .chunked
  | .auto => .auto

structure SendCfg where
  t : Printer.Thresholds
  std : StdCfg := {}
  deriving Repr

def SendCfg.gen : SendCfg := { t := Printer.Thresholds.gen }
/-- the configuration of the concrete examples (see `Printer.Thresholds.frozen`) -/
def SendCfg.frozen : SendCfg := { t := Printer.Thresholds.frozen }

/-- one call of `write_response` / `write_request` -/
structure SendInput where
  framing : Framing
  /-- length of the complete head text (status/request line, headers, date, framing header, blank line) -/
  headLen : Nat
  /-- the BODY LENGTH: number of bytes the reader yields before end of data -/
  srcLen : Nat
  deriving Repr, Inhabited

/-- `BodyStrategy` (without payloads) -/
inductive Strat where
  | undecided | fast | streaming | chunked | auto
  deriving Repr, DecidableEq, Inhabited

inductive SPc where
  | start        -- `decide_body_strategy`
  | fastRead     -- `body.take(cl).read_to_end(&mut buf)`
  | probe        -- `probe_body`: loop test + `reserve`
  | probeRead    -- `probe_body`: the `read`
  | headAlloc    -- `Vec::with_capacity(RESPONSE_HEAD_BUF_INIT_CAP)`
  | headBuild    -- `extend_from_slice`s of the head text
  | fastInline   -- `write_vectored_bytes`: `head.reserve(body.len()); head.extend_from_slice(body)`
  | fastEmit     -- `write_all(&head)` / `write_vectored`
  | openBw       -- `BufWriter::new(writer); bw.write_all(&head)`
  | preSize      -- `write_chunk(&mut bw, &prefix)`: size line
  | preData      --                                  data
  | preCrlf      --                                  CRLF
  | copy         -- `io::copy` through the spare capacity of the `BufWriter`
  | copyStack    -- `io::copy` through a stack buffer (`BufWriter` smaller than 8 KiB)
  | copyCheck    -- `if copied < cl`
  | chunkRead    -- `write_chunked`: `body.read(&mut buf[..128 KiB])`
  | chunkSize    -- `write_chunk`: `write!(writer, "{:X}\r\n", n)`
  | chunkData    --               `write_all(bytes)`
  | chunkCrlf    --               `write_all(CRLF)`
  | chunkTerm    -- `write_all(b"0\r\n\r\n")`
  | finish       -- return: the `BufWriter` is dropped (flush), `head`, `prefix` are freed
  | done
  | failed       -- `Err(body_shorter_than_declared())`
  deriving Repr, DecidableEq, Inhabited

/-- `collPending = coll.len` holds at these locations (the collected bytes have not been passed on yet) -/
def SPc.beforePre : SPc → Bool
  | .start | .fastRead | .probe | .probeRead | .headAlloc | .headBuild | .fastInline | .fastEmit
  | .openBw | .preSize | .preData => true
  | _ => false

structure SendState where
  pc : SPc := .start
  strat : Strat := .undecided
  /-- bytes the body reader has not yielded yet -/
  src : Nat := 0
  /-- `Take::limit` -/
  takeLeft : Nat := 0
  /-- `buf` (Fast, declared) / `collected` (`probe_body`) / `prefix` (AutoChunked) -/
  coll : VecS := {}
  /-- body bytes held in `coll` that have not been handed to a writer -/
  collPending : Nat := 0
  /-- `head` -/
  head : VecS := {}
  /-- `BufWriter::buf` -/
  bw : VecS := {}
  /-- how many of the `bw.len` buffered bytes are BODY bytes -/
  bwBody : Nat := 0
  /-- the formatted chunk-size line (counted as heap, see header) -/
  sizeLine : Nat := 0
  /-- body bytes sitting in the stack chunk buffer / stack copy buffer -/
  chunkN : Nat := 0
  /-- body bytes obtained from the reader so far -/
  readTotal : Nat := 0
  /-- body bytes delivered to the underlying writer so far -/
  emitBody : Nat := 0
  /-- all bytes delivered to the underlying writer so far (head, framing, body) -/
  emitTotal : Nat := 0
  /-- body bytes thrown away on the error path `body shorter than declared` -/
  dropped : Nat := 0
  deriving Repr, Inhabited

def sendInit (inp : SendInput) : SendState := { src := inp.srcLen }

/-- THE MEASURE: bytes of heap held by the sending path -/
def SendState.heapBytes (s : SendState) : Nat := s.head.cap + s.coll.cap + s.bw.cap + s.sizeLine

/-- body bytes held in some buffer (heap or stack) -/
def SendState.bufferedBody (s : SendState) : Nat := s.collPending + s.chunkN + s.bwBody

/-- fixed-size arrays on the stack -/
def SendState.stackBytes (cfg : SendCfg) (s : SendState) : Nat :=
  match s.pc with
  | .chunkRead | .chunkSize | .chunkData | .chunkCrlf | .chunkTerm => cfg.t.chunkBufSize
  | .copyStack => cfg.std.copyBuf
  | .fastRead => cfg.std.rtProbe
  | .headBuild => 20          -- `num_buf` of `add_content_length_header`
  | _ => 0

/-- `BufWriter::flush_buf` -/
def flushBw (s : SendState) : SendState :=
  { s with emitTotal := s.emitTotal + s.bw.len, emitBody := s.emitBody + s.bwBody,
           bw := { s.bw with len := 0 }, bwBody := 0 }

/-- `BufWriter::write_all(b)` with `b.len() = k`; `kb` of these bytes are body bytes (`kb = k` or `0`) -/
def bwWrite (s : SendState) (k kb : Nat) : SendState :=
  if k < s.bw.cap - s.bw.len then
    { s with bw := { s.bw with len := s.bw.len + k }, bwBody := s.bwBody + kb }
  else
    -- `write_all_cold`
    let s := if k > s.bw.cap - s.bw.len then flushBw s else s
    if k ≥ s.bw.cap then
      { s with emitTotal := s.emitTotal + k, emitBody := s.emitBody + kb }    -- straight to the inner writer
    else
      { s with bw := { s.bw with len := s.bw.len + k }, bwBody := s.bwBody + kb }

/-- end of `read_to_end` on the Fast (declared) path: `if (buf.len() as u64) < cl { return Err(..) }`.
    (`buf.len() + limit = cl`, so `buf.len() < cl` iff the `Take` limit is not exhausted.) -/
def fastReadEnd (s : SendState) : SendState :=
  if s.takeLeft ≠ 0 then
    { s with pc := .failed, coll := {}, collPending := 0, dropped := s.dropped + s.collPending }
  else { s with pc := .headAlloc, strat := .fast }

def readIntoColl (s : SendState) (std : StdCfg) (n : Nat) (cap : Nat) : SendState :=
  { s with coll := s.coll.extend std n cap, collPending := s.collPending + n,
           takeLeft := s.takeLeft - n, src := s.src - n, readTotal := s.readTotal + n }

def sendStep (cfg : SendCfg) (inp : SendInput) (s : SendState) (c : Choice) : SendState :=
  let t := cfg.t
  let std := cfg.std
  match s.pc with
  | .start =>
    match inp.framing with
    | .chunked => { s with pc := .headAlloc, strat := .chunked }
    | .declared cl =>
      if cl ≤ t.probeMax then
        -- `Vec::with_capacity(cl as usize)`; `body.by_ref().take(cl)`
        { s with pc := .fastRead, coll := { len := 0, cap := cl }, takeLeft := cl }
      else { s with pc := .headAlloc, strat := .streaming, takeLeft := cl }
    | .auto => { s with pc := .probe, coll := { len := 0, cap := t.probeInitCap } }
  | .fastRead =>
    let lim := min s.takeLeft s.src              -- `Take::read`: capped by the limit; the reader has `src` bytes
    if s.coll.len = s.coll.cap then
      if c.alt then
        -- `small_probe_read`: through a 32-byte stack buffer, then `extend_from_slice`
        let n := piece c.n (min std.rtProbe lim)
        if n = 0 then fastReadEnd s else readIntoColl s std n c.cap
      else
        { s with coll := s.coll.reserve std std.rtProbe c.cap }
    else
      let n := piece c.n (min (s.coll.cap - s.coll.len) lim)
      if n = 0 then fastReadEnd s else readIntoColl s std n c.cap
  | .probe =>
    if t.probeMax ≤ s.coll.len then { s with pc := .headAlloc, strat := .auto }   -- `Ok((collected, false))`
    else if s.coll.cap - s.coll.len = 0 then
      let need := min (t.probeMax - s.coll.len) t.probeStep
      { s with pc := .probeRead, coll := s.coll.reserve std need c.cap }
    else { s with pc := .probeRead }
  | .probeRead =>
    let toRead := min (t.probeMax - s.coll.len) (s.coll.cap - s.coll.len)
    let n := piece c.n (min toRead s.src)
    if n = 0 then { s with pc := .headAlloc, strat := .fast }                      -- `Ok((collected, true))`
    else
      { s with pc := .probe, coll := { s.coll with len := s.coll.len + n }, collPending := s.collPending + n,
               src := s.src - n, readTotal := s.readTotal + n }
  | .headAlloc => { s with pc := .headBuild, head := { len := 0, cap := t.headInitCap } }
  | .headBuild =>
    if inp.headLen ≤ s.head.len then
      match s.strat with
      | .fast => if s.coll.len < t.inlineCopyMax then { s with pc := .fastInline } else { s with pc := .fastEmit }
      | .undecided => { s with pc := .failed }        -- (unreachable)
      | _ => { s with pc := .openBw }
    else
      { s with head := s.head.extend std (piece c.n (inp.headLen - s.head.len)) c.cap }
  | .fastInline => { s with pc := .fastEmit, head := s.head.extend std s.coll.len c.cap }
  | .fastEmit =>
    -- head and body go to the writer (one `write_all`, or `write_vectored` + `write_all`s); everything is freed
    { s with pc := .done, emitTotal := s.emitTotal + inp.headLen + s.coll.len, emitBody := s.emitBody + s.collPending,
             collPending := 0, coll := {}, head := {} }
  | .openBw =>
    let s' := bwWrite { s with bw := { len := 0, cap := std.bwCap } } inp.headLen 0
    match s.strat with
    | .streaming => { s' with pc := if std.copyBuf ≤ std.bwCap then .copy else .copyStack }
    | .chunked => { s' with pc := .chunkRead }
    | .auto => { s' with pc := .preSize }
    | _ => { s with pc := .failed }                   -- (unreachable)
  | .preSize =>
    let s := { s with sizeLine := hexLen s.coll.len + 2 }
    let s := bwWrite s (hexLen s.coll.len) 0
    let s := bwWrite s 2 0
    { s with pc := .preData }
  | .preData =>
    let s := bwWrite s s.coll.len s.coll.len
    { s with pc := .preCrlf, collPending := 0, sizeLine := 0 }
  | .preCrlf => { bwWrite s 2 0 with pc := .chunkRead }
  | .copy =>
    if std.copyBuf ≤ s.bw.cap - s.bw.len then
      let n := piece c.n (min (s.bw.cap - s.bw.len) (min s.takeLeft s.src))
      if n = 0 then { s with pc := .copyCheck }
      else
        { s with bw := { s.bw with len := s.bw.len + n }, bwBody := s.bwBody + n, takeLeft := s.takeLeft - n,
                 src := s.src - n, readTotal := s.readTotal + n }
    else flushBw s
  | .copyStack =>
    if s.chunkN = 0 then
      let n := piece c.n (min std.copyBuf (min s.takeLeft s.src))
      if n = 0 then { s with pc := .copyCheck }
      else { s with chunkN := n, takeLeft := s.takeLeft - n, src := s.src - n, readTotal := s.readTotal + n }
    else
      { bwWrite s s.chunkN s.chunkN with chunkN := 0 }
  | .copyCheck =>
    -- `copied < cl` iff the limit is not exhausted; either way the function returns and the `BufWriter` is dropped
    { s with pc := .finish }
  | .chunkRead =>
    let n := piece c.n (min t.chunkBufSize s.src)
    if n = 0 then { s with pc := .chunkTerm }
    else { s with pc := .chunkSize, chunkN := n, src := s.src - n, readTotal := s.readTotal + n }
  | .chunkSize =>
    let s := { s with sizeLine := hexLen s.chunkN + 2 }
    let s := bwWrite s (hexLen s.chunkN) 0
    let s := bwWrite s 2 0
    { s with pc := .chunkData }
  | .chunkData => { bwWrite s s.chunkN s.chunkN with pc := .chunkCrlf, chunkN := 0, sizeLine := 0 }
  | .chunkCrlf => { bwWrite s 2 0 with pc := .chunkRead }
  | .chunkTerm => { bwWrite s 5 0 with pc := .finish }
  | .finish =>
    let s := flushBw s
    { s with pc := if s.strat = .streaming ∧ s.takeLeft ≠ 0 then .failed else .done,
             bw := {}, head := {}, coll := {} }
  | .done => s
  | .failed => s

/-- the state after the environment's choices `cs` -/
def sendRun (cfg : SendCfg) (inp : SendInput) (cs : List Choice) : SendState :=
  cs.foldl (sendStep cfg inp) (sendInit inp)

-- ------------------------------------------------------------------------------------------------ the bound (sending)

/-- worst-case capacity of `head` when only the head text goes into it -/
def headCapPlain (cfg : SendCfg) (headLen : Nat) : Nat :=
  max cfg.t.headInitCap (max cfg.std.vecMinCap (2 * headLen))

/-- ... and when a body shorter than `INLINE_COPY_MAX` is appended to it (`write_vectored_bytes`) -/
def headCapFast (cfg : SendCfg) (headLen : Nat) : Nat :=
  max cfg.t.headInitCap (max cfg.std.vecMinCap (2 * (headLen + cfg.t.inlineCopyMax)))

/-- worst-case capacity of the collected body / prefix: a function of `PROBE_MAX` only -/
def collCapB (cfg : SendCfg) : FClass → Nat
  | .fastDeclared => max cfg.std.vecMinCap (2 * (cfg.t.probeMax + cfg.std.rtProbe))
  | .auto => max cfg.t.probeInitCap (max cfg.std.vecMinCap (2 * cfg.t.probeMax))
  | _ => 0

/-- THE BOUND for sending: a closed expression in the thresholds, the std constants and the HEAD length.
    The body length does not occur. -/
def Ksend (cfg : SendCfg) (cls : FClass) (headLen : Nat) : Nat :=
  match cls with
  | .fastDeclared => headCapFast cfg headLen + collCapB cfg .fastDeclared
  | .streaming => headCapPlain cfg headLen + cfg.std.bwCap
  | .chunked => headCapPlain cfg headLen + cfg.std.bwCap + sizeLineMax
  | .auto => max (headCapFast cfg headLen + collCapB cfg .auto)
                 (headCapPlain cfg headLen + collCapB cfg .auto + cfg.std.bwCap + sizeLineMax)

/-- bound valid for every framing -/
def KsendAny (cfg : SendCfg) (headLen : Nat) : Nat :=
  headCapFast cfg headLen + max (collCapB cfg .fastDeclared) (collCapB cfg .auto) + cfg.std.bwCap + sizeLineMax

/-- bound on the body bytes held in buffers (heap or stack) at any time while streaming -/
def KsendBuffered (cfg : SendCfg) : Nat :=
  cfg.t.probeMax + max cfg.t.chunkBufSize cfg.std.copyBuf + cfg.std.bwCap

def KsendStack (cfg : SendCfg) : Nat := max cfg.t.chunkBufSize (max cfg.std.copyBuf (max cfg.std.rtProbe 20))

-- ================================================================================================ RECEIVING

/-- a run of `count` chunks, each announced by a size line of `lineLen` bytes (hex digits, extension, CRLF) and
    carrying `dataLen` bytes; `dataLen = 0` is the last-chunk -/
structure ChunkRun where
  count : Nat
  lineLen : Nat
  dataLen : Nat
  deriving Repr, DecidableEq, Inhabited

inductive RFraming where
  | fixed (cl : Nat)
  /-- the chunk-size lines in order of arrival, then the lengths of the trailer lines (the blank line that ends the
      message, 2 bytes, is implicit) -/
  | chunked (chunks : List ChunkRun) (trailers : List Nat)
  | none
  deriving Repr, Inhabited

/-- one request as the receiving thread sees it -/
structure ReqShape where
  /-- length of the request head -/
  headLen : Nat := 0
  framing : RFraming := .none
  /-- bytes that arrive on the connection before it goes silent (head + body for a well-formed request; more when
      requests are pipelined; fewer when the peer stops early) -/
  wire : Nat := 0
  deriving Repr, Inhabited

/-- every size / extension / trailer line is at most `L` bytes long -/
def ReqShape.LinesLe (r : ReqShape) (L : Nat) : Prop :=
  match r.framing with
  | .chunked chunks trailers => (∀ x ∈ chunks, x.lineLen ≤ L) ∧ (∀ x ∈ trailers, x ≤ L)
  | _ => True

instance (r : ReqShape) (L : Nat) : Decidable (r.LinesLe L) := by
  unfold ReqShape.LinesLe; split <;> exact inferInstance

structure RecvCfg where
  /-- `config.max_request_head` -/
  maxHead : Nat
  /-- `DEFAULT_REQUEST_BUFFER_SIZE` -/
  defaultReqBuf : Nat
  /-- `BUF_SIZE` of body_reader.rs -/
  bodyBufSize : Nat
  /-- size of the buffer the handler reads the body through -/
  callerBuf : Nat
  /-- `L`: the longest chunk-size / trailer line of the messages considered (at least 2: the blank line) -/
  lineMax : Nat
  /-- `[0u8; 1024]` of `drain` -/
  drainBuf : Nat := 1024
  std : StdCfg := {}
  deriving Repr

def RecvCfg.gen (callerBuf lineMax : Nat) : RecvCfg :=
  { maxHead := Gen.defaultMaxHead, defaultReqBuf := Gen.defaultReqBuf, bodyBufSize := Gen.bodyBufSize,
    callerBuf := callerBuf, lineMax := lineMax }

/-- the configuration of the concrete examples: the defaults at the time they were written -/
def RecvCfg.frozen (callerBuf lineMax : Nat) : RecvCfg :=
  { maxHead := 4096, defaultReqBuf := 4096, bodyBufSize := 4096, callerBuf := callerBuf, lineMax := lineMax }

structure RChoice extends Choice where
  /-- the request that arrives next (used at `idle`) -/
  req : ReqShape := {}
  deriving Repr, Inhabited

inductive RKind where | fixed | chunked | empty
  deriving Repr, DecidableEq, Inhabited

/-- `ChunkState` -/
inductive CState where | size | data | crlf | trailer | done
  deriving Repr, DecidableEq, Inhabited

inductive RPc where
  | idle         -- waiting for a request (`handle_one_request` about to call `read_request`)
  | resize       -- `if vec.len() != max_size { vec.resize_with(..) }`
  | readHead     -- the `loop` of `read_request`
  | mkBody       -- `BodyReader::from_request`; the handler starts (and owns its buffer)
  | call         -- the handler (or `drain`) is about to call `body.read(buf)`
  | fixedRead    -- `FixedReader::read`
  | cAdvance     -- `ChunkedReader::advance`: `match self.state`
  | cSizeLine    -- `read_chunk_size`: `read_line`
  | cData        -- `ChunkedReader::read`: body of the `while`
  | cCrlf        -- `read_exact(&mut [0u8; 2])`
  | cTrailer     -- the trailer loop
  | ret          -- `read` returns `Ok(written)`
  | dropBody     -- `Drop for BodyReader` done: the reader and its buffer are freed
  deriving Repr, DecidableEq, Inhabited

structure RecvState where
  pc : RPc := .idle
  req : ReqShape := {}
  /-- thread-local `REQUEST_BUFFER` -/
  reqBuf : VecS := {}
  /-- `filled` of `read_request` -/
  filled : Nat := 0
  /-- bytes that have not been taken from (leftover ++ socket) yet -/
  sock : Nat := 0
  /-- `BufReader`: `cap` = its buffer, `len` = bytes buffered and not consumed -/
  br : VecS := {}
  kind : RKind := .empty
  cstate : CState := .size
  /-- `remaining` / `remaining_in_chunk` -/
  rem : Nat := 0
  /-- `Take::limit` (Fixed) -/
  takeLeft : Nat := 0
  chunks : List ChunkRun := []
  trailers : List Nat := []
  /-- the `String` of `read_chunk_size` / of the trailer loop -/
  line : VecS := {}
  /-- bytes of the current line not consumed yet -/
  lineLeft : Nat := 0
  /-- chunk size announced by the current size line -/
  lineChunk : Nat := 0
  /-- the current trailer-section line is the final blank line -/
  blank : Bool := false
  crlfLeft : Nat := 0
  /-- the handler's own buffer (heap) while the handler runs -/
  callerCap : Nat := 0
  /-- the handler is gone, `drain` reads on -/
  draining : Bool := false
  /-- room left in the buffer given to the current `read` call / bytes put there so far -/
  outLeft : Nat := 0
  written : Nat := 0
  /-- body-wire bytes taken from the connection / decoded body bytes handed out / framing bytes consumed -/
  fetched : Nat := 0
  delivered : Nat := 0
  overhead : Nat := 0
  /-- bytes still in the `BufReader` when it was dropped (over-read or unread after an error) -/
  discarded : Nat := 0
  bodyFailed : Bool := false
  deriving Repr, Inhabited

/-- a fresh thread: `REQUEST_BUFFER` = `Vec::with_capacity(DEFAULT_REQUEST_BUFFER_SIZE)` -/
def recvInit (cfg : RecvCfg) : RecvState := { reqBuf := { len := 0, cap := cfg.defaultReqBuf } }

/-- THE MEASURE: bytes of heap held by the receiving path (`callerCap` is the handler's own buffer) -/
def RecvState.heapBytes (s : RecvState) : Nat := s.reqBuf.cap + s.br.cap + s.line.cap + s.callerCap

/-- the part of it that belongs to khttp -/
def RecvState.libHeapBytes (s : RecvState) : Nat := s.reqBuf.cap + s.br.cap + s.line.cap

/-- the part allocated per request (what a measurement taken on a warmed-up thread, with a handler whose buffer is
    on the stack, sees): the `BufReader` and the line `String` -/
def RecvState.transferHeapBytes (s : RecvState) : Nat := s.br.cap + s.line.cap

def RecvState.stackBytes (cfg : RecvCfg) (s : RecvState) : Nat :=
  (if s.draining then cfg.drainBuf else 0) + (if s.pc = .cCrlf then 2 else 0)

/-- `Err(..)` out of `read`: the handler fails, `drain` stops at the first error -/
def recvFail (s : RecvState) : RecvState := { s with pc := .dropBody, bodyFailed := true }

/-- `BufReader::fill_buf` on an empty buffer: ONE inner `read` of at most `lim` bytes -/
def recvFill (s : RecvState) (c : Choice) (lim : Nat) : RecvState :=
  let m := piece c.n (min s.br.cap lim)
  if m = 0 then recvFail s
  else { s with br := { s.br with len := m }, sock := s.sock - m, takeLeft := s.takeLeft - m, fetched := s.fetched + m }

/-- next line of the trailer section -/
def nextTrailer (s : RecvState) : RecvState :=
  match s.trailers with
  | t :: rest => { s with lineLeft := t, blank := false, trailers := rest }
  | [] => { s with lineLeft := 2, blank := true }

/-- `n` decoded bytes reach the caller's buffer (chunked) -/
def chunkGot (s : RecvState) (n : Nat) : RecvState :=
  let s := { s with rem := s.rem - n, written := s.written + n, outLeft := s.outLeft - n, delivered := s.delivered + n }
  if s.rem = 0 ∨ s.outLeft = 0 then { s with pc := .ret } else { s with pc := .cAdvance }

def recvStep (cfg : RecvCfg) (s : RecvState) (rc : RChoice) : RecvState :=
  let c := rc.toChoice
  let std := cfg.std
  match s.pc with
  | .idle =>
    { s with pc := .resize, req := rc.req, sock := rc.req.wire, filled := 0 }
  | .resize =>
    let v := s.reqBuf
    let v :=
      if v.len = cfg.maxHead then v
      else if cfg.maxHead ≤ v.len then { v with len := cfg.maxHead }                         -- truncate
      else { (v.reserve std (cfg.maxHead - v.len) c.cap) with len := cfg.maxHead }          -- grow, fill with uninit
    { s with pc := .readHead, reqBuf := v }
  | .readHead =>
    if s.filled = cfg.maxHead then { s with pc := .idle }                                    -- 431, connection closed
    else
      let n := piece c.n (min (cfg.maxHead - s.filled) s.sock)
      if n = 0 then { s with pc := .idle }                                                   -- `ReadEof`
      else
        let filled := s.filled + n
        if s.req.headLen ≤ filled then
          -- `Request::parse` succeeds; `&buf[request.buf_offset..]` is the leftover: it is served first by
          -- `StreamWithLeftover` (a slice of REQUEST_BUFFER, no copy) — folded back into `sock`
          { s with pc := .mkBody, filled := filled, sock := s.sock - n + (filled - s.req.headLen) }
        else { s with filled := filled, sock := s.sock - n }                     -- `UnexpectedEof => continue`
  | .mkBody =>
    let s := { s with callerCap := cfg.callerBuf, draining := false, fetched := 0, delivered := 0, overhead := 0,
                      discarded := 0, bodyFailed := false, line := {}, lineLeft := 0, br := {}, pc := .call }
    match s.req.framing with
    | .chunked chunks trailers =>
      { s with kind := .chunked, br := { len := 0, cap := cfg.bodyBufSize }, cstate := .size, rem := 0,
               chunks := chunks, trailers := trailers }
    | .fixed cl =>
      if 0 < cl then
        { s with kind := .fixed, br := { len := 0, cap := cfg.bodyBufSize }, rem := cl, takeLeft := cl }
      else { s with kind := .empty }
    | .none => { s with kind := .empty }
  | .call =>
    if !s.draining && c.alt then
      -- the handler returns without reading on: its buffer goes away, `Drop` → `drain`
      { s with draining := true, callerCap := 0 }
    else if s.draining && s.kind = .empty then { s with pc := .dropBody }                    -- `drain`: nothing to do
    else
      let s := { s with outLeft := if s.draining then cfg.drainBuf else cfg.callerBuf, written := 0 }
      match s.kind with
      | .fixed => { s with pc := .fixedRead }
      | .chunked => { s with pc := .cAdvance }
      | .empty => { s with pc := .ret }
  | .fixedRead =>
    if s.rem = 0 then { s with pc := .ret }
    else
      let toRead := min s.rem s.outLeft
      if s.br.len = 0 ∧ s.br.cap ≤ toRead then
        -- `BufReader::read` bypasses its buffer
        let n := piece c.n (min toRead (min s.takeLeft s.sock))
        if n = 0 then recvFail s
        else
          { s with pc := .ret, rem := s.rem - n, takeLeft := s.takeLeft - n, sock := s.sock - n,
                   fetched := s.fetched + n, delivered := s.delivered + n, written := n }
      else if s.br.len = 0 then recvFill s c (min s.takeLeft s.sock)
      else
        let n := min s.br.len toRead
        if n = 0 then recvFail s                                                             -- (`buf` empty)
        else
          { s with pc := .ret, br := { s.br with len := s.br.len - n }, rem := s.rem - n,
                   delivered := s.delivered + n, written := n }
  | .cAdvance =>
    match s.cstate with
    | .size =>
      -- `read_chunk_size`: `let mut line = String::new();`
      match s.chunks with
      | [] => recvFail s                                   -- nothing more arrives: "chunk size eof"
      | r :: rest =>
        if r.count = 0 then { s with chunks := rest }
        else if r.lineLen = 0 then recvFail s
        else
          { s with pc := .cSizeLine, line := {}, lineLeft := r.lineLen, lineChunk := r.dataLen,
                   chunks := { r with count := r.count - 1 } :: rest }
    | .data =>
      if s.rem = 0 then { s with cstate := .crlf, crlfLeft := 2 } else { s with pc := .cData }
    | .crlf => { s with pc := .cCrlf }
    | .trailer => { nextTrailer { s with line := {} } with pc := .cTrailer }
    | .done => { s with pc := .ret }
  | .cSizeLine =>
    if s.br.len = 0 then recvFill s c s.sock
    else
      let k := min s.lineLeft s.br.len
      let s := { s with line := s.line.extend std k c.cap, br := { s.br with len := s.br.len - k },
                        lineLeft := s.lineLeft - k, overhead := s.overhead + k }
      if s.lineLeft = 0 then
        -- the line is complete: parse, `line` is dropped on return
        { s with pc := .cAdvance, rem := s.lineChunk, cstate := if s.lineChunk = 0 then .trailer else .data,
                 line := {} }
      else s
  | .cData =>
    if s.outLeft = 0 then { s with pc := .ret }            -- `if out.is_empty() { break }`
    else
      let toRead := min s.rem s.outLeft
      if s.br.len = 0 ∧ s.br.cap ≤ toRead then
        let n := piece c.n (min toRead s.sock)
        if n = 0 then recvFail s
        else chunkGot { s with sock := s.sock - n, fetched := s.fetched + n } n
      else if s.br.len = 0 then recvFill s c s.sock
      else
        let n := min s.br.len toRead
        chunkGot { s with br := { s.br with len := s.br.len - n } } n
  | .cCrlf =>
    if s.crlfLeft = 0 then { s with pc := .cAdvance, cstate := .size }
    else if s.br.len = 0 then recvFill s c s.sock
    else
      let k := min s.crlfLeft s.br.len
      { s with br := { s.br with len := s.br.len - k }, crlfLeft := s.crlfLeft - k, overhead := s.overhead + k }
  | .cTrailer =>
    if s.lineLeft = 0 then
      if s.blank then { s with pc := .cAdvance, cstate := .done, line := {} }
      else nextTrailer { s with line := { s.line with len := 0 } }       -- `line.clear()`
    else if s.br.len = 0 then
      let m := piece c.n (min s.br.cap s.sock)
      if m = 0 then { s with pc := .cAdvance, cstate := .done, line := {} }   -- end of stream ends the trailer loop
      else { s with br := { s.br with len := m }, sock := s.sock - m, fetched := s.fetched + m }
    else
      let k := min s.lineLeft s.br.len
      { s with line := s.line.extend std k c.cap, br := { s.br with len := s.br.len - k },
               lineLeft := s.lineLeft - k, overhead := s.overhead + k }
  | .ret =>
    if s.written = 0 then
      -- `Ok(0)`: end of body.  The handler's loop ends, it returns, `Drop` runs `drain` (which gets `Ok(0)` at once)
      if s.draining then { s with pc := .dropBody }
      else { s with pc := .call, draining := true, callerCap := 0 }
    else { s with pc := .call }
  | .dropBody =>
    { s with pc := .idle, br := {}, line := {}, callerCap := 0, draining := false,
             discarded := s.discarded + s.br.len }

-- ------------------------------------------------------------------------------------------------ the bound (receiving)

/-- worst-case capacity of `REQUEST_BUFFER`: `DEFAULT_REQUEST_BUFFER_SIZE` when `max_request_head` fits in it
    (exactly `max_request_head` when both are equal, as by default), else what one `reserve` gives -/
def reqBufBound (cfg : RecvCfg) : Nat :=
  if cfg.maxHead ≤ cfg.defaultReqBuf then cfg.defaultReqBuf else max cfg.std.vecMinCap (2 * cfg.maxHead)

/-- worst-case capacity of the `String` holding one chunk-size / trailer line -/
def lineCapB (cfg : RecvCfg) : Nat := max cfg.std.vecMinCap (2 * cfg.lineMax)

/-- THE BOUND for receiving: request-head buffer + `BufReader` + one line + the caller's buffer -/
def Krecv (cfg : RecvCfg) : Nat := reqBufBound cfg + cfg.bodyBufSize + lineCapB cfg + cfg.callerBuf

def KrecvStack (cfg : RecvCfg) : Nat := cfg.drainBuf + 2

def recvRun (cfg : RecvCfg) (cs : List RChoice) : RecvState :=
  cs.foldl (recvStep cfg) (recvInit cfg)

end Khttp.Mem
