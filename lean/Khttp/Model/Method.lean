/- Model of src/http/method.rs -/
import Khttp.Model.Basic
namespace Khttp

inductive Method where
  | get | post | head | put | patch | delete | options | trace
  | custom (s : Bytes)
  deriving Repr, DecidableEq

def Method.asBytes : Method → Bytes
  | .get => str "GET" | .post => str "POST" | .head => str "HEAD" | .put => str "PUT"
  | .patch => str "PATCH" | .delete => str "DELETE" | .options => str "OPTIONS" | .trace => str "TRACE"
  | .custom s => s

/-- `Method::from(&str)` -/
def Method.ofBytes (s : Bytes) : Method :=
  if s = str "GET" then .get else if s = str "POST" then .post
  else if s = str "HEAD" then .head else if s = str "PUT" then .put
  else if s = str "PATCH" then .patch else if s = str "DELETE" then .delete
  else if s = str "OPTIONS" then .options else if s = str "TRACE" then .trace
  else .custom s

/-- `Method::index()` -/
def Method.index : Method → Nat
  | .get => 0 | .post => 1 | .head => 2 | .put => 3 | .patch => 4 | .delete => 5
  | .options => 6 | .trace => 7 | .custom _ => 8

end Khttp
