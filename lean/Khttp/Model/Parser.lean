/-
  Model of src/parser/mod.rs, src/parser/request.rs, src/parser/response.rs and
  src/http/request_uri.rs — function by function, branch by branch.
-/
import Khttp.Model.Swar
import Khttp.Model.Headers
import Khttp.Model.Method
import Khttp.Gen.Consts
namespace Khttp

/-- `is_valid_uri_byte` (table generated from `make_uri_byte_mask`) -/
def isValidUriByte (b : UInt8) : Bool := Gen.uriValidBytes.contains b
/-- `is_valid_header_field_byte` (table generated from `make_header_field_byte_mask`) -/
def isFieldByte (b : UInt8) : Bool := Gen.fieldValidBytes.contains b

/-- `RequestUri { full, path_i_start, path_i_end }` -/
structure Uri where
  full : Bytes
  ps : Nat
  pe : Nat
  deriving Repr, DecidableEq

-- ---------------------------------------------------------------- parse_method

/-- the `match method_bytes` of `parse_method` -/
def methodOfBytes (mb : Bytes) : Res Method :=
  if mb = str "HEAD" then .ok .head
  else if mb = str "PUT" then .ok .put
  else if mb = str "PATCH" then .ok .patch
  else if mb = str "DELETE" then .ok .delete
  else if mb = str "OPTIONS" then .ok .options
  else if mb = str "TRACE" then .ok .trace
  else if mb.isEmpty || !mb.all isAlpha then .err .status
  else do
    let s ← asciiStr mb "from_utf8_unchecked(method)"
    .ok (.custom s)

def methodLoop (buf : Bytes) : Nat → Nat → Res (Method × Bytes)
  | 0, _ => .panic "fuel"
  | fuel + 1, i =>
    if i < buf.length then
      match idx buf i "parse_method buf[i]" with
      | .ok b =>
        if b == SP then do
          let mb ← sliceTo buf i "parse_method &buf[..i]"
          let m ← methodOfBytes mb
          let rest ← sliceFrom buf (i + 1) "parse_method &buf[i+1..]"
          .ok (m, rest)
        else methodLoop buf fuel (i + 1)
      | .err e => .err e | .panic s => .panic s | .ub s => .ub s
    else .err .eof

def parseMethod (buf : Bytes) : Res (Method × Bytes) :=
  if startsWith buf (str "GET ") then .ok (.get, buf.drop 4)
  else if startsWith buf (str "POST ") then .ok (.post, buf.drop 5)
  else methodLoop buf (buf.length + 1) 0

-- ---------------------------------------------------------------- parse_uri

/-- step 2 of `parse_uri`: returns `(i, path_start_i)`; `seen` = the scheme separator was already skipped -/
def authorityLoop (buf : Bytes) : Nat → Nat → Bool → Res (Nat × Nat)
  | 0, _, _ => .panic "fuel"
  | fuel + 1, i, seen =>
    if i < buf.length then
      match idx buf i "parse_uri buf[i]" with
      | .ok b =>
        if b == COLON && !seen && decide (i + 2 < buf.length) && (buf.drop i).take 3 == str "://" then
          authorityLoop buf fuel (i + 3) true
        else if b == SLASH then .ok (i, i)
        else if b == SP || b == QMARK then .ok (i, 0)
        else if !isValidUriByte b then .err .status
        else authorityLoop buf fuel (i + 1) seen
      | .err e => .err e | .panic s => .panic s | .ub s => .ub s
    else .ok (i, 0)

def parseUri (buf : Bytes) : Res (Uri × Bytes) :=
  match buf with
  | [] => .err .eof
  | b0 :: _ =>
    if b0 == STAR then
      match buf[1]? with
      | some b1 => if b1 == SP then .ok (⟨str "*", 0, 1⟩, buf.drop 2) else .err .status
      | none => .err .eof
    else if b0 == SP then .err .status   -- empty target
    else do
      let origin := b0 == SLASH
      let (i, ps) ← if origin then (pure (0, 0) : Res (Nat × Nat)) else authorityLoop buf (buf.length + 1) 0 false
      if !origin && ps == 0 then
        -- no slash found => authority-form / path-less absolute-form
        let tail ← sliceFrom buf i "parse_uri &buf[j..]"
        let n ← matchUri tail
        let j := i + n
        match buf[j]? with
        | some b =>
          if b == SP then do
            let full ← sliceTo buf j "parse_uri &buf[..j]"
            let full ← asciiStr full "from_utf8_unchecked(authority-form)"
            let rest ← sliceFrom buf (j + 1) "parse_uri &buf[j+1..]"
            .ok (⟨full, 0, 0⟩, rest)
          else .err .status
        | none => .err .eof
      else
        -- step 3: path, then optional query
        let tail ← sliceFrom buf i "parse_uri &buf[i..]"
        let n ← matchPath tail
        let pe := i + n
        let iEnd ←
          match buf[pe]? with
          | some b =>
            if b == QMARK then do
              let tail ← sliceFrom buf (pe + 1) "parse_uri &buf[i..] (query)"
              let n ← matchUri tail
              let k := pe + 1 + n
              match buf[k]? with
              | some c =>
                if c == SP then (pure k : Res Nat)
                else if c == CR || c == LF then .err .ver
                else .err .status
              | none => .err .eof
            else if b == SP then pure pe
            else if b == CR || b == LF then .err .ver
            else .err .status
          | none => .err .eof
        let full ← sliceTo buf iEnd "parse_uri &buf[..i]"
        let full ← asciiStr full "from_utf8_unchecked(uri)"
        let rest ← sliceFrom buf (iEnd + 1) "parse_uri &buf[i+1..]"
        .ok (⟨full, ps, pe⟩, rest)

-- ---------------------------------------------------------------- parse_version

def HTTP1 : Bytes := str "HTTP/1."

def parseVersion (buf : Bytes) : Res (UInt8 × Bytes) :=
  if startsWith buf HTTP1 then
    match buf.drop 7 with
    | [] => .err .eof
    | minor :: rest =>
      if minor == 0x31 then .ok (1, rest)
      else if minor == 0x30 then .ok (0, rest)
      else .err .ver
  else if startsWith HTTP1 (buf.take (min buf.length 7)) then .err .eof
  else .err .ver

-- ---------------------------------------------------------------- parse_headers

def parseHeaderLine (line : Bytes) : Res (Bytes × Bytes) :=
  match memchr COLON line with
  | none => .err .header
  | some colon =>
    if colon == 0 || !(line.take colon).all isFieldByte then .err .header
    else do
      let name ← asciiStr (line.take colon) "from_utf8_unchecked(header name)"
      let v ← sliceFrom line (colon + 1) "parse_header_line &line[colon+1..]"
      .ok (name, trimStart v)

def headersLoop : Nat → Headers → Bytes → Res (Headers × Bytes)
  | 0, _, _ => .panic "fuel"
  | fuel + 1, h, buf =>
    if startsWith buf [CR, LF] then .ok (h, buf.drop 2)
    else
      match memchr LF buf with
      | none => .err .eof
      | some nl =>
        if nl == 0 then .err .header
        else
          match idx buf (nl - 1) "parse_headers buf[nl-1]" with
          | .ok c =>
            if c != CR then .err .header
            else
              match sliceTo buf (nl - 1) "parse_headers &buf[..nl-1]" with
              | .ok line =>
                match parseHeaderLine line with
                | .ok (name, value) =>
                  match sliceFrom buf (nl + 1) "parse_headers &buf[nl+1..]" with
                  | .ok rest => headersLoop fuel (h.add name value) rest
                  | .err e => .err e | .panic s => .panic s | .ub s => .ub s
                | .err e => .err e | .panic s => .panic s | .ub s => .ub s
              | .err e => .err e | .panic s => .panic s | .ub s => .ub s
          | .err e => .err e | .panic s => .panic s | .ub s => .ub s

def parseHeaders (buf : Bytes) : Res (Headers × Bytes) := headersLoop (buf.length + 1) Headers.new buf

-- ---------------------------------------------------------------- Request::parse

structure Request where
  method : Method
  uri : Uri
  version : UInt8
  headers : Headers
  off : Nat
  deriving Repr

/-- `start - rest.len()` in `usize`: underflow would panic (debug) / wrap (release); model as panic -/
def offsetOf (start restLen : Nat) : Res Nat :=
  if restLen ≤ start then .ok (start - restLen) else .panic "buf_offset underflow"

def Request.parse (buf : Bytes) : Res Request := do
  let (method, rest) ← parseMethod buf
  let (uri, rest) ← parseUri rest
  let (version, rest) ← parseVersion rest
  let rest ←
    match rest with
    | c :: l :: rest => if c == CR && l == LF then (pure rest : Res Bytes) else .err .status
    | [c] => if c == CR then .err .eof else .err .status
    | [] => .err .eof
  let (headers, rest) ← parseHeaders rest
  if headers.hasInvalidFraming then .err .header
  else do
    let off ← offsetOf buf.length rest.length
    .ok { method, uri, version, headers, off }

-- ---------------------------------------------------------------- Response::parse

structure Response where
  version : UInt8
  code : Nat
  reason : Bytes
  headers : Headers
  off : Nat
  deriving Repr

def parseStatusCode (buf : Bytes) : Res Nat :=
  match buf[0]? with
  | none => .err .eof
  | some h => if !isDigit h then .err .status else
    match buf[1]? with
    | none => .err .eof
    | some t => if !isDigit t then .err .status else
      match buf[2]? with
      | none => .err .eof
      | some o => if !isDigit o then .err .status else
        .ok ((h.toNat - 48) * 100 + (t.toNat - 48) * 10 + (o.toNat - 48))

def isReasonByte (c : UInt8) : Bool := c == HT || c == SP || (0x21 ≤ c && c ≤ 0x7e)

def reasonLoop (buf : Bytes) : Nat → Nat → Res (Bytes × Bytes)
  | 0, _ => .panic "fuel"
  | fuel + 1, i =>
    if i + 1 < buf.length then
      match idx buf i "reason buf[i]", idx buf (i + 1) "reason buf[i+1]" with
      | .ok c, .ok d =>
        if c == CR && d == LF then do
          let reason ← sliceTo buf i "reason &buf[..i]"
          let reason ← asciiStr reason "from_utf8_unchecked(reason)"
          let rest ← sliceFrom buf (i + 2) "reason &buf[i+2..]"
          .ok (reason, rest)
        else if !isReasonByte c then .err .status
        else reasonLoop buf fuel (i + 1)
      | .panic s, _ => .panic s
      | _, .panic s => .panic s
      | _, _ => .panic "reason idx"
    else .err .eof

def parseResponseStatus (buf : Bytes) : Res (Nat × Bytes × Bytes) := do
  let code ← parseStatusCode buf
  match buf[3]? with
  | none => .err .eof
  | some sp =>
    if sp != SP then .err .status
    else do
      let buf ← sliceFrom buf 4 "status &buf[4..]"
      let (reason, rest) ← reasonLoop buf (buf.length + 1) 0
      .ok (code, reason, rest)

def Response.parse (buf : Bytes) : Res Response := do
  let (version, rest) ← parseVersion buf
  let rest ←
    match rest with
    | [] => (.err .eof : Res Bytes)
    | b :: rest => if b == SP then pure rest else .err .status
  let (code, reason, rest) ← parseResponseStatus rest
  let (headers, rest) ← parseHeaders rest
  let off ← offsetOf buf.length rest.length
  .ok { version, code, reason, headers, off }

-- ---------------------------------------------------------------- RequestUri accessors

/-- `str::find(pat)` for a byte pattern: first index where `pat` is a prefix -/
def findSub (pat : Bytes) (s : Bytes) : Option Nat :=
  let rec go (fuel : Nat) (s : Bytes) (i : Nat) : Option Nat :=
    match fuel with
    | 0 => none
    | fuel + 1 =>
      if pat.isPrefixOf s then some i
      else match s with
        | [] => none
        | _ :: t => go fuel t (i + 1)
  go (s.length + 1) s 0

def findByte (p : UInt8 → Bool) (s : Bytes) : Option Nat :=
  let i := s.findIdx p
  if i < s.length then some i else none

def SCHEME_SEP : Bytes := str "://"

namespace Uri
-- `&str` slicing: for ASCII strings the char-boundary rule is vacuous; bounds as for slices.

def asStr (u : Uri) : Bytes := u.full

def path (u : Uri) : Res Bytes := slice u.full u.ps u.pe "RequestUri::path"

def scheme (u : Uri) : Res (Option Bytes) :=
  match findSub SCHEME_SEP u.full with
  | some i => do let s ← sliceTo u.full i "RequestUri::scheme"; .ok (some s)
  | none => .ok none

def authority (u : Uri) : Res (Option Bytes) :=
  if startsWith u.full [SLASH] then .ok none
  else
    match findSub SCHEME_SEP u.full with
    | some si =>
      let start := si + 3
      if u.ps == 0 then do
        let rest ← sliceFrom u.full start "authority &full[start..]"
        match findByte (· == QMARK) rest with
        | some i => do let a ← sliceTo rest i "authority &rest[..i]"; .ok (some a)
        | none => .ok (some rest)
      else if start ≤ u.ps then do
        let a ← slice u.full start u.ps "authority &full[start..ps]"
        .ok (some a)
      else do
        let a ← sliceTo u.full u.ps "authority &full[..ps]"
        .ok (some a)
    | none =>
      match findByte (fun b => b == SLASH || b == QMARK) u.full with
      | some i => do let a ← sliceTo u.full i "authority &full[..i]"; .ok (some a)
      | none => .ok (some u.full)

def pathAndQuery (u : Uri) : Res Bytes :=
  if u.pe != 0 then sliceFrom u.full u.ps "path_and_query &full[ps..]"
  else
    match findSub SCHEME_SEP u.full with
    | some si => do
      let rest ← sliceFrom u.full (si + 3) "path_and_query &full[si+3..]"
      match findByte (· == QMARK) rest with
      | some rq => sliceFrom u.full (si + 3 + rq) "path_and_query &full[si+3+rq..]"
      | none => .ok []
    | none => .ok []

def query (u : Uri) : Res (Option Bytes) := do
  let ps ← sliceFrom u.full u.pe "query &full[pe..]"
  match findByte (· == QMARK) ps with
  | some qi => do let q ← sliceFrom ps (qi + 1) "query &ps[qi+1..]"; .ok (some q)
  | none => .ok none

end Uri
end Khttp
