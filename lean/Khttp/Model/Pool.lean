/-
Model of `/repo/src/threadpool.rs` (the worker pool used by `server/mod.rs::serve` and `server/epoll.rs`)
as a labelled transition system.  One transition = one synchronisation action of the Rust code.

Rust source being abstracted (line numbers of `/repo/src/threadpool.rs`):

```
16  pub fn new(size: usize) -> Self {
17      assert!(size > 0);
18      let (sender, receiver) = mpsc::channel::<J>();
19      let receiver = Arc::new(Mutex::new(receiver));
22      for _ in 0..size { workers.push(Worker::new(Arc::clone(&receiver))); }
26      Self { workers, sender: Some(sender) }
33  pub fn execute(&self, job: J) {
34      self.sender.as_ref().unwrap().send(job).unwrap();
39  fn drop(&mut self) {
40      drop(self.sender.take()); // closes channel; workers exit
41      for w in &mut self.workers {
42          if let Some(t) = w.thread.take() {
43              t.join().unwrap();
55  let thread = thread::spawn(move || {
56      loop {
57          let msg = {
58              let rx = receiver.lock().unwrap();
59              rx.recv()
60          };                                   // <- guard `rx` dropped HERE: mutex released
61          match msg {
62              Ok(job) => job.run(),            // <- runs with the mutex already released
63              Err(_) => break, // sender dropped
```

Threads of the model: the *owner* (`main`, the thread that owns the `ThreadPool` value: calls `execute`, later
drops the pool) and `size` *workers* `0 … size-1` (index in `self.workers`, i.e. the join order of `drop`).

Assumptions about the environment (stated, not proved):
* jobs terminate and do not panic (`finish` is an always-enabled step of a running worker, there is no "panicked"
  worker state; a panicking job would kill its worker thread and make `t.join().unwrap()` on line 43 panic);
* `std::sync::mpsc::channel` is an unbounded FIFO: `send` never blocks, fails only when the `Receiver` was dropped;
  `recv` blocks while the queue is empty and a `Sender` exists, returns the OLDEST message when the queue is
  non-empty (also after all senders were dropped: buffered messages are still delivered), and returns `Err` only
  when the queue is empty and every `Sender` was dropped;
* `std::sync::Mutex` is a mutual-exclusion lock; `lock()` blocks while another thread holds the guard and returns
  `Err` (poison) only if a holder panicked — impossible here because nothing executed under the guard can panic;
* `JoinHandle::join` blocks until the thread's closure has returned.
Blocking is modelled by the step not being enabled.
-/
namespace Khttp.Pool

/-- Control state of one worker thread (the closure on lines 55–66). -/
inductive WState where
  /-- outside the lock scope, about to execute `receiver.lock()` on line 58 (start of a loop iteration) -/
  | idle
  /-- holds the receiver mutex (guard `rx` alive), inside / blocked in `rx.recv()` on line 59 -/
  | locked
  /-- has left the block of lines 57–60 (guard dropped, mutex RELEASED) and is executing `job.run()` on line 62 -/
  | running (j : Nat)
  /-- took the `Err(_) => break` branch on line 63; the thread closure has returned -/
  | exited
  deriving DecidableEq, Repr, Inhabited

/-- Ghost life-cycle of a job (jobs are numbered 0,1,2,… in the order of the `execute` calls). -/
inductive JStatus where
  | fresh                 -- not submitted yet
  | queued                -- inside the mpsc channel
  | running (w : Nat)     -- `job.run()` in progress on worker `w`
  | done                  -- `job.run()` returned
  deriving DecidableEq, Repr, Inhabited

/-- Control state of the owner thread. -/
inductive MState where
  /-- pool alive: may call `execute` (line 33) any number of times, or start `drop` -/
  | submitting
  /-- inside `Drop::drop`, sender already dropped (line 40), in the `for` loop of lines 41–45 about to
      `join` worker `k` (`k = size`: loop finished, about to return) -/
  | joining (k : Nat)
  /-- `Drop::drop` has returned (line 46) -/
  | returned
  deriving DecidableEq, Repr, Inhabited

structure State where
  /-- `size` argument of `ThreadPool::new` = number of worker threads -/
  size : Nat
  /-- contents of the mpsc channel, oldest first -/
  queue : List Nat
  /-- `self.sender` is `Some` (the only `Sender`; it is never cloned) -/
  senderAlive : Bool
  /-- which worker holds the guard of `Arc<Mutex<Receiver>>` -/
  lock : Option Nat
  worker : Nat → WState
  status : Nat → JStatus
  /-- ghost: how many times `job.run()` was STARTED for job `j` -/
  runCount : Nat → Nat
  /-- number of jobs submitted so far = id of the next job -/
  next : Nat
  main : MState

/-- point update of a function -/
def upd {α : Type} (f : Nat → α) (i : Nat) (v : α) : Nat → α := fun k => if k = i then v else f k

@[simp] theorem upd_same {α} (f : Nat → α) (i : Nat) (v : α) : upd f i v i = v := by simp [upd]
theorem upd_other {α} (f : Nat → α) (i k : Nat) (v : α) (h : k ≠ i) : upd f i v k = f k := by simp [upd, h]

/-- State right after `ThreadPool::new(n)` returned (lines 16–30): `n` workers spawned, each at the top of its loop;
    channel empty; the sender stored in `self.sender`. (`assert!(size > 0)`, line 17: `Reachable` demands `1 ≤ n`.) -/
def init (n : Nat) : State :=
  { size := n, queue := [], senderAlive := true, lock := none
    worker := fun _ => .idle, status := fun _ => .fresh, runCount := fun _ => 0
    next := 0, main := .submitting }

/-- Observable synchronisation events (also the alphabet of recorded traces of the real pool). -/
inductive Event where
  | submit (j : Nat)              -- `S<j>`
  | acquire (w : Nat)             -- `A<w>`
  | recvJob (w j : Nat)           -- `R<w>:<j>`
  | recvDisconnected (w : Nat)    -- `X<w>`
  | finish (w j : Nat)            -- `F<w>:<j>`
  | dropSender                    -- `D`
  | join (w : Nat)                -- `J<w>`
  | ret                           -- `T`
  deriving DecidableEq, Repr, Inhabited

/-- Guard of each step.  A blocked thread is a thread none of whose steps is enabled. -/
def enabled (s : State) : Event → Prop
  /- line 34 `sender.as_ref().unwrap().send(job).unwrap()`: needs `self.sender = Some` (only before `drop`);
     the job gets the next id.  (`send` itself never blocks: unbounded channel.) -/
  | .submit j => s.main = .submitting ∧ s.senderAlive = true ∧ j = s.next
  /- line 58 `receiver.lock().unwrap()` returns: worker at the top of the loop, mutex free. -/
  | .acquire w => w < s.size ∧ s.worker w = .idle ∧ s.lock = none
  /- line 59 `rx.recv()` returns `Ok(job)`: the worker holds the mutex, the channel is non-empty, and the job
     received is the HEAD of the queue. -/
  | .recvJob w j => w < s.size ∧ s.worker w = .locked ∧ s.lock = some w ∧ s.queue.head? = some j
  /- line 59 `rx.recv()` returns `Err(RecvError)`: the worker holds the mutex, channel empty AND sender dropped.
     (Channel empty and sender alive: neither `recvJob` nor this step is enabled — the worker blocks in `recv`
     while holding the mutex; the other idle workers block in `lock()`.) -/
  | .recvDisconnected w => w < s.size ∧ s.worker w = .locked ∧ s.lock = some w ∧ s.queue = [] ∧ s.senderAlive = false
  /- line 62 `job.run()` returns (assumption: every job terminates without panicking, so this is always possible). -/
  | .finish w j => w < s.size ∧ s.worker w = .running j
  /- line 40 `drop(self.sender.take())`: the owner stops submitting and enters `Drop::drop`. -/
  | .dropSender => s.main = .submitting
  /- line 43 `t.join().unwrap()` returns for worker `k`: needs the worker's closure to have returned. -/
  | .join k => s.main = .joining k ∧ k < s.size ∧ s.worker k = .exited
  /- lines 41/46: the `for` loop is exhausted, `drop` returns. -/
  | .ret => s.main = .joining s.size

instance (s : State) (e : Event) : Decidable (enabled s e) := by
  cases e <;> (dsimp only [enabled]; infer_instance)

/-- Effect of each step (only meaningful when `enabled`). -/
def apply (s : State) : Event → State
  /- line 34: the job is appended at the TAIL of the channel. -/
  | .submit j => { s with queue := s.queue ++ [j], status := upd s.status j .queued, next := s.next + 1 }
  /- line 58: the worker now owns the guard `rx`. -/
  | .acquire w => { s with lock := some w, worker := upd s.worker w .locked }
  /- lines 59–60 + start of 62: `recv` pops the head; the block of lines 57–60 ends, so the guard `rx` is dropped
     and the mutex is RELEASED (`lock := none`) in the same step in which the worker becomes `running j`:
     no state of the model has a worker running a job while holding the mutex.  A variant of the code that called
     `job.run()` inside the block (guard still alive) would need a step with `lock := some w` here and is therefore
     NOT an instance of this model (see `C13_lock_not_held_while_running`).
     Ghost: `runCount j` counts this start of `job.run()`. -/
  | .recvJob w j =>
      { s with queue := s.queue.tail, lock := none, worker := upd s.worker w (.running j)
               status := upd s.status j (.running w), runCount := upd s.runCount j (s.runCount j + 1) }
  /- lines 59–60, 63: `recv` returned `Err`; guard dropped (mutex released); `break`; the closure returns. -/
  | .recvDisconnected w => { s with lock := none, worker := upd s.worker w .exited }
  /- line 62 returns, back to the top of the `loop` (line 56), about to `lock()` again. -/
  | .finish w j => { s with worker := upd s.worker w .idle, status := upd s.status j .done }
  /- line 40: the unique `Sender` is dropped: the channel is disconnected; the owner proceeds to the join loop. -/
  | .dropSender => { s with senderAlive := false, main := .joining 0 }
  /- line 43: next loop iteration. -/
  | .join k => { s with main := .joining (k + 1) }
  /- line 46. -/
  | .ret => { s with main := .returned }

/-- Executable step function (used to replay recorded traces of the real pool). -/
def step? (s : State) (e : Event) : Option State :=
  if enabled s e then some (apply s e) else none

/-- Labelled step relation. -/
def StepE (s : State) (e : Event) (t : State) : Prop := enabled s e ∧ t = apply s e

/-- Unlabelled step relation: all interleavings of owner and workers are the paths of this relation. -/
def Step (s t : State) : Prop := ∃ e, StepE s e t

theorem step?_eq_some {s t : State} {e : Event} : step? s e = some t ↔ StepE s e t := by
  unfold step? StepE
  by_cases h : enabled s e <;> simp [h, eq_comm]

/-- Reachable states: reflexive-transitive closure of `Step` from `init n`, any `n ≥ 1`. -/
inductive Reachable : State → Prop
  | init (n : Nat) (h : 1 ≤ n) : Reachable (init n)
  | step {s t : State} : Reachable s → Step s t → Reachable t

/-- Replay of a list of events; `none` as soon as one event is not enabled. -/
def replay? (s : State) : List Event → Option State
  | [] => some s
  | e :: es => match step? s e with
    | some t => replay? t es
    | none => none

/-- `Steps s t`: `t` is reachable from `s`. -/
inductive Steps : State → State → Prop
  | refl (s : State) : Steps s s
  | tail {s t u : State} : Steps s t → Step t u → Steps s u

theorem Steps.trans {s t u : State} (h1 : Steps s t) (h2 : Steps t u) : Steps s u := by
  induction h2 with
  | refl => exact h1
  | tail _ st ih => exact .tail ih st

theorem Reachable.steps {s t : State} (h : Reachable s) (h2 : Steps s t) : Reachable t := by
  induction h2 with
  | refl => exact h
  | tail _ st ih => exact .step ih st

theorem replay?_steps {s t : State} {es : List Event} (h : replay? s es = some t) : Steps s t := by
  induction es generalizing s with
  | nil => simp [replay?] at h; subst h; exact .refl _
  | cons e es ih =>
    simp only [replay?] at h
    split at h
    · rename_i u hu
      have : Step s u := ⟨e, step?_eq_some.mp hu⟩
      exact Steps.trans (.tail (.refl _) this) (ih h)
    · simp at h

/-- is the worker executing a job? -/
def WState.isRunning : WState → Bool
  | .running _ => true
  | _ => false

/-- number of workers `w < n` that are executing a job -/
def runningBelow (f : Nat → WState) : Nat → Nat
  | 0 => 0
  | n + 1 => runningBelow f n + (if (f n).isRunning then 1 else 0)

/-- number of jobs being executed simultaneously in state `s` -/
def State.runningCount (s : State) : Nat := runningBelow s.worker s.size

end Khttp.Pool
