/-
  Model of src/printer.rs (`HttpPrinter` and its helpers), function by function.

  OUTPUT CONVENTION.  Every entry point returns `PrintRes Bytes`: the bytes that reach the underlying writer, in
  order, and whether the function returned `Ok` or the error `body_shorter_than_declared()` (`ioErr`).  What is TRUSTED about `std` (stated, not proved):
    * `Write::write_all(buf)` delivers all of `buf`, in order; `BufWriter` delivers every byte written to it, in
      order, to the inner writer, and flushes when dropped (all printer paths drop their `BufWriter` on return);
    * a writer that returns an error is OUT OF SCOPE (the printer then returns the error, the wire holds a prefix);
    * `Write::write_vectored(&[head, body])` accepts the first `accept` bytes of `head ++ body` for some
      `accept ≤ head.len() + body.len()` (the `Write` contract); `accept` is an explicit parameter;
    * `Read::take(n)`: every `read` is capped to the remaining limit, and when the limit is 0 it returns `Ok(0)`
      WITHOUT calling the inner reader; `read_to_end` / `io::copy` call `read` with NON-EMPTY buffers of sizes of
      their own choosing (`StdPolicy`, arbitrary) until it returns 0, keeping exactly the bytes returned;
    * `Vec::with_capacity(n)` / `Vec::reserve(n)` give AT LEAST the requested capacity (`StdPolicy.vecGrow`);
    * `{:X}` of a `usize` is its upper-case hexadecimal numeral without prefix and without leading zeros.
  A reader that returns an error is out of scope as well.

  PANICS.  `PrintRes.panic` marks: `b'0' + (hundreds as u8)` overflowing in `u16_to_ascii` (debug builds; codes
  20800..25599 and 46400..51199), the 20-byte buffer of `u64_to_ascii_buf` (unreachable for a `u64`), the slice
  `&body[offset..]` in `write_vectored_bytes` when the writer claims to have accepted more than it was given, and
  "fuel" (a model artefact: every loop gets `data.length + 1` iterations, proved sufficient in Lemmas/Printer).

  No Mathlib; linked into `kmodel`.
-/
import Khttp.Model.Basic
import Khttp.Model.Headers
import Khttp.Model.Method
import Khttp.Gen.Consts
namespace Khttp.Printer
open Khttp

/-- Result of a printer function.  For the entry points (`α = Bytes`):
    `ok w`     — returned `Ok(())`, exactly `w` reached the writer;
    `ioErr w`  — returned `Err(io::Error)` after exactly `w` reached the writer (the only source in this model is
                 `body_shorter_than_declared()`; writer/reader errors are out of scope);
    `panic s`  — the Rust panics at `s`. -/
inductive PrintRes (α : Type) where
  | ok    (a : α)
  | ioErr (written : Bytes)
  | panic (site : String)
  deriving Repr

namespace PrintRes
@[inline] def bind {α β} (x : PrintRes α) (f : α → PrintRes β) : PrintRes β :=
  match x with
  | .ok a => f a
  | .ioErr w => .ioErr w
  | .panic s => .panic s

instance : Monad PrintRes where
  pure := .ok
  bind := PrintRes.bind

def isOk {α} : PrintRes α → Bool | .ok _ => true | _ => false
def isPanic {α} : PrintRes α → Bool | .panic _ => true | _ => false
def isIoErr {α} : PrintRes α → Bool | .ioErr _ => true | _ => false

@[simp] theorem bind_ok {α β} (a : α) (f : α → PrintRes β) : (PrintRes.ok a >>= f) = f a := rfl
@[simp] theorem bind_ioErr {α β} (w : Bytes) (f : α → PrintRes β) : (PrintRes.ioErr w >>= f) = PrintRes.ioErr w := rfl
@[simp] theorem bind_panic {α β} (s : String) (f : α → PrintRes β) : (PrintRes.panic s >>= f) = PrintRes.panic s := rfl
@[simp] theorem pure_eq {α} (a : α) : (pure a : PrintRes α) = .ok a := rfl

/-- `pre` has already been handed to the (buffered) writer when `r` runs: it is on the wire whether `r` succeeds or
    fails (the `BufWriter` is flushed when dropped, also on the error path) -/
def written (pre : Bytes) : PrintRes Bytes → PrintRes Bytes
  | .ok b => .ok (pre ++ b)
  | .ioErr w => .ioErr (pre ++ w)
  | .panic s => .panic s

@[simp] theorem written_ok (pre b : Bytes) : written pre (.ok b) = .ok (pre ++ b) := rfl
@[simp] theorem written_ioErr (pre w : Bytes) : written pre (.ioErr w) = .ioErr (pre ++ w) := rfl
@[simp] theorem written_panic (pre : Bytes) (s : String) : written pre (.panic s) = .panic s := rfl
end PrintRes

/-- the size constants of printer.rs.  The model is parametric in them; `Thresholds.gen` is the instance
    generated from the Rust source. -/
structure Thresholds where
  /-- `PROBE_MAX` -/
  probeMax : Nat
  /-- `INLINE_COPY_MAX` -/
  inlineCopyMax : Nat
  /-- length of the stack buffer of `write_chunked` (`128 * 1024`) -/
  chunkBufSize : Nat
  /-- `RESPONSE_HEAD_BUF_INIT_CAP` (a capacity: no observable effect) -/
  headInitCap : Nat
  /-- `Vec::with_capacity(128)` in `probe_body` (extracted: `Gen.probeInitCap`) -/
  probeInitCap : Nat := 128
  /-- `.min(1024)` in `probe_body` (extracted: `Gen.probeStep`) -/
  probeStep : Nat := 1024
  deriving Repr

def Thresholds.gen : Thresholds :=
  { probeMax := Gen.probeMax, inlineCopyMax := Gen.inlineCopyMax,
    chunkBufSize := Gen.chunkBufSize, headInitCap := Gen.headInitCap,
    probeInitCap := Gen.probeInitCap, probeStep := Gen.probeStep }

/-- the constants as they were when the concrete examples of Props/C08 and Props/C20 were written (8 KiB probe, 2 KiB
    inline copy, 128 KiB chunk buffer …).  Examples and the "numbers" theorem use this instance, so that a later harmless
    change of a constant in the source does not invalidate an ILLUSTRATION; every property theorem is stated for arbitrary
    thresholds and the hypotheses it needs are discharged for `Thresholds.gen` (the values extracted from the source). -/
def Thresholds.frozen : Thresholds :=
  { probeMax := 8192, inlineCopyMax := 2048, chunkBufSize := 131072, headInitCap := 512, probeInitCap := 128, probeStep := 1024 }

/-- what the model needs of the constants: without these the Rust *logic* would be different
    (`probeMax = 0` → an empty first chunk = premature terminator; `chunkBufSize = 0` → `read(&mut [])`;
    `probeStep = 0` → `reserve(0)` and a zero-length read mistaken for end of data). -/
def Thresholds.Pos (c : Thresholds) : Prop :=
  0 < c.probeMax ∧ 0 < c.chunkBufSize ∧ 0 < c.probeStep ∧ c.probeMax ≤ 2 ^ 64   -- (the constants are `usize`s)

instance (c : Thresholds) : Decidable c.Pos := by unfold Thresholds.Pos; exact inferInstance

/-- choices made inside `std` that the printer cannot observe (proved irrelevant in Lemmas/Printer). -/
structure StdPolicy where
  /-- `Vec::reserve(need)` on a full vector of capacity `cap`: new capacity is `max (cap + need) (vecGrow cap need)` -/
  vecGrow : Nat → Nat → Nat
  /-- `Vec::with_capacity(n)`: capacity is `max n (withCap n)` -/
  withCap : Nat → Nat
  /-- size of the buffer `read_to_end` hands to `read` when `len` bytes have been collected (used as `max 1 _`) -/
  readToEndReq : Nat → Nat
  /-- size of the buffer `io::copy` hands to `read` when `len` bytes have been copied (used as `max 1 _`) -/
  copyReq : Nat → Nat

/-- roughly what std 1.8x does (amortised doubling; 32-byte probe reads; 8 KiB copy buffer) -/
def StdPolicy.real : StdPolicy :=
  { vecGrow := fun cap _ => 2 * cap, withCap := fun n => n, readToEndReq := fun _ => 32, copyReq := fun _ => 8192 }

-- ------------------------------------------------------------------------------------------------ readers

/-- a body reader: the remaining data and a schedule of piece sizes.  Each `read(buf)` returns
    `min buf.len (min piece data.length)` bytes; when the schedule is exhausted the piece is the requested size.
    With pieces ≥ 1 (hypothesis `RSrc.Ok` of the theorems) it returns 0 only at end of data. -/
structure RSrc where
  data : Bytes
  pieces : List Nat := []
  deriving Repr

def RSrc.Ok (s : RSrc) : Prop := ∀ p ∈ s.pieces, 1 ≤ p

instance (s : RSrc) : Decidable s.Ok := by unfold RSrc.Ok; exact inferInstance

/-- `src.read(buf)` with `buf.len() = want`: the bytes delivered and the reader afterwards -/
def RSrc.read (s : RSrc) (want : Nat) : Bytes × RSrc :=
  let p := match s.pieces with | [] => want | p :: _ => p
  let n := min want (min p s.data.length)
  (s.data.take n, { data := s.data.drop n, pieces := s.pieces.tail })

/-- bytes accumulated most-recent-first (so that long loops are linear) -/
def out (acc : List Bytes) : Bytes := acc.reverse.flatten

/-- The loop shared by `Take<R>::read_to_end` (`decide_body_strategy`) and `io::copy(&mut body.take(cl), w)`
    (`write_streaming`): read from `Take { inner: src, limit }` until `read` returns 0.
    `req len` is the buffer size std offers after `len` bytes.  Returns the bytes obtained and the inner reader. -/
def takeReadAll (req : Nat → Nat) : Nat → RSrc → Nat → Nat → List Bytes → PrintRes (Bytes × RSrc)
  | 0, _, _, _, _ => .panic "fuel"
  | fuel + 1, src, limit, len, acc =>
    if limit = 0 then .ok (out acc, src)            -- `Take::read`: `if self.limit == 0 { return Ok(0) }`
    else
      let want := min (max 1 (req len)) limit
      let (got, src') := src.read want
      if got.isEmpty then .ok (out acc, src')
      else takeReadAll req fuel src' (limit - got.length) (len + got.length) (got :: acc)

-- ------------------------------------------------------------------------------------------------ numerals

/-- `b'0' + (x as u8)` with `x` already truncated to `u8`: overflow panics (debug build) -/
def u8Add (a b : Nat) (site : String) : PrintRes UInt8 :=
  if a + b < 256 then .ok (UInt8.ofNat (a + b)) else .panic site

/-- `u16_to_ascii(n)`; `n` stands for a `u16` (`n < 65536`).  `hundreds as u8` truncates. -/
def u16ToAscii (n : Nat) : PrintRes Bytes := do
  let hundreds := n / 100
  let tens := (n / 10) % 10
  let ones := n % 10
  let a ← u8Add 48 (hundreds % 256) "u16_to_ascii: b'0' + (hundreds as u8)"
  let b ← u8Add 48 (tens % 256) "u16_to_ascii: b'0' + (tens as u8)"
  let c ← u8Add 48 (ones % 256) "u16_to_ascii: b'0' + (ones as u8)"
  .ok [a, b, c, SP]

/-- the `while n > 0` loop of `u64_to_ascii_buf`; `i` is the write index into `buf: [u8; 20]`, the digits written
    so far are `acc` (= `buf[i..20]`) -/
def u64Loop : Nat → Nat → Bytes → PrintRes Bytes
  | 0, n, acc => if n = 0 then .ok acc else .panic "u64_to_ascii_buf: i -= 1"
  | i + 1, n, acc =>
    if n = 0 then .ok acc
    else u64Loop i (n / 10) (UInt8.ofNat (48 + n % 10) :: acc)

/-- `u64_to_ascii_buf(n, &mut buf)` followed by `&buf[..len]`; `n` stands for a `u64` -/
def u64ToAsciiBuf (n : Nat) : PrintRes Bytes :=
  if n = 0 then .ok [0x30] else u64Loop 20 n []

def hexDigitUpper (d : Nat) : UInt8 := if d < 10 then UInt8.ofNat (48 + d) else UInt8.ofNat (55 + d)

/-- `{:X}`: `fmt::UpperHex for usize` (do-while over the nibbles, least significant first) -/
def hexUpperLoop : Nat → Nat → Bytes → Bytes
  | 0, _, acc => acc
  | fuel + 1, n, acc =>
    let acc := hexDigitUpper (n % 16) :: acc
    if n / 16 = 0 then acc else hexUpperLoop fuel (n / 16) acc

def hexUpper (n : Nat) : Bytes := hexUpperLoop (n + 1) n []

-- ------------------------------------------------------------------------------------------------ head

def CRLF : Bytes := [CR, LF]
def DOUBLE_CRLF : Bytes := [CR, LF, CR, LF]
def LAST_CHUNK : Bytes := str "0\r\n\r\n"
def CONTENT_LENGTH_HEADER : Bytes := str "content-length: "
def TRANSFER_ENCODING_HEADER_CHUNKED : Bytes := str "transfer-encoding: chunked\r\n"

/-- `Vec::with_capacity(cap)`: an empty vector (the capacity is not observable) -/
def vecWithCapacity (_cap : Nat) : Bytes := []

/-- the status-line block common to `write_response_empty`, `write_response_bytes`, `build_response_head` -/
def statusLine (code : Nat) (reason : Bytes) : PrintRes Bytes :=
  if code = 200 ∧ reason = str "OK" then .ok (str "HTTP/1.1 200 OK\r\n")
  else do
    let d ← u16ToAscii code
    .ok (str "HTTP/1.1 " ++ d ++ reason ++ CRLF)

/-- `for (name, value) in headers.iter() { name ": " value CRLF }` -/
def fieldLines (fs : List (Bytes × Bytes)) : Bytes :=
  fs.flatMap fun f => f.1 ++ str ": " ++ f.2 ++ CRLF

/-- `if headers.is_with_date_header() { head.extend_from_slice(&get_date_now()) }`; `date` is what
    `get_date_now()` returned -/
def dateLine (h : Headers) (date : Bytes) : Bytes := if h.printDate then date else []

/-- `add_content_length_header` -/
def addContentLengthHeader (buf : Bytes) (value : Nat) : PrintRes Bytes := do
  let num ← u64ToAsciiBuf value
  .ok (buf ++ CONTENT_LENGTH_HEADER ++ num)

inductive Strategy where
  | fast (buf : Bytes) (cl : Nat)
  | streaming (src : RSrc) (cl : Nat)
  | chunked (src : RSrc)
  | autoChunked (pre : Bytes) (src : RSrc)
  deriving Repr

/-- `add_headers` -/
def addHeaders (buf : Bytes) (h : Headers) (date : Bytes) (strat : Strategy) : PrintRes Bytes := do
  let buf := buf ++ fieldLines h.fields
  let buf := buf ++ dateLine h date
  match strat with
  | .fast _ cl => do
    let buf ← addContentLengthHeader buf cl
    .ok (buf ++ CRLF)
  | .streaming _ cl => do
    let buf ← addContentLengthHeader buf cl
    .ok (buf ++ CRLF)
  | .chunked _ => .ok buf
  | .autoChunked _ _ => .ok (buf ++ TRANSFER_ENCODING_HEADER_CHUNKED)   -- (debug_assert!(!chunked) holds: see decide)

/-- `build_response_head` -/
def buildResponseHead (cfg : Thresholds) (code : Nat) (reason : Bytes) (h : Headers) (date : Bytes)
    (strat : Strategy) : PrintRes Bytes := do
  let head := vecWithCapacity cfg.headInitCap
  let sl ← statusLine code reason
  let head := head ++ sl
  let head ← addHeaders head h date strat
  .ok (head ++ CRLF)

/-- `build_request_head` -/
def buildRequestHead (cfg : Thresholds) (method : Method) (uri : Bytes) (h : Headers) (date : Bytes)
    (strat : Strategy) : PrintRes Bytes := do
  let head := vecWithCapacity cfg.headInitCap
  let head := head ++ method.asBytes ++ str " " ++ uri ++ str " " ++ str "HTTP/1.1\r\n"
  let head ← addHeaders head h date strat
  .ok (head ++ CRLF)

-- ------------------------------------------------------------------------------------------------ body strategy

/-- the `while collected.len() < max` loop of `probe_body`.  `len`/`cap` are the vector's length and capacity,
    `acc` its contents. -/
def probeLoop (cfg : Thresholds) (pol : StdPolicy) (max : Nat) :
    Nat → RSrc → Nat → Nat → List Bytes → PrintRes (Bytes × Bool × RSrc)
  | 0, _, _, _, _ => .panic "fuel"
  | fuel + 1, src, len, cap, acc =>
    if len < max then
      let cap :=
        if cap - len = 0 then                       -- `spare_capacity_mut().is_empty()`
          let need := min (max - len) cfg.probeStep
          Nat.max (len + need) (pol.vecGrow cap need)   -- `reserve(need)`: at least `len + need`
        else cap
      let remaining := max - len
      let toRead := min remaining (cap - len)
      let (got, src') := src.read toRead
      if got.isEmpty then .ok (out acc, true, src')
      else probeLoop cfg pol max fuel src' (len + got.length) cap (got :: acc)
    else .ok (out acc, false, src)

/-- `probe_body(src, max)` -/
def probeBody (cfg : Thresholds) (pol : StdPolicy) (src : RSrc) (max : Nat) : PrintRes (Bytes × Bool × RSrc) :=
  probeLoop cfg pol max (src.data.length + 1) src 0 (Nat.max cfg.probeInitCap (pol.withCap cfg.probeInitCap)) []

/-- `decide_body_strategy` -/
def decideBodyStrategy (cfg : Thresholds) (pol : StdPolicy) (h : Headers) (body : RSrc) : PrintRes Strategy :=
  if h.chunked then .ok (.chunked body)
  else match h.cl with
    | some cl =>
      if cl ≤ cfg.probeMax then do
        -- `body.by_ref().take(cl).read_to_end(&mut buf)`
        let (buf, _) ← takeReadAll pol.readToEndReq (body.data.length + 1) body cl 0 []
        if buf.length < cl then .ioErr []        -- `Err(body_shorter_than_declared())`: nothing written yet
        else .ok (.fast buf cl)
      else .ok (.streaming body cl)
    | none => do
      let (pre, complete, rest) ← probeBody cfg pol body cfg.probeMax
      if complete then .ok (.fast pre pre.length)
      else .ok (.autoChunked pre rest)

-- ------------------------------------------------------------------------------------------------ writers

/-- `write_vectored_bytes(writer, head, body)`; `accept` = the count returned by the one `write_vectored` call -/
def writeVectoredBytes (cfg : Thresholds) (head body : Bytes) (accept : Nat) : PrintRes Bytes :=
  if body.length < cfg.inlineCopyMax then .ok (head ++ body)      -- copy + `write_all`
  else
    let n := accept
    let first := (head ++ body).take n                             -- what `write_vectored` put on the wire
    if n < head.length then .ok (first ++ head.drop n ++ body)
    else
      let offset := n - head.length
      if offset ≤ body.length then .ok (first ++ body.drop offset)
      else .panic "write_vectored_bytes: &body[offset..]"

/-- `accept = none`: the writer takes everything it is offered -/
def acceptAll (accept : Option Nat) (head body : Bytes) : Nat := accept.getD (head.length + body.length)

/-- `write_chunk` -/
def writeChunk (bytes : Bytes) : Bytes := hexUpper bytes.length ++ CRLF ++ bytes ++ CRLF

/-- the `loop` of `write_chunked` followed by the terminating chunk -/
def writeChunkedLoop (cfg : Thresholds) : Nat → RSrc → List Bytes → PrintRes Bytes
  | 0, _, _ => .panic "fuel"
  | fuel + 1, src, acc =>
    let (got, src') := src.read cfg.chunkBufSize
    if got.isEmpty then .ok (out (LAST_CHUNK :: acc))
    else writeChunkedLoop cfg fuel src' (writeChunk got :: acc)

/-- `write_chunked(writer, body)` -/
def writeChunked (cfg : Thresholds) (src : RSrc) : PrintRes Bytes :=
  writeChunkedLoop cfg (src.data.length + 1) src []

/-- `write_streaming(writer, body, cl)`: `let copied = io::copy(&mut body.take(cl), writer)?;
    if copied < cl { return Err(body_shorter_than_declared()) }` — the copied bytes have been written either way -/
def writeStreaming (pol : StdPolicy) (src : RSrc) (cl : Nat) : PrintRes Bytes := do
  let (bytes, _) ← takeReadAll pol.copyReq (src.data.length + 1) src cl 0 []
  if bytes.length < cl then .ioErr bytes else .ok bytes

/-- the `match strat` shared by `write_response` and `write_request` -/
def writeBody (cfg : Thresholds) (pol : StdPolicy) (head : Bytes) (strat : Strategy) (accept : Option Nat) :
    PrintRes Bytes :=
  match strat with
  | .fast buf _ => writeVectoredBytes cfg head buf (acceptAll accept head buf)
  | .streaming src cl => (writeStreaming pol src cl).written head          -- `bw.write_all(&head)?; write_streaming(..)`
  | .chunked src => (writeChunked cfg src).written head
  | .autoChunked pre src => (writeChunked cfg src).written (head ++ writeChunk pre)

/-- `HttpPrinter::write_response_empty` -/
def writeResponseEmpty (cfg : Thresholds) (code : Nat) (reason : Bytes) (h : Headers) (date : Bytes) : PrintRes Bytes := do
  let head := vecWithCapacity cfg.headInitCap
  let sl ← statusLine code reason
  let head := head ++ sl ++ fieldLines h.fields ++ dateLine h date
  if h.chunked then .ok (head ++ str "\r\n0\r\n\r\n")
  else .ok (head ++ str "content-length: 0\r\n\r\n")

/-- `HttpPrinter::write_response_bytes` -/
def writeResponseBytes (cfg : Thresholds) (code : Nat) (reason : Bytes) (h : Headers) (date : Bytes)
    (body : Bytes) (accept : Option Nat) : PrintRes Bytes := do
  let head := vecWithCapacity cfg.headInitCap
  let sl ← statusLine code reason
  let head := head ++ sl ++ fieldLines h.fields ++ dateLine h date
  if h.chunked then
    let head := head ++ CRLF
    let chunk := if !body.isEmpty then writeChunk body else []
    .ok (head ++ chunk ++ LAST_CHUNK)
  else do
    let head ← addContentLengthHeader head body.length
    let head := head ++ DOUBLE_CRLF
    writeVectoredBytes cfg head body (acceptAll accept head body)

/-- `HttpPrinter::write_response` -/
def writeResponse (cfg : Thresholds) (pol : StdPolicy) (code : Nat) (reason : Bytes) (h : Headers) (date : Bytes)
    (body : RSrc) (accept : Option Nat) : PrintRes Bytes := do
  let strat ← decideBodyStrategy cfg pol h body
  let head ← buildResponseHead cfg code reason h date strat
  writeBody cfg pol head strat accept

/-- `HttpPrinter::write_request` -/
def writeRequest (cfg : Thresholds) (pol : StdPolicy) (method : Method) (uri : Bytes) (h : Headers) (date : Bytes)
    (body : RSrc) (accept : Option Nat) : PrintRes Bytes := do
  let strat ← decideBodyStrategy cfg pol h body
  let head ← buildRequestHead cfg method uri h date strat
  writeBody cfg pol head strat accept

/-- `write_100_continue` / `write_417_expectation_failed` -/
def RESPONSE_100_CONTINUE : Bytes := str "HTTP/1.1 100 Continue\r\n\r\n"
def RESPONSE_417_EXPECTATION_FAILED : Bytes := str "HTTP/1.1 417 Expectation Failed\r\n\r\n"

end Khttp.Printer
