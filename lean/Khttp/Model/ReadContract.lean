/-
  The data phase of `ChunkedReader::read` (src/body_reader.rs) with a FALLIBLE inner reader — the part of the reader
  where an I/O error (an interrupted read, a read time-out, a reset) can strike after bytes have already been copied into the
  caller's buffer.  `Model/Body.lean` deliberately has an infallible raw stream (its only failure is the end of the stream);
  this file adds the error dimension for the one loop in which it matters:

      while self.advance()? {                      // inside a chunk: Ok(true) without touching the stream
          if out.is_empty() { break; }
          let to_read = min(self.remaining_in_chunk, out.len());
          let n = match self.inner.read(&mut out[..to_read]) {
              Ok(n) => n,
              Err(_) if written > 0 => break,       // (fix F36) report what was copied; the error recurs on the next call
              Err(e) => return Err(e),
          };
          if n == 0 { return Err(UnexpectedEof) }
          self.remaining_in_chunk -= n; written += n; out = &mut out[n..];
          if self.remaining_in_chunk == 0 || out.is_empty() { break; }
      }
      Ok(written)

  `readData` is that loop; `readDataOld` is the loop as it was before the fix (the error returned although bytes had been
  copied).  The `Read` contract — "if an error is returned then it must be guaranteed that no bytes were read" — is what makes
  retrying after `ErrorKind::Interrupted` (as `read_to_end` and every careful caller do) sound.
-/
import Khttp.Model.Basic
namespace Khttp.ReadContract
open Khttp

/-- what one call of `inner.read(buf)` does, as scheduled by the environment: deliver some bytes (at most `buf.len()`
    are taken; an empty delivery is the end of the stream) or fail -/
inductive Ev where
  | data (bs : Bytes)
  | err
  deriving Repr, DecidableEq

/-- result of one call of `read` in the data phase -/
inductive Out where
  | ok (bs : Bytes)      -- `Ok(written)` with the bytes copied into the caller's buffer
  | ioErr                -- the inner error, passed on
  | truncated            -- `UnexpectedEof`: the stream ended inside the chunk
  deriving Repr, DecidableEq

structure St where
  /-- `remaining_in_chunk` -/
  remaining : Nat
  /-- the environment's schedule for the following inner reads -/
  evs : List Ev
  /-- ghost: every byte the inner reader has handed over so far, in order -/
  taken : Bytes := []
  deriving Repr, DecidableEq

/-- the loop after the fix; `cap` = room left in the caller's buffer, `acc` = bytes copied so far in this call -/
def readData : Nat → St → Nat → Bytes → Out × St
  | 0, s, _, acc => (.ok acc, s)
  | fuel + 1, s, cap, acc =>
    if s.remaining = 0 ∨ cap = 0 then (.ok acc, s)
    else match s.evs with
      | [] => (.ok acc, s)                                  -- (schedule exhausted: the read would block; not an outcome)
      | .err :: rest =>
        if acc ≠ [] then (.ok acc, { s with evs := rest })  -- report what was copied
        else (.ioErr, { s with evs := rest })
      | .data bs :: rest =>
        let n := min (min s.remaining cap) bs.length
        if n = 0 then (.truncated, { s with evs := rest })
        else
          let got := bs.take n
          let s' : St := { remaining := s.remaining - n, evs := rest, taken := s.taken ++ got }
          readData fuel s' (cap - n) (acc ++ got)

/-- the loop before the fix: `let n = self.inner.read(..)?;` -/
def readDataOld : Nat → St → Nat → Bytes → Out × St
  | 0, s, _, acc => (.ok acc, s)
  | fuel + 1, s, cap, acc =>
    if s.remaining = 0 ∨ cap = 0 then (.ok acc, s)
    else match s.evs with
      | [] => (.ok acc, s)
      | .err :: rest => (.ioErr, { s with evs := rest })
      | .data bs :: rest =>
        let n := min (min s.remaining cap) bs.length
        if n = 0 then (.truncated, { s with evs := rest })
        else
          let got := bs.take n
          let s' : St := { remaining := s.remaining - n, evs := rest, taken := s.taken ++ got }
          readDataOld fuel s' (cap - n) (acc ++ got)

/-- a caller that retries after an error (what `read_to_end` does for `Interrupted`): the concatenation of everything the
    calls returned with `Ok`, until the chunk is exhausted, the schedule runs out or the stream is truncated -/
def drive (loop : Nat → St → Nat → Bytes → Out × St) (cap : Nat) : Nat → St → Bytes → Bytes × St
  | 0, s, got => (got, s)
  | fuel + 1, s, got =>
    if s.remaining = 0 ∨ s.evs = [] then (got, s)
    else match loop (cap + 1) s cap [] with
      | (.ok bs, s') => drive loop cap fuel s' (got ++ bs)
      | (.ioErr, s') => drive loop cap fuel s' got            -- retry
      | (.truncated, s') => (got, s')

end Khttp.ReadContract
