/-
  Model of `read_request` (src/server/mod.rs): the loop that reads a request head from the socket into
  the thread-local buffer of `max_request_head` bytes and re-parses the growing prefix.

  The socket is modelled from the server's point of view as the list of TCP segments it will see:
  a `recv(n)` returns up to `n` bytes of the current segment (a gated/lock-step client never has two
  segments pending while the server is blocked in `recv`); after the last segment `recv` returns 0 if
  the peer half-closed (`eof`), otherwise it blocks for ever (`hang`).
-/
import Khttp.Model.Parser
namespace Khttp

structure Sock where
  segs : List Bytes
  eof : Bool
  deriving Repr, DecidableEq

inductive RecvRes where
  | data (b : Bytes) (s : Sock)
  | eof
  | hang
  deriving Repr

/-- `stream.read(buf)` with `buf.len() = n ≥ 1`, on the list of pending segments -/
def recvSegs (eof : Bool) (n : Nat) : List Bytes → RecvRes
  | [] => if eof then .eof else .hang
  | seg :: rest =>
    if seg.isEmpty then recvSegs eof n rest                  -- an empty segment is no segment
    else if seg.length ≤ n then .data seg ⟨rest, eof⟩
    else .data (seg.take n) ⟨seg.drop n :: rest, eof⟩

def Sock.recv (s : Sock) (n : Nat) : RecvRes := recvSegs s.eof n s.segs

/-- all bytes the peer still has in flight, in order -/
def Sock.pending (s : Sock) : Bytes := s.segs.flatten

inductive ReadErr where
  | tooLarge   -- RequestHeadTooLarge  -> 431
  | invalid    -- InvalidRequestHead   -> 400
  | readEof    -- ReadEof              -> silent close
  | hang       -- blocked in recv for ever (client never sends the rest)
  deriving Repr, DecidableEq

structure ReadOk where
  buf : Bytes          -- the filled part of the buffer (`buf[..filled]`)
  req : Request
  deriving Repr

/-- ghost record of one `recv`: (bytes already buffered, length requested) -/
abbrev RecvLog := List (Nat × Nat)

def readLoop (max : Nat) : Nat → Bytes → Sock → RecvLog → (Except ReadErr ReadOk × Sock × RecvLog)
  | 0, _, s, log => (.error .hang, s, log)        -- unreachable: fuel = max + 1 suffices (proved)
  | fuel + 1, buf, s, log =>
    if buf.length == max then (.error .tooLarge, s, log)
    else
      let want := max - buf.length
      let log := log ++ [(buf.length, want)]
      match s.recv want with
      | .eof => (.error .readEof, s, log)
      | .hang => (.error .hang, s, log)
      | .data b s' =>
        let buf' := buf ++ b
        match Request.parse buf' with
        | .ok r => (.ok ⟨buf', r⟩, s', log)
        | .err .eof => readLoop max fuel buf' s' log
        | _ => (.error .invalid, s', log)

/-- `read_request(stream, max_size)` -/
def readRequest (max : Nat) (s : Sock) : Except ReadErr ReadOk × Sock × RecvLog :=
  readLoop max (max + 1) [] s []

end Khttp

namespace Khttp

/-- outcomes of `ClientRequestTcpStream::read_response` (src/client.rs) before a head is complete -/
inductive ClientReadErr where
  | headTooLarge   -- buffer of MAX_RESPONSE_HEAD bytes full: ParsingFailure(UnexpectedEof)
  | parsing        -- ParsingFailure(e), e a real rejection
  | unexpectedEof  -- ClientError::UnexpectedEof (peer closed)
  | hang
  deriving Repr, DecidableEq

structure ClientReadOk where
  buf : Bytes
  res : Response
  deriving Repr

def readResponseLoop (max : Nat) : Nat → Bytes → Sock → (Except ClientReadErr ClientReadOk × Sock)
  | 0, _, s => (.error .hang, s)
  | fuel + 1, buf, s =>
    if buf.length == max then (.error .headTooLarge, s)
    else
      match s.recv (max - buf.length) with
      | .eof => (.error .unexpectedEof, s)
      | .hang => (.error .hang, s)
      | .data b s' =>
        let buf' := buf ++ b
        match Response.parse buf' with
        | .ok r => (.ok ⟨buf', r⟩, s')
        | .err .eof => readResponseLoop max fuel buf' s'
        | _ => (.error .parsing, s')

/-- `read_response` with the buffer size extracted from the source -/
def readResponse (s : Sock) : Except ClientReadErr ClientReadOk × Sock :=
  readResponseLoop Gen.maxResponseHead (Gen.maxResponseHead + 1) [] s

end Khttp
