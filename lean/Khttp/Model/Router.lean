/-
  Model of src/router.rs  (RouterBuilder / MethodBucket / Router::match_route).

  Strings are `Bytes`.  ASCII is assumed for route strings and request paths, so that
  `str::split('/')` is a split on the byte 0x2f, `starts_with('/')` / `starts_with(':')` test the
  first byte and `&s[1..]` drops exactly one byte (for non-ASCII UTF-8 the same holds, because
  0x2f / 0x3a never occur inside a multi-byte sequence, but we do not rely on that).

  A route handler `T` is identified by its registration index (`Nat`); the fallback route is `none`.

  Modelling decisions (all stated again in the report):
  * `[MethodBucket; 8]` is a `List MethodBucket` of length 8, indexed with `Method.index`;
    `Method.index m < 8` for every non-custom method and the length stays 8
    (`Lemmas/RouterBuilder.lean`: `index_lt_of_std`, `addRoute_methods_length`, `addAll_length`), so `self.methods[method.index()]` never panics;
    the model therefore uses `getD`/`modify` instead of a `Res`.
  * `HashMap<String, MethodBucket>` is an association list with unique keys, used only through
    `entry(k).or_default()` and `get(k)` (iteration order of `values_mut` is irrelevant: `finalize`
    is applied to every bucket independently).
  * `lml : i32` is an unbounded `Int` (overflow needs a route with 2^31 segments, i.e. a route string
    of at least 4 GiB).
  * `sort_unstable_by` is modelled by insertion sort on the byte-lexicographic order of the keys
    (`str::cmp`).  Keys are pairwise distinct after `add_route` (`retain` ≠ then `push`), so every
    correct sort returns the same list.
  * `binary_search_by_key` is modelled by a linear lookup of the key; the assumption about `std` is:
    on a slice sorted by key, `binary_search_by_key` returns `Ok(i)` with `slice[i].key == key` iff the
    key is present (and keys are unique, so `i` is determined).
    Sortedness and key-uniqueness of the built tables are proved (`Lemmas/RouterSorted.lean`: `build_literals_sorted`, restated as `C11_sorted_after_build`).
-/
import Khttp.Gen.Consts
import Khttp.Model.Basic
import Khttp.Model.Method
namespace Khttp.Router

/-- `enum RouteSegment` -/
inductive RouteSegment where
  | literal (s : Bytes)
  | param (name : Bytes)
  | wildcard
  | doubleWildcard
  deriving Repr, DecidableEq

/-- `enum Precedence` (derived `Ord` = order of the discriminants) -/
inductive Precedence where
  | doubleWildcard | wildcard | param | literal
  deriving Repr, DecidableEq

def Precedence.name : Precedence → String
  | .doubleWildcard => "DoubleWildcard" | .wildcard => "Wildcard"
  | .param => "Param" | .literal => "Literal"

/-- discriminant, read from the generated table (`enum Precedence { DoubleWildcard = 0, … }`) -/
def Precedence.toNat (p : Precedence) : Nat := (Gen.precedence.lookup p.name).getD 0

/-- `impl PartialEq for RouteSegment`: parameter names are ignored -/
def segEq : RouteSegment → RouteSegment → Bool
  | .literal a, .literal b => a == b
  | .param _, .param _ => true
  | .wildcard, .wildcard => true
  | .doubleWildcard, .doubleWildcard => true
  | _, _ => false

/-- `Vec<RouteSegment> == Vec<RouteSegment>` with the custom element equality -/
def segsEq : List RouteSegment → List RouteSegment → Bool
  | [], [] => true
  | a :: as, b :: bs => segEq a b && segsEq as bs
  | _, _ => false

/-- `struct RoutePattern` -/
structure RoutePattern where
  pattern : List RouteSegment
  lastPrec : Precedence
  deriving Repr

/-- derived `PartialEq for RoutePattern` -/
def patEq (a b : RoutePattern) : Bool := segsEq a.pattern b.pattern && decide (a.lastPrec = b.lastPrec)

/-- `fn precedence_of(last: Option<&RouteSegment>)` -/
def precedenceOf : Option RouteSegment → Precedence
  | some (.literal _) => .literal
  | some (.param _) => .param
  | some .wildcard => .wildcard
  | some .doubleWildcard => .doubleWildcard
  | none => .doubleWildcard

/-- `fn parse_route_segment(s: &str)` -/
def parseRouteSegment (s : Bytes) : RouteSegment :=
  if s = [STAR] then .wildcard
  else if s = [STAR, STAR] then .doubleWildcard
  else match s with
    | c :: rest => if c = COLON then .param rest else .literal s
    | [] => .literal s

/-- `if s.starts_with('/') { s = &s[1..] }` -/
def stripLeadingSlash : Bytes → Bytes
  | c :: rest => if c = SLASH then rest else c :: rest
  | [] => []

/-- `fn parse_route(route_str)` : (normalised string, pattern) -/
def parseRoute (routeStr : Bytes) : Bytes × RoutePattern :=
  let r := stripLeadingSlash routeStr
  let norm := r
  let pattern := (splitOn SLASH r).map parseRouteSegment
  let lastPrec := precedenceOf pattern.getLast?
  (norm, { pattern, lastPrec })

def RouteSegment.isLiteral : RouteSegment → Bool
  | .literal _ => true
  | _ => false

/-- `struct MethodBucket<T>` with `T := Nat` (registration index) -/
structure MethodBucket where
  literals : List (Bytes × Nat) := []
  patterns : List (RoutePattern × Nat) := []
  deriving Repr

instance : Inhabited MethodBucket := ⟨{}⟩

/-- `MethodBucket::add_route` -/
def MethodBucket.addRoute (b : MethodBucket) (path : Bytes) (route : Nat) : MethodBucket :=
  let (norm, entry) := parseRoute path
  let literal := entry.pattern.all RouteSegment.isLiteral
  if literal then
    { b with literals := b.literals.filter (fun kv => kv.1 != norm) ++ [(norm, route)] }
  else
    { b with patterns := b.patterns.filter (fun kv => !patEq kv.1 entry) ++ [(entry, route)] }

/-- `str::cmp(a, b) != Greater` : byte-lexicographic order -/
def bytesLe : Bytes → Bytes → Bool
  | [], _ => true
  | _ :: _, [] => false
  | a :: as, b :: bs => a < b || (a == b && bytesLe as bs)

def insertSorted (x : Bytes × Nat) : List (Bytes × Nat) → List (Bytes × Nat)
  | [] => [x]
  | y :: ys => if bytesLe x.1 y.1 then x :: y :: ys else y :: insertSorted x ys

/-- `literals.sort_unstable_by(|a, b| a.0.cmp(&b.0))` -/
def sortLiterals : List (Bytes × Nat) → List (Bytes × Nat)
  | [] => []
  | x :: xs => insertSorted x (sortLiterals xs)

/-- `MethodBucket::finalize` -/
def MethodBucket.finalize (b : MethodBucket) : MethodBucket :=
  { b with literals := sortLiterals b.literals }

/-- `MethodBucket::find_literal` (binary search over the sorted, duplicate-free `literals`) -/
def MethodBucket.findLiteral (b : MethodBucket) (normPath : Bytes) : Option Nat :=
  (b.literals.find? (fun kv => kv.1 == normPath)).map (·.2)

/-- `RouterBuilder<T>` / `Router<T>` (same fields; the fallback route is represented by `none`) -/
structure RouterBuilder where
  methods : List MethodBucket
  extensions : List (Bytes × MethodBucket)
  deriving Repr

abbrev Router := RouterBuilder

/-- `RouterBuilder::new` -/
def RouterBuilder.new : RouterBuilder := { methods := List.replicate 8 default, extensions := [] }

/-- `self.extensions.entry(x).or_default().add_route(path, route)` -/
def extAdd (x path : Bytes) (route : Nat) : List (Bytes × MethodBucket) → List (Bytes × MethodBucket)
  | [] => [(x, (default : MethodBucket).addRoute path route)]
  | (k, b) :: rest => if k = x then (k, b.addRoute path route) :: rest else (k, b) :: extAdd x path route rest

/-- `self.extensions.get(x)` -/
def extGet (x : Bytes) : List (Bytes × MethodBucket) → Option MethodBucket
  | [] => none
  | (k, b) :: rest => if k = x then some b else extGet x rest

/-- `RouterBuilder::add_route` -/
def RouterBuilder.addRoute (rb : RouterBuilder) (method : Method) (path : Bytes) (route : Nat) : RouterBuilder :=
  match method with
  | .custom x => { rb with extensions := extAdd x path route rb.extensions }
  | m => { rb with methods := rb.methods.modify m.index (fun b => b.addRoute path route) }

/-- `RouterBuilder::build` -/
def RouterBuilder.build (rb : RouterBuilder) : Router :=
  { methods := rb.methods.map MethodBucket.finalize
    extensions := rb.extensions.map (fun kb => (kb.1, kb.2.finalize)) }

abbrev Params := List (Bytes × Bytes)

/-- `RouteParams::clear` -/
def Params.clear (_ : Params) : Params := []

/-- locals of the per-candidate segment loop -/
structure SegState where
  uriIter : List Bytes          -- what `uri.split('/')` will still yield (fused: `[]` ⇒ `None` forever)
  ok : Bool
  lml : Int
  countingPrefix : Bool
  routeParams : Params
  deriving Repr

/-- `for seg_part in pattern.iter() { let uri_part = uri_iter.next(); match seg_part { … } }` -/
def segLoop : List RouteSegment → SegState → SegState
  | [], st => st
  | seg :: rest, st =>
    let uriPart := st.uriIter.head?
    let st := { st with uriIter := st.uriIter.tail }
    match seg with
    | .doubleWildcard => st                                   -- break
    | .wildcard =>
      match uriPart with
      | none => { st with ok := false }                      -- break
      | some _ => segLoop rest { st with countingPrefix := false }
    | .param name =>
      match uriPart with
      | some v => segLoop rest { st with routeParams := st.routeParams ++ [(name, v)], countingPrefix := false }
      | none => { st with ok := false }                      -- break
    | .literal lit =>
      match uriPart with
      | some v =>
        if lit = v then
          segLoop rest (if st.countingPrefix then { st with lml := st.lml + 1 } else st)
        else { st with ok := false }                         -- break
      | none => { st with ok := false }                      -- break

/-- locals of `match_route` that live across candidates -/
structure ScanState where
  bestLml : Int
  bestPrec : Precedence
  bestRoute : Option Nat
  bestParams : Params
  routeParams : Params
  deriving Repr

/-- one iteration of `for (RoutePattern { pattern, last_prec }, route) in &bucket.patterns` -/
def scanStep (uriSegs : List Bytes) (st : ScanState) (e : RoutePattern × Nat) : ScanState :=
  let s0 : SegState :=
    { uriIter := uriSegs, ok := true, lml := 0, countingPrefix := true,
      routeParams := st.routeParams.clear }
  let s := segLoop e.1.pattern s0
  -- if uri has extra parts, pattern must end with "**"
  let ok := if s.ok && s.uriIter.head?.isSome then decide (e.1.lastPrec = Precedence.doubleWildcard) else s.ok
  if !ok then { st with routeParams := s.routeParams }       -- continue
  else if s.lml > st.bestLml || (s.lml == st.bestLml && e.1.lastPrec.toNat > st.bestPrec.toNat) then
    { bestLml := s.lml, bestPrec := e.1.lastPrec, bestRoute := some e.2,
      bestParams := s.routeParams, routeParams := st.bestParams }   -- mem::swap
  else { st with routeParams := s.routeParams }

def scanInit : ScanState :=
  { bestLml := -1, bestPrec := .doubleWildcard, bestRoute := none, bestParams := [], routeParams := [] }

/-- `Router::match_route`: (route id or `none` = fallback, parameters in order) -/
def Router.matchRoute (r : Router) (method : Method) (uri : Bytes) : Option Nat × Params :=
  let uri := stripLeadingSlash uri
  let bucket? : Option MethodBucket :=
    match method with
    | .custom x => extGet x r.extensions
    | m => some (r.methods.getD m.index default)
  match bucket? with
  | none => (none, [])
  | some bucket =>
    match bucket.findLiteral uri with
    | some route => (some route, [])
    | none =>
      let st := (bucket.patterns).foldl (scanStep (splitOn SLASH uri)) scanInit
      match st.bestRoute with
      | some route => (some route, st.bestParams)
      | none => (none, [])

/-- register `regs` in order (route id = position) -/
def addAll (rb : RouterBuilder) (regs : List ((Method × Bytes) × Nat)) : RouterBuilder :=
  regs.foldl (fun rb r => rb.addRoute r.1.1 r.1.2 r.2) rb

/-- the router obtained from `RouterBuilder::new`, `add_route` for every registration in order, `build` -/
def build (regs : List (Method × Bytes)) : Router :=
  (addAll RouterBuilder.new regs.zipIdx).build

end Khttp.Router
