/-
  Model of the three accept loops (src/server/mod.rs `serve`, `serve_threaded`; src/server/epoll.rs
  `serve_epoll`) at the level of lifecycle hooks and per-connection transcripts.  Connections are independent
  (each has its own socket); what differs between the modes is WHO runs the per-connection code (a pool job
  running `handle_connection`, a spawned thread running `handle_connection`, or a sequence of one-request epoll
  jobs running `handle_one_request`) — scheduling is the subject of C13/C14; here the per-connection function.
-/
import Khttp.Model.Conn
namespace Khttp

inductive SetupDecision where
  | proceed | drop | stopAccepting
  deriving Repr, DecidableEq

/-- an incoming connection: what the setup hook decides for it and what the client sends on it -/
structure Incoming where
  decision : SetupDecision
  sock : Sock

inductive HookEv where
  | setup (c : Nat)
  | pre (c : Nat)                       -- pre-routing hook ran for a parsed request of connection c
  | resp (c : Nat) (r : Resp)
  | teardown (c : Nat) (ok : Bool)      -- with the connection's final I/O result
  | closedSilently (c : Nat)            -- Drop: closed without any response
  | returned                            -- the serve call returned
  deriving Repr, DecidableEq

/-- hook / response events of the requests of connection `c`, in the order they happen: the pre-routing hook of a
    request precedes its responses -/
def reqEvents (c : Nat) (reqs : List (Bool × List Resp)) : List HookEv :=
  reqs.flatMap fun (parsed, resps) => (if parsed then [HookEv.pre c] else []) ++ resps.map (.resp c)

/-- the per-connection code of `serve` / `serve_threaded`: `handle_connection`, then the teardown hook -/
def connThreaded (cfg : Cfg) (c : Nat) (s : Sock) : List HookEv :=
  let o := handleConnection cfg s
  reqEvents c o.reqs ++
    (match o.fin with
     | .closed => [.teardown c (!o.failed)]
     | .hang => [])                       -- the client never finishes: the connection stays open, no teardown yet

/-- the per-connection code of `serve_epoll`: one-request jobs, each with a fresh `ResponseHandle`, re-armed while
    `handle_one_request` says keep-alive; on the last one EPOLL_CTL_DEL, teardown hook, close -/
def epollJobs (cfg : Cfg) : Nat → Sock → List (Bool × List Resp) → (List (Bool × List Resp) × Option Bool)
  | 0, _, acc => (acc, none)
  | fuel + 1, s, acc =>
    let o := handleOne cfg s
    let acc := acc ++ [(o.parsed, o.resps)]
    if o.hang then (acc, none)
    else if !o.keep then (acc, some (!o.failed))
    else epollJobs cfg fuel o.sock acc

def connEpoll (cfg : Cfg) (c : Nat) (s : Sock) : List HookEv :=
  let (reqs, fin) := epollJobs cfg (s.pending.length + 2) s []
  reqEvents c reqs ++
    (match fin with
     | some ok => [.teardown c ok]
     | none => [])

/-- the accept loop common to the three modes: setup hook once per connection, then by decision -/
def acceptLoop (perConn : Nat → Sock → List HookEv) : Nat → List Incoming → List HookEv
  | _, [] => []                         -- (the real loop blocks in accept; no further connections arrive)
  | c, i :: rest =>
    .setup c ::
      (match i.decision with
       | .drop => .closedSilently c :: acceptLoop perConn (c + 1) rest
       | .stopAccepting => [.returned]
       | .proceed => perConn c i.sock ++ acceptLoop perConn (c + 1) rest)

def serveLog (cfg : Cfg) (ins : List Incoming) : List HookEv := acceptLoop (connThreaded cfg) 0 ins
def serveThreadedLog (cfg : Cfg) (ins : List Incoming) : List HookEv := acceptLoop (connThreaded cfg) 0 ins
def serveEpollLog (cfg : Cfg) (ins : List Incoming) : List HookEv := acceptLoop (connEpoll cfg) 0 ins

/-- events of one connection, in order -/
def eventsOf (c : Nat) (log : List HookEv) : List HookEv :=
  log.filter fun e => match e with
    | .setup d | .pre d | .resp d _ | .teardown d _ | .closedSilently d => d == c
    | .returned => false

end Khttp
