/-
  Model of src/parser/simd.rs (64-bit little-endian target): the two SWAR scanners with their
  block loop over `read_unaligned` words and the scalar tail over `get_unchecked`.
-/
import Khttp.Model.Basic
import Khttp.Gen.Consts
namespace Khttp

/-- the byte class accepted by both scanners' loops: 0x21..=0x7e (`is_visible_ascii`) -/
def isVisible (b : UInt8) : Bool := b > Gen.visLo && b < Gen.visHi

/-- bytes that end the *path* scan: '?' or anything not visible ASCII -/
def pathStop (b : UInt8) : Bool := b == QMARK || !isVisible b
/-- bytes that end the *uri* scan -/
def uriStop (b : UInt8) : Bool := !isVisible b

def uniformBlock (b : UInt8) : BitVec 64 :=
  (BitVec.ofNat 64 0x0101010101010101) * (BitVec.ofNat 64 b.toNat)

-- constants of `swar_match_uri_vectored` / `swar_match_path_vectored`, as extracted from the source
def U_ONE  : BitVec 64 := uniformBlock Gen.swarUriONE
def U_M128 : BitVec 64 := uniformBlock Gen.swarUriM128
def U_BM   : BitVec 64 := uniformBlock Gen.swarUriBM
def U_DEL  : BitVec 64 := uniformBlock Gen.swarUriDEL
def P_ONE  : BitVec 64 := uniformBlock Gen.swarPathONE
def P_M128 : BitVec 64 := uniformBlock Gen.swarPathM128
def P_QQ   : BitVec 64 := uniformBlock Gen.swarPathQQ
def P_BM   : BitVec 64 := uniformBlock Gen.swarPathBM
def P_DEL  : BitVec 64 := uniformBlock Gen.swarPathDEL

/-- little-endian word of (up to) the first 8 bytes -/
def leWord : Bytes → BitVec 64
  | [] => 0
  | b :: bs => (BitVec.ofNat 64 b.toNat) ||| ((leWord bs) <<< 8)

/-- `read_unaligned(buf.as_ptr().add(i) as *const usize)`: UB unless 8 bytes are in bounds -/
def readWord (bs : Bytes) (i : Nat) : Res (BitVec 64) :=
  if i + 8 ≤ bs.length then .ok (leWord ((bs.drop i).take 8)) else .ub "read_unaligned"

def hitUri (x : BitVec 64) : BitVec 64 :=
  let lt := (x - U_BM) &&& ~~~x
  let y := x ^^^ U_DEL
  let eq := (y - U_ONE) &&& ~~~y
  (lt ||| eq ||| x) &&& U_M128

def hitPath (x : BitVec 64) : BitVec 64 :=
  let yq := x ^^^ P_QQ
  let hq := (yq - P_ONE) &&& ~~~yq &&& P_M128
  let lt := (x - P_BM) &&& ~~~x
  let yd := x ^^^ P_DEL
  let eq := (yd - P_ONE) &&& ~~~yd
  hq ||| ((lt ||| eq ||| x) &&& P_M128)

/-- byte `k` (little-endian) of a word -/
def lane (x : BitVec 64) (k : Nat) : BitVec 8 := (x >>> (8 * k)).setWidth 8

/-- `offsetnz`: index of the first non-zero byte; `BLOCK_SIZE` for 0.
    (The Rust `unreachable!()` after the loop cannot be reached: a non-zero word has a non-zero byte.) -/
def offsetnz (x : BitVec 64) : Nat :=
  if x = 0 then 8
  else if lane x 0 ≠ 0 then 0
  else if lane x 1 ≠ 0 then 1
  else if lane x 2 ≠ 0 then 2
  else if lane x 3 ≠ 0 then 3
  else if lane x 4 ≠ 0 then 4
  else if lane x 5 ≠ 0 then 5
  else if lane x 6 ≠ 0 then 6
  else 7

/-- scalar tail: `while i < len { if stop(buf.get_unchecked(i)) break; i += 1 }` -/
def scanTail (stop : UInt8 → Bool) (bs : Bytes) : Nat → Nat → Res Nat
  | 0, _ => .panic "fuel"
  | fuel + 1, i =>
    if i < bs.length then
      match idxUnchecked bs i "get_unchecked" with
      | .ok b => if stop b then .ok i else scanTail stop bs fuel (i + 1)
      | .err e => .err e | .panic s => .panic s | .ub s => .ub s
    else .ok i

/-- block loop followed by the tail -/
def scanLoop (hit : BitVec 64 → BitVec 64) (stop : UInt8 → Bool) (bs : Bytes) : Nat → Nat → Res Nat
  | 0, _ => .panic "fuel"
  | fuel + 1, i =>
    if i + 8 ≤ bs.length then
      match readWord bs i with
      | .ok x =>
        let h := hit x
        if h ≠ 0 then .ok (i + offsetnz h) else scanLoop hit stop bs fuel (i + 8)
      | .err e => .err e | .panic s => .panic s | .ub s => .ub s
    else scanTail stop bs (fuel + 1) i

/-- `match_uri_vectored(buf)` -/
def matchUri (bs : Bytes) : Res Nat := scanLoop hitUri uriStop bs (bs.length + 2) 0
/-- `match_path_vectored(buf)` -/
def matchPath (bs : Bytes) : Res Nat := scanLoop hitPath pathStop bs (bs.length + 2) 0

end Khttp
