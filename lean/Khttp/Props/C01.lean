/-
  C01 — Head parsers are total and memory-safe on arbitrary bytes.
  Property theorems only; helper lemmas live in Khttp/Lemmas.
-/
import Khttp.Lemmas.StageMethod
import Khttp.Lemmas.StageUri
import Khttp.Lemmas.StageHeaders
import Khttp.Lemmas.Compose
namespace Khttp

/-- every loop terminates (fuel never runs out), no indexing/slicing panics, no out-of-bounds
    `read_unaligned`/`get_unchecked`, no non-ASCII byte reaches `from_utf8_unchecked` -/
theorem C01_request_safe (bs : Bytes) : (Request.parse bs).Safe :=
  Request.parse_safe bs

theorem C01_response_safe (bs : Bytes) : (Response.parse bs).Safe :=
  Response.parse_safe bs

/-- text fields of an accepted request are ASCII substrings of the input; head length ≤ input length -/
theorem C01_request_fields (bs : Bytes) (r : Request) (h : Request.parse bs = .ok r) :
    r.off ≤ bs.length ∧
    r.method.asBytes <:+: bs ∧ (∀ b ∈ r.method.asBytes, isAscii b = true) ∧
    r.uri.full <:+: bs ∧ (∀ b ∈ r.uri.full, isAscii b = true) ∧
    (∀ f ∈ r.headers.fields, f.1 <:+: bs ∧ f.2 <:+: bs ∧ ∀ b ∈ f.1, isAscii b = true) :=
  Request.parse_fields bs r h

/-- every accessor on a returned request target is panic-free and yields an (ASCII) substring of the input -/
theorem C01_accessors_safe (bs : Bytes) (r : Request) (h : Request.parse bs = .ok r) :
    (∃ p, r.uri.path = .ok p ∧ p <:+: bs) ∧
    (∃ q, r.uri.query = .ok q ∧ ∀ s, q = some s → s <:+: bs) ∧
    (∃ q, r.uri.scheme = .ok q ∧ ∀ s, q = some s → s <:+: bs) ∧
    (∃ q, r.uri.authority = .ok q ∧ ∀ s, q = some s → s <:+: bs) ∧
    (∃ p, r.uri.pathAndQuery = .ok p ∧ p <:+: bs) :=
  Request.parse_accessors bs r h

theorem C01_response_fields (bs : Bytes) (r : Response) (h : Response.parse bs = .ok r) :
    r.off ≤ bs.length ∧
    r.reason <:+: bs ∧ (∀ b ∈ r.reason, isAscii b = true) ∧
    (∀ f ∈ r.headers.fields, f.1 <:+: bs ∧ f.2 <:+: bs ∧ ∀ b ∈ f.1, isAscii b = true) :=
  Response.parse_fields bs r h

/-- the byte tables extracted from the source contain only visible ASCII -/
theorem C01_tables_ascii : ∀ b ∈ Gen.uriValidBytes ++ Gen.fieldValidBytes, 0x21 ≤ b ∧ b < 0x7f := by
  decide +kernel

-- non-vacuity: a concrete accepted request
example : (Request.parse (str "GET /a?b HTTP/1.1\r\nHost: x\r\n\r\n")).isOk = true := by decide +kernel

end Khttp
