/-
  C02 — Every well-formed request head is accepted and decoded exactly.
-/
import Khttp.Lemmas.StageMethod
import Khttp.Lemmas.StageUri
import Khttp.Lemmas.StageHeaders
import Khttp.Lemmas.Compose
namespace Khttp
open Spec

theorem C02_accepts_exactly (h : RfcHead) (wf : h.Wf = true) (tail : Bytes) :
    ∃ r, Request.parse (render h.toHead ++ tail) = .ok r ∧
      r.off = (render h.toHead).length ∧
      r.method = methodOf h.method ∧
      r.uri.full = h.target.bytes ∧ r.uri.path = .ok h.target.path ∧ r.uri.query = .ok h.target.query ∧
      r.version.toNat + 48 = h.minor.toNat ∧
      r.headers = collect h.fields :=
  Request.parse_accepts_exactly h wf tail

-- non-vacuity: a head with all the interesting parts satisfies the hypothesis
example : (RfcHead.mk (str "OPTIONS") (.absolute (str "http") (str "h:80") (str "/a/b") (some (str "x=1")))
    0x31 [(str "Host", str " h"), (str "Content-Length", str " 5 ")]).Wf = true := by decide +kernel

end Khttp
