/-
  C02 ("reports exactly that method") — tie between the method tables of the source and `Model/Method.lean`.
  tools/gen_consts.py extracts on every run
    * `Gen.methodStrs`  — the arms of `Method::as_str`      (variant name, text),
    * `Gen.methodArms`  — the `match method_bytes` arms of `parse_method` (text, variant name),
    * `Gen.methodFast`  — the `strip_prefix` fast paths of `parse_method`.
  The obligations below say that these ARE the model's `Method.asBytes` / `Method.ofBytes` (so a changed spelling, a swapped arm
  or a dropped method breaks them), and that name → method → name is the identity.
-/
import Khttp.Gen.Consts
import Khttp.Model.Method
namespace Khttp

/-- the variant a Rust identifier denotes -/
def Method.ofVariant : String → Option Method
  | "Get" => some .get | "Post" => some .post | "Head" => some .head | "Put" => some .put
  | "Patch" => some .patch | "Delete" => some .delete | "Options" => some .options | "Trace" => some .trace
  | _ => none

/-- `Method::as_str` of the source is `Method.asBytes`: every arm, and all eight variants are there -/
theorem C02_method_as_str_table :
    (∀ e ∈ Gen.methodStrs, (Method.ofVariant e.1).map Method.asBytes = some e.2) ∧
    Gen.methodStrs.map (·.1) = ["Get", "Post", "Head", "Put", "Patch", "Delete", "Options", "Trace"] := by
  decide +kernel

/-- the arms and fast paths of `parse_method` recognise exactly the model's eight names, each as its own variant -/
theorem C02_parse_method_table :
    (∀ e ∈ Gen.methodArms, some (Method.ofBytes e.1) = Method.ofVariant e.2) ∧
    (∀ b ∈ Gen.methodFast, Method.ofBytes b ≠ .custom b) ∧
    ((Gen.methodFast ++ Gen.methodArms.map (·.1)).map Method.ofBytes).Perm
      [.get, .post, .head, .put, .patch, .delete, .options, .trace] := by
  refine ⟨by decide +kernel, by decide +kernel, ?_⟩
  decide +kernel

/-- name → method → name -/
theorem C02_method_roundtrip (m : Method) (h : ∀ s, m = .custom s → Method.ofBytes s = .custom s) :
    Method.ofBytes m.asBytes = m := by
  cases m with
  | custom s => exact h s rfl
  | _ => decide +kernel

/-- … and text → method → text, for every text -/
theorem C02_method_text_roundtrip (s : Bytes) : (Method.ofBytes s).asBytes = s := by
  unfold Method.ofBytes
  repeat' split
  all_goals first | (rename_i h; simp [Method.asBytes, h]) | rfl

end Khttp
