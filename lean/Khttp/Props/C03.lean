/-
  C03 — Interpretation of a message does not depend on stream segmentation (parser level).
  The read loops that re-parse growing prefixes are covered in Khttp/Props/C03Loop.lean.
-/
import Khttp.Lemmas.StageMethod
import Khttp.Lemmas.StageUri
import Khttp.Lemmas.StageHeaders
import Khttp.Props.C01
import Khttp.Lemmas.Compose
namespace Khttp

theorem C03_request_accept_stable (p ext : Bytes) (r : Request) (h : Request.parse p = .ok r) :
    Request.parse (p ++ ext) = .ok r :=
  Request.parse_accept_stable p ext r h

theorem C03_request_reject_stable (p ext : Bytes) (e : PErr) (h : Request.parse p = .err e) (he : e ≠ .eof) :
    ∃ e', Request.parse (p ++ ext) = .err e' ∧ e' ≠ .eof :=
  Request.parse_reject_stable p ext e h he

/-- a proper prefix of an accepted head is reported as incomplete — never accepted, never rejected -/
theorem C03_request_incomplete (s : Bytes) (r : Request) (n : Nat) (h : Request.parse s = .ok r)
    (hn : n < r.off) : Request.parse (s.take n) = .err .eof :=
  Request.parse_incomplete s r n h hn

theorem C03_response_accept_stable (p ext : Bytes) (r : Response) (h : Response.parse p = .ok r) :
    Response.parse (p ++ ext) = .ok r :=
  Response.parse_accept_stable p ext r h

theorem C03_response_reject_stable (p ext : Bytes) (e : PErr) (h : Response.parse p = .err e) (he : e ≠ .eof) :
    ∃ e', Response.parse (p ++ ext) = .err e' ∧ e' ≠ .eof :=
  Response.parse_reject_stable p ext e h he

theorem C03_response_incomplete (s : Bytes) (r : Response) (n : Nat) (h : Response.parse s = .ok r)
    (hn : n < r.off) : Response.parse (s.take n) = .err .eof :=
  Response.parse_incomplete s r n h hn

end Khttp
