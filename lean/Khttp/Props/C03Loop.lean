/-
  C03 (read loops) — the outcome of reading a message head does not depend on how the byte stream is
  cut into TCP segments: server side (`read_request`) and client side (`read_response`).
-/
import Khttp.Model.ReadLoop
import Khttp.Props.C03
import Khttp.Props.C10
import Khttp.Lemmas.ReadLoop
namespace Khttp

/-- what the rest of the server observes of `read_request`: the parsed head (incl. `off`, where the body
    starts) or the error, and the bytes that remain to be read after the buffered ones -/
def serverView (r : Except ReadErr ReadOk × Sock × RecvLog) : Except ReadErr (Request × Bytes) :=
  match r.1 with
  | .ok ok => .ok (ok.req, (ok.buf ++ r.2.1.pending).drop ok.req.off)
  | .error e => .error e

instance : DecidableEq PErr := inferInstance

theorem serverView_eq (max : Nat) (s : Sock) :
    serverView (readRequest max s) = (GOut.view (gRequest max s) (·.off)).viewServer := by
  unfold serverView GOut.view
  rw [readRequest_fst, readRequest_snd]
  cases (gRequest max s).1 <;> rfl

/-- Two segmentations of the same byte stream (same half-close behaviour) give the same parsed head, the
    same body start, the same remaining bytes — or the same error. -/
theorem C03_server_cut_independent (max : Nat) (s₁ s₂ : Sock) (hp : s₁.pending = s₂.pending) (he : s₁.eof = s₂.eof) :
    (serverView (readRequest max s₁)).map (fun x => (x.1.off, x.1.method, x.1.uri, x.1.version, x.1.headers, x.2)) =
    (serverView (readRequest max s₂)).map (fun x => (x.1.off, x.1.method, x.1.uri, x.1.version, x.1.headers, x.2)) := by
  rw [serverView_eq, serverView_eq, gRequest_view_congr max hp he]

def clientView (r : Except ClientReadErr ClientReadOk × Sock) : Except ClientReadErr (Response × Bytes) :=
  match r.1 with
  | .ok ok => .ok (ok.res, (ok.buf ++ r.2.pending).drop ok.res.off)
  | .error e => .error e

theorem clientView_eq (s : Sock) :
    clientView (readResponse s) = (GOut.view (gResponse s) (·.off)).viewClient := by
  unfold clientView GOut.view
  rw [readResponse_fst, readResponse_snd]
  cases (gResponse s).1 <;> rfl

theorem C03_client_cut_independent (s₁ s₂ : Sock) (hp : s₁.pending = s₂.pending) (he : s₁.eof = s₂.eof) :
    (clientView (readResponse s₁)).map (fun x => (x.1.off, x.1.code, x.1.reason, x.1.version, x.1.headers, x.2)) =
    (clientView (readResponse s₂)).map (fun x => (x.1.off, x.1.code, x.1.reason, x.1.version, x.1.headers, x.2)) := by
  rw [clientView_eq, clientView_eq, gResponse_view_congr hp he]

end Khttp
