/-
  C04 — An accepted request head is strictly well-formed; nothing in it is ignored.
-/
import Khttp.Lemmas.StageMethod
import Khttp.Lemmas.StageUri
import Khttp.Lemmas.StageHeaders
import Khttp.Lemmas.Compose
import Khttp.Lemmas.RenderInj
namespace Khttp
open Spec

/-- The consumed bytes ARE the rendering of a strictly well-formed head, and what is reported is
    exactly that head: method, target, version, and every field line in order handed to the
    header collection (none dropped, merged or invented). -/
theorem C04_accepted_is_rendered (bs : Bytes) (r : Request) (h : Request.parse bs = .ok r) :
    ∃ hd : Head, WfStrict hd ∧ render hd = bs.take r.off ∧
      r.method = methodOf hd.method ∧ r.uri.full = hd.target ∧
      r.version.toNat + 48 = hd.minor.toNat ∧ r.headers = collect hd.fields :=
  Request.parse_accepted_is_rendered bs r h

/-- unique decoding: a byte string has at most one reading as (strict head, rest) — so the head in
    `C04_accepted_is_rendered` is THE head; "dropped / merged / invented" cannot hide in the ∃ -/
theorem C04_render_injective (h₁ h₂ : Head) (t₁ t₂ : Bytes) (w₁ : WfStrict h₁) (w₂ : WfStrict h₂)
    (e : render h₁ ++ t₁ = render h₂ ++ t₂) : h₁ = h₂ ∧ t₁ = t₂ :=
  render_injective h₁ h₂ t₁ t₂ w₁ w₂ e

end Khttp
