/-
  C05 — Request body length follows RFC 9112 §6.3, or the request is rejected.

  `Spec.framingOf fs` (Khttp/Spec/Framing.lean) is the RFC's reading of the field lines `fs` of a request head:
  chunked / fixed n / empty / invalid.  `Spec.collect fs` is the header collection the parser builds from them
  (C04), `BodyReader.fromRequest` the reader `handle_one_request` builds from its flags.
-/
import Khttp.Lemmas.ConnFacts
import Khttp.Props.C04
import Khttp.Props.C10
import Khttp.Driver.Conn
namespace Khttp
open ConnFacts Spec Khttp.Body

/-- The collection's flags decide exactly as the RFC says: invalid framing ⇔ `has_invalid_framing()`; chunked ⇒
    `is_transfer_encoding_chunked()`; a single valid Content-Length `n` (no Transfer-Encoding) ⇒ not chunked and
    `get_content_length() = Some(n)`; neither field ⇒ not chunked, no length. -/
theorem C05_decision (fs : List (Bytes × Bytes)) (hw : ∀ f ∈ fs, WfRfcLine f = true) :
    let h := collect fs
    (framingOf fs = .invalid ↔ h.hasInvalidFraming = true) ∧
    (framingOf fs = .chunked → h.chunked = true) ∧
    (∀ n, framingOf fs = .fixed n → h.chunked = false ∧ h.cl = some n) ∧
    (framingOf fs = .empty → h.chunked = false ∧ h.cl = none) := by
  intro h
  obtain ⟨c1, c2⟩ := collect_cl fs hw
  have ct := collect_teFinal fs hw
  have cc : h.chunked = (teLines fs).any (fun v => (Headers.teScan (trimStart v)).1) := collect_chunked fs
  have hok := framingOk_eq fs
  have hinv : h.hasInvalidFraming = !framingOk fs := by
    show (h.invalidCl || h.teFinalNotChunked) = _
    rw [show h.teFinalNotChunked = _ from ct, hok]
    cases hi : h.invalidCl
    · rw [(c1.mp hi)]; simp
    · have : ¬ (clAgree (clValues fs) = true) := by
        intro hA; have := c1.mpr hA; rw [hi] at this; cases this
      simp only [Bool.not_eq_true] at this
      rw [this]; simp
  have hnte : (teLines fs).isEmpty = true → h.chunked = false := by
    intro he
    have : teLines fs = [] := by simpa using he
    rw [cc, this]; rfl
  refine ⟨?_, ?_, ?_, ?_⟩
  · rw [hinv]
    unfold framingOf
    cases framingOk fs
    · simp
    · simp only [Bool.not_true, Bool.false_eq_true, if_false]
      split
      · simp
      · split <;> simp
  · intro hf
    unfold framingOf at hf
    cases hk : framingOk fs
    · simp [hk] at hf
    · simp only [hk, Bool.not_true, Bool.false_eq_true, if_false] at hf
      by_cases hte : (!(teLines fs).isEmpty) = true
      · -- the last Transfer-Encoding line ends in chunked
        rw [hok] at hk
        have hfc : finalCodingChunked fs = true := by
          simp only [Bool.and_eq_true] at hk; exact hk.2
        unfold finalCodingChunked at hfc
        cases hl : (teLines fs).getLast? with
        | none =>
          have : teLines fs = [] := List.getLast?_eq_none_iff.mp hl
          simp [this] at hte
        | some v =>
          rw [hl] at hfc
          have hv : v ∈ teLines fs := List.mem_of_getLast? hl
          have hwv : ∀ b ∈ v, isFieldValueByte b = true := by
            simp only [teLines, List.mem_map, List.mem_filter] at hv
            obtain ⟨f, ⟨hf1, _⟩, rfl⟩ := hv
            exact Hdr.wfRfc_value (hw f hf1)
          have h2 : (Headers.teScan (trimStart v)).2 = true := by
            rw [Hdr.teScan_snd v hwv]; exact hfc
          rw [cc]
          exact List.any_eq_true.mpr ⟨v, hv, teScan_snd_imp_fst _ h2⟩
      · rw [if_neg hte] at hf
        split at hf <;> cases hf
  · intro n hf
    unfold framingOf at hf
    cases hk : framingOk fs
    · simp [hk] at hf
    · simp only [hk, Bool.not_true, Bool.false_eq_true, if_false] at hf
      by_cases hte : (!(teLines fs).isEmpty) = true
      · rw [if_pos hte] at hf; cases hf
      · rw [if_neg hte] at hf
        have hi : h.invalidCl = false := by
          have := hinv; rw [hk] at this
          have h' : (h.invalidCl || h.teFinalNotChunked) = false := this
          simp only [Bool.or_eq_false_iff] at h'; exact h'.1
        refine ⟨hnte (by simpa using hte), ?_⟩
        rw [show h.cl = _ from c2 hi]
        split at hf
        · cases hf
        · rename_i d ds hd
          rw [hd]; injection hf with hf; rw [← hf]; rfl
  · intro hf
    unfold framingOf at hf
    cases hk : framingOk fs
    · simp [hk] at hf
    · simp only [hk, Bool.not_true, Bool.false_eq_true, if_false] at hf
      by_cases hte : (!(teLines fs).isEmpty) = true
      · rw [if_pos hte] at hf; cases hf
      · rw [if_neg hte] at hf
        have hi : h.invalidCl = false := by
          have := hinv; rw [hk] at this
          have h' : (h.invalidCl || h.teFinalNotChunked) = false := this
          simp only [Bool.or_eq_false_iff] at h'; exact h'.1
        refine ⟨hnte (by simpa using hte), ?_⟩
        rw [show h.cl = _ from c2 hi]
        split at hf
        · rename_i hd; rw [hd]; rfl
        · cases hf

-- non-vacuity of `C05_decision`: one instance of every outcome, mixed case and OWS
def c05Chunked : List (Bytes × Bytes) :=
  [(str "Content-Length", str " 5"), (str "TRANSFER-Encoding", str " gzip ,\tChunked ")]
def c05Fixed : List (Bytes × Bytes) := [(str "Host", str " a"), (str "content-LENGTH", str "\t42 "), (str "Content-Length", str "042")]
def c05Bad : List (List (Bytes × Bytes)) :=
  [[(str "Content-Length", str " 5x")], [(str "Content-Length", str "5"), (str "content-length", str "6")],
   [(str "Transfer-Encoding", str "chunked, gzip")], [(str "Content-Length", str "5, 5")],
   [(str "Content-Length", str "18446744073709551616")], [(str "Transfer-Encoding", str " ,")]]

example : (∀ f ∈ c05Chunked, WfRfcLine f = true) ∧ framingOf c05Chunked = .chunked ∧
    (collect c05Chunked).chunked = true ∧ (collect c05Chunked).cl = some 5 := by decide +kernel
example : (∀ f ∈ c05Fixed, WfRfcLine f = true) ∧ framingOf c05Fixed = .fixed 42 ∧
    (collect c05Fixed).chunked = false ∧ (collect c05Fixed).cl = some 42 := by decide +kernel
example : framingOf [(str "Host", str "a")] = .empty := by decide +kernel
example : ∀ fs ∈ c05Bad, (∀ f ∈ fs, WfRfcLine f = true) ∧ framingOf fs = .invalid ∧
    (collect fs).hasInvalidFraming = true := by decide +kernel

/-- The body reader built from the flags: chunked wins over any Content-Length; otherwise the declared length
    (a length of 0 and no length both give the empty reader). -/
theorem C05_reader_choice (lo : Bytes) (src : Src) (chunked : Bool) (cl : Option Nat) :
    (chunked = true → BodyReader.fromRequest lo src chunked cl = BodyReader.newChunked lo src) ∧
    (∀ n, chunked = false → cl = some n → 0 < n →
      BodyReader.fromRequest lo src chunked cl = BodyReader.newFixed lo src n) ∧
    (chunked = false → (cl = none ∨ cl = some 0) →
      BodyReader.fromRequest lo src chunked cl = BodyReader.newEmpty src) := by
  refine ⟨?_, ?_, ?_⟩
  · intro h; simp [BodyReader.fromRequest, h]
  · intro n h hc hn; simp [BodyReader.fromRequest, h, hc, hn]
  · intro h hc; rcases hc with hc | hc <;> simp [BodyReader.fromRequest, h, hc]

/-- … so, with `C05_decision`: for well-formed field lines the reader follows the RFC's framing. -/
theorem C05_reader_follows_framing (fs : List (Bytes × Bytes)) (hw : ∀ f ∈ fs, WfRfcLine f = true)
    (lo : Bytes) (src : Src) :
    let h := collect fs
    let b := BodyReader.fromRequest lo src h.chunked h.cl
    (framingOf fs = .chunked → b = BodyReader.newChunked lo src) ∧
    (∀ n, framingOf fs = .fixed n → b = if 0 < n then BodyReader.newFixed lo src n else BodyReader.newEmpty src) ∧
    (framingOf fs = .empty → b = BodyReader.newEmpty src) := by
  intro h b
  obtain ⟨_, d2, d3, d4⟩ := C05_decision fs hw
  refine ⟨?_, ?_, ?_⟩
  · intro hf; exact (C05_reader_choice lo src _ _).1 (d2 hf)
  · intro n hf
    obtain ⟨h1, h2⟩ := d3 n hf
    by_cases hn : 0 < n
    · rw [if_pos hn]; exact (C05_reader_choice lo src _ _).2.1 n h1 h2 hn
    · rw [if_neg hn]
      have : n = 0 := by omega
      subst this
      exact (C05_reader_choice lo src _ _).2.2 h1 (.inr h2)
  · intro hf
    obtain ⟨h1, h2⟩ := d4 hf
    exact (C05_reader_choice lo src _ _).2.2 h1 (.inl h2)

example : (BodyReader.fromRequest [1] { data := [2, 3], segs := [] } (collect c05Chunked).chunked (collect c05Chunked).cl).bound =
    (BodyReader.newChunked [1] { data := [2, 3], segs := [] }).bound := by decide +kernel

/-- Whatever is accepted is not invalidly framed: the head the accepted bytes render (C04) has, when its field
    lines are RFC-valid, a framing other than `invalid`. -/
theorem C05_accepted_not_invalid (bs : Bytes) (r : Request) (h : Request.parse bs = .ok r) :
    ∃ hd : Head, WfStrict hd ∧ render hd = bs.take r.off ∧ r.headers = collect hd.fields ∧
      r.headers.hasInvalidFraming = false ∧
      ((∀ f ∈ hd.fields, WfRfcLine f = true) → framingOf hd.fields ≠ .invalid) := by
  obtain ⟨hd, w, hr, _, _, _, hh⟩ := C04_accepted_is_rendered bs r h
  obtain ⟨m, r1, u, r2, v, r4, hs, r5, _, _, _, _, hf, _, rfl⟩ := (Request.parse_ok_iff bs r).mp h
  refine ⟨hd, w, hr, hh, hf, ?_⟩
  intro hw hinv
  have := (C05_decision hd.fields hw).1.mp hinv
  simp only at hh
  rw [← hh, hf] at this
  cases this

/-- A request head with invalid framing (non-numeric / conflicting Content-Length, Transfer-Encoding not ending
    in chunked) is never accepted, whatever follows it. -/
theorem C05_invalid_rejected (hd : Head) (tail : Bytes) (w : WfStrict hd) (hw : ∀ f ∈ hd.fields, WfRfcLine f = true)
    (hinv : framingOf hd.fields = .invalid) : ∀ r, Request.parse (render hd ++ tail) ≠ .ok r := by
  intro r h
  obtain ⟨hd', w', hr, _, _, hnot⟩ := C05_accepted_not_invalid _ r h
  have e : render hd' ++ (render hd ++ tail).drop r.off = render hd ++ tail := by
    rw [hr]; exact List.take_append_drop _ _
  obtain ⟨rfl, _⟩ := C04_render_injective hd' hd _ _ w' w e
  exact hnot hw hinv

/-- … and when the rest of the head is RFC-valid it is rejected with the header error (→ 400). -/
theorem C05_invalid_is_header_error (h : RfcHead) (tail : Bytes)
    (hm : h.method ≠ [] ∧ ∀ b ∈ h.method, isAlpha b = true) (ht : h.target.Wf = true)
    (hv : h.minor = 0x30 ∨ h.minor = 0x31) (hw : ∀ f ∈ h.fields, WfRfcLine f = true)
    (hinv : framingOf h.fields = .invalid) : Request.parse (render h.toHead ++ tail) = .err .header := by
  let r4 := renderLines h.fields ++ CRLF ++ tail
  let r2 := HTTP1 ++ h.minor :: CR :: LF :: r4
  obtain ⟨u, hu, -⟩ := parseUri_complete h.target ht r2
  have hbuf : render h.toHead ++ tail = h.method ++ SP :: (h.target.bytes ++ SP :: r2) := by
    simp [render, requestLine, CRLF, HTTP1, RfcHead.toHead, r2, r4]
  have hmeth : parseMethod (h.method ++ SP :: (h.target.bytes ++ SP :: r2)) =
      .ok (methodOf h.method, h.target.bytes ++ SP :: r2) :=
    (parseMethod_ok_iff _ _ _).2 ⟨h.method, rfl, fun hsp => isAlpha_ne_SP _ (hm.2 _ hsp) rfl, hm.1, hm.2, rfl⟩
  have hhdr : parseHeaders r4 = .ok (collect h.fields, tail) :=
    (parseHeaders_ok_iff _ _ _).2 ⟨h.fields, rfl, fun l hl' => WfLineCode.of_rfc (hw l hl'), rfl⟩
  have hbad : (collect h.fields).hasInvalidFraming = true := (C05_decision h.fields hw).1.mp hinv
  have hver : ∃ v, parseVersion r2 = .ok (v, CR :: LF :: r4) := by
    rcases hv with hv | hv
    · exact ⟨0, (parseVersion_ok_iff _ _ _).2 (.inl ⟨by simp only [r2, hv], rfl⟩)⟩
    · exact ⟨1, (parseVersion_ok_iff _ _ _).2 (.inr ⟨by simp only [r2, hv], rfl⟩)⟩
  obtain ⟨v, hver⟩ := hver
  rw [Request.parse_eq, hbuf, hmeth]
  simp only [Res.bind_ok, hu, hver, (crlfStep_ok_iff _ _).2 rfl, hhdr, Request.finish, hbad, if_true]

/-- `read_request` reporting InvalidRequestHead is answered with exactly one response, 400 with
    `connection: close`; `handle_one_request` returns "do not keep", the socket is exactly as `read_request` left
    it (no body byte is read), and `handle_connection` ends — closing the connection — after that response. -/
theorem C05_invalid_is_400_close (cfg : Cfg) (s s1 : Sock) (log : RecvLog)
    (h : readRequest cfg.max s = (.error .invalid, s1, log)) :
    let o := handleOne cfg s
    let c := handleConnection cfg s
    o.resps = [BAD_REQUEST] ∧ BAD_REQUEST.status = 400 ∧ BAD_REQUEST.close = true ∧
    o.keep = false ∧ o.hang = false ∧ o.parsed = false ∧ o.sock = s1 ∧
    c.fin = .closed ∧ c.reqs = [(false, [BAD_REQUEST])] ∧ c.resps = [BAD_REQUEST] ∧ c.sock = s1 ∧ c.failed = false := by
  intro o c
  have ho : o = _ := handleOne_err cfg s .invalid s1 log h
  have hc : c = ⟨[(false, [BAD_REQUEST])], .closed, Nat.max 0 o.maxRecv, false, s1⟩ := by
    show connLoop cfg (s.pending.length + 2) s [] 0 = _
    simp only [connLoop]
    rw [show handleOne cfg s = o from rfl, ho]
    simp [errResps, errHang]
  rw [hc, ho]
  exact ⟨rfl, rfl, rfl, rfl, rfl, rfl, rfl, rfl, rfl, rfl, rfl, rfl⟩

/-- End to end: a client sends a head that is RFC-valid except for its framing fields (any segmentation, anything
    after it), the head fits the buffer: the server answers 400 + `connection: close` and closes; no handler
    runs, no hook runs. -/
theorem C05_invalid_framing_400 (cfg : Cfg) (s : Sock) (h : RfcHead) (tail : Bytes)
    (hm : h.method ≠ [] ∧ ∀ b ∈ h.method, isAlpha b = true) (ht : h.target.Wf = true)
    (hv : h.minor = 0x30 ∨ h.minor = 0x31) (hw : ∀ f ∈ h.fields, WfRfcLine f = true)
    (hinv : framingOf h.fields = .invalid)
    (hs : s.pending = render h.toHead ++ tail) (hmax : (render h.toHead).length ≤ cfg.max) :
    (handleConnection cfg s).resps = [BAD_REQUEST] ∧ (handleConnection cfg s).fin = .closed ∧
    (handleConnection cfg s).parsed = 0 := by
  have hp := C05_invalid_is_header_error h [] hm ht hv hw hinv
  rw [List.append_nil] at hp
  have hr : (readRequest cfg.max s).1 = .error .invalid := by
    apply C10_malformed_400 cfg.max s (render h.toHead).length .header hmax
    · rw [hs, List.length_append]; omega
    · rw [hs, List.take_left' rfl]; exact hp
    · decide
  rcases hrr : readRequest cfg.max s with ⟨res, s1, log⟩
  rw [hrr] at hr
  simp only at hr
  subst hr
  obtain ⟨_, _, _, _, _, _, _, h8, h9, h10, _, _⟩ := C05_invalid_is_400_close cfg s s1 log hrr
  refine ⟨h10, h8, ?_⟩
  simp only [ConnOut.parsed] at h9 ⊢
  rw [h9]; rfl

-- non-vacuity: conflicting Content-Length sent in two segments to the harness configuration
def c05Sock : Sock := ⟨[str "POST /echo HTTP/1.1\r\nContent-Length: 5\r\ncontent-", str "length: 6\r\n\r\nhello"], false⟩
example : (readRequest 4096 c05Sock).1.toOption.isNone = true ∧
    (handleConnection (Driver.harnessCfg 4096) c05Sock).resps = [BAD_REQUEST] ∧
    (handleConnection (Driver.harnessCfg 4096) c05Sock).fin = .closed ∧
    (handleConnection (Driver.harnessCfg 4096) c05Sock).sock.pending = [] := by decide +kernel
/-- the same with `Transfer-Encoding: chunked, gzip`; and `Content-Length: 5` + `Transfer-Encoding: chunked` is
    accepted and read as chunked -/
def c05Sock2 : Sock := ⟨[str "POST /echo HTTP/1.1\r\nTransfer-Encoding: chunked, gzip\r\n\r\n"], true⟩
def c05Sock3 : Sock :=
  ⟨[str "POST /echo HTTP/1.1\r\nContent-Length: 5\r\nTRANSFER-encoding:\tChunked \r\n\r\n", str "3\r\nabc\r\n0\r\n\r\n"], true⟩
example : (handleConnection (Driver.harnessCfg 4096) c05Sock2).resps = [BAD_REQUEST] := by decide +kernel
example : (handleConnection (Driver.harnessCfg 4096) c05Sock3).resps = [⟨200, false, str "abc"⟩] := by decide +kernel

/-- Optional whitespace and letter case never change the decision: `framingOf` factors through the normal form
    of the field lines (`normField`, Khttp/Spec/HeaderEval.lean: name lower-cased, the value cut at commas, every
    element stripped of OWS and lower-cased).  Field lists that differ only in the letter case of names / of the
    `chunked` token, or in OWS around values and list elements, are framed the same. -/
theorem C05_ows_case_invariant (fs fs' : List (Bytes × Bytes)) (h : fs.map normField = fs'.map normField) :
    framingOf fs = framingOf fs' :=
  framingOf_norm fs fs' h

/-- … and so is what the server does with them: same `has_invalid_framing()`, and on valid framing the same body
    reader. -/
theorem C05_ows_case_invariant_flags (fs fs' : List (Bytes × Bytes)) (h : fs.map normField = fs'.map normField)
    (hw : ∀ f ∈ fs, WfRfcLine f = true) (hw' : ∀ f ∈ fs', WfRfcLine f = true) (lo : Bytes) (src : Src) :
    (collect fs).hasInvalidFraming = (collect fs').hasInvalidFraming ∧
    ((collect fs).hasInvalidFraming = false →
      BodyReader.fromRequest lo src (collect fs).chunked (collect fs).cl =
        BodyReader.fromRequest lo src (collect fs').chunked (collect fs').cl) := by
  have he := C05_ows_case_invariant fs fs' h
  obtain ⟨a1, _⟩ := C05_decision fs hw
  obtain ⟨b1, _⟩ := C05_decision fs' hw'
  obtain ⟨r1, r2, r3⟩ := C05_reader_follows_framing fs hw lo src
  obtain ⟨s1, s2, s3⟩ := C05_reader_follows_framing fs' hw' lo src
  refine ⟨?_, ?_⟩
  · rw [Bool.eq_iff_iff, ← a1, ← b1, he]
  · intro hv
    cases hf : framingOf fs with
    | invalid => rw [a1.mp hf] at hv; cases hv
    | chunked => rw [r1 hf, s1 (he ▸ hf)]
    | fixed n => rw [r2 n hf, s2 n (he ▸ hf)]
    | empty => rw [r3 hf, s3 (he ▸ hf)]

/-- what has the same normal form: see `C19_normField_eq`, `C19_normElem_variants` (name in another letter case,
    elements padded with OWS / in another letter case).  Concretely: -/
example : [(str "Content-Length", str " 42\t"), (str "TRANSFER-Encoding", str "gzip ,\tCHUNKED ")].map normField =
    [(str "content-length", str "42"), (str "transfer-encoding", str "gzip,chunked")].map normField := by
  decide +kernel
example : framingOf [(str "Content-Length", str " 42\t")] = .fixed 42 ∧
    framingOf [(str "content-length", str "42")] = .fixed 42 ∧
    framingOf [(str "TRANSFER-Encoding", str "gzip ,\tCHUNKED ")] = .chunked := by decide +kernel
/-- (but inner whitespace is not optional: `4 2` is not `42`) -/
example : normField (str "content-length", str "4 2") ≠ normField (str "content-length", str "42") ∧
    framingOf [(str "content-length", str "4 2")] = .invalid := by decide +kernel

end Khttp
