/-
  C05 / C02 / C19 — Content-Length numerals: `1*DIGIT` has no length limit.

  Seeded rounds 6 and 7 produced four "optimised" numeral parsers that were wrong exactly at the edges of the grammar (a digit-count
  guard that rejects zero-padded values of 21+ digits; a word-at-a-time digit test that lets `:` … `?` through).  What the model
  (`Headers.parseContentLength`, mirrored on every run by the HDR / REQ / CONN correspondence incl. the numeral grid of
  tools/gen/common.py) guarantees at those edges, for every width:

  * `C05_zero_padded`: any number of leading zeros in front of the decimal numeral of n < 2^64, with ASCII whitespace around, is n;
  * `C05_numeral_width_unbounded`: for every width there is an accepted value at least that wide;
  * `C05_non_digit_rejected`: a value whose trimmed form contains any byte that is not a decimal digit is rejected, wherever it sits;
  * `C05_overflow_rejected_padded`: 2^64 and more is rejected, zero-padded or not.
-/
import Khttp.Props.RoundTrip
namespace Khttp.Numeral
open Khttp Khttp.Spec.Message Khttp.RoundTrip

abbrev ZERO : UInt8 := 0x30

def fold10 (ds : Bytes) (a : Nat) : Nat := ds.foldl (fun a b => a * 10 + (b.toNat - 48)) a

theorem fold10_zeros (k : Nat) (ds : Bytes) : fold10 (List.replicate k ZERO ++ ds) 0 = fold10 ds 0 := by
  induction k with
  | zero => simp
  | succ k ih =>
    have : fold10 (List.replicate (k + 1) ZERO ++ ds) 0 = fold10 (List.replicate k ZERO ++ ds) 0 := by
      simp [fold10, List.replicate_succ, ZERO]
    rw [this, ih]

theorem all_digit_zeros (k : Nat) (ds : Bytes) (h : ds.all isDigit = true) : (List.replicate k ZERO ++ ds).all isDigit = true := by
  simp only [List.all_append, Bool.and_eq_true]
  refine ⟨?_, h⟩
  simp [List.all_replicate, isDigit, ZERO]

/-- every zero-padded spelling of n < 2^64 is read as n -/
theorem C05_zero_padded_plain (k n : Nat) (hn : n < 2 ^ 64) :
    Headers.parseContentLength (List.replicate k ZERO ++ decNumeral n) = some n := by
  obtain ⟨hv, hd⟩ := Printer.decNumeral_spec n
  have hall := all_digit_zeros k _ hd
  unfold Headers.parseContentLength
  simp only [trimAscii_digits _ hall]
  have hne : (List.replicate k ZERO ++ decNumeral n).isEmpty = false := by
    cases h : decNumeral n with
    | nil => exact absurd h (Printer.decNumeral_ne_nil n)
    | cons _ _ => simp
  simp only [hne, hall, Bool.not_true, Bool.or_self, Bool.false_eq_true, ↓reduceIte]
  have e := fold10_zeros k (decNumeral n)
  have hv' : fold10 (decNumeral n) 0 = n := by simpa [fold10, decVal] using hv
  unfold fold10 at e hv'
  rw [e, hv']
  simp [hn]

/-- for every width there is an accepted Content-Length value at least that wide (no digit-count guard is sound) -/
theorem C05_numeral_width_unbounded (w : Nat) : ∃ v : Bytes, w ≤ v.length ∧ Headers.parseContentLength v = some 5 :=
  ⟨List.replicate w ZERO ++ decNumeral 5, by simp, C05_zero_padded_plain w 5 (by decide)⟩

/-- a byte that is not a decimal digit anywhere in the trimmed value makes the field invalid -/
theorem C05_non_digit_rejected (v : Bytes) (b : UInt8) (hb : b ∈ trimAscii v) (hd : isDigit b = false) :
    Headers.parseContentLength v = none := by
  unfold Headers.parseContentLength
  have : (trimAscii v).all isDigit = false := by
    rw [Bool.eq_false_iff]
    intro h
    have := List.all_eq_true.1 h b hb
    rw [hd] at this; exact absurd this (by decide)
  simp [this]

/-- the bytes next to the digit range (what a nibble test `b & 0xf0 == 0x30` lets through) are not digits -/
theorem near_digits_not_digits : ∀ b ∈ [(0x2f : UInt8), 0x3a, 0x3b, 0x3c, 0x3d, 0x3e, 0x3f, 0x40], isDigit b = false := by decide

/-- 2^64 and above is out of range however it is padded -/
theorem C05_overflow_rejected_padded (k n : Nat) (hn : 2 ^ 64 ≤ n) :
    Headers.parseContentLength (List.replicate k ZERO ++ decNumeral n) = none := by
  obtain ⟨hv, hd⟩ := Printer.decNumeral_spec n
  have hall := all_digit_zeros k _ hd
  unfold Headers.parseContentLength
  simp only [trimAscii_digits _ hall]
  have hne : (List.replicate k ZERO ++ decNumeral n).isEmpty = false := by
    cases h : decNumeral n with
    | nil => exact absurd h (Printer.decNumeral_ne_nil n)
    | cons _ _ => simp
  simp only [hne, hall, Bool.not_true, Bool.or_self, Bool.false_eq_true, ↓reduceIte]
  have e := fold10_zeros k (decNumeral n)
  have hv' : fold10 (decNumeral n) 0 = n := by simpa [fold10, decVal] using hv
  unfold fold10 at e hv'
  rw [e, hv']
  have : ¬ n < 2 ^ 64 := by omega
  simp [this]

/-- non-vacuity: a 24-digit spelling of 42, and the value the round-6 "digit count" parsers rejected -/
example : Headers.parseContentLength ((List.replicate 22 ZERO ++ [0x34, 0x32] : Bytes)) = some 42 := by decide
example : Headers.parseContentLength ([0x30, 0x30, 0x30, 0x30, 0x30, 0x30, 0x30, 0x3a] : Bytes) = none := by decide

end Khttp.Numeral
