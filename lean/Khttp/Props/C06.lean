/-
C06 — "Body decoding yields exactly the payload and never hides truncation."

Everything is stated for the model `Khttp/Model/Body.lean` of `/repo/src/body_reader.rs`, for ALL
  * payloads, chunkings, chunk extensions, trailers (spec: `Khttp/Spec/Chunked.lean`),
  * splits of the input between the already-buffered `leftover` and the stream (`lo ++ stream = …`),
  * lists `segs` of pending TCP segments of the stream (a raw `read` takes from the current segment only),
  * caller schedules `sched` (buffer sizes of successive `read` calls / amounts consumed after each `fill_buf`),
and for both interfaces (`runRead'` = a `Read` caller, `runBuf'` = a `BufRead` caller).

`Yields run data o fail`: the run delivered non-empty pieces whose concatenation is `data`, ended with outcome `o`
(`.eof` = `Ok(0)` / empty `fill_buf`, `.err k` = `Err`), and left the failure flag (`on_failure`) at `fail`.

History: the first version of these proofs found that a chunked body cut inside a chunk-size field after digits
denoting zero (`"0"` of `"05"`) ended cleanly with a short payload; `read_chunk_size` was repaired (a size line without
its LF is `UnexpectedEof`) and the truncation statement now holds at full strength (`C06_truncation_full`).
-/
import Khttp.Lemmas.BodyTop
import Khttp.Lemmas.BodyTrunc
import Khttp.Lemmas.HexRender
import Khttp.Lemmas.BodyFuel
import Khttp.Lemmas.BodyStarve
namespace Khttp.Body
open Khttp Khttp.Spec.Chunked

/-- summary of a run (`runRead'` / `runBuf'`) -/
def Yields (run : List Bytes × Outcome × BodyReader) (data : Bytes) (o : Outcome) (fail : Bool) : Prop :=
  run.1.flatten = data ∧ run.2.1 = o ∧ run.2.2.fail = fail ∧ ∀ c ∈ run.1, c ≠ []

/-- `runRead` / `runBuf` are the first two components of `runRead'` / `runBuf'` -/
theorem runRead_eq' (r : BodyReader) (sched : List Nat) :
    runRead r sched = ((runRead' r sched).1, (runRead' r sched).2.1) := rfl
theorem runBuf_eq' (r : BodyReader) (sched : List Nat) :
    runBuf r sched = ((runBuf' r sched).1, (runBuf' r sched).2.1) := rfl

/-- if everything deliverable from the initial abstract state is `(data, o)`, both interfaces yield exactly that,
under any two schedules -/
theorem yields_both (r : BodyReader) (hfail : r.fail = false) (data : Bytes) (o : Outcome)
    (hP : ∀ p o', Delivers r.abs p o' → p = data ∧ o' = o) (s1 s2 : List Nat) :
    Yields (runRead' r s1) data o o.isErr ∧ Yields (runBuf' r s2) data o o.isErr := by
  obtain ⟨cs, o1, r1, e1, hd1, hf1, hne1⟩ := runRead'_delivers r s1
  obtain ⟨cs2, o2, r2, e2, hd2, hf2, hne2⟩ := runBuf'_delivers r s2
  obtain ⟨a1, a2⟩ := hP _ _ hd1
  obtain ⟨b1, b2⟩ := hP _ _ hd2
  subst a2; subst b2
  refine ⟨?_, ?_⟩
  · rw [e1]; exact ⟨a1, rfl, by simp [hf1, hfail], hne1⟩
  · rw [e2]; exact ⟨b1, rfl, by simp [hf2, hfail], hne2⟩

/-! ## The model's loops never run out of fuel -/

/-- **Fuel adequacy.** For EVERY reader state (any kind of body, any input bytes whatsoever, any split,
segmentation, schedule) neither runner ends with the model artefact `.err .fuel`: all bounded loops of the model
(`read_until`, `read_exact`, the trailer loop, `advance`, `read`, the runners themselves) terminate by themselves. -/
theorem C06_fuel_adequate (r : BodyReader) (sched : List Nat) :
    (runRead r sched).2 ≠ .err .fuel ∧ (runBuf r sched).2 ≠ .err .fuel := by
  obtain ⟨cs, o, r', e, hd, _, _⟩ := runRead'_delivers r sched
  obtain ⟨cs2, o2, r2, e2, hd2, _, _⟩ := runBuf'_delivers r sched
  rw [runRead_eq', runBuf_eq', e, e2]
  exact ⟨delivers_no_fuel hd, delivers_no_fuel hd2⟩

/-- **Failure flag.** For every reader and every run, the flag registered with `on_failure` is set exactly when
the run ends with `Err` (given it was clear before). -/
theorem C06_failure_flag (r : BodyReader) (hfail : r.fail = false) (sched : List Nat) :
    (runRead' r sched).2.2.fail = (runRead' r sched).2.1.isErr ∧
    (runBuf' r sched).2.2.fail = (runBuf' r sched).2.1.isErr := by
  obtain ⟨cs, o, r', e, _, hf, _⟩ := runRead'_delivers r sched
  obtain ⟨cs2, o2, r2, e2, _, hf2, _⟩ := runBuf'_delivers r sched
  rw [e, e2]
  exact ⟨by simp [hf, hfail], by simp [hf2, hfail]⟩

/-! ## Fixed-length bodies -/

/-- **C06 (fixed, exactness).** A `Content-Length: n` body whose `n` payload bytes are available (followed by
anything, e.g. the next pipelined request) is delivered exactly, then end-of-body, through both interfaces, for
every split, segmentation and schedule; the failure flag stays clear. (`n = 0` uses the `Empty` reader.) -/
theorem C06_fixed_exact (payload extra lo stream : Bytes) (segs s1 s2 : List Nat)
    (hsplit : lo ++ stream = encodeFixed payload ++ extra) :
    let r := BodyReader.fromRequest lo { data := stream, segs := segs } false (some payload.length)
    Yields (runRead' r s1) payload .eof false ∧ Yields (runBuf' r s2) payload .eof false := by
  intro r
  by_cases h0 : 0 < payload.length
  · have hr : r = BodyReader.newFixed lo { data := stream, segs := segs } payload.length := by
      simp [r, BodyReader.fromRequest, h0]
    rw [hr]
    apply yields_both _ rfl payload .eof
    intro p o hd
    rw [newFixed_abs] at hd
    simp only [hsplit, encodeFixed, List.take_left'] at hd
    have := delivers_fixed _ _ _ _ _ rfl (Nat.le_refl _) hd
    simpa using this
  · have hp : payload = [] := List.length_eq_zero_iff.mp (by omega)
    have hr : r = BodyReader.newEmpty { data := stream, segs := segs } := by simp [r, BodyReader.fromRequest, hp]
    rw [hr, hp]
    apply yields_both _ rfl [] .eof
    intro p o hd
    exact delivers_stop (by simp [newEmpty_abs, nextB]) hd

/-- the state of the input after a complete fixed body has been read: nothing is buffered, and what remains of
`leftover ++ stream` is exactly what followed the payload -/
def FixedDone (r' : BodyReader) (extra : Bytes) : Prop :=
  ∃ f, r'.enc = .fixed f ∧ f.remaining = 0 ∧ f.inner.buf = [] ∧ f.inner.inner.inner.lo ++ f.inner.inner.inner.src.data = extra

private theorem fixedDone_of_Q {lo stream payload extra : Bytes} {r' : BodyReader} {d : Bytes}
    (hsplit : lo ++ stream = payload ++ extra) (hd : d = payload)
    (hq : FixedQ (lo ++ stream) payload.length r' d) : FixedDone r' extra := by
  obtain ⟨f, he, hb, ht, hn⟩ := hq
  subst hd
  have hr : f.remaining = 0 := by omega
  unfold FixedReader.Balanced at hb
  have hbuf : f.inner.buf = [] := List.length_eq_zero_iff.mp (by omega)
  refine ⟨f, he, hr, hbuf, ?_⟩
  rw [hsplit] at ht
  have := List.append_cancel_left ht
  simpa [FixedReader.tot, hbuf, Take.total, Swl.content] using this

/-- **C06 (fixed, no over-read).** With the `Take` wrapper the fixed reader removes from `leftover ++ stream`
exactly the payload: after the run nothing is left in its buffer and the rest of the leftover followed by the rest of
the stream is exactly `extra` (the bytes pulled from the raw stream are the payload bytes that were not in `leftover`,
not one more). Both interfaces. -/
theorem C06_fixed_no_overread (payload extra lo stream : Bytes) (segs s1 s2 : List Nat) (hne : payload ≠ [])
    (hsplit : lo ++ stream = encodeFixed payload ++ extra) :
    let r := BodyReader.newFixed lo { data := stream, segs := segs } payload.length
    FixedDone (runRead' r s1).2.2 extra ∧ FixedDone (runBuf' r s2).2.2 extra := by
  intro r
  have hfr : BodyReader.fromRequest lo { data := stream, segs := segs } false (some payload.length) = r := by
    have : 0 < payload.length := List.length_pos_iff.mpr hne
    simp [r, BodyReader.fromRequest, this]
  obtain ⟨⟨a1, a2, _, _⟩, ⟨b1, b2, _, _⟩⟩ := C06_fixed_exact payload extra lo stream segs s1 s2 hsplit
  rw [hfr] at a1 a2 b1 b2
  have hq0 := newFixed_fixedQ lo { data := stream, segs := segs } payload.length
  constructor
  · rcases hrun : runRead' r s1 with ⟨cs, o, r'⟩
    rw [hrun] at a1 a2
    simp only at a1 a2; subst a2
    have := runReadLoop_inv _ (fixedQ_read (lo ++ stream) payload.length) _ r s1 defaultReadSize [] cs r'
      (by simpa using hq0) hrun
    exact fixedDone_of_Q hsplit a1 this
  · rcases hrun : runBuf' r s2 with ⟨cs, o, r'⟩
    rw [hrun] at b1 b2
    simp only at b1 b2; subst b2
    have := runBufLoop_inv _ (fixedQ_fillBuf (lo ++ stream) payload.length) _ r s2 defaultReadSize [] cs r'
      (by simpa using hq0) hrun
    exact fixedDone_of_Q hsplit b1 this

/-- **C06 (fixed, truncation).** If the input ends before `n` bytes, every available byte is delivered and then the
reader reports `UnexpectedEof` (never a clean end); the failure flag is set. Both interfaces. -/
theorem C06_fixed_truncated (n : Nat) (lo stream : Bytes) (segs s1 s2 : List Nat)
    (hshort : (lo ++ stream).length < n) :
    let r := BodyReader.newFixed lo { data := stream, segs := segs } n
    Yields (runRead' r s1) (lo ++ stream) (.err .unexpectedEof) true ∧
    Yields (runBuf' r s2) (lo ++ stream) (.err .unexpectedEof) true := by
  intro r
  apply yields_both _ rfl (lo ++ stream) (.err .unexpectedEof)
  intro p o hd
  rw [newFixed_abs] at hd
  simp only [List.take_of_length_le (Nat.le_of_lt hshort)] at hd
  have := delivers_fixed _ _ _ _ _ rfl (Nat.le_of_lt hshort) hd
  have hne : ¬ (lo ++ stream).length = n := by omega
  rw [if_neg hne] at this
  exact this

/-! ## Chunked bodies: exactness -/

/-- **C06 (chunked, exactness, general form).** For every valid chunked encoding — any chunk sizes written as any
hexadecimal numerals (upper/lower case, leading zeros), any ASCII chunk extensions, any trailer lines — followed by
anything, the reader delivers exactly the concatenation of the chunk data and then end-of-body, through both
interfaces, for every split, segmentation and schedule; the failure flag stays clear.
(`usizeLimit = 2^64`: chunk lengths fit `usize`.) -/
theorem C06_chunked_exact_general (cs : List Chunk) (ls : Bytes) (le : Option Bytes) (ts : List Bytes)
    (hv : Valid cs ls le ts) (hsz : ∀ c ∈ cs, c.data.length < usizeLimit)
    (extra lo stream : Bytes) (segs s1 s2 : List Nat) (hsplit : lo ++ stream = encode cs ls le ts ++ extra) :
    let r := BodyReader.newChunked lo { data := stream, segs := segs }
    Yields (runRead' r s1) (payload cs) .eof false ∧ Yields (runBuf' r s2) (payload cs) .eof false := by
  intro r
  apply yields_both _ rfl (payload cs) .eof
  intro p o hd
  rw [newChunked_abs] at hd
  simp only [hsplit] at hd
  exact delivers_exact extra hv hsz (Or.inl ⟨rfl, rfl⟩) hd

/-- **C06 (chunked, exactness).** The simple interface of the spec: payload pieces `chunks` (each non-empty),
extension texts `exts`, trailer lines `trailers`, sizes rendered by ANY function `hexOf` producing a hexadecimal
numeral of its argument. -/
theorem C06_chunked_exact (hexOf : Nat → Bytes) (hhex : ∀ n, numeral? (hexOf n) = some n)
    (chunks exts trailers : List Bytes) (hne : ∀ d ∈ chunks, d ≠ []) (hlen : ∀ d ∈ chunks, d.length < usizeLimit)
    (hexts : ∀ x ∈ exts, lineText x = true) (htr : ∀ t ∈ trailers, trailerOk t = true)
    (extra lo stream : Bytes) (segs s1 s2 : List Nat)
    (hsplit : lo ++ stream = encodeChunkedWith hexOf chunks exts trailers ++ extra) :
    let r := BodyReader.newChunked lo { data := stream, segs := segs }
    Yields (runRead' r s1) chunks.flatten .eof false ∧ Yields (runBuf' r s2) chunks.flatten .eof false := by
  intro r
  have hv := valid_mkChunks hexOf hhex chunks exts trailers hne hexts htr
  have hsz : ∀ c ∈ mkChunks hexOf chunks exts, c.data.length < usizeLimit := fun c hc =>
    hlen _ (mkChunks_valid hexOf hhex chunks exts hne hexts c hc).2
  have := C06_chunked_exact_general _ _ _ _ hv hsz extra lo stream segs s1 s2 hsplit
  rw [payload_mkChunks] at this
  exact this

/-- lower-case canonical sizes (`encodeChunked`) -/
theorem C06_chunked_exact_lower (chunks exts trailers : List Bytes) (hne : ∀ d ∈ chunks, d ≠ [])
    (hlen : ∀ d ∈ chunks, d.length < usizeLimit) (hexts : ∀ x ∈ exts, lineText x = true)
    (htr : ∀ t ∈ trailers, trailerOk t = true) (extra lo stream : Bytes) (segs s1 s2 : List Nat)
    (hsplit : lo ++ stream = encodeChunked chunks exts trailers ++ extra) :
    let r := BodyReader.newChunked lo { data := stream, segs := segs }
    Yields (runRead' r s1) chunks.flatten .eof false ∧ Yields (runBuf' r s2) chunks.flatten .eof false :=
  C06_chunked_exact hexLower numeral?_hexLower chunks exts trailers hne hlen hexts htr extra lo stream segs s1 s2 hsplit

/-- upper-case canonical sizes -/
theorem C06_chunked_exact_upper (chunks exts trailers : List Bytes) (hne : ∀ d ∈ chunks, d ≠ [])
    (hlen : ∀ d ∈ chunks, d.length < usizeLimit) (hexts : ∀ x ∈ exts, lineText x = true)
    (htr : ∀ t ∈ trailers, trailerOk t = true) (extra lo stream : Bytes) (segs s1 s2 : List Nat)
    (hsplit : lo ++ stream = encodeChunkedWith hexUpper chunks exts trailers ++ extra) :
    let r := BodyReader.newChunked lo { data := stream, segs := segs }
    Yields (runRead' r s1) chunks.flatten .eof false ∧ Yields (runBuf' r s2) chunks.flatten .eof false :=
  C06_chunked_exact hexUpper numeral?_hexUpper chunks exts trailers hne hlen hexts htr extra lo stream segs s1 s2 hsplit

/-- **C06 (API agreement).** On a valid body (fixed or chunked) the `Read` and the `BufRead` interface deliver the
same bytes and the same outcome — even under different schedules, splits and segmentations. -/
theorem C06_api_agree_chunked (cs : List Chunk) (ls : Bytes) (le : Option Bytes) (ts : List Bytes)
    (hv : Valid cs ls le ts) (hsz : ∀ c ∈ cs, c.data.length < usizeLimit)
    (extra lo stream lo' stream' : Bytes) (segs segs' s1 s2 : List Nat)
    (hsplit : lo ++ stream = encode cs ls le ts ++ extra) (hsplit' : lo' ++ stream' = encode cs ls le ts ++ extra) :
    (runRead (BodyReader.newChunked lo { data := stream, segs := segs }) s1).1.flatten =
      (runBuf (BodyReader.newChunked lo' { data := stream', segs := segs' }) s2).1.flatten ∧
    (runRead (BodyReader.newChunked lo { data := stream, segs := segs }) s1).2 =
      (runBuf (BodyReader.newChunked lo' { data := stream', segs := segs' }) s2).2 := by
  obtain ⟨⟨a1, a2, _, _⟩, _⟩ := C06_chunked_exact_general cs ls le ts hv hsz extra lo stream segs s1 s2 hsplit
  obtain ⟨_, ⟨b1, b2, _, _⟩⟩ := C06_chunked_exact_general cs ls le ts hv hsz extra lo' stream' segs' s1 s2 hsplit'
  rw [runRead_eq', runBuf_eq']
  exact ⟨by rw [a1, b1], by rw [a2, b2]⟩

theorem C06_api_agree_fixed (payload extra lo stream lo' stream' : Bytes) (segs segs' s1 s2 : List Nat)
    (hsplit : lo ++ stream = encodeFixed payload ++ extra) (hsplit' : lo' ++ stream' = encodeFixed payload ++ extra) :
    (runRead (BodyReader.fromRequest lo { data := stream, segs := segs } false (some payload.length)) s1).1.flatten =
      (runBuf (BodyReader.fromRequest lo' { data := stream', segs := segs' } false (some payload.length)) s2).1.flatten ∧
    (runRead (BodyReader.fromRequest lo { data := stream, segs := segs } false (some payload.length)) s1).2 =
      (runBuf (BodyReader.fromRequest lo' { data := stream', segs := segs' } false (some payload.length)) s2).2 := by
  obtain ⟨⟨a1, a2, _, _⟩, _⟩ := C06_fixed_exact payload extra lo stream segs s1 s2 hsplit
  obtain ⟨_, ⟨b1, b2, _, _⟩⟩ := C06_fixed_exact payload extra lo' stream' segs' s1 s2 hsplit'
  rw [runRead_eq', runBuf_eq']
  exact ⟨by rw [a1, b1], by rw [a2, b2]⟩

/-! ## Complete bodies never make the reader touch the end of the stream -/

/-- if no `read` / `fill_buf` along any run from the initial abstract state can run into the end of the content,
the raw stream is never read at its end (`Src.starved` keeps its value), for both interfaces -/
theorem not_starved_both (r : BodyReader) (hf : AllFed r.abs) (s1 s2 : List Nat) :
    (runRead' r s1).2.2.src.starved = r.src.starved ∧ (runBuf' r s2).2.2.src.starved = r.src.starved :=
  ⟨runReadLoop_starved _ r s1 defaultReadSize [] (by decide) hf,
   runBufLoop_starved _ r s2 defaultReadSize [] (by decide) hf⟩

/-- **C06 (no read at the end of the stream).** A complete fixed body, and a complete valid chunked body —
followed by anything OR BY NOTHING (`extra = []`) — is read without a single `read` on the raw stream finding it at
its end: after the run (either interface, any split, any pending TCP segments, any schedule) the ghost flag
`Src.starved` is still `false`. On a socket this means: the reader never blocks waiting for bytes beyond the body and
never observes EOF. (Fixed: thanks to `Take`; chunked: every `read_line` / `read_exact` / data read finds what it
needs in the remaining encoding, and nothing is read after the final CRLF.) -/
theorem C06_exact_not_starved :
    (∀ (payload extra lo stream : Bytes) (segs s1 s2 : List Nat), lo ++ stream = encodeFixed payload ++ extra →
      let r := BodyReader.fromRequest lo { data := stream, segs := segs } false (some payload.length)
      (runRead' r s1).2.2.src.starved = false ∧ (runBuf' r s2).2.2.src.starved = false) ∧
    (∀ (cs : List Chunk) (ls : Bytes) (le : Option Bytes) (ts : List Bytes), Valid cs ls le ts →
      (∀ c ∈ cs, c.data.length < usizeLimit) →
      ∀ (extra lo stream : Bytes) (segs s1 s2 : List Nat), lo ++ stream = encode cs ls le ts ++ extra →
      let r := BodyReader.newChunked lo { data := stream, segs := segs }
      (runRead' r s1).2.2.src.starved = false ∧ (runBuf' r s2).2.2.src.starved = false) := by
  refine ⟨?_, ?_⟩
  · intro payload extra lo stream segs s1 s2 hsplit r
    by_cases h0 : 0 < payload.length
    · have hr : r = BodyReader.newFixed lo { data := stream, segs := segs } payload.length := by
        simp [r, BodyReader.fromRequest, h0]
      rw [hr]
      apply not_starved_both
      rw [newFixed_abs]
      simp only [hsplit, encodeFixed, List.take_left']
      exact allFed_fixed _ _ _ rfl rfl
    · have hp : payload = [] := List.length_eq_zero_iff.mp (by omega)
      have hr : r = BodyReader.newEmpty { data := stream, segs := segs } := by
        simp [r, BodyReader.fromRequest, hp]
      rw [hr]
      apply not_starved_both
      exact .stop (o := .eof) (by simp [newEmpty_abs, nextB]) (by simp [newEmpty_abs, touchB])
  · intro cs ls le ts hv hsz extra lo stream segs s1 s2 hsplit r
    apply not_starved_both
    rw [newChunked_abs]
    simp only [hsplit]
    exact allFed_exact extra hv hsz (Or.inl ⟨rfl, rfl⟩)

/-- e.g. the demo body with NOTHING after it, delivered one TCP segment of 1 byte at a time -/
example : (runRead' (BodyReader.newChunked [] { data := str "5\r\nhello\r\n0\r\n\r\n", segs := List.replicate 15 1 })
    [1]).2.2.src.starved = false := by decide +kernel
/-- … whereas a truncated body does run into the end -/
example : (runRead' (BodyReader.newChunked [] { data := str "5\r\nhel", segs := [] }) [1]).2.2.src.starved = true := by
  decide +kernel
/-- segment semantics: a read of 2 bytes from a 3-byte segment leaves 1 byte of it pending -/
example : (Src.read { data := str "abcdef", segs := [3, 2] } 2).2.segs = [1, 2] := by decide +kernel

/-! ## Chunked bodies: malformed framing -/

/-- **C06 (malformed size line).** After any number of valid chunks, a size line whose size field `f` (the text
before `;` / CRLF) is empty or contains a byte that is not a hexadecimal digit is rejected with `InvalidData`; exactly
the payload of the preceding chunks has been delivered (a prefix of the payload — nothing altered), the failure
flag is set. Both interfaces. -/
theorem C06_malformed_size (cs : List Chunk) (hv : ∀ c ∈ cs, c.Valid) (hsz : ∀ c ∈ cs, c.data.length < usizeLimit)
    (f : Bytes) (ext : Option Bytes) (rest lo stream : Bytes) (segs s1 s2 : List Nat)
    (hf : fieldText f) (hbad : f = [] ∨ f.all isHexDigit = false) (he : extNoLF ext)
    (hsplit : lo ++ stream = encodeChunks cs ++ (sizeLine f ext ++ rest)) :
    let r := BodyReader.newChunked lo { data := stream, segs := segs }
    Yields (runRead' r s1) (payload cs) (.err .invalidData) true ∧
    Yields (runBuf' r s2) (payload cs) (.err .invalidData) true := by
  intro r
  apply yields_both _ rfl (payload cs) (.err .invalidData)
  intro p o hd
  rw [newChunked_abs] at hd
  simp only [hsplit] at hd
  exact delivers_bad_size cs f ext rest (fun c hc => ⟨hv c hc, hsz c hc⟩) hf hbad he (Or.inl ⟨rfl, rfl⟩) hd

/-- **C06 (missing CRLF after chunk data).** If the data of a chunk is not followed by CRLF (`y` = whatever follows),
the payload up to and including that chunk is delivered and then an error is reported (`InvalidData`, or
`UnexpectedEof` when fewer than two bytes follow); the failure flag is set. Both interfaces. -/
theorem C06_malformed_crlf (cs : List Chunk) (c : Chunk) (hv : ∀ c' ∈ cs, c'.Valid)
    (hsz : ∀ c' ∈ cs, c'.data.length < usizeLimit) (hc : c.Valid) (hcl : c.data.length < usizeLimit)
    (y lo stream : Bytes) (segs s1 s2 : List Nat) (hy : y.take 2 ≠ [CR, LF])
    (hsplit : lo ++ stream = encodeChunks cs ++ (sizeLine c.size c.ext ++ c.data ++ y)) :
    let r := BodyReader.newChunked lo { data := stream, segs := segs }
    let e : IoErr := if y.length < 2 then .unexpectedEof else .invalidData
    Yields (runRead' r s1) (payload cs ++ c.data) (.err e) true ∧
    Yields (runBuf' r s2) (payload cs ++ c.data) (.err e) true := by
  intro r e
  apply yields_both _ rfl (payload cs ++ c.data) (.err e)
  intro p o hd
  rw [newChunked_abs] at hd
  simp only [hsplit] at hd
  exact delivers_bad_crlf cs c y (fun c' hc' => ⟨hv c' hc', hsz c' hc'⟩) ⟨hc, hcl⟩ hy (Or.inl ⟨rfl, rfl⟩) hd

/-! ## Chunked bodies: truncation -/

/-- Classification of what a reader may do on the truncated input `pre` (a prefix of the valid body with data
chunks `cs` and last-chunk line `sizeLine ls le` = `0[;ext]CRLF`), in terms of the delivered bytes `p` and the
outcome `o`:
* `p` is always a prefix of the payload (never altered);
* if all data chunks and the COMPLETE last-chunk line arrived (the cut lies in the trailer section or the final
  CRLF, or nothing is cut): clean end, FULL payload;
* otherwise: `UnexpectedEof`. -/
def TruncClass (cs : List Chunk) (ls : Bytes) (le : Option Bytes) (pre p : Bytes) (o : Outcome) : Prop :=
  p <+: payload cs ∧
  ((encodeChunks cs).length + (sizeLine ls le).length ≤ pre.length → o = .eof ∧ p = payload cs) ∧
  (pre.length < (encodeChunks cs).length + (sizeLine ls le).length → o = .err .unexpectedEof)

/-- **C06 (chunked, truncation — exact classification).** For every prefix `pre` of every valid chunked body, given
as total input under any split, segmentation and schedule, both interfaces behave as `TruncClass` says; the failure
flag is set iff the run ended in an error. -/
theorem C06_chunked_truncation (cs : List Chunk) (ls : Bytes) (le : Option Bytes) (ts : List Bytes)
    (hv : Valid cs ls le ts) (hsz : ∀ c ∈ cs, c.data.length < usizeLimit)
    (pre lo stream : Bytes) (segs s1 s2 : List Nat) (hpre : pre <+: encode cs ls le ts) (hsplit : lo ++ stream = pre) :
    let r := BodyReader.newChunked lo { data := stream, segs := segs }
    (∃ cs1 o r', runRead' r s1 = (cs1, o, r') ∧ TruncClass cs ls le pre cs1.flatten o ∧ r'.fail = o.isErr) ∧
    (∃ cs2 o r', runBuf' r s2 = (cs2, o, r') ∧ TruncClass cs ls le pre cs2.flatten o ∧ r'.fail = o.isErr) := by
  intro r
  have hP : ∀ p o, Delivers r.abs p o → TruncClass cs ls le pre p o := by
    intro p o hd
    rw [newChunked_abs] at hd
    simp only [hsplit] at hd
    exact delivers_truncated ls le ts hv.last hv.lastExt hv.trailers cs pre _ p o
      (fun c hc => ⟨hv.chunks c hc, hsz c hc⟩) hpre (Or.inl ⟨rfl, rfl⟩) hd
  obtain ⟨⟨c1, o1, r1, e1, p1, f1, _⟩, _⟩ := run_both r _ hP s1
  obtain ⟨_, ⟨c2', o2', r2', e2', p2', f2', _⟩⟩ := run_both r _ hP s2
  exact ⟨⟨c1, o1, r1, e1, p1, by simpa [r, BodyReader.newChunked] using f1⟩,
         ⟨c2', o2', r2', e2', p2', by simpa [r, BodyReader.newChunked] using f2'⟩⟩

/-- The full statement of "truncation is never hidden" for the chunked reader: every PROPER prefix of a valid body
either ends in an error or has delivered the full payload before ending (both interfaces). -/
def C06_truncation_full_stmt : Prop :=
  ∀ (cs : List Chunk) (ls : Bytes) (le : Option Bytes) (ts : List Bytes), Valid cs ls le ts →
    (∀ c ∈ cs, c.data.length < usizeLimit) →
    ∀ (pre : Bytes), pre <+: encode cs ls le ts → pre ≠ encode cs ls le ts →
    ∀ (lo stream : Bytes) (segs s1 s2 : List Nat), lo ++ stream = pre →
      let r := BodyReader.newChunked lo { data := stream, segs := segs }
      ((∃ e, (runRead r s1).2 = .err e) ∨ (runRead r s1).1.flatten = payload cs) ∧
      ((∃ e, (runBuf r s2).2 = .err e) ∨ (runBuf r s2).1.flatten = payload cs)

/-- **C06 (chunked, truncation — full strength).** Holds for the repaired `read_chunk_size` (a size line cut off by
the end of the stream is `UnexpectedEof`, never a size). More precisely the error is always `UnexpectedEof`, and a
proper prefix ends cleanly (with the full payload) exactly when the cut lies after the complete last-chunk line. -/
theorem C06_truncation_full : C06_truncation_full_stmt := by
  intro cs ls le ts hv hsz pre hpre _ lo stream segs s1 s2 hsplit r
  obtain ⟨⟨c1, o1, r1, e1, ⟨_, t2, t3⟩, _⟩, ⟨c2, o2, r2, e2, ⟨_, u2, u3⟩, _⟩⟩ :=
    C06_chunked_truncation cs ls le ts hv hsz pre lo stream segs s1 s2 hpre hsplit
  rw [runRead_eq', runBuf_eq', e1, e2]
  simp only
  by_cases hlen : (encodeChunks cs).length + (sizeLine ls le).length ≤ pre.length
  · exact ⟨Or.inr (t2 hlen).2, Or.inr (u2 hlen).2⟩
  · exact ⟨Or.inl ⟨_, t3 (by omega)⟩, Or.inl ⟨_, u3 (by omega)⟩⟩

/-- the former defect (`"0"` cut off from `"05\r\nhello\r\n0\r\n\r\n"`) is now reported, for every
segmentation and schedule, through both interfaces -/
def demoZ : List Chunk := [{ size := [0x30, 0x35], ext := none, data := [0x68, 0x65, 0x6c, 0x6c, 0x6f] }]

theorem demoZ_valid : Valid demoZ [0x30] none [] where
  chunks := by
    intro c hc
    simp only [demoZ, List.mem_singleton] at hc
    subst hc
    exact ⟨by decide, by decide +kernel, rfl⟩
  last := by decide +kernel
  lastExt := rfl
  trailers := by intro t ht; simp at ht

theorem C06_zero_cut_reported (segs s1 s2 : List Nat) :
    let r := BodyReader.newChunked [] { data := [0x30], segs := segs }
    (runRead r s1).2 = .err .unexpectedEof ∧ (runBuf r s2).2 = .err .unexpectedEof := by
  intro r
  obtain ⟨⟨c1, o1, r1, e1, ⟨_, _, t3⟩, _⟩, ⟨c2, o2, r2, e2, ⟨_, _, u3⟩, _⟩⟩ :=
    C06_chunked_truncation demoZ [0x30] none [] demoZ_valid (by intro c hc; simp [demoZ] at hc; subst hc; decide)
      [0x30] [] [0x30] segs s1 s2 ⟨_, rfl⟩ rfl
  rw [runRead_eq', runBuf_eq', e1, e2]
  exact ⟨t3 (by decide +kernel), u3 (by decide +kernel)⟩

example : runRead (BodyReader.newChunked [] { data := [0x30], segs := [] }) [] = ([], .err .unexpectedEof) := by decide +kernel
example : runBuf (BodyReader.newChunked [] { data := [0x30], segs := [] }) [] = ([], .err .unexpectedEof) := by decide +kernel

/-! ## The property under the names of the work order -/

/-- **C06_api_agree** = `C06_api_agree_fixed` ∧ `C06_api_agree_chunked` (same split on both sides) -/
theorem C06_api_agree :
    (∀ (payload extra lo stream : Bytes) (segs s1 s2 : List Nat), lo ++ stream = encodeFixed payload ++ extra →
      let r := BodyReader.fromRequest lo { data := stream, segs := segs } false (some payload.length)
      (runRead r s1).1.flatten = (runBuf r s2).1.flatten ∧ (runRead r s1).2 = (runBuf r s2).2) ∧
    (∀ (cs : List Chunk) (ls : Bytes) (le : Option Bytes) (ts : List Bytes), Valid cs ls le ts →
      (∀ c ∈ cs, c.data.length < usizeLimit) →
      ∀ (extra lo stream : Bytes) (segs s1 s2 : List Nat), lo ++ stream = encode cs ls le ts ++ extra →
      let r := BodyReader.newChunked lo { data := stream, segs := segs }
      (runRead r s1).1.flatten = (runBuf r s2).1.flatten ∧ (runRead r s1).2 = (runBuf r s2).2) :=
  ⟨fun payload extra lo stream segs s1 s2 h =>
      C06_api_agree_fixed payload extra lo stream lo stream segs segs s1 s2 h h,
   fun cs ls le ts hv hsz extra lo stream segs s1 s2 h =>
      C06_api_agree_chunked cs ls le ts hv hsz extra lo stream lo stream segs segs s1 s2 h h⟩

/-- **C06_truncation_not_hidden**: a fixed body that ends early always ends in `UnexpectedEof`; every proper prefix
of a valid chunked body ends in `UnexpectedEof` unless the full payload had been delivered (which happens exactly
when the cut lies after the complete last-chunk line `0[;ext]CRLF`, see `C06_chunked_truncation`). -/
theorem C06_truncation_not_hidden :
    (∀ (n : Nat) (lo stream : Bytes) (segs s1 s2 : List Nat), (lo ++ stream).length < n →
      let r := BodyReader.newFixed lo { data := stream, segs := segs } n
      (runRead r s1).2 = .err .unexpectedEof ∧ (runBuf r s2).2 = .err .unexpectedEof) ∧
    C06_truncation_full_stmt := by
  refine ⟨?_, C06_truncation_full⟩
  intro n lo stream segs s1 s2 h r
  obtain ⟨⟨_, a, _, _⟩, ⟨_, b, _, _⟩⟩ := C06_fixed_truncated n lo stream segs s1 s2 h
  rw [runRead_eq', runBuf_eq']
  exact ⟨a, b⟩

/-- **C06_malformed_rejected** = `C06_malformed_size` ∧ `C06_malformed_crlf`, reduced to "error, and the delivered
bytes are a prefix of the payload sent so far" -/
theorem C06_malformed_rejected :
    (∀ (cs : List Chunk), (∀ c ∈ cs, c.Valid) → (∀ c ∈ cs, c.data.length < usizeLimit) →
      ∀ (f : Bytes) (ext : Option Bytes) (rest lo stream : Bytes) (segs s1 s2 : List Nat),
      fieldText f → (f = [] ∨ f.all isHexDigit = false) → extNoLF ext →
      lo ++ stream = encodeChunks cs ++ (sizeLine f ext ++ rest) →
      let r := BodyReader.newChunked lo { data := stream, segs := segs }
      ((runRead r s1).2 = .err .invalidData ∧ (runRead r s1).1.flatten = payload cs) ∧
      ((runBuf r s2).2 = .err .invalidData ∧ (runBuf r s2).1.flatten = payload cs)) ∧
    (∀ (cs : List Chunk) (c : Chunk), (∀ c' ∈ cs, c'.Valid) → (∀ c' ∈ cs, c'.data.length < usizeLimit) →
      c.Valid → c.data.length < usizeLimit →
      ∀ (y lo stream : Bytes) (segs s1 s2 : List Nat), y.take 2 ≠ [CR, LF] →
      lo ++ stream = encodeChunks cs ++ (sizeLine c.size c.ext ++ c.data ++ y) →
      let r := BodyReader.newChunked lo { data := stream, segs := segs }
      ((∃ e, (runRead r s1).2 = .err e) ∧ (runRead r s1).1.flatten = payload cs ++ c.data) ∧
      ((∃ e, (runBuf r s2).2 = .err e) ∧ (runBuf r s2).1.flatten = payload cs ++ c.data)) := by
  refine ⟨?_, ?_⟩
  · intro cs hv hsz f ext rest lo stream segs s1 s2 hf hbad he hsplit r
    obtain ⟨⟨a1, a2, _, _⟩, ⟨b1, b2, _, _⟩⟩ :=
      C06_malformed_size cs hv hsz f ext rest lo stream segs s1 s2 hf hbad he hsplit
    rw [runRead_eq', runBuf_eq']
    exact ⟨⟨a2, a1⟩, ⟨b2, b1⟩⟩
  · intro cs c hv hsz hc hcl y lo stream segs s1 s2 hy hsplit r
    obtain ⟨⟨a1, a2, _, _⟩, ⟨b1, b2, _, _⟩⟩ :=
      C06_malformed_crlf cs c hv hsz hc hcl y lo stream segs s1 s2 hy hsplit
    rw [runRead_eq', runBuf_eq']
    exact ⟨⟨⟨_, a2⟩, a1⟩, ⟨⟨_, b2⟩, b1⟩⟩

/-! ## Non-vacuity: concrete instances (all evaluated by the kernel) -/

section Examples

/-- two chunks (`hello` with extension `x=y`, `abc`), one trailer, followed by the start of the next request -/
def demoChunks : List Bytes := [str "hello", str "abc"]
def demoExts : List Bytes := [str "x=y"]
def demoTrailers : List Bytes := [str "T: v"]
def demoExtra : Bytes := str "NEXT"
def demoEnc : Bytes := encodeChunked demoChunks demoExts demoTrailers

example : demoEnc ++ demoExtra = str "5;x=y\r\nhello\r\n3\r\nabc\r\n0\r\nT: v\r\n\r\nNEXT" := by decide +kernel

/-- leftover = `"5;"` (split in the middle of the first size line), the rest arrives one byte per `read` on the
stream, the caller reads one byte at a time -/
def demoLo : Bytes := (demoEnc ++ demoExtra).take 2
def demoStream : Bytes := (demoEnc ++ demoExtra).drop 2
def demoReader : BodyReader := BodyReader.newChunked demoLo { data := demoStream, segs := List.replicate 40 1 }

example : runRead demoReader [1] =
    ([[0x68], [0x65], [0x6c], [0x6c], [0x6f], [0x61], [0x62], [0x63]], .eof) := by decide +kernel
example : runBuf demoReader [1] =
    ([[0x68], [0x65], [0x6c], [0x6c], [0x6f], [0x61], [0x62], [0x63]], .eof) := by decide +kernel
/-- larger reads never cross a chunk boundary -/
example : runRead (BodyReader.newChunked demoLo { data := demoStream, segs := [] }) [] = ([str "hello", str "abc"], .eof) := by
  decide +kernel
/-- with 1-byte segments the chunked reader stops pulling exactly at the end of the body (4 bytes `NEXT` remain) -/
example : (runRead' demoReader [1]).2.2.src.data = str "NEXT" := by decide +kernel

/-- the demo satisfies the hypotheses of `C06_chunked_exact_lower` -/
example :
    Yields (runRead' demoReader [1]) demoChunks.flatten .eof false ∧
    Yields (runBuf' demoReader [1]) demoChunks.flatten .eof false :=
  C06_chunked_exact_lower demoChunks demoExts demoTrailers (by decide +kernel) (by decide +kernel)
    (by decide +kernel) (by decide +kernel) demoExtra demoLo demoStream (List.replicate 40 1) [1] [1]
    (by simp [demoLo, demoStream, demoEnc])

/-- upper-case sizes with leading zeros and a last-chunk extension: an instance of the general form -/
def demoG : List Chunk := [{ size := str "00A", ext := some (str "q;r=\"s\""), data := str "0123456789" }]
example : Valid demoG (str "000") (some (str "fin")) [str "A: b", str "C:"] where
  chunks := by
    intro c hc
    simp only [demoG, List.mem_singleton] at hc
    subst hc
    exact ⟨by decide +kernel, by decide +kernel, by decide +kernel⟩
  last := by decide +kernel
  lastExt := by decide +kernel
  trailers := by decide +kernel
def demoGSrc : Src :=
  { data := encode demoG (str "000") (some (str "fin")) [str "A: b", str "C:"], segs := [3, 1, 4, 1, 5, 9, 2, 6] }
example : runRead (BodyReader.newChunked [] demoGSrc) [4, 1] = ([str "0123", str "4", str "5", str "6", str "7", str "8", str "9"], .eof) := by
  decide +kernel

/-- fixed length: `Content-Length: 5`, leftover `he`, stream `lloNEXT` in 1-byte segments -/
def demoFixed : BodyReader := BodyReader.newFixed (str "he") { data := str "lloNEXT", segs := [1, 1, 1, 1, 1, 1, 1] } 5
example : runRead demoFixed [2] = ([str "he", str "l", str "l", str "o"], .eof) := by decide +kernel
example : runBuf demoFixed [2] = ([str "he", str "l", str "l", str "o"], .eof) := by decide +kernel
/-- no over-read even when the stream would hand over everything at once -/
example : (runRead' (BodyReader.newFixed (str "he") { data := str "lloNEXT", segs := [] } 5) []).2.2.src.data = str "NEXT" := by
  decide +kernel
example : str "he" ++ str "lloNEXT" = encodeFixed (str "hello") ++ str "NEXT" := by decide +kernel
/-- truncated fixed body -/
example : runRead (BodyReader.newFixed (str "he") { data := str "l", segs := [] } 5) [] = ([str "he", str "l"], .err .unexpectedEof) := by
  decide +kernel

/-- truncation inside chunk data: the bytes that arrived, then `UnexpectedEof` … -/
example : runRead (BodyReader.newChunked [] { data := str "5\r\nhel", segs := [] }) [3] = ([str "hel"], .err .unexpectedEof) := by
  decide +kernel
example : runBuf (BodyReader.newChunked [] { data := str "5\r\nhel", segs := [] }) [] = ([str "hel"], .err .unexpectedEof) := by
  decide +kernel
/-- … but a `read` into a buffer larger than what arrived fails WITHOUT handing over the bytes it already copied
(`Err` carries no count): the delivered prefix may be shorter than what arrived, never longer or different -/
example : runRead (BodyReader.newChunked [] { data := str "5\r\nhel", segs := [] }) [] = ([], .err .unexpectedEof) := by
  decide +kernel
/-- truncation after the complete last-chunk line (trailers / final CRLF missing) is accepted: full payload, clean
end; a last-chunk line without its CRLF is not -/
example : runRead (BodyReader.newChunked [] { data := str "5\r\nhello\r\n0\r\nT: v", segs := [] }) [] = ([str "hello"], .eof) := by
  decide +kernel
example : runRead (BodyReader.newChunked [] { data := str "5\r\nhello\r\n0\r", segs := [] }) [] =
    ([str "hello"], .err .unexpectedEof) := by decide +kernel

/-- malformed: `+5` is not a chunk size (`usize::from_str_radix` alone would accept it) -/
example : runRead (BodyReader.newChunked [] { data := str "+5\r\nhello\r\n0\r\n\r\n", segs := [] }) [] = ([], .err .invalidData) := by
  decide +kernel
example : fieldText (str "+5") ∧ (str "+5").all isHexDigit = false := by
  constructor
  · unfold fieldText; decide +kernel
  · decide +kernel
/-- malformed: second size line is `zz`; the first chunk has been delivered -/
example : runBuf (BodyReader.newChunked [] { data := str "5\r\nhello\r\nzz\r\n", segs := [2, 2, 2] }) [3] =
    ([str "h", str "el", str "lo"], .err .invalidData) := by decide +kernel
/-- malformed: chunk data followed by `XX` instead of CRLF -/
example : runRead (BodyReader.newChunked [] { data := str "5\r\nhelloXX0\r\n\r\n", segs := [] }) [] =
    ([str "hello"], .err .invalidData) := by decide +kernel
/-- chunk size overflowing `usize` -/
example : runRead (BodyReader.newChunked [] { data := str "10000000000000000\r\n", segs := [] }) [] = ([], .err .invalidData) := by
  decide +kernel

end Examples

end Khttp.Body
