/-
  C06 / C07, the error dimension (finding F36): the `Read` contract of the chunk-data loop.
  For EVERY schedule of inner results (data of any sizes, errors at any positions):
   * a call that reports an error has copied nothing (`C06_error_means_nothing_copied`);
   * every byte the inner reader handed over is returned to the caller by exactly the call in which it was taken
     (`C06_call_returns_what_it_took`), so a caller that retries after errors receives every byte taken from the
     stream, in order (`drive_taken`, `C06_retry_receives_taken`) — whatever happens in between;
   * the loop as it was before the fix violates both (`old_loop_loses_bytes`, witness = the replay of F36:
     chunk `helloabc`, `hel` buffered, one interrupted read, then `loabc`).
-/
import Khttp.Model.ReadContract
namespace Khttp.ReadContract
open Khttp

/-- what a call's result says about the bytes `d` the inner reader handed over during the call (`acc` = copied before) -/
def Post (o : Out) (acc d : Bytes) : Prop :=
  match o with
  | .ok bs => bs = acc ++ d
  | .ioErr => acc = [] ∧ d = []
  | .truncated => True

/-- invariant of one call: what the call has copied so far is exactly what the inner reader handed over during the call -/
theorem readData_spec : ∀ (fuel : Nat) (s : St) (cap : Nat) (acc : Bytes),
    ∃ d, (readData fuel s cap acc).2.taken = s.taken ++ d ∧ Post (readData fuel s cap acc).1 acc d := by
  intro fuel
  induction fuel with
  | zero => intro s cap acc; exact ⟨[], by simp [readData], by simp [readData, Post]⟩
  | succ fuel ih =>
    intro s cap acc
    by_cases hstop : s.remaining = 0 ∨ cap = 0
    · exact ⟨[], by simp [readData, hstop], by simp [readData, hstop, Post]⟩
    · cases hev : s.evs with
      | nil => exact ⟨[], by simp [readData, hstop, hev], by simp [readData, hstop, hev, Post]⟩
      | cons e rest =>
        cases e with
        | err =>
          by_cases hacc : acc = []
          · exact ⟨[], by simp [readData, hstop, hev, hacc], by simp [readData, hstop, hev, hacc, Post]⟩
          · exact ⟨[], by simp [readData, hstop, hev, hacc], by simp [readData, hstop, hev, hacc, Post]⟩
        | data bs =>
          by_cases hn : min (min s.remaining cap) bs.length = 0
          · exact ⟨[], by simp [readData, hstop, hev, hn], by simp [readData, hstop, hev, hn, Post]⟩
          · obtain ⟨d, h1, h2⟩ := ih
              { remaining := s.remaining - min (min s.remaining cap) bs.length, evs := rest,
                taken := s.taken ++ bs.take (min (min s.remaining cap) bs.length) }
              (cap - min (min s.remaining cap) bs.length) (acc ++ bs.take (min (min s.remaining cap) bs.length))
            have hne : bs.take (min (min s.remaining cap) bs.length) ≠ [] := by
              intro hnil
              have : (bs.take (min (min s.remaining cap) bs.length)).length = 0 := by rw [hnil]; rfl
              simp only [List.length_take] at this
              omega
            have hrd : readData (fuel + 1) s cap acc = readData fuel
                { remaining := s.remaining - min (min s.remaining cap) bs.length, evs := rest,
                  taken := s.taken ++ bs.take (min (min s.remaining cap) bs.length) }
                (cap - min (min s.remaining cap) bs.length) (acc ++ bs.take (min (min s.remaining cap) bs.length)) := by
              conv => lhs; unfold readData
              rw [if_neg hstop]
              simp only [hev]
              rw [if_neg hn]
            rw [hrd]
            refine ⟨bs.take (min (min s.remaining cap) bs.length) ++ d, by rw [h1, List.append_assoc], ?_⟩
            revert h2
            unfold Post
            split
            · intro h2; simp [h2, List.append_assoc]
            · intro h2
              exact absurd (List.append_eq_nil_iff.1 h2.1).2 hne
            · intro _; trivial

/-- **the `Read` contract**: a call (started with an empty buffer) that returns the inner error has taken nothing from the
    stream — retrying it cannot lose data -/
theorem C06_error_means_nothing_copied (fuel : Nat) (s : St) (cap : Nat) (s' : St)
    (h : readData fuel s cap [] = (.ioErr, s')) : s'.taken = s.taken := by
  obtain ⟨d, h1, h2⟩ := readData_spec fuel s cap []
  rw [h] at h1 h2
  simp only [Post] at h1 h2
  rw [h1, h2.2]; simp

/-- a successful call returns exactly the bytes the inner reader handed over during that call -/
theorem C06_call_returns_what_it_took (fuel : Nat) (s : St) (cap : Nat) (bs : Bytes) (s' : St)
    (h : readData fuel s cap [] = (.ok bs, s')) : s'.taken = s.taken ++ bs := by
  obtain ⟨d, h1, h2⟩ := readData_spec fuel s cap []
  rw [h] at h1 h2
  simp only [Post, List.nil_append] at h1 h2
  rw [h1, h2]

/-- **no loss under retries** (general form, with the bytes received before): a caller that simply calls again after every error
    has received, in order, every byte that was taken from the stream — or, if the stream was truncated inside the chunk, a
    prefix of them — for every schedule of data and errors, every buffer size, every chunk length -/
theorem drive_taken (cap : Nat) : ∀ (fuel : Nat) (s : St) (got base : Bytes), s.taken = base ++ got →
    ∀ r, drive readData cap fuel s got = r → (r.2.taken = base ++ r.1 ∨ ∃ s'', r.2 = s'' ∧ base ++ r.1 <+: s''.taken) := by
  intro fuel
  induction fuel with
  | zero => intro s got base h r hr; subst hr; exact Or.inl (by simpa [drive] using h)
  | succ fuel ih =>
    intro s got base h r hr
    unfold drive at hr
    split at hr
    · subst hr; exact Or.inl (by simpa using h)
    · split at hr
      · rename_i bs s' heq
        have := C06_call_returns_what_it_took _ _ _ _ _ heq
        exact ih s' (got ++ bs) base (by rw [this, h, List.append_assoc]) r hr
      · rename_i s' heq
        have := C06_error_means_nothing_copied _ _ _ _ heq
        exact ih s' got base (by rw [this, h]) r hr
      · rename_i s' heq
        subst hr
        obtain ⟨d, h1, _⟩ := readData_spec (cap + 1) s cap []
        rw [heq] at h1
        simp only at h1
        exact Or.inr ⟨s', rfl, by rw [h1, h]; exact ⟨d, by simp⟩⟩

/-- the statement in its plain form: starting from scratch, what the retrying caller has received is a prefix of what was
    taken from the stream, and equals it unless the stream was truncated inside the chunk -/
theorem C06_retry_receives_taken (cap fuel : Nat) (s : St) (h0 : s.taken = []) :
    let r := drive readData cap fuel s []
    r.1 <+: r.2.taken := by
  intro r
  rcases drive_taken cap fuel s [] [] (by simpa using h0) r rfl with h | ⟨s'', h1, h2⟩
  · rw [h]; simp
  · rw [h1]; simpa using h2

/-! ### The loop before the fix -/

/-- the replay of F36 in the model: chunk of 8 bytes, buffer of 8; the inner reader first hands over `hel` (the rest of the
    head buffer), then fails once (EINTR), then delivers `loabc` -/
def f36 : St := { remaining := 8, evs := [.data (str "hel"), .err, .data (str "loabc")] }

/-- old loop: the first call returns the error although it took `hel`; the retrying caller ends up with `loabc` -/
theorem old_loop_loses_bytes :
    (readDataOld 9 f36 8 []).1 = .ioErr ∧ (readDataOld 9 f36 8 []).2.taken = str "hel" ∧
    (drive readDataOld 8 5 f36 []).1 = str "loabc" ∧ (drive readDataOld 8 5 f36 []).2.taken = str "helloabc" := by
  decide +kernel

/-- fixed loop on the same schedule: `hel` is reported by the first call, `loabc` by the second -/
example : (readData 9 f36 8 []).1 = .ok (str "hel") ∧ (drive readData 8 5 f36 []).1 = str "helloabc" := by decide +kernel

end Khttp.ReadContract
