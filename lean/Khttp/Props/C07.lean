/-
C07 — "Keep-alive connections keep request boundaries."

Model: `Khttp/Model/Conn.lean` (`handleOne` = `handle_one_request`, `handleConnection`), body readers:
`Khttp/Model/Body.lean`. User code (handlers, pre-routing hook) is arbitrary, subject to `CfgOk`: a handler uses the
body reader it is given only through its `Read` / `BufRead` interface, respecting the `BufRead` contract and without
zero-length reads (`OpsOk`, `Khttp/Lemmas/BodyOps.lean`).
-/
import Khttp.Lemmas.BodyOps
import Khttp.Props.C10
namespace Khttp
open Khttp.Body Khttp.Router Khttp.Spec.Chunked

/-- what `handleOne` yields for a request that is let through to its handler, in terms of the handler's output `out`
on the body reader over (`lo`, `src`) = (buffered bytes after the head, pending stream) -/
structure Served (cfg : Cfg) (s : Sock) (r : Request) (lo : Bytes) (src : Src) (B : List Bytes) : Prop where
  /-- the handler output: the selected handler applied to this request and the reader for ITS body -/
  resps : (handleOne cfg s).resps =
    ((cfg.dispatch r).1 r (cfg.dispatch r).2 (BodyReader.fromRequest lo src r.headers.chunked r.headers.cl)).resps
  parsed : (handleOne cfg s).parsed = true
  failed : (handleOne cfg s).failed =
    !((cfg.dispatch r).1 r (cfg.dispatch r).2 (BodyReader.fromRequest lo src r.headers.chunked r.headers.cl)).ok
  hang : (handleOne cfg s).hang = false
  /-- keep-alive is decided by the handler result and the close tokens only — not by what was done with the body -/
  keep : (handleOne cfg s).keep =
    (((cfg.dispatch r).1 r (cfg.dispatch r).2 (BodyReader.fromRequest lo src r.headers.chunked r.headers.cl)).ok &&
      !r.headers.close &&
      !(((cfg.dispatch r).1 r (cfg.dispatch r).2
          (BodyReader.fromRequest lo src r.headers.chunked r.headers.cl)).resps.any (·.close)))
  /-- the socket afterwards: exactly the segments after this request -/
  sock : (handleOne cfg s).sock = ⟨nonEmptySegs B, s.eof⟩

private theorem boundary_core (cfg : Cfg) (hcfg : CfgOk cfg) (s : Sock) (A B : List Bytes) (head body : Bytes)
    (r : Request) (hsegs : s.segs = A ++ B) (hA : A.flatten = head ++ body) (hp : Request.parse head = .ok r)
    (ho : r.off = head.length) (hm : head.length ≤ cfg.max) (hte : r.headers.chunked = false)
    (hcl : r.headers.cl = some body.length ∨ (r.headers.cl = none ∧ body = []))
    (hhook : ∀ h, cfg.hook = some h → h r = .proceed) :
    ∃ (lo : Bytes) (src : Src), lo ++ src.data = body ++ B.flatten ∧ src.starved = false ∧
      Served cfg s r lo src B := by
  obtain ⟨ok, s1, log, Ar, hread, hreq, hs1, heof, hlo⟩ := readRequest_boundary cfg.max s A B head body r hsegs hA hp ho hm
  have hpro := handleOne_proceed cfg s ok s1 log hread (by rw [hreq]; exact hhook)
  simp only at hpro
  rw [hreq] at hpro
  obtain ⟨q1, q2, q3, q4, q5, q6⟩ := hpro
  have hdata : s1.toSrc.data = Ar.flatten ++ B.flatten := by
    simp [Sock.toSrc, Sock.pending, hs1]
  refine ⟨ok.buf.drop ok.req.off, s1.toSrc, ?_, rfl, ?_⟩
  · rw [hdata, ← List.append_assoc, hlo]
  rw [hreq] at hlo ⊢
  -- what the handler did with the reader
  obtain ⟨ops, hops, hbody⟩ := hcfg.dispatch r r (cfg.dispatch r).2
    (BodyReader.fromRequest (ok.buf.drop r.off) s1.toSrc r.headers.chunked r.headers.cl)
  rw [hbody] at q4 q5 q6
  by_cases hb : body = []
  · -- no body: the `Empty` reader
    have hfr : BodyReader.fromRequest (ok.buf.drop r.off) s1.toSrc r.headers.chunked r.headers.cl
        = BodyReader.newEmpty s1.toSrc := by
      rcases hcl with h | ⟨h, _⟩
      · simp [BodyReader.fromRequest, hte, h, hb]
      · simp [BodyReader.fromRequest, hte, h]
    have hdrain : (applyBodyOps (BodyReader.fromRequest (ok.buf.drop r.off) s1.toSrc r.headers.chunked
        r.headers.cl) ops).drain = BodyReader.newEmpty s1.toSrc := by rw [hfr, empty_ops_drain]
    rw [hdrain] at q4 q5 q6
    have hAr : Ar.flatten = [] := by
      rw [hb] at hlo; exact (List.append_eq_nil_iff.mp hlo).2
    refine ⟨q1, q2, q3, ?_, ?_, ?_⟩
    · rw [q5]; rfl
    · rw [q6]; simp [BodyReader.newEmpty]
    · rw [q4]
      show Sock.ofSrc s1.toSrc s1.eof = _
      rw [Sock.ofSrc_toSrc, hs1, nonEmptySegs_append, nonEmptySegs_of_flatten_nil Ar hAr, heof]; rfl
  · -- fixed-length body
    have hcl' : r.headers.cl = some body.length := by
      rcases hcl with h | ⟨_, h⟩
      · exact h
      · exact absurd h hb
    have hpos : 0 < body.length := List.length_pos_iff.mpr hb
    have hfr : BodyReader.fromRequest (ok.buf.drop r.off) s1.toSrc r.headers.chunked r.headers.cl
        = BodyReader.newFixed (ok.buf.drop r.off) s1.toSrc body.length := by
      simp [BodyReader.fromRequest, hte, hcl', hpos]
    rw [hfr] at hops
    obtain ⟨f1, f2, f3, f4⟩ := fixed_ops_drain_stream body B.flatten (ok.buf.drop r.off) s1.toSrc Ar.flatten
      ((nonEmptySegs B).map List.length) hb rfl hdata hlo
      (by simpa [Sock.toSrc, hs1] using segsSplit_of_segs Ar B) ops hops
    rw [← hfr] at f1 f2 f3 f4
    refine ⟨q1, q2, q3, ?_, ?_, ?_⟩
    · rw [q5]; simp [starvedHang, f2]
    · rw [q6, f1]; simp
    · rw [q4]
      have hsrc : (applyBodyOps (BodyReader.fromRequest (ok.buf.drop r.off) s1.toSrc r.headers.chunked
          r.headers.cl) ops).drain.src
          = Src.mk (nonEmptySegs B).flatten ((nonEmptySegs B).map List.length) false := by
        rcases hsr : (applyBodyOps (BodyReader.fromRequest (ok.buf.drop r.off) s1.toSrc r.headers.chunked
          r.headers.cl) ops).drain.src with ⟨d, g, st⟩
        rw [hsr] at f2 f3 f4
        simp only at f2 f3 f4
        rw [f2, f3, f4, nonEmptySegs_flatten]
      rw [hsrc, Sock.ofSrc_segs _ (nonEmptySegs_ne B), heof]

/-- **C07 (fixed-length body keeps the boundary).** The pending segments are `A ++ B`, `A` = the bytes of one request
`head ++ body` (cut into segments in ANY way), `B` = whatever the client sends afterwards (the client sends the next
request only after the response: it starts a new segment). The request declares `Content-Length: body.length`; the
hook is absent or lets it through; handlers satisfy `CfgOk`. Then, whatever the handler does with the body reader —
reads all of it, part of it, or nothing, through `Read` or `BufRead` —:
* the handler ran on this request's head and on a reader over (`lo`, `src`) whose unread bytes are exactly
  `body ++ rest` (so it delivers exactly `body`, by C06);
* the server does not block (`hang = false`), keep-alive depends only on the handler result and close tokens;
* afterwards the socket holds exactly the segments `B` (`nonEmptySegs B`: without empty pseudo-segments):
  the next `handleOne` starts parsing at the first byte after this request's body. -/
theorem C07_fixed_boundary (cfg : Cfg) (hcfg : CfgOk cfg) (s : Sock) (A B : List Bytes) (head body : Bytes)
    (r : Request) (hsegs : s.segs = A ++ B) (hA : A.flatten = head ++ body) (hp : Request.parse head = .ok r)
    (ho : r.off = head.length) (hm : head.length ≤ cfg.max) (hte : r.headers.chunked = false)
    (hcl : r.headers.cl = some body.length) (hhook : ∀ h, cfg.hook = some h → h r = .proceed) :
    ∃ (lo : Bytes) (src : Src), lo ++ src.data = body ++ B.flatten ∧ src.starved = false ∧
      Served cfg s r lo src B ∧ (handleOne cfg s).sock.pending = B.flatten := by
  obtain ⟨lo, src, h1, h2, h3⟩ := boundary_core cfg hcfg s A B head body r hsegs hA hp ho hm hte (Or.inl hcl) hhook
  exact ⟨lo, src, h1, h2, h3, by rw [h3.sock]; exact nonEmptySegs_flatten B⟩

/-- **C07 (request without body keeps the boundary).** No `Content-Length`, no `Transfer-Encoding`: nothing after
the head is consumed. -/
theorem C07_no_body_boundary (cfg : Cfg) (hcfg : CfgOk cfg) (s : Sock) (A B : List Bytes) (head : Bytes)
    (r : Request) (hsegs : s.segs = A ++ B) (hA : A.flatten = head) (hp : Request.parse head = .ok r)
    (ho : r.off = head.length) (hm : head.length ≤ cfg.max) (hte : r.headers.chunked = false)
    (hcl : r.headers.cl = none) (hhook : ∀ h, cfg.hook = some h → h r = .proceed) :
    ∃ (lo : Bytes) (src : Src), lo ++ src.data = B.flatten ∧ src.starved = false ∧
      Served cfg s r lo src B ∧ (handleOne cfg s).sock.pending = B.flatten := by
  obtain ⟨lo, src, h1, h2, h3⟩ := boundary_core cfg hcfg s A B head [] r hsegs (by simpa using hA) hp ho hm hte
    (Or.inr ⟨hcl, rfl⟩) hhook
  exact ⟨lo, src, by simpa using h1, h2, h3, by rw [h3.sock]; exact nonEmptySegs_flatten B⟩

/-- **C07 (hook `Drop` keeps the boundary).** The pre-routing hook answers in place of a handler and neither side
asks to close: the unread fixed-length body is discarded and the socket afterwards holds exactly the segments after
this request; exactly the hook's response is sent; the connection is kept. -/
theorem C07_hook_drop_boundary (cfg : Cfg) (s : Sock) (A B : List Bytes) (head body : Bytes) (r : Request)
    (h : Request → HookOut) (resp : Option Resp)
    (hsegs : s.segs = A ++ B) (hA : A.flatten = head ++ body) (hp : Request.parse head = .ok r)
    (ho : r.off = head.length) (hm : head.length ≤ cfg.max) (hte : r.headers.chunked = false)
    (hcl : r.headers.cl = some body.length ∨ (r.headers.cl = none ∧ body = []))
    (hh : cfg.hook = some h) (hd : h r = .drop resp) (hclose : r.headers.close = false)
    (hrc : resp.toList.any (·.close) = false) :
    (handleOne cfg s).resps = resp.toList ∧ (handleOne cfg s).keep = true ∧ (handleOne cfg s).hang = false ∧
    (handleOne cfg s).sock = ⟨nonEmptySegs B, s.eof⟩ ∧ (handleOne cfg s).sock.pending = B.flatten := by
  obtain ⟨ok, s1, log, Ar, hread, hreq, hs1, heof, hlo⟩ := readRequest_boundary cfg.max s A B head body r hsegs hA hp ho hm
  have hdr := handleOne_drop cfg s ok s1 log h resp hread hh (by rw [hreq]; exact hd)
  simp only at hdr
  rw [hreq] at hdr hlo
  obtain ⟨q1, q2, q3, q4⟩ := hdr
  rw [if_neg (by simp [hclose, hrc])] at q4
  obtain ⟨q4, q5, q6⟩ := q4
  have hdata : s1.toSrc.data = Ar.flatten ++ B.flatten := by
    simp [Sock.toSrc, Sock.pending, hs1]
  have hsock : (handleOne cfg s).keep = true ∧ (handleOne cfg s).hang = false ∧
      (handleOne cfg s).sock = ⟨nonEmptySegs B, s.eof⟩ := by
    by_cases hb : body = []
    · have hfr : BodyReader.fromRequest (ok.buf.drop r.off) s1.toSrc r.headers.chunked r.headers.cl
          = BodyReader.newEmpty s1.toSrc := by
        rcases hcl with h | ⟨h, _⟩
        · simp [BodyReader.fromRequest, hte, h, hb]
        · simp [BodyReader.fromRequest, hte, h]
      have hdrain := empty_ops_drain s1.toSrc []
      simp only [applyBodyOps, List.foldl_nil] at hdrain
      rw [hfr, hdrain] at q4 q5 q6
      have hAr : Ar.flatten = [] := by
        rw [hb] at hlo; exact (List.append_eq_nil_iff.mp hlo).2
      refine ⟨by rw [q4]; rfl, by rw [q6]; rfl, ?_⟩
      rw [q5]
      show Sock.ofSrc s1.toSrc s1.eof = _
      rw [Sock.ofSrc_toSrc, hs1, nonEmptySegs_append, nonEmptySegs_of_flatten_nil Ar hAr, heof]; rfl
    · have hcl' : r.headers.cl = some body.length := by
        rcases hcl with h | ⟨_, h⟩
        · exact h
        · exact absurd h hb
      have hpos : 0 < body.length := List.length_pos_iff.mpr hb
      have hfr : BodyReader.fromRequest (ok.buf.drop r.off) s1.toSrc r.headers.chunked r.headers.cl
          = BodyReader.newFixed (ok.buf.drop r.off) s1.toSrc body.length := by
        simp [BodyReader.fromRequest, hte, hcl', hpos]
      obtain ⟨f1, f2, f3, f4⟩ := fixed_ops_drain_stream body B.flatten (ok.buf.drop r.off) s1.toSrc Ar.flatten
        ((nonEmptySegs B).map List.length) hb rfl hdata hlo
        (by simpa [Sock.toSrc, hs1] using segsSplit_of_segs Ar B) [] trivial
      simp only [applyBodyOps, List.foldl_nil] at f1 f2 f3 f4
      rw [← hfr] at f1 f2 f3 f4
      refine ⟨by rw [q4, f1]; rfl, by rw [q6]; simp [starvedHang, f2], ?_⟩
      rw [q5]
      have hsrc : (BodyReader.fromRequest (ok.buf.drop r.off) s1.toSrc r.headers.chunked r.headers.cl).drain.src
          = Src.mk (nonEmptySegs B).flatten ((nonEmptySegs B).map List.length) false := by
        rcases hsr : (BodyReader.fromRequest (ok.buf.drop r.off) s1.toSrc r.headers.chunked
          r.headers.cl).drain.src with ⟨d, g, st⟩
        rw [hsr] at f2 f3 f4
        simp only at f2 f3 f4
        rw [f2, f3, f4, nonEmptySegs_flatten]
      rw [hsrc, Sock.ofSrc_segs _ (nonEmptySegs_ne B), heof]
  exact ⟨q1, hsock.1, hsock.2.1, hsock.2.2, by rw [hsock.2.2]; exact nonEmptySegs_flatten B⟩

/-- if every run of the body reader of this request is bound to fail, `handle_one_request` does not keep the
connection — whatever the handler or the hook does -/
private theorem keep_false_of_doomed (cfg : Cfg) (hcfg : CfgOk cfg) (s : Sock) (head t : Bytes) (r : Request)
    (hpend : s.pending = head ++ t) (hp : Request.parse head = .ok r) (ho : r.off = head.length)
    (hm : head.length ≤ cfg.max)
    (hdoom : ∀ lo src, lo ++ src.data = t →
      (BodyReader.fromRequest lo src r.headers.chunked r.headers.cl).drainable ∧
      Doomed (BodyReader.fromRequest lo src r.headers.chunked r.headers.cl).abs) :
    (handleOne cfg s).keep = false := by
  obtain ⟨ok, s1, log, hread, hreq, hacc⟩ := C10_within_limit_ok cfg.max s head t r hpend hp ho hm
  obtain ⟨_, _, _, hparse⟩ := C10_accept_accounting cfg.max s ok s1 log hread
  have hoff := Request.parse_off_le hparse
  rw [hreq, ho] at hoff
  have hlo : ok.buf.drop r.off ++ s1.toSrc.data = t := by
    have := congrArg (List.drop head.length) hacc
    rw [hpend, List.drop_append_of_le_length hoff, List.drop_left' rfl] at this
    rw [ho]; exact this
  obtain ⟨hdr, hd⟩ := hdoom _ _ hlo
  cases hc : cfg.hook with
  | none =>
    have hpro := handleOne_proceed cfg s ok s1 log hread (by intro h hh; rw [hc] at hh; cases hh)
    simp only at hpro
    rw [hreq] at hpro
    obtain ⟨ops, hops, hbody⟩ := hcfg.dispatch r r (cfg.dispatch r).2
      (BodyReader.fromRequest (ok.buf.drop r.off) s1.toSrc r.headers.chunked r.headers.cl)
    have hfail := doomed_ops_drain _ hdr hd ops hops
    rw [← hbody] at hfail
    rw [hpro.2.2.2.2.2, hfail]; simp
  | some h =>
    cases hh : h r with
    | proceed =>
      have hpro := handleOne_proceed cfg s ok s1 log hread (by
        intro h' hh'; rw [hc] at hh'; injection hh' with hh'; subst hh'; rw [hreq]; exact hh)
      simp only at hpro
      rw [hreq] at hpro
      obtain ⟨ops, hops, hbody⟩ := hcfg.dispatch r r (cfg.dispatch r).2
        (BodyReader.fromRequest (ok.buf.drop r.off) s1.toSrc r.headers.chunked r.headers.cl)
      have hfail := doomed_ops_drain _ hdr hd ops hops
      rw [← hbody] at hfail
      rw [hpro.2.2.2.2.2, hfail]; simp
    | drop resp =>
      have hdrp := handleOne_drop cfg s ok s1 log h resp hread hc (by rw [hreq]; exact hh)
      simp only at hdrp
      rw [hreq] at hdrp
      obtain ⟨_, _, _, q4⟩ := hdrp
      split at q4
      · exact q4.1
      · have hfail := doomed_ops_drain _ hdr hd [] trivial
        simp only [applyBodyOps, List.foldl_nil] at hfail
        rw [q4.1, hfail]; rfl

/-- **C07 (unknown position ⇒ close).** When the server cannot establish where the next request starts, it does not
keep the connection (`handle_one_request` returns `Ok(false)` / `Err`), whatever the handler or the hook did and
however the bytes were segmented — so nothing is ever parsed from a wrong position:
1. a fixed-length body of which fewer than `Content-Length` bytes arrive before the stream ends;
2. a chunked body with a size line whose size field is empty or not hexadecimal (after any valid chunks);
3. a chunked body with chunk data not followed by CRLF;
4. a chunked body that ends before its last-chunk line is complete. -/
theorem C07_unknown_position_closes (cfg : Cfg) (hcfg : CfgOk cfg) (s : Sock) (head t : Bytes) (r : Request)
    (hpend : s.pending = head ++ t) (hp : Request.parse head = .ok r) (ho : r.off = head.length)
    (hm : head.length ≤ cfg.max) :
    (∀ n, r.headers.chunked = false → r.headers.cl = some n → t.length < n → (handleOne cfg s).keep = false) ∧
    (∀ (cs : List Chunk) (f : Bytes) (ext : Option Bytes) (rest : Bytes), r.headers.chunked = true →
      (∀ c ∈ cs, c.Valid) → (∀ c ∈ cs, c.data.length < usizeLimit) → fieldText f →
      (f = [] ∨ f.all isHexDigit = false) → extNoLF ext → t = encodeChunks cs ++ (sizeLine f ext ++ rest) →
      (handleOne cfg s).keep = false) ∧
    (∀ (cs : List Chunk) (c : Chunk) (y : Bytes), r.headers.chunked = true →
      (∀ c' ∈ cs, c'.Valid) → (∀ c' ∈ cs, c'.data.length < usizeLimit) → c.Valid → c.data.length < usizeLimit →
      y.take 2 ≠ [CR, LF] → t = encodeChunks cs ++ (sizeLine c.size c.ext ++ c.data ++ y) →
      (handleOne cfg s).keep = false) ∧
    (∀ (cs : List Chunk) (ls : Bytes) (le : Option Bytes) (ts : List Bytes), r.headers.chunked = true →
      Valid cs ls le ts → (∀ c ∈ cs, c.data.length < usizeLimit) → t <+: encode cs ls le ts →
      t.length < (encodeChunks cs).length + (sizeLine ls le).length → (handleOne cfg s).keep = false) := by
  refine ⟨?_, ?_, ?_, ?_⟩
  · intro n hte hcl hlt
    apply keep_false_of_doomed cfg hcfg s head t r hpend hp ho hm
    intro lo src hsplit
    have hpos : 0 < n := by omega
    have hfr : BodyReader.fromRequest lo src r.headers.chunked r.headers.cl = BodyReader.newFixed lo src n := by
      simp [BodyReader.fromRequest, hte, hcl, hpos]
    rw [hfr]
    exact ⟨trivial, doomed_fixed_short lo src n (by rw [hsplit]; exact hlt)⟩
  · intro cs f ext rest hte hv hsz hf hbad he ht
    apply keep_false_of_doomed cfg hcfg s head t r hpend hp ho hm
    intro lo src hsplit
    have hfr : BodyReader.fromRequest lo src r.headers.chunked r.headers.cl = BodyReader.newChunked lo src := by
      simp [BodyReader.fromRequest, hte]
    rw [hfr]
    exact ⟨trivial, doomed_bad_size lo src cs f ext rest hv hsz hf hbad he (by rw [hsplit, ht])⟩
  · intro cs c y hte hv hsz hc hcl hy ht
    apply keep_false_of_doomed cfg hcfg s head t r hpend hp ho hm
    intro lo src hsplit
    have hfr : BodyReader.fromRequest lo src r.headers.chunked r.headers.cl = BodyReader.newChunked lo src := by
      simp [BodyReader.fromRequest, hte]
    rw [hfr]
    exact ⟨trivial, doomed_bad_crlf lo src cs c y hv hsz hc hcl hy (by rw [hsplit, ht])⟩
  · intro cs ls le ts hte hv hsz hpre hshort
    apply keep_false_of_doomed cfg hcfg s head t r hpend hp ho hm
    intro lo src hsplit
    have hfr : BodyReader.fromRequest lo src r.headers.chunked r.headers.cl = BodyReader.newChunked lo src := by
      simp [BodyReader.fromRequest, hte]
    rw [hfr]
    exact ⟨trivial, doomed_chunked_short lo src cs ls le ts hv hsz (by rw [hsplit]; exact hpre)
      (by rw [hsplit]; exact hshort)⟩

/-! ## What depends on the segmentation: read-ahead

`handle_one_request` keeps only the socket, not its buffers: bytes of the NEXT request that were read together with
the current request (into the head buffer, or into the `BufReader` of the chunked body reader) are lost. With a client
that sends each request only after the previous response this cannot happen for the head buffer (the next request
starts a new segment); the statements below make the exact conditions explicit. -/

/-- **C07 (fixed-length body, only the head aligned).** If just the HEAD ends at a segment boundary, a fixed-length
body and whatever follows it may share segments in any way (`B.flatten = body ++ rest`): the `Take` wrapper stops the
reader exactly at the end of the body, and afterwards the socket holds exactly `rest`. -/
theorem C07_fixed_boundary_stream (cfg : Cfg) (hcfg : CfgOk cfg) (s : Sock) (A B : List Bytes)
    (head body rest : Bytes) (r : Request) (hsegs : s.segs = A ++ B) (hA : A.flatten = head)
    (hB : B.flatten = body ++ rest) (hp : Request.parse head = .ok r) (ho : r.off = head.length)
    (hm : head.length ≤ cfg.max) (hte : r.headers.chunked = false) (hcl : r.headers.cl = some body.length)
    (hne : body ≠ []) (hhook : ∀ h, cfg.hook = some h → h r = .proceed) :
    (handleOne cfg s).sock.pending = rest ∧ (handleOne cfg s).hang = false ∧ (handleOne cfg s).parsed = true := by
  obtain ⟨ok, s1, log, Ar, hread, hreq, hs1, heof, hlo⟩ :=
    readRequest_boundary cfg.max s A B head [] r hsegs (by simpa using hA) hp ho hm
  have hpro := handleOne_proceed cfg s ok s1 log hread (by rw [hreq]; exact hhook)
  simp only at hpro
  rw [hreq] at hpro hlo
  obtain ⟨q1, q2, q3, q4, q5, q6⟩ := hpro
  obtain ⟨hlo0, hAr⟩ := List.append_eq_nil_iff.mp hlo
  have hdata : s1.toSrc.data = body ++ rest := by
    simp [Sock.toSrc, Sock.pending, hs1, hAr, hB]
  obtain ⟨ops, hops, hbody⟩ := hcfg.dispatch r r (cfg.dispatch r).2
    (BodyReader.fromRequest (ok.buf.drop r.off) s1.toSrc r.headers.chunked r.headers.cl)
  have hpos : 0 < body.length := List.length_pos_iff.mpr hne
  have hfr : BodyReader.fromRequest (ok.buf.drop r.off) s1.toSrc r.headers.chunked r.headers.cl
      = BodyReader.newFixed [] s1.toSrc body.length := by
    simp [BodyReader.fromRequest, hte, hcl, hpos, hlo0]
  rw [hfr] at hops
  obtain ⟨f1, f2, f3⟩ := fixed_ops_drain_nolo body rest s1.toSrc hne rfl hdata ops hops
  rw [← hfr, ← hbody] at f1 f2 f3
  refine ⟨?_, ?_, q2⟩
  · rw [q4, Sock.ofSrc_pending, f3]
  · rw [q5]; simp [starvedHang, f2]

/-- The same statement for a CHUNKED body: only the head ends at a segment boundary, the chunked body and the bytes
after it may share a segment. -/
def C07_chunked_boundary_full : Prop :=
  ∀ (cfg : Cfg), CfgOk cfg → ∀ (s : Sock) (A B : List Bytes) (head rest : Bytes) (r : Request)
    (cs : List Chunk) (ls : Bytes) (le : Option Bytes) (ts : List Bytes),
    s.segs = A ++ B → A.flatten = head → B.flatten = encode cs ls le ts ++ rest → Valid cs ls le ts →
    (∀ c ∈ cs, c.data.length < usizeLimit) → Request.parse head = .ok r → r.off = head.length →
    head.length ≤ cfg.max → r.headers.chunked = true → (∀ h, cfg.hook = some h → h r = .proceed) →
    (handleOne cfg s).sock.pending = rest

namespace C07Demo

def okResp : Resp := ⟨200, false, []⟩
/-- a handler that does not touch the body -/
def hIgnore : Handler := fun _ _ b => ⟨[okResp], b, true⟩
def cfg : Cfg := { max := 4096, hook := none, routes := [], handler := fun _ => hIgnore, fallback := hIgnore }

theorem cfg_ok : CfgOk cfg :=
  ⟨fun _ _ _ b => ⟨[], trivial, rfl⟩, fun _ _ b => ⟨[], trivial, rfl⟩⟩

def headChunked : Bytes := str "POST /a HTTP/1.1\r\nTransfer-Encoding: chunked\r\n\r\n"
def headFixed : Bytes := str "POST /a HTTP/1.1\r\nContent-Length: 5\r\n\r\n"
def nextReq : Bytes := str "GET /next HTTP/1.1\r\n\r\n"
def chunkedBody : List Chunk := [{ size := str "5", ext := none, data := str "hello" }]

/-- the chunked body and the next request arrive in ONE segment after the head -/
def sockChunked : Sock := ⟨[headChunked, encode chunkedBody (str "0") none [] ++ nextReq], false⟩
/-- the same with a fixed-length body -/
def sockFixed : Sock := ⟨[headFixed, str "hello" ++ nextReq], false⟩
/-- head, body and next request in one segment (a pipelining client) -/
def sockPipelined : Sock := ⟨[headFixed ++ str "hello" ++ nextReq], false⟩

end C07Demo

open C07Demo in
/-- **Known finding (read-ahead of the chunked reader).** With the chunked body and the next request in one segment,
the first `handleOne` keeps the connection but leaves NOTHING on the socket: the next request was pulled into the
body reader's `BufReader` and dropped with it. The client never gets its second response
(`handleConnection` answers one request and then waits). -/
theorem C07_chunked_readahead_witness :
    (handleOne cfg sockChunked).keep = true ∧ (handleOne cfg sockChunked).sock.pending = [] ∧
    (handleConnection cfg sockChunked).reqs = [(true, [okResp]), (false, [])] ∧
    (handleConnection cfg sockChunked).fin = .hang := by decide +kernel

open C07Demo in
/-- the same traffic with a fixed-length body is handled correctly: both requests are answered -/
example : (handleOne cfg sockFixed).sock.pending = nextReq ∧
    (handleConnection cfg sockFixed).reqs = [(true, [okResp]), (true, [okResp]), (false, [])] := by decide +kernel

open C07Demo in
theorem not_C07_chunked_boundary_full : ¬ C07_chunked_boundary_full := by
  intro h
  have hv : Valid chunkedBody (str "0") none [] :=
    ⟨by intro c hc; simp only [chunkedBody, List.mem_singleton] at hc; subst hc
        exact ⟨by decide +kernel, by decide +kernel, rfl⟩,
     by decide +kernel, rfl, by intro t ht; simp at ht⟩
  obtain ⟨r, hp, ho, hte, _, _⟩ := headView_some
    (show headView (Request.parse headChunked) = some (headChunked.length, true, none, false) by decide +kernel)
  have := h cfg cfg_ok sockChunked [headChunked] [encode chunkedBody (str "0") none [] ++ nextReq] headChunked nextReq r
    chunkedBody (str "0") none [] rfl (by simp) (by simp) hv
    (by intro c hc; simp only [chunkedBody, List.mem_singleton] at hc; subst hc; decide +kernel)
    hp ho (by decide +kernel) hte (by intro h hh; cases hh)
  rw [C07_chunked_readahead_witness.2.1] at this
  exact absurd this (by decide +kernel)

/-- The fixed-length boundary statement for ARBITRARY segmentations (no alignment of the head) -/
def C07_fixed_boundary_anyseg : Prop :=
  ∀ (cfg : Cfg), CfgOk cfg → ∀ (s : Sock) (head body rest : Bytes) (r : Request),
    s.pending = head ++ body ++ rest → Request.parse head = .ok r → r.off = head.length → head.length ≤ cfg.max →
    r.headers.chunked = false → r.headers.cl = some body.length → (∀ h, cfg.hook = some h → h r = .proceed) →
    (handleOne cfg s).sock.pending = rest

open C07Demo in
/-- **Known finding (no pipelining).** It is false: when bytes of the next request arrive in the same segment as the
end of the head (a pipelining client), they are read into the head buffer and dropped with it. -/
theorem not_C07_fixed_boundary_anyseg : ¬ C07_fixed_boundary_anyseg := by
  intro h
  obtain ⟨r, hp, ho, hte, hcl, _⟩ := headView_some
    (show headView (Request.parse headFixed) = some (headFixed.length, false, some 5, false) by decide +kernel)
  have := h cfg cfg_ok sockPipelined headFixed (str "hello") nextReq r (by simp [sockPipelined, Sock.pending])
    hp ho (by decide +kernel) hte (by rw [hcl]; decide +kernel) (by intro h hh; cases hh)
  have hw : (handleOne cfg sockPipelined).sock.pending = [] := by decide +kernel
  rw [hw] at this
  exact absurd this (by decide +kernel)

/-- **C07 (chunked body: what holds for every segmentation).** `s.pending = head ++ encoding ++ rest` with a valid
chunked encoding, any segmentation, any handler behaviour: the server does not block, the body reader never fails
(keep-alive is decided by handler result and close tokens only), the handler ran on a reader over this request's body,
and what is left on the socket is a SUFFIX of `rest`: the server never resumes parsing inside the body — but a prefix
`lost` of the following bytes may have been swallowed (read-ahead into the head buffer / the chunked reader's buffer). -/
theorem C07_chunked_boundary_atleast (cfg : Cfg) (hcfg : CfgOk cfg) (s : Sock) (head rest : Bytes) (r : Request)
    (cs : List Chunk) (ls : Bytes) (le : Option Bytes) (ts : List Bytes)
    (hpend : s.pending = head ++ (encode cs ls le ts ++ rest)) (hv : Valid cs ls le ts)
    (hsz : ∀ c ∈ cs, c.data.length < usizeLimit) (hp : Request.parse head = .ok r) (ho : r.off = head.length)
    (hm : head.length ≤ cfg.max) (hte : r.headers.chunked = true) (hhook : ∀ h, cfg.hook = some h → h r = .proceed) :
    ∃ (lo : Bytes) (src : Src) (lost : Bytes), lo ++ src.data = encode cs ls le ts ++ rest ∧
      lost ++ (handleOne cfg s).sock.pending = rest ∧ (handleOne cfg s).hang = false ∧
      (handleOne cfg s).parsed = true ∧
      (handleOne cfg s).resps = ((cfg.dispatch r).1 r (cfg.dispatch r).2 (BodyReader.newChunked lo src)).resps ∧
      (handleOne cfg s).keep =
        (((cfg.dispatch r).1 r (cfg.dispatch r).2 (BodyReader.newChunked lo src)).ok && !r.headers.close &&
          !(((cfg.dispatch r).1 r (cfg.dispatch r).2 (BodyReader.newChunked lo src)).resps.any (·.close))) := by
  obtain ⟨ok, s1, log, hread, hreq, hacc⟩ := C10_within_limit_ok cfg.max s head _ r hpend hp ho hm
  obtain ⟨_, _, _, hparse⟩ := C10_accept_accounting cfg.max s ok s1 log hread
  have hoff := Request.parse_off_le hparse
  rw [hreq, ho] at hoff
  have hlo : ok.buf.drop r.off ++ s1.toSrc.data = encode cs ls le ts ++ rest := by
    have := congrArg (List.drop head.length) hacc
    rw [hpend, List.drop_append_of_le_length hoff, List.drop_left' rfl] at this
    rw [ho]; exact this
  have hpro := handleOne_proceed cfg s ok s1 log hread (by rw [hreq]; exact hhook)
  simp only at hpro
  rw [hreq] at hpro
  obtain ⟨q1, q2, q3, q4, q5, q6⟩ := hpro
  have hfr : BodyReader.fromRequest (ok.buf.drop r.off) s1.toSrc r.headers.chunked r.headers.cl
      = BodyReader.newChunked (ok.buf.drop r.off) s1.toSrc := by
    simp [BodyReader.fromRequest, hte]
  rw [hfr] at q1 q4 q5 q6
  obtain ⟨ops, hops, hbody⟩ := hcfg.dispatch r r (cfg.dispatch r).2 (BodyReader.newChunked (ok.buf.drop r.off) s1.toSrc)
  obtain ⟨f1, f2, c, _, f3⟩ := chunked_ops_drain cs ls le ts hv hsz rest (ok.buf.drop r.off) s1.toSrc rfl hlo ops hops
  rw [← hbody] at f1 f2 f3
  refine ⟨ok.buf.drop r.off, s1.toSrc, c.inner.buf ++ c.inner.inner.lo, hlo, ?_, ?_, q2, q1, ?_⟩
  · rw [q4, Sock.ofSrc_pending]; exact f3
  · rw [q5]; simp [starvedHang, f2]
  · rw [q6, f1]; simp

/-- **C07 (chunked body keeps the boundary — explicit condition).** If nothing follows the chunked body at that time
(the client sends the next request only after the response to this one), exactly the encoding is consumed: the
socket is empty afterwards, and the next request, when it arrives, is parsed from its first byte. (When bytes DO
follow in the same segment, see `C07_chunked_readahead_witness`.) -/
theorem C07_chunked_boundary_partial (cfg : Cfg) (hcfg : CfgOk cfg) (s : Sock) (head : Bytes) (r : Request)
    (cs : List Chunk) (ls : Bytes) (le : Option Bytes) (ts : List Bytes)
    (hpend : s.pending = head ++ encode cs ls le ts) (hv : Valid cs ls le ts)
    (hsz : ∀ c ∈ cs, c.data.length < usizeLimit) (hp : Request.parse head = .ok r) (ho : r.off = head.length)
    (hm : head.length ≤ cfg.max) (hte : r.headers.chunked = true) (hhook : ∀ h, cfg.hook = some h → h r = .proceed) :
    (handleOne cfg s).sock.pending = [] ∧ (handleOne cfg s).hang = false ∧ (handleOne cfg s).parsed = true ∧
    ∃ (lo : Bytes) (src : Src), lo ++ src.data = encode cs ls le ts ∧
      (handleOne cfg s).resps = ((cfg.dispatch r).1 r (cfg.dispatch r).2 (BodyReader.newChunked lo src)).resps ∧
      (handleOne cfg s).keep =
        (((cfg.dispatch r).1 r (cfg.dispatch r).2 (BodyReader.newChunked lo src)).ok && !r.headers.close &&
          !(((cfg.dispatch r).1 r (cfg.dispatch r).2 (BodyReader.newChunked lo src)).resps.any (·.close))) := by
  obtain ⟨lo, src, lost, h1, h2, h3, h4, h5, h6⟩ := C07_chunked_boundary_atleast cfg hcfg s head [] r cs ls le ts
    (by simpa using hpend) hv hsz hp ho hm hte hhook
  exact ⟨(List.append_eq_nil_iff.mp h2).2, h3, h4, lo, src, by simpa using h1, h5, h6⟩

/-! ## One response per request, in order -/

/-- one request of the client: its head, its body, and the parsed head -/
structure Item where
  head : Bytes
  body : Bytes
  r : Request

/-- a request with a fixed-length body (`Content-Length: body.length`) or without body, acceptable to `cfg` -/
def Item.Ok (cfg : Cfg) (it : Item) : Prop :=
  Request.parse it.head = .ok it.r ∧ it.r.off = it.head.length ∧ it.head.length ≤ cfg.max ∧
  it.r.headers.chunked = false ∧
  (it.r.headers.cl = some it.body.length ∨ (it.r.headers.cl = none ∧ it.body = [])) ∧
  (∀ h, cfg.hook = some h → h it.r = .proceed)

/-- all the bytes of a sequence of requests -/
def bytesOf (items : List Item) : Bytes := (items.map fun it => it.head ++ it.body).flatten

/-- `parts[i]` are the TCP segments in which request `i` arrives (cut in any way, but no segment carries bytes of
two requests: the client sends each request after receiving the previous response) -/
inductive Segmented : List (List Bytes) → List Item → Prop where
  | nil : Segmented [] []
  | cons {p : List Bytes} {it : Item} {ps : List (List Bytes)} {items : List Item} :
      p.flatten = it.head ++ it.body → Segmented ps items → Segmented (p :: ps) (it :: items)

/-- What the connection must answer to the requests `items`: entry `i` carries exactly the responses of the handler
selected for request `i`, run on request `i`'s head and on a body reader whose unread input is request `i`'s body
followed by the later requests; the list stops after the first request whose handler fails or after which one side
asked to close; after the last request the server finds the stream empty (`(false, [])`: no head parsed). -/
def Answers (cfg : Cfg) : List Item → List (Bool × List Resp) → Prop
  | [], reqs => reqs = [(false, [])]
  | it :: rest, reqs =>
    ∃ (lo : Bytes) (src : Src), lo ++ src.data = it.body ++ bytesOf rest ∧ src.starved = false ∧
      ∃ tail, reqs = (true, ((cfg.dispatch it.r).1 it.r (cfg.dispatch it.r).2
          (BodyReader.fromRequest lo src it.r.headers.chunked it.r.headers.cl)).resps) :: tail ∧
        if (((cfg.dispatch it.r).1 it.r (cfg.dispatch it.r).2
              (BodyReader.fromRequest lo src it.r.headers.chunked it.r.headers.cl)).ok &&
            !it.r.headers.close &&
            !(((cfg.dispatch it.r).1 it.r (cfg.dispatch it.r).2
              (BodyReader.fromRequest lo src it.r.headers.chunked it.r.headers.cl)).resps.any (·.close))) = true
        then Answers cfg rest tail else tail = []

private theorem handleOne_empty (cfg : Cfg) (hmax : 0 < cfg.max) (s : Sock) (hs : s.segs = []) :
    (handleOne cfg s).resps = [] ∧ (handleOne cfg s).parsed = false ∧ (handleOne cfg s).keep = false := by
  obtain ⟨segs, eof⟩ := s
  simp only at hs; subst hs
  have hm : (0 == cfg.max) = false := by
    apply beq_eq_false_iff_ne.mpr; omega
  cases eof <;>
    simp [handleOne, readRequest, readLoop, Sock.recv, recvSegs, hm]

private theorem segmented_flatten {parts : List (List Bytes)} {items : List Item} (h : Segmented parts items) :
    parts.flatten.flatten = bytesOf items := by
  induction h with
  | nil => rfl
  | cons h1 _ ih => simp [bytesOf, h1] at ih ⊢; exact ih

private theorem segmented_nonEmpty {parts : List (List Bytes)} {items : List Item} (h : Segmented parts items) :
    Segmented (parts.map nonEmptySegs) items ∧ nonEmptySegs parts.flatten = (parts.map nonEmptySegs).flatten := by
  induction h with
  | nil => exact ⟨.nil, rfl⟩
  | cons h1 _ ih =>
    refine ⟨.cons (by rw [nonEmptySegs_flatten]; exact h1) ih.1, ?_⟩
    simp only [List.flatten_cons, List.map_cons, nonEmptySegs_append, ih.2]

private theorem connLoop_answers (cfg : Cfg) (hcfg : CfgOk cfg) (hmax : 0 < cfg.max) :
    ∀ (items : List Item) (parts : List (List Bytes)) (s : Sock) (acc : List (Bool × List Resp)) (mr fuel : Nat),
      Segmented parts items → (∀ it ∈ items, it.Ok cfg) → s.segs = parts.flatten → items.length + 1 ≤ fuel →
      ∃ tail, (connLoop cfg fuel s acc mr).reqs = acc ++ tail ∧ Answers cfg items tail := by
  intro items
  induction items with
  | nil =>
    intro parts s acc mr fuel hseg _ hs hf
    cases hseg
    obtain ⟨h1, h2, h3⟩ := handleOne_empty cfg hmax s (by simpa using hs)
    cases fuel with
    | zero => omega
    | succ fuel =>
      refine ⟨[(false, [])], ?_, rfl⟩
      unfold connLoop
      simp only [h1, h2, h3]
      split <;> simp
  | cons it items ih =>
    intro parts s acc mr fuel hseg hok hs hf
    cases hseg with
    | cons hp hrest =>
      rename_i p ps
      obtain ⟨o1, o2, o3, o4, o5, o6⟩ := hok it (by simp)
      obtain ⟨lo, src, hlo, hst, hserved⟩ := boundary_core cfg hcfg s p ps.flatten it.head it.body it.r
        (by simpa using hs) hp o1 o2 o3 o4 o5 o6
      cases fuel with
      | zero => omega
      | succ fuel =>
        unfold connLoop
        simp only [hserved.hang, hserved.parsed, hserved.resps, Bool.false_eq_true, if_false]
        rw [segmented_flatten hrest] at hlo
        by_cases hk : (handleOne cfg s).keep = true
        · simp only [hk, Bool.not_true, Bool.false_eq_true, if_false]
          obtain ⟨hseg', hne⟩ := segmented_nonEmpty hrest
          obtain ⟨tail, ht1, ht2⟩ := ih (ps.map nonEmptySegs) (handleOne cfg s).sock _ _ fuel hseg'
            (fun it' h' => hok it' (by simp [h'])) (by rw [hserved.sock]; exact hne)
            (by simp only [List.length_cons] at hf; omega)
          refine ⟨_ :: tail, by rw [ht1]; simp, lo, src, hlo, hst, tail, rfl, ?_⟩
          rw [← hserved.keep, hk]; simp only [if_true]; exact ht2
        · have hk0 : (handleOne cfg s).keep = false := by simpa using hk
          simp only [hk0, Bool.not_false, if_true]
          refine ⟨[_], rfl, lo, src, hlo, hst, [], rfl, ?_⟩
          rw [← hserved.keep, hk0]; simp

/-- **C07 (one response per request, in order).** The client's requests `items` (fixed-length or body-less,
`Item.Ok`) arrive in the segments `parts` — each request cut into segments in any way, the client sending request
`i+1` only after the response to request `i`. Then `handleConnection` produces, per `handle_one_request` call and in
order, exactly the responses of the handler selected for request `i` run on request `i`'s own head and body
(`Answers`): request boundaries are kept whatever the handlers do with the bodies, until a handler fails or a close
token ends the connection; after the last request no further head is parsed. -/
theorem C07_one_response_per_request_in_order (cfg : Cfg) (hcfg : CfgOk cfg) (hmax : 0 < cfg.max)
    (items : List Item) (parts : List (List Bytes)) (s : Sock) (hseg : Segmented parts items)
    (hok : ∀ it ∈ items, it.Ok cfg) (hs : s.segs = parts.flatten) :
    Answers cfg items (handleConnection cfg s).reqs := by
  have hlen : items.length ≤ s.pending.length := by
    rw [Sock.pending, hs, segmented_flatten hseg]
    clear hseg hs
    induction items with
    | nil => simp
    | cons it items ih =>
      have hne : it.head ≠ [] := by
        intro h0
        have := (hok it (by simp)).1
        rw [h0, Request.parse_nil] at this; cases this
      have hl : 0 < it.head.length := List.length_pos_iff.mpr hne
      have := ih (fun it' h' => hok it' (by simp [h']))
      simp only [bytesOf, List.map_cons, List.flatten_cons, List.length_append, List.length_cons] at this ⊢
      omega
  obtain ⟨tail, h1, h2⟩ := connLoop_answers cfg hcfg hmax items parts s [] 0 (s.pending.length + 2) hseg hok hs
    (by omega)
  rw [handleConnection, h1]
  simpa using h2

/-! ## Non-vacuity: concrete connections (evaluated by the kernel) -/

namespace C07Demo

/-- a handler that reads only 2 bytes of the body through `Read`, and one that peeks through `BufRead` -/
def hPartial : Handler := fun _ _ b => ⟨[okResp], (b.read 2).2, true⟩
def hPeek : Handler := fun _ _ b => ⟨[okResp], (b.fillBuf.2).consume 1, true⟩
def cfgPartial : Cfg := { cfg with fallback := hPartial }
def cfgPeek : Cfg := { cfg with fallback := hPeek }

theorem cfgPartial_ok : CfgOk cfgPartial :=
  ⟨fun _ _ _ b => ⟨[], trivial, rfl⟩, fun _ _ b => ⟨[.read 2], ⟨by decide, trivial⟩, rfl⟩⟩

/-- request 1 (`Content-Length: 5`) cut into three segments in the middle of head and body, then request 2 -/
def sockTwo : Sock :=
  ⟨[headFixed.take 10, headFixed.drop 10 ++ str "he", str "llo", nextReq.take 3, nextReq.drop 3], true⟩

/-- a truncated fixed body (peer closed after 3 of 5 bytes), and a chunked body with a bad size line -/
def sockShort : Sock := ⟨[headFixed, str "hel"], true⟩
def sockBadChunk : Sock := ⟨[headChunked, str "5\r\nhello\r\nzz\r\n"], false⟩

end C07Demo

open C07Demo in
/-- the hypotheses of `C07_fixed_boundary` are satisfiable (handler reading only part of the body) … -/
example : (handleOne cfgPartial sockTwo).sock.pending = nextReq := by
  obtain ⟨r, hp, ho, hte, hcl, _⟩ := headView_some
    (show headView (Request.parse headFixed) = some (headFixed.length, false, some 5, false) by decide +kernel)
  obtain ⟨_, _, _, _, _, h⟩ := C07_fixed_boundary cfgPartial cfgPartial_ok sockTwo
    [headFixed.take 10, headFixed.drop 10 ++ str "he", str "llo"] [nextReq.take 3, nextReq.drop 3]
    headFixed (str "hello") r rfl (by decide +kernel) hp ho (by decide +kernel) hte (by rw [hcl]; decide +kernel)
    (by intro h hh; cases hh)
  rw [h]; decide +kernel

open C07Demo in
/-- … and the whole connection answers both requests, whichever way the handler (mis)uses the body -/
example : (handleConnection cfgPartial sockTwo).reqs = [(true, [okResp]), (true, [okResp]), (false, [])] ∧
    (handleConnection cfgPeek sockTwo).reqs = [(true, [okResp]), (true, [okResp]), (false, [])] ∧
    (handleConnection cfg sockTwo).reqs = [(true, [okResp]), (true, [okResp]), (false, [])] ∧
    (handleConnection cfg sockTwo).fin = .closed := by decide +kernel

open C07Demo in
/-- unknown position ⇒ close: one response, then the connection ends -/
example : (handleOne cfg sockShort).keep = false ∧ (handleConnection cfg sockShort).reqs = [(true, [okResp])] ∧
    (handleOne cfg sockBadChunk).keep = false ∧
    (handleConnection cfgPartial sockBadChunk).reqs = [(true, [okResp])] := by decide +kernel

open C07Demo in
/-- hook `Drop` with an unread fixed body: the body is discarded, the next request is served -/
example : (handleConnection { cfg with hook := some (fun r => if r.headers.cl == some 5 then .drop (some ⟨403, false, []⟩)
      else .proceed) } sockTwo).reqs = [(true, [⟨403, false, []⟩]), (true, [okResp]), (false, [])] := by
  decide +kernel

/-- FINDING (outside `OpsOk`): a ZERO-length `read` on a fixed-length body with bytes remaining returns
`Err(UnexpectedEof)` and sets the failure flag — the connection is then closed although the body is intact. -/
example : ((BodyReader.newFixed [] { data := str "hello", segs := [] } 5).read 0).2.fail = true := by decide +kernel

end Khttp
