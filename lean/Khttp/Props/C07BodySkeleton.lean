/-
  C05 / C06 / C07 — tie between the control skeleton of `BodyReader` in src/body_reader.rs and Khttp/Model/Body.lean.
  Extracted from the source on every run (tools/extract_skeleton.py → `Gen.bodySkeleton`):

   from_request: chunked? → new_chunked | cl? → (cl > 0? → new_fixed | new_empty) | new_empty   = `BodyReader.fromRequest`
                 (chunked is tested BEFORE the length: RFC 9112 §6.3, C05_reader_choice)
   from_response: the same ladder ending in new_eof (a response without framing is delimited by connection close) = `BodyReader.fromResponse`
   note:         err? → flag set? → flag = true                                                  = `BodyReader.note`
                 (EVERY error of `read` sets the flag — no error kind is exempt)
   read:         match { inner read ×3 } ; note                                                  = `BodyReader.read`
   fill_buf:     match { inner fill_buf ×3 } ; err? → flag set? → flag = true                    = `BodyReader.fillBuf`
   drain:        eof|empty? → return ; loop { match read { Ok(0) => break, Ok(_) => continue, Err(_) => break } }
                                                                                                   = `BodyReader.drain` / `drainLoop`
                 (only a read of 0 bytes ends the discard loop; a short read does not)
   drop:         drain                                                                           = the `.drain` in `handleOne`

  An error kind exempted from the failure flag, a drain loop that stops at a short read or collects the body, a reader
  choice that tests the length first … changes the extracted lists and this obligation stops checking.
-/
import Khttp.Gen.Skeleton
import Khttp.Model.Body
namespace Khttp.Body

def expectedBodySkeleton : List (String × List String) :=
  [("from_request", ["chunked?", "{", "new_chunked", "}", "cl?", "{", "cl > 0?", "{", "new_fixed", "}", "{", "new_empty", "}", "}", "{", "new_empty", "}"]),
   ("from_response", ["chunked?", "{", "new_chunked", "}", "cl?", "{", "cl > 0?", "{", "new_fixed", "}", "{", "new_empty", "}", "}", "{", "new_eof", "}"]),
   ("note", ["err?", "{", "flag set?", "{", "flag = true", "}", "}"]),
   ("drain", ["eof|empty?", "{", "return", "}", "loop", "{", "match", "read", "{", "Ok(0) => break", "Ok(_) => continue", "Err(_) => break", "}", "}"]),
   ("read", ["match", "{", "inner read", "inner read", "inner read", "}", "note"]),
   ("fill_buf", ["match", "{", "inner fill_buf", "inner fill_buf", "inner fill_buf", "}", "err?", "{", "flag set?", "{", "flag = true", "}", "}"]),
   ("drop", ["drain"])]

theorem C07_skeleton_body_reader : Gen.bodySkeleton = expectedBodySkeleton := by decide

/-- what the skeleton's `note` stands for in the model: the flag after a call is set iff it was set or the call failed -/
theorem note_spec {α} (r : BodyReader) (res : IoRes α) :
    r.note res = (r.fail || match res with | .err _ => true | .ok _ => false) := by
  cases res <;> simp [BodyReader.note]

/-- the reader choice of the skeleton's `from_request`: chunked wins over any declared length -/
theorem fromRequest_chunked_first (lo : Bytes) (s : Src) (cl : Option Nat) :
    BodyReader.fromRequest lo s true cl = BodyReader.newChunked lo s := by
  simp [BodyReader.fromRequest]

end Khttp.Body
