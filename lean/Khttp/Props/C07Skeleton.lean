/-
  C07 / C09 / C16 — tie between src/server/mod.rs and Khttp/Model/Conn.lean + Khttp/Model/Serve.lean.
  The ordered control skeleton of `handle_one_request`, `handle_connection`, `serve` and `serve_threaded`, extracted from
  the source on every run (tools/extract_skeleton.py → Khttp/Gen/Skeleton.lean), must be the one the model mirrors:

   handle_one_request:  read_request → {400|431 with Headers::close() → close} / other read errors → close;
                        hook? → call hook → Proceed | Drop { request close? ∨ ¬response keep-alive → close;
                                 else drop(from_request … on_failure) ; return ¬body failed };
                        match_route; from_request … on_failure; client_requested_close := request close?;
                        call handler `?` (Err propagates = close); client_requested_close ∨ body failed → close;
                        else response keep-alive                         = `handleOne` branch by branch
   handle_connection:   loop { handle_one_request `?`; ¬keep_alive → return }     = `connLoop`
   serve / serve_threaded: accept; setup hook: Proceed | Drop → continue | StopAccepting → break; then per connection
                        handle_connection followed by the teardown hook        = `acceptLoop (connThreaded cfg)`

  Removing the body-failed check, ignoring the request's close token on a path, retrying after a handler error,
  calling the teardown hook before the connection is handled … changes the extracted list and these obligations stop checking.
-/
import Khttp.Gen.Skeleton
import Khttp.Model.Serve
namespace Khttp

def Conn.expectedHandleOne : List String :=
  ["read_request", "{", "{", "400", "close-headers", "return close", "}", "{", "431", "close-headers", "return close", "}", "return close", "}", "hook?", "{", "call hook", "{", "Proceed", "Drop", "{", "request close?", "not response keep-alive", "{", "return close", "}", "drop", "from_request", "on_failure", "return", "not body failed?", "}", "}", "}", "match_route", "from_request", "on_failure", "client_requested_close", "request close?", "call handler ?", "client_requested_close", "body failed?", "{", "return close", "}", "response keep-alive"]
def Conn.expectedHandleConnection : List String :=
  ["loop", "{", "handle_one_request", "not keep_alive", "{", "return", "}", "}"]
def Serve.expectedServe : List String :=
  ["{", "{", "handle_connection", "teardown", "{", "call hook", "}", "}", "}", "loop", "{", "accept", "setup", "{", "call hook", "{", "Proceed", "Drop", "continue", "StopAccepting", "break", "}", "{", "continue", "}", "}", "execute", "}"]
def Serve.expectedServeThreaded : List String :=
  ["loop", "{", "accept", "setup", "{", "call hook", "{", "Proceed", "Drop", "continue", "StopAccepting", "break", "}", "{", "continue", "}", "}", "spawn", "{", "handle_connection", "teardown", "{", "call hook", "}", "}", "}"]

theorem C07_skeleton_handle_one : Gen.serverHandleOne = Conn.expectedHandleOne := by decide
theorem C09_skeleton_handle_connection : Gen.serverHandleConnection = Conn.expectedHandleConnection := by decide
theorem C16_skeleton_serve : Gen.serverServe = Serve.expectedServe := by decide
theorem C16_skeleton_serve_threaded : Gen.serverServeThreaded = Serve.expectedServeThreaded := by decide

end Khttp
