/-
C08 — "Serialized messages are correctly framed and reproduce status, headers, body."

Model: `Khttp/Model/Printer.lean` (src/printer.rs), parametric in the size constants (`Thresholds`) and in the
unobservable choices of std (`StdPolicy`).  Wire format and reference decoder: `Khttp/Spec/Message.lean`.

Conventions used in every statement below
  * `cfg : Thresholds` with `cfg.Pos` — ANY positive values of PROBE_MAX / chunk buffer / reserve step (and any
    INLINE_COPY_MAX, head capacity, initial probe capacity); `Thresholds.gen` = the values generated from the source.
  * `pol : StdPolicy` — ANY buffer sizes chosen by `read_to_end`, `io::copy`, `Vec::reserve`.
  * `body : RSrc` with `body.Ok` — any data, delivered in ANY schedule of pieces ≥ 1.
  * `accept : Option Nat` — the count returned by the single `write_vectored` call (`none` = everything); the
    `Write` contract (count ≤ bytes offered) is the hypothesis `AcceptOk`.
  * `date = fieldLine ("date", dv)` — what `get_date_now()` returned is a date field line (property of date.rs).
  * `100 ≤ code ≤ 999`, `noCRLF reason`, `HeadersOk h` (well-formed fields; either no field named
    content-length/transfer-encoding and the chunked flag clear, or the flag set and exactly one such field, a
    transfer-encoding ending in chunked).
  Out of scope (see the model header): writers/readers that return errors.

RESULT.  The full literal statement (`C08_full`: ANY token-named header set) is FALSE for the code (`not_C08_full`);
the strongest true statement is `C08_partial` and the theorems `C08_*` below, with the excluded class as an explicit
decidable hypothesis (`C08_covered`: no user field is NAMED content-length / transfer-encoding — the declaration is
made through `set_content_length` / `set_transfer_encoding_chunked`, or equivalently `add("transfer-encoding",
"chunked")`, see `add_te_chunked_eq`):
  (a) a user field named `transfer-encoding` whose value does not contain `chunked` leaves the chunked flag clear, so
      the printer adds `content-length` as well: two framing headers.  (A user field named `content-length` is never
      stored as a field: `add` turns it into the declared length.)
A declared content-length larger than what the reader delivers (formerly witness (b)) is now an ERROR of the printer
(`C08_underrun_is_error`): `Err` before anything is written on the Fast path, `Err` after head and body on the
Streaming path — never `Ok`.
-/
import Khttp.Lemmas.PrinterDecode
namespace Khttp.Printer
open Khttp
open Khttp.Spec.Message hiding CRLF

/-! ## Fixtures for the non-vacuity examples: tiny thresholds so that `decide` can run all four strategies -/

/-- PROBE_MAX = 4, INLINE_COPY_MAX = 2, chunk buffer = 3 -/
def cfg4 : Thresholds := { probeMax := 4, inlineCopyMax := 2, chunkBufSize := 3, headInitCap := 8,
                           probeInitCap := 2, probeStep := 1 }
def okBytes : PrintRes Bytes → Option Bytes | .ok b => some b | _ => none
/-- the bytes written before an `Err` was returned -/
def errBytes : PrintRes Bytes → Option Bytes | .ioErr b => some b | _ => none
def demoDate : Bytes := fieldLine (str "date", str "Thu, 01 Jan 1970 00:00:00 GMT")
def demoPlain : Headers := Headers.new.add (str "x-a") (str "1")
def demoDeclared : Headers := demoPlain.setContentLength (some 6)
def demoChunked : Headers := (Headers.newNodate.setTransferEncodingChunked).add (str "x-a") (str "1")
def demoBody : RSrc := { data := str "abcdefghij", pieces := [1, 2, 1, 5] }

example : cfg4.Pos := by decide
theorem C08_gen_pos : Thresholds.gen.Pos := by decide
example : demoBody.Ok := by decide
example : demoDate.length = 37 ∧ demoDate = Gen.headerTemplate.take 6 ++ str "Thu, 01 Jan 1970 00:00:00 GMT\r\n" := by
  decide +kernel

theorem demoPlain_ok : HeadersOk demoPlain := ⟨by decide +kernel, Or.inl ⟨by decide +kernel, by decide +kernel⟩⟩
theorem demoDeclared_ok : HeadersOk demoDeclared :=
  ⟨by decide +kernel, Or.inl ⟨by decide +kernel, by decide +kernel⟩⟩
theorem demoChunked_ok : HeadersOk demoChunked := ⟨by decide +kernel, Or.inr ⟨by decide +kernel, by decide +kernel⟩⟩

/-! ## Numerals -/

/-- `u64_to_ascii_buf n` is the decimal numeral of `n`: it is what the spec renders, it reads back as `n`, consists
    of digits only, and has no leading zero. -/
theorem C08_decimal_correct (n : Nat) (h : n < 2 ^ 64) :
    u64ToAsciiBuf n = .ok (decNumeral n) ∧ parseDec (decNumeral n) = some n ∧
      decVal (decNumeral n) = n ∧ (decNumeral n).all isDigit = true ∧
      (n ≠ 0 → (decNumeral n).head? ≠ some 0x30) := by
  refine ⟨u64ToAsciiBuf_eq n (by omega), parseDec_decNumeral n, (decNumeral_spec n).1, (decNumeral_spec n).2, ?_⟩
  intro hn
  obtain ⟨d, t, e, h1, h2⟩ := decNumeral_head n hn
  rw [e]; simpa using decChar_ne_zero d h2 h1

example : okBytes (u64ToAsciiBuf 18446744073709551615) = some (str "18446744073709551615") := by decide +kernel
example : okBytes (u64ToAsciiBuf 0) = some (str "0") ∧ okBytes (u64ToAsciiBuf 8192) = some (str "8192") := by
  decide +kernel

/-- the `{:X}` model is the upper-case hexadecimal numeral: reads back as `n`, `0-9A-F` only, no leading zero -/
theorem C08_hex_correct (n : Nat) :
    hexUpper n = hexNumeral n ∧ hexVal (hexNumeral n) = n ∧ (hexNumeral n).all isUpperHex = true ∧
      hexNumeral n ≠ [] ∧ (n ≠ 0 → (hexNumeral n).head? ≠ some 0x30) := by
  refine ⟨hexUpper_eq n, (hexNumeral_spec n).1, hexNumeral_upper n, hexNumeral_ne_nil n, ?_⟩
  intro hn
  obtain ⟨d, t, e, h1, h2⟩ := hexNumeral_head n hn
  rw [e]; simpa using hexChar_ne_zero d h2 h1

example : hexUpper 131072 = str "20000" ∧ hexUpper 255 = str "FF" ∧ hexUpper 0 = str "0" := by decide +kernel

/-- `u16_to_ascii` gives exactly three decimal digits and a space for 100..999 (precondition explicit: for
    codes ≥ 1000 the first byte is not a digit, for 20800..25599 the `u8` addition overflows) -/
theorem C08_status_digits (code : Nat) (lo : 100 ≤ code) (hi : code ≤ 999) :
    u16ToAscii code = .ok (decNumeral code ++ [SP]) ∧
      ∃ a b c, decNumeral code = [a, b, c] ∧ isDigit a = true ∧ isDigit b = true ∧ isDigit c = true ∧
        decVal [a, b, c] = code :=
  ⟨u16ToAscii_eq code lo hi, decNumeral_three code lo hi⟩

example : okBytes (u16ToAscii 404) = some (str "404 ") := by decide +kernel
-- outside the precondition: `1000` prints `":00 "`, `20800` panics (debug build)
example : okBytes (u16ToAscii 1000) = some (str ":00 ") ∧ (u16ToAscii 20800).isPanic = true := by decide +kernel

/-! ## Partial writes -/

/-- whatever count `accept ≤ head.len() + body.len()` the first (vectored) write returns, exactly `head ++ body`
    reaches the writer -/
theorem C08_partial_write_irrelevant (cfg : Thresholds) (head body : Bytes) (accept : Nat)
    (h : accept ≤ head.length + body.length) : writeVectoredBytes cfg head body accept = .ok (head ++ body) :=
  writeVectoredBytes_eq cfg head body accept h

/-- a writer that claims more than it was given (excluded by the `Write` contract) makes the Rust panic in
    `&body[offset..]` (only when the body was not inlined) -/
theorem C08_partial_write_beyond_contract (cfg : Thresholds) (head body : Bytes) (accept : Nat)
    (hb : cfg.inlineCopyMax ≤ body.length) (h : head.length + body.length < accept) :
    (writeVectoredBytes cfg head body accept).isPanic = true := writeVectoredBytes_panic cfg head body accept hb h

example : ∀ a, a ≤ 7 → okBytes (writeVectoredBytes cfg4 (str "HEAD") (str "abc") a) = some (str "HEADabc") := by
  decide +kernel
example : (writeVectoredBytes cfg4 (str "HEAD") (str "abc") 8).isPanic = true := by decide +kernel

/-! ## Wire theorems: the emitted bytes are renderings (for arbitrary thresholds) -/

/-- `write_response_empty`: `content-length: 0`, or (chunked flag) the user's fields and the last-chunk -/
theorem C08_response_empty_wire (cfg : Thresholds) (code : Nat) (reason : Bytes) (h : Headers) (date dv : Bytes)
    (hd : date = fieldLine (str "date", dv)) (lo : 100 ≤ code) (hi : code ≤ 999) :
    writeResponseEmpty cfg code reason h date = .ok (
      if h.chunked then
        renderMessage (statusStart code reason) (h.fields ++ dateField (dateOpt h dv)) (.chunked [])
      else renderResponse code reason h.fields (dateOpt h dv) (.length [])) :=
  writeResponseEmpty_eq cfg code reason h date dv hd lo hi

example : okBytes (writeResponseEmpty cfg4 204 (str "NO CONTENT") demoPlain demoDate) =
    some (str "HTTP/1.1 204 NO CONTENT\r\nx-a: 1\r\ndate: Thu, 01 Jan 1970 00:00:00 GMT\r\ncontent-length: 0\r\n\r\n") := by
  decide +kernel
example : okBytes (writeResponseEmpty cfg4 200 (str "OK") demoChunked demoDate) =
    some (str "HTTP/1.1 200 OK\r\ntransfer-encoding: chunked\r\nx-a: 1\r\n\r\n0\r\n\r\n") := by decide +kernel

/-- `write_response_bytes`: content-length = body length (decimal) and the body; or (chunked flag) one chunk holding
    the whole body — none if it is empty — and the last-chunk.  Independent of `accept`. -/
theorem C08_response_bytes_wire (cfg : Thresholds) (code : Nat) (reason : Bytes) (h : Headers) (date dv : Bytes)
    (hd : date = fieldLine (str "date", dv)) (lo : 100 ≤ code) (hi : code ≤ 999) (body : Bytes)
    (hlen : body.length < 2 ^ 64) (accept : Option Nat) :
    (h.chunked = true →
      writeResponseBytes cfg code reason h date body accept = .ok (
        renderMessage (statusStart code reason) (h.fields ++ dateField (dateOpt h dv))
          (.chunked (if body = [] then [] else [body])))) ∧
    (h.chunked = false →
      AcceptOk accept (renderResponse code reason h.fields (dateOpt h dv) (.length body)) →
      writeResponseBytes cfg code reason h date body accept
        = .ok (renderResponse code reason h.fields (dateOpt h dv) (.length body))) :=
  ⟨writeResponseBytes_chunked cfg code reason h date dv hd lo hi body accept,
   fun hch ha => writeResponseBytes_length cfg code reason h date dv hd lo hi body hlen accept hch ha⟩

example : ∀ a, a ≤ 70 → okBytes (writeResponseBytes cfg4 404 (str "NOT FOUND") demoPlain demoDate (str "abc") (some a)) =
    some (str "HTTP/1.1 404 NOT FOUND\r\nx-a: 1\r\ndate: Thu, 01 Jan 1970 00:00:00 GMT\r\ncontent-length: 3\r\n\r\nabc") := by
  decide +kernel
example : okBytes (writeResponseBytes cfg4 200 (str "OK") demoChunked demoDate (str "abc") none) =
    some (str "HTTP/1.1 200 OK\r\ntransfer-encoding: chunked\r\nx-a: 1\r\n\r\n3\r\nabc\r\n0\r\n\r\n") := by decide +kernel

/-- the four cases of `write_response` / `write_request` after the start line -/
def ReaderWire (cfg : Thresholds) (start : Bytes) (h : Headers) (dv : Bytes) (body : RSrc) (accept : Option Nat)
    (result : PrintRes Bytes) : Prop :=
  -- declared chunked: the user's fields (one of them the transfer-encoding) and a chunked body
  (h.chunked = true →
    ∃ chunks : List Bytes, (∀ c ∈ chunks, c ≠ [] ∧ c.length ≤ cfg.chunkBufSize) ∧ chunks.flatten = body.data ∧
      result = .ok (renderMessage start (h.fields ++ dateField (dateOpt h dv)) (.chunked chunks))) ∧
  -- declared length n, the reader has n bytes: `content-length: n` and exactly the first n bytes of the body
  (∀ n, h.chunked = false → h.cl = some n → n < 2 ^ 64 → n ≤ body.data.length →
    AcceptOk accept (renderHead start (h.fields ++ dateField (dateOpt h dv) ++ [clField n]) ++ body.data.take n) →
    result = .ok (renderHead start (h.fields ++ dateField (dateOpt h dv) ++ [clField n]) ++ body.data.take n) ∧
    result = .ok (renderMessage start (allFields h.fields (dateOpt h dv) (.length (body.data.take n)))
        (.length (body.data.take n)))) ∧
  -- declared length n, the reader ends earlier: an error; nothing written (Fast) / head and body written (Streaming)
  (∀ n, h.chunked = false → h.cl = some n → n < 2 ^ 64 → body.data.length < n →
    result = if n ≤ cfg.probeMax then .ioErr []
      else .ioErr (renderHead start (h.fields ++ dateField (dateOpt h dv) ++ [clField n]) ++ body.data)) ∧
  -- nothing declared, reader ended within the probe: content-length framing
  (h.chunked = false → h.cl = none → body.data.length < cfg.probeMax →
    AcceptOk accept (renderMessage start (allFields h.fields (dateOpt h dv) (.length body.data)) (.length body.data)) →
    result = .ok (renderMessage start (allFields h.fields (dateOpt h dv) (.length body.data)) (.length body.data))) ∧
  -- nothing declared, at least PROBE_MAX bytes: chunked framing, first chunk = the probed prefix
  (h.chunked = false → h.cl = none → cfg.probeMax ≤ body.data.length →
    ∃ chunks : List Bytes, (∀ c ∈ chunks, c ≠ [] ∧ c.length ≤ max cfg.probeMax cfg.chunkBufSize) ∧
      chunks.flatten = body.data ∧ chunks.head? = some (body.data.take cfg.probeMax) ∧
      result = .ok (renderMessage start (allFields h.fields (dateOpt h dv) (.chunked chunks)) (.chunked chunks)))

theorem genericWrite_wire (cfg : Thresholds) (hc : cfg.Pos) (pol : StdPolicy) (start : Bytes) (h : Headers)
    (date dv : Bytes) (hd : date = fieldLine (str "date", dv)) (body : RSrc) (hs : body.Ok) (accept : Option Nat) :
    ReaderWire cfg start h dv body accept (genericWrite cfg pol start h date body accept) := by
  refine ⟨fun hch => genericWrite_chunked cfg hc pol start h date dv hd body hs accept hch, ?_,
    fun n hch hcl hn hlt => genericWrite_underrun cfg pol start h date dv hd body hs accept hch n hcl hn hlt,
    fun hch hcl hn ha => genericWrite_probe_complete cfg hc pol start h date dv hd body hs accept hch hcl hn ha,
    fun hch hcl hn => genericWrite_probe_incomplete cfg hc pol start h date dv hd body hs accept hch hcl hn⟩
  intro n hch hcl hn hle ha
  have e := genericWrite_declared cfg pol start h date dv hd body hs accept hch n hcl hn hle ha
  exact ⟨e, by rw [e, head_take_eq start h dv n body.data hle]⟩

/-- `write_response` (body from a reader): which framing, and the exact bytes, for every strategy -/
theorem C08_response_reader_wire (cfg : Thresholds) (hc : cfg.Pos) (pol : StdPolicy) (code : Nat) (reason : Bytes)
    (h : Headers) (date dv : Bytes) (hd : date = fieldLine (str "date", dv)) (lo : 100 ≤ code) (hi : code ≤ 999)
    (body : RSrc) (hs : body.Ok) (accept : Option Nat) :
    ReaderWire cfg (statusStart code reason) h dv body accept
      (writeResponse cfg pol code reason h date body accept) := by
  rw [writeResponse_generic cfg pol code reason h date body accept lo hi]
  exact genericWrite_wire cfg hc pol _ h date dv hd body hs accept

/-- `write_request` (client): the same, after `method SP uri SP HTTP/1.1` -/
theorem C08_request_wire (cfg : Thresholds) (hc : cfg.Pos) (pol : StdPolicy) (m : Method) (uri : Bytes)
    (h : Headers) (date dv : Bytes) (hd : date = fieldLine (str "date", dv))
    (body : RSrc) (hs : body.Ok) (accept : Option Nat) :
    ReaderWire cfg (requestStart m.asBytes uri) h dv body accept
      (writeRequest cfg pol m uri h date body accept) := by
  rw [writeRequest_generic cfg pol m uri h date body accept]
  exact genericWrite_wire cfg hc pol _ h date dv hd body hs accept

-- the four strategies on the 10-byte body delivered as 1+2+1+5 (+ whatever is asked), PROBE_MAX = 4, chunk buffer 3
example : okBytes (writeResponse cfg4 StdPolicy.real 200 (str "OK") demoChunked demoDate demoBody none) =
    some (str "HTTP/1.1 200 OK\r\ntransfer-encoding: chunked\r\nx-a: 1\r\n\r\n1\r\na\r\n2\r\nbc\r\n1\r\nd\r\n3\r\nefg\r\n3\r\nhij\r\n0\r\n\r\n") := by
  decide +kernel
example : okBytes (writeResponse cfg4 StdPolicy.real 200 (str "OK") demoDeclared demoDate demoBody none) =
    some (str "HTTP/1.1 200 OK\r\nx-a: 1\r\ndate: Thu, 01 Jan 1970 00:00:00 GMT\r\ncontent-length: 6\r\n\r\nabcdef") := by
  decide +kernel
example : okBytes (writeResponse cfg4 StdPolicy.real 200 (str "OK") (demoPlain.setContentLength (some 3)) demoDate demoBody (some 5)) =
    some (str "HTTP/1.1 200 OK\r\nx-a: 1\r\ndate: Thu, 01 Jan 1970 00:00:00 GMT\r\ncontent-length: 3\r\n\r\nabc") := by
  decide +kernel
example : okBytes (writeResponse cfg4 StdPolicy.real 200 (str "OK") demoPlain demoDate { data := str "abc", pieces := [2] } (some 0)) =
    some (str "HTTP/1.1 200 OK\r\nx-a: 1\r\ndate: Thu, 01 Jan 1970 00:00:00 GMT\r\ncontent-length: 3\r\n\r\nabc") := by
  decide +kernel
example : okBytes (writeResponse cfg4 StdPolicy.real 200 (str "OK") demoPlain demoDate demoBody none) =
    some (str "HTTP/1.1 200 OK\r\nx-a: 1\r\ndate: Thu, 01 Jan 1970 00:00:00 GMT\r\ntransfer-encoding: chunked\r\n\r\n4\r\nabcd\r\n3\r\nefg\r\n3\r\nhij\r\n0\r\n\r\n") := by
  decide +kernel
-- exactly PROBE_MAX bytes: chunked with a single chunk
example : okBytes (writeResponse cfg4 StdPolicy.real 200 (str "OK") Headers.newNodate demoDate { data := str "abcd" } none) =
    some (str "HTTP/1.1 200 OK\r\ntransfer-encoding: chunked\r\n\r\n4\r\nabcd\r\n0\r\n\r\n") := by decide +kernel
example : okBytes (writeRequest cfg4 StdPolicy.real .post (str "/p?q") Headers.newNodate demoDate { data := str "ab" } none) =
    some (str "POST /p?q HTTP/1.1\r\ncontent-length: 2\r\n\r\nab") := by decide +kernel

/-! ## A declared Content-Length is never exceeded -/

/-- With a declared length `cl ≤ body length` (chunked flag clear) the printer returns `Ok` and the bytes after the
    head — which announces `cl` — are exactly `body.take cl`, i.e. exactly `cl` bytes, on the Fast path
    (`cl ≤ PROBE_MAX`) and on the Streaming path (`cl > PROBE_MAX`) alike. -/
theorem C08_declared_length_never_exceeded (cfg : Thresholds) (pol : StdPolicy) (code : Nat) (reason : Bytes)
    (h : Headers) (date dv : Bytes) (hd : date = fieldLine (str "date", dv)) (lo : 100 ≤ code) (hi : code ≤ 999)
    (body : RSrc) (hs : body.Ok) (accept : Option Nat) (cl : Nat) (hch : h.chunked = false) (hcl : h.cl = some cl)
    (hn : cl < 2 ^ 64) (hle : cl ≤ body.data.length)
    (ha : AcceptOk accept (renderHead (statusStart code reason)
      (h.fields ++ dateField (dateOpt h dv) ++ [clField cl]) ++ body.data.take cl)) :
    writeResponse cfg pol code reason h date body accept
      = .ok (renderHead (statusStart code reason) (h.fields ++ dateField (dateOpt h dv) ++ [clField cl])
              ++ body.data.take cl) ∧
    (body.data.take cl).length = cl := by
  rw [writeResponse_generic cfg pol code reason h date body accept lo hi]
  refine ⟨genericWrite_declared cfg pol _ h date dv hd body hs accept hch cl hcl hn hle ha, ?_⟩
  simp; omega

/-- the same for requests written by the client -/
theorem C08_declared_length_never_exceeded_request (cfg : Thresholds) (pol : StdPolicy) (m : Method) (uri : Bytes)
    (h : Headers) (date dv : Bytes) (hd : date = fieldLine (str "date", dv))
    (body : RSrc) (hs : body.Ok) (accept : Option Nat) (cl : Nat) (hch : h.chunked = false) (hcl : h.cl = some cl)
    (hn : cl < 2 ^ 64) (hle : cl ≤ body.data.length)
    (ha : AcceptOk accept (renderHead (requestStart m.asBytes uri)
      (h.fields ++ dateField (dateOpt h dv) ++ [clField cl]) ++ body.data.take cl)) :
    writeRequest cfg pol m uri h date body accept
      = .ok (renderHead (requestStart m.asBytes uri) (h.fields ++ dateField (dateOpt h dv) ++ [clField cl])
              ++ body.data.take cl) ∧
    (body.data.take cl).length = cl := by
  rw [writeRequest_generic cfg pol m uri h date body accept]
  refine ⟨genericWrite_declared cfg pol _ h date dv hd body hs accept hch cl hcl hn hle ha, ?_⟩
  simp; omega

/-- UNDER-RUN IS AN ERROR.  With a declared length `cl` larger than what the reader delivers the printer never returns
    `Ok`: on the Fast path (`cl ≤ PROBE_MAX`) it returns `Err` with NOTHING written; on the Streaming path it returns
    `Err` after the head (announcing `cl`) and the whole (too short) body were written — fewer than `cl` body bytes, so
    the declared length is not exceeded either, and the caller (the server) must close the connection. -/
theorem C08_underrun_is_error (cfg : Thresholds) (pol : StdPolicy) (code : Nat) (reason : Bytes)
    (h : Headers) (date dv : Bytes) (hd : date = fieldLine (str "date", dv)) (lo : 100 ≤ code) (hi : code ≤ 999)
    (body : RSrc) (hs : body.Ok) (accept : Option Nat) (cl : Nat) (hch : h.chunked = false) (hcl : h.cl = some cl)
    (hn : cl < 2 ^ 64) (hlt : body.data.length < cl) :
    (cl ≤ cfg.probeMax → writeResponse cfg pol code reason h date body accept = .ioErr []) ∧
    (cfg.probeMax < cl → writeResponse cfg pol code reason h date body accept
      = .ioErr (renderHead (statusStart code reason) (h.fields ++ dateField (dateOpt h dv) ++ [clField cl])
                ++ body.data)) ∧
    (∀ w, writeResponse cfg pol code reason h date body accept ≠ .ok w) := by
  rw [writeResponse_generic cfg pol code reason h date body accept lo hi,
    genericWrite_underrun cfg pol _ h date dv hd body hs accept hch cl hcl hn hlt]
  refine ⟨fun hp => by simp [hp], fun hp => by simp [Nat.not_le.2 hp], ?_⟩
  intro w; split <;> simp

/-- the same for requests written by the client -/
theorem C08_underrun_is_error_request (cfg : Thresholds) (pol : StdPolicy) (m : Method) (uri : Bytes)
    (h : Headers) (date dv : Bytes) (hd : date = fieldLine (str "date", dv))
    (body : RSrc) (hs : body.Ok) (accept : Option Nat) (cl : Nat) (hch : h.chunked = false) (hcl : h.cl = some cl)
    (hn : cl < 2 ^ 64) (hlt : body.data.length < cl) :
    (cl ≤ cfg.probeMax → writeRequest cfg pol m uri h date body accept = .ioErr []) ∧
    (cfg.probeMax < cl → writeRequest cfg pol m uri h date body accept
      = .ioErr (renderHead (requestStart m.asBytes uri) (h.fields ++ dateField (dateOpt h dv) ++ [clField cl])
                ++ body.data)) ∧
    (∀ w, writeRequest cfg pol m uri h date body accept ≠ .ok w) := by
  rw [writeRequest_generic cfg pol m uri h date body accept,
    genericWrite_underrun cfg pol _ h date dv hd body hs accept hch cl hcl hn hlt]
  refine ⟨fun hp => by simp [hp], fun hp => by simp [Nat.not_le.2 hp], ?_⟩
  intro w; split <;> simp

-- Fast path (declared 4 ≤ PROBE_MAX = 4, 3 bytes delivered): error, nothing written
example : errBytes (writeResponse cfg4 StdPolicy.real 200 (str "OK") (Headers.newNodate.setContentLength (some 4)) demoDate
    { data := str "abc", pieces := [1] } none) = some [] := by decide +kernel
-- Streaming path (declared 12 > PROBE_MAX = 4, 10 bytes delivered): error after head and body
example : errBytes (writeResponse cfg4 StdPolicy.real 200 (str "OK") (Headers.newNodate.setContentLength (some 12)) demoDate
    demoBody none) = some (str "HTTP/1.1 200 OK\r\ncontent-length: 12\r\n\r\nabcdefghij") := by decide +kernel
-- Streaming path (6 > PROBE_MAX = 4): 10 bytes offered, 6 sent
example : demoDeclared.cl = some 6 ∧ ¬ 6 ≤ cfg4.probeMax ∧ demoBody.data.length = 10 := by decide +kernel

/-! ## The reference decoder inverts the wire format (`decode_render`) -/

/-- decoding a rendering followed by arbitrary bytes `extra` gives back the parts (field values without surrounding
    optional whitespace) and `extra`: renderings are self-delimiting -/
theorem C08_decode_render (code : Nat) (reason : Bytes) (fields : List (Bytes × Bytes)) (fr : Framing)
    (extra : Bytes) (lo : 100 ≤ code) (hi : code ≤ 999) (hr : noCRLF reason = true)
    (hf : wfFields fields = true) (hfr : framingOk fields fr = true) (hw : framingWf fr = true) :
    decodeResponse (renderMessage (statusStart code reason) fields fr ++ extra)
      = some (code, reason, trimValues fields, fr.body, extra) :=
  decodeResponse_render code reason fields fr extra lo hi hr hf hfr hw

/-- … in particular for `renderResponse` (generated framing field) when no user field names a framing header -/
theorem C08_decode_renderResponse (code : Nat) (reason : Bytes) (user : List (Bytes × Bytes)) (date : Option Bytes)
    (fr : Framing) (lo : 100 ≤ code) (hi : code ≤ 999) (hr : noCRLF reason = true)
    (hu : wfFields user = true) (hn : noFramingName user = true) (hd : ∀ v, date = some v → noCRLF v = true)
    (hw : framingWf fr = true) :
    decodeResponse (renderResponse code reason user date fr)
      = some (code, reason, trimValues (allFields user date fr), fr.body, []) := by
  have := decodeResponse_render code reason (allFields user date fr) fr [] lo hi hr
    (wfFields_allFields user date fr hu hd) (framingOk_allFields user date fr hn) hw
  simpa [renderResponse] using this

theorem C08_decode_render_request (m u : Bytes) (fields : List (Bytes × Bytes)) (fr : Framing)
    (extra : Bytes) (hm : isToken m = true) (hu : u ≠ []) (hus : noSP u = true) (huc : noCRLF u = true)
    (hf : wfFields fields = true) (hfr : framingOk fields fr = true) (hw : framingWf fr = true) :
    decodeRequest (renderMessage (requestStart m u) fields fr ++ extra)
      = some (m, u, trimValues fields, fr.body, extra) :=
  decodeRequest_render m u fields fr extra hm hu hus huc hf hfr hw

set_option synthInstance.maxSize 1024 in
example : decodeResponse (renderResponse 404 (str "NOT FOUND") [(str "x-a", str " 1 ")] (some (str "D"))
      (.chunked [str "abcd", str "ef"]) ++ str "NEXT")
    = some (404, str "NOT FOUND", [(str "x-a", str "1"), (str "date", str "D"), (str "transfer-encoding", str "chunked")],
        str "abcdef", str "NEXT") := by decide +kernel
-- the decoder refuses ambiguous or missing framing, and short bodies
example : decodeResponse (str "HTTP/1.1 200 OK\r\ntransfer-encoding: gzip\r\ncontent-length: 3\r\n\r\nabc") = none := by
  decide +kernel
example : decodeResponse (str "HTTP/1.1 200 OK\r\nx: y\r\n\r\nabc") = none := by decide +kernel
example : decodeResponse (str "HTTP/1.1 200 OK\r\ncontent-length: 5\r\n\r\nabc") = none := by decide +kernel

/-! ## Exactly one framing header, nothing after the body -/

/-- `write_response`: the emitted bytes decode — by the independent reference decoder — to the same status line, a
    header section that starts with the user's fields in order and contains EXACTLY ONE framing field, the expected
    body, and NOTHING after it. -/
theorem C08_exactly_one_framing_header (cfg : Thresholds) (hc : cfg.Pos) (pol : StdPolicy) (code : Nat)
    (reason : Bytes) (h : Headers) (date dv : Bytes) (hd : date = fieldLine (str "date", dv))
    (hdv : noCRLF dv = true) (lo : 100 ≤ code) (hi : code ≤ 999) (hr : noCRLF reason = true)
    (body : RSrc) (hs : body.Ok) (accept : Option Nat) (hh : HeadersOk h)
    (hcl : ∀ n, h.chunked = false → h.cl = some n → n ≤ body.data.length ∧ n < 2 ^ 64)
    (ha : ∀ w, writeResponse cfg pol code reason h date body none = .ok w → AcceptOk accept w) :
    ∃ w tail, writeResponse cfg pol code reason h date body accept = .ok w ∧
      decodeResponse w = some (code, reason, trimValues h.fields ++ tail, expectedBody h body.data, []) ∧
      ((trimValues h.fields ++ tail).filter isFramingField).length = 1 := by
  rw [writeResponse_generic cfg pol code reason h date body accept lo hi]
  rw [writeResponse_generic cfg pol code reason h date body none lo hi] at ha
  obtain ⟨w, e, r⟩ := genericWrite_rendering cfg hc pol _ h date dv hd hdv body hs accept hh hcl ha
  obtain ⟨tail, d1, d2⟩ := r.decodeResponse lo hi hr
  exact ⟨w, tail, e, d1, d2⟩

/-- `write_response_bytes` -/
theorem C08_exactly_one_framing_header_bytes (cfg : Thresholds) (code : Nat)
    (reason : Bytes) (h : Headers) (date dv : Bytes) (hd : date = fieldLine (str "date", dv))
    (hdv : noCRLF dv = true) (lo : 100 ≤ code) (hi : code ≤ 999) (hr : noCRLF reason = true)
    (body : Bytes) (hlen : body.length < 2 ^ 64) (accept : Option Nat) (hh : HeadersOk h)
    (ha : ∀ w, writeResponseBytes cfg code reason h date body none = .ok w → AcceptOk accept w) :
    ∃ w tail, writeResponseBytes cfg code reason h date body accept = .ok w ∧
      decodeResponse w = some (code, reason, trimValues h.fields ++ tail, body, []) ∧
      ((trimValues h.fields ++ tail).filter isFramingField).length = 1 := by
  obtain ⟨w, e, r⟩ := writeResponseBytes_rendering cfg code reason h date dv hd hdv lo hi body hlen accept hh ha
  obtain ⟨tail, d1, d2⟩ := r.decodeResponse lo hi hr
  exact ⟨w, tail, e, d1, d2⟩

/-- `write_response_empty` -/
theorem C08_exactly_one_framing_header_empty (cfg : Thresholds) (code : Nat)
    (reason : Bytes) (h : Headers) (date dv : Bytes) (hd : date = fieldLine (str "date", dv))
    (hdv : noCRLF dv = true) (lo : 100 ≤ code) (hi : code ≤ 999) (hr : noCRLF reason = true) (hh : HeadersOk h) :
    ∃ w tail, writeResponseEmpty cfg code reason h date = .ok w ∧
      decodeResponse w = some (code, reason, trimValues h.fields ++ tail, [], []) ∧
      ((trimValues h.fields ++ tail).filter isFramingField).length = 1 := by
  obtain ⟨w, e, r⟩ := writeResponseEmpty_rendering cfg code reason h date dv hd hdv lo hi hh
  obtain ⟨tail, d1, d2⟩ := r.decodeResponse lo hi hr
  exact ⟨w, tail, e, d1, d2⟩

/-- `write_request` -/
theorem C08_exactly_one_framing_header_request (cfg : Thresholds) (hc : cfg.Pos) (pol : StdPolicy) (m : Method)
    (uri : Bytes) (h : Headers) (date dv : Bytes) (hd : date = fieldLine (str "date", dv))
    (hdv : noCRLF dv = true) (hm : isToken m.asBytes = true) (hu : uri ≠ []) (hus : noSP uri = true)
    (huc : noCRLF uri = true)
    (body : RSrc) (hs : body.Ok) (accept : Option Nat) (hh : HeadersOk h)
    (hcl : ∀ n, h.chunked = false → h.cl = some n → n ≤ body.data.length ∧ n < 2 ^ 64)
    (ha : ∀ w, writeRequest cfg pol m uri h date body none = .ok w → AcceptOk accept w) :
    ∃ w tail, writeRequest cfg pol m uri h date body accept = .ok w ∧
      decodeRequest w = some (m.asBytes, uri, trimValues h.fields ++ tail, expectedBody h body.data, []) ∧
      ((trimValues h.fields ++ tail).filter isFramingField).length = 1 := by
  rw [writeRequest_generic cfg pol m uri h date body accept]
  rw [writeRequest_generic cfg pol m uri h date body none] at ha
  obtain ⟨w, e, r⟩ := genericWrite_rendering cfg hc pol _ h date dv hd hdv body hs accept hh hcl ha
  obtain ⟨tail, d1, d2⟩ := r.decodeRequest hm hu hus huc
  exact ⟨w, tail, e, d1, d2⟩

-- hypotheses are satisfiable, in each of the strategies (see `demo…_ok` above)
example : HeadersOk demoPlain ∧ HeadersOk demoDeclared ∧ HeadersOk demoChunked ∧ noCRLF (str "NOT FOUND") = true ∧
    (∀ n, demoDeclared.chunked = false → demoDeclared.cl = some n → n ≤ demoBody.data.length ∧ n < 2 ^ 64) :=
  ⟨demoPlain_ok, demoDeclared_ok, demoChunked_ok, by decide +kernel, by
    intro n _ h; have : n = 6 := by cases h; rfl
    subst this; decide +kernel⟩
set_option synthInstance.maxSize 1024 in
example : (okBytes (writeResponse cfg4 StdPolicy.real 200 (str "OK") demoPlain demoDate demoBody none)).bind decodeResponse
    = some (200, str "OK", [(str "x-a", str "1"), (str "date", str "Thu, 01 Jan 1970 00:00:00 GMT"),
        (str "transfer-encoding", str "chunked")], str "abcdefghij", []) := by decide +kernel

/-! ## Parametricity in the thresholds -/

/-- All of the above is proved for ARBITRARY thresholds `cfg` with `cfg.Pos`; here the master statement once more for
    arbitrary `cfg`, together with its instance at the constants generated from the source.  (`cfg.Pos` is necessary:
    see the examples below.) -/
theorem C08_thresholds_parametric :
    (∀ cfg : Thresholds, cfg.Pos → ∀ (pol : StdPolicy) (code : Nat) (reason : Bytes) (h : Headers) (date dv : Bytes)
      (body : RSrc) (accept : Option Nat),
      date = fieldLine (str "date", dv) → noCRLF dv = true → 100 ≤ code → code ≤ 999 → noCRLF reason = true →
      body.Ok → HeadersOk h →
      (∀ n, h.chunked = false → h.cl = some n → n ≤ body.data.length ∧ n < 2 ^ 64) →
      (∀ w, writeResponse cfg pol code reason h date body none = .ok w → AcceptOk accept w) →
      ∃ w tail, writeResponse cfg pol code reason h date body accept = .ok w ∧
        decodeResponse w = some (code, reason, trimValues h.fields ++ tail, expectedBody h body.data, []) ∧
        ((trimValues h.fields ++ tail).filter isFramingField).length = 1) ∧
    Thresholds.gen.Pos ∧
    Thresholds.gen.probeMax = Gen.probeMax ∧ Thresholds.gen.inlineCopyMax = Gen.inlineCopyMax ∧
    Thresholds.gen.chunkBufSize = Gen.chunkBufSize :=
  ⟨fun cfg hc pol code reason h date dv body accept hd hdv lo hi hr hs hh hcl ha =>
    C08_exactly_one_framing_header cfg hc pol code reason h date dv hd hdv lo hi hr body hs accept hh hcl ha,
   C08_gen_pos, rfl, rfl, rfl⟩

-- changing the LOGIC is not covered: with PROBE_MAX = 0 the probe yields an empty "first chunk", i.e. a premature
-- last-chunk, and the body is lost on the wire
set_option synthInstance.maxSize 1024 in
example : (okBytes (writeResponse { cfg4 with probeMax := 0 } StdPolicy.real 200 (str "OK") Headers.newNodate demoDate
      { data := str "abc" } none)).bind decodeResponse
    = some (200, str "OK", [(str "transfer-encoding", str "chunked")], [], str "3\r\nabc\r\n0\r\n\r\n") := by
  decide +kernel
-- … and with a zero-length chunk buffer the rest of the body is dropped
example : okBytes (writeResponse { cfg4 with chunkBufSize := 0 } StdPolicy.real 200 (str "OK") Headers.newNodate demoDate
      { data := str "abcdef" } none)
    = some (str "HTTP/1.1 200 OK\r\ntransfer-encoding: chunked\r\n\r\n4\r\nabcd\r\n0\r\n\r\n") := by decide +kernel

/-! ## The full literal statement, its refutation, and the strongest true statement -/

/-- the wire produced for a header set built through the API (`Headers::new[_nodate]`, `add` per user field, then the
    declaration), with the real constants -/
def apiWire (code : Nat) (reason : Bytes) (nodate : Bool) (user : List (Bytes × Bytes)) (d : Decl) (dv : Bytes)
    (body : RSrc) (accept : Option Nat) : PrintRes Bytes :=
  writeResponse Thresholds.gen StdPolicy.real code reason (buildHeaders nodate user d) (fieldLine (str "date", dv))
    body accept

/-- the reader ends before the declared length -/
def Underrun (d : Decl) (body : RSrc) : Prop :=
  match d with | .length n => body.data.length < n | _ => False

instance (d : Decl) (body : RSrc) : Decidable (Underrun d body) := by
  unfold Underrun; cases d <;> exact inferInstance

/-- C08 as stated: ANY three-digit status with CR/LF-free reason, ANY header set with token names and CR/LF-free
    values, ANY body in ANY pieces, ANY partial first write, and ANY of {declared length n (a `u64`), declared chunked,
    nothing}: unless the reader ends before the declared length — then the printer must fail — it returns `Ok` and the
    wire decodes to the status line, the user's fields in order plus exactly one framing field, the body (its first n
    bytes under a declared length n), and nothing else. -/
def C08_full : Prop :=
  ∀ (code : Nat) (reason : Bytes) (nodate : Bool) (user : List (Bytes × Bytes)) (d : Decl) (dv : Bytes)
    (body : RSrc) (accept : Option Nat),
    100 ≤ code → code ≤ 999 → noCRLF reason = true → wfFields user = true → noCRLF dv = true → body.Ok →
    (∀ n, d = .length n → n < 2 ^ 64) →
    (∀ w, apiWire code reason nodate user d dv body none = .ok w → AcceptOk accept w) →
    (Underrun d body → ∃ w, apiWire code reason nodate user d dv body accept = .ioErr w) ∧
    (¬ Underrun d body →
      ∃ w fields, apiWire code reason nodate user d dv body accept = .ok w ∧
        decodeResponse w = some (code, reason, fields, declBody d body.data, []) ∧
        (trimValues user).Sublist fields ∧ (fields.filter isFramingField).length = 1)

/-- the excluded class, as a decidable condition on the input: no user field is NAMED content-length or
    transfer-encoding (ignoring case).  [Fields named content-length never reach the wire as fields — `add` turns them
    into the declared length; a field `transfer-encoding: chunked` is the declaration `Decl.chunked`
    (`add_te_chunked_eq`); what remains, and what breaks the property, is a transfer-encoding field that leaves the
    chunked flag clear: class (a).] -/
def C08_covered (user : List (Bytes × Bytes)) : Bool := noFramingName user

/-- the strongest true statement: `C08_full` restricted to `C08_covered` -/
theorem C08_partial (code : Nat) (reason : Bytes) (nodate : Bool) (user : List (Bytes × Bytes)) (d : Decl) (dv : Bytes)
    (body : RSrc) (accept : Option Nat)
    (lo : 100 ≤ code) (hi : code ≤ 999) (hr : noCRLF reason = true) (hu : wfFields user = true)
    (hdv : noCRLF dv = true) (hs : body.Ok) (h64 : ∀ n, d = .length n → n < 2 ^ 64)
    (ha : ∀ w, apiWire code reason nodate user d dv body none = .ok w → AcceptOk accept w)
    (hcov : C08_covered user = true) :
    (Underrun d body → ∃ w, apiWire code reason nodate user d dv body accept = .ioErr w) ∧
    (¬ Underrun d body →
      ∃ w fields, apiWire code reason nodate user d dv body accept = .ok w ∧
        decodeResponse w = some (code, reason, fields, declBody d body.data, []) ∧
        (trimValues user).Sublist fields ∧ (fields.filter isFramingField).length = 1) := by
  obtain ⟨hok, hexp, hdecl, tail0, hfields⟩ := buildHeaders_facts nodate user d hu hcov
  constructor
  · intro hun
    cases d with
    | none => exact absurd hun (by simp [Underrun])
    | chunked => exact absurd hun (by simp [Underrun])
    | length n =>
      have hlt : body.data.length < n := hun
      have hch : (buildHeaders nodate user (.length n)).chunked = false := by
        rcases hok.2 with ⟨h1, _⟩ | ⟨h1, _⟩
        · exact h1
        · have := hexp (List.replicate (n + 1) 0)
          simp [expectedBody, h1, declBody] at this
      have hcl : (buildHeaders nodate user (.length n)).cl = some n := by
        simp [buildHeaders, Headers.setContentLength]
      have := (C08_underrun_is_error Thresholds.gen StdPolicy.real code reason _ _ dv rfl lo hi body hs accept n
        hch hcl (h64 n rfl) hlt)
      by_cases hp : n ≤ Thresholds.gen.probeMax
      · exact ⟨_, this.1 hp⟩
      · exact ⟨_, this.2.1 (by omega)⟩
  · intro hnu
    have hcl : ∀ n, (buildHeaders nodate user d).chunked = false → (buildHeaders nodate user d).cl = some n →
        n ≤ body.data.length ∧ n < 2 ^ 64 := by
      intro n h1 h2
      have := hdecl n h1 h2
      subst this
      exact ⟨by simpa [Underrun] using hnu, h64 n rfl⟩
    obtain ⟨w, tail, e, d1, d2⟩ := C08_exactly_one_framing_header Thresholds.gen C08_gen_pos StdPolicy.real code reason
      (buildHeaders nodate user d) _ dv rfl hdv lo hi hr body hs accept hok hcl ha
    refine ⟨w, _, e, by rw [d1, hexp], ?_, d2⟩
    rw [hfields, trimValues_append, List.append_assoc]
    exact List.sublist_append_left _ _

example : C08_covered [(str "x-a", str "1")] = true ∧ C08_covered [] = true ∧
    C08_covered [(str "Transfer-Encoding", str "gzip")] = false ∧ Underrun (.length 11) demoBody ∧
    ¬ Underrun (.length 10) demoBody := by
  decide +kernel

/-- WITNESS (a): user field `transfer-encoding: gzip`, 3-byte body, nothing declared.  The chunked flag stays clear,
    the printer adds `content-length: 3`: the message carries BOTH framing headers (RFC 9112 §6.2 forbids that; a
    recipient must treat it as an error or read to connection close). -/
def witnessA : PrintRes Bytes :=
  apiWire 200 (str "OK") true [(str "transfer-encoding", str "gzip")] .none (str "D") { data := str "abc" } none

example : okBytes witnessA =
    some (str "HTTP/1.1 200 OK\r\ntransfer-encoding: gzip\r\ncontent-length: 3\r\n\r\nabc") := by decide +kernel

theorem not_C08_full : ¬ C08_full := by
  intro hfull
  obtain ⟨w, fields, e, d, _, _⟩ := (hfull 200 (str "OK") true [(str "transfer-encoding", str "gzip")] .none (str "D")
    { data := str "abc" } none (by decide) (by decide) (by decide +kernel) (by decide +kernel) (by decide +kernel)
    (by decide) (by intro n h; cases h) (by intro w _ a h; cases h)).2 (by simp [Underrun])
  have key : (match witnessA with | .ok w => (decodeResponse w).isNone | _ => true) = true := by decide +kernel
  unfold witnessA at key
  rw [e] at key
  simp [d] at key

/-- formerly WITNESS (b) — declared content-length 5, the reader delivers 3 bytes: now `Err`, nothing written -/
example : errBytes (apiWire 200 (str "OK") true [] (.length 5) (str "D") { data := str "abc" } none) = some [] := by
  decide +kernel
-- … and on the Streaming path (declared 8193 > PROBE_MAX): `Err` after the head and the 3 bytes
example : errBytes (writeResponse Thresholds.frozen StdPolicy.real 200 (str "OK") (buildHeaders true [] (.length 8193))
      (fieldLine (str "date", str "D")) { data := str "abc" } none)
    = some (str "HTTP/1.1 200 OK\r\ncontent-length: 8193\r\n\r\nabc") := by decide +kernel

end Khttp.Printer
