/-
  C08, the hypothesis "any three-digit status with a CR/LF-free reason" for the statuses the library itself supplies
  (src/http/status.rs, `define_statuses!`; the table is extracted on every run: `Gen.statuses`).
  Every entry satisfies the hypotheses of the C08 wire theorems and of the round-trip theorem, `Status::of(code)` returns
  the entry for a listed code and `(code, "")` otherwise, and the `code` it carries is always the code asked for.
-/
import Khttp.Gen.Consts
import Khttp.Model.Status
import Khttp.Props.RoundTrip
namespace Khttp.Status
open Khttp
open Khttp.Spec.Message (noCRLF)

/-- every listed status: a three-digit code and a non-empty reason of SP / visible ASCII (hence CR/LF-free, and accepted by
    the response parser) -/
theorem C08_status_table_wf : ∀ e ∈ Gen.statuses,
    100 ≤ e.1 ∧ e.1 ≤ 999 ∧ e.2 ≠ [] ∧ noCRLF e.2 = true ∧ RoundTrip.reasonOk e.2 = true := by
  decide +kernel

/-- the codes of the table are pairwise different: which arm comes first is irrelevant -/
theorem C08_status_codes_nodup : (Gen.statuses.map (·.1)).Nodup := by decide +kernel

/-- `Status::of` always carries the code it was asked for -/
theorem C08_status_of_code (code : Nat) : (of code).1 = code := by
  unfold of
  split
  · rename_i e h
    have := List.find?_some h
    simpa using this
  · rfl

/-- … and its reason is always printable: the hypotheses of the wire and round-trip theorems hold for every `Status::of(code)`
    with a three-digit code -/
theorem C08_status_of_wf (code : Nat) : noCRLF (of code).2 = true ∧ RoundTrip.reasonOk (of code).2 = true := by
  unfold of
  split
  · rename_i e h
    have hm := List.mem_of_find?_eq_some h
    obtain ⟨_, _, _, h1, h2⟩ := C08_status_table_wf e hm
    exact ⟨h1, h2⟩
  · exact ⟨rfl, rfl⟩

/-- the constants the server itself answers with -/
example : of 400 = (400, str "BAD REQUEST") ∧ of 431 = (431, str "REQUEST HEADER FIELDS TOO LARGE") ∧
    of 200 = (200, str "OK") ∧ of 299 = (299, []) := by decide +kernel

end Khttp.Status
