/-
  C09 — Connections persist or close exactly as signalled.

  `handleOne` = `handle_one_request`, its `keep` is the `Ok(keep_alive)` it returns (`Err` counts as `false`);
  `handleConnection` = the loop around it.  `hookOf` / `handlerCall` / `bodyOf` (Khttp/Spec/ConnSpec.lean) name the
  pre-routing hook's decision, the routed handler call and the body reader built for the request.
-/
import Khttp.Lemmas.ConnFacts
import Khttp.Props.C04
import Khttp.Props.C19
import Khttp.Driver.Conn
namespace Khttp
open ConnFacts Khttp.Body

-- ------------------------------------------------------------------ the keep-alive decision

/-- A request head was parsed and the hook proceeds (or there is no hook): the handler's responses are what is
    sent, and the connection is kept iff the handler returned `Ok`, the request carried no `Connection: close`,
    no response carried one, and discarding the unread body did not fail. -/
theorem C09_keep_iff_handler (cfg : Cfg) (s : Sock) (ok : ReadOk) (s1 : Sock) (log : RecvLog)
    (h : readRequest cfg.max s = (.ok ok, s1, log)) (hh : hookOf cfg ok.req = .proceed) :
    let out := handlerCall cfg ok.req (bodyOf ok s1)
    let o := handleOne cfg s
    o.resps = out.resps ∧ o.parsed = true ∧ o.failed = !out.ok ∧
    o.keep = (out.ok && !ok.req.headers.close && !(out.resps.any (·.close)) && !out.body.drain.fail) := by
  intro out o
  have := handleOne_ok cfg s ok s1 log h
  simp only [hh] at this
  refine ⟨by rw [show o = _ from this], by rw [show o = _ from this], by rw [show o = _ from this], ?_⟩
  rw [show o = _ from this]
  show (out.ok && !(ok.req.headers.close || out.body.drain.fail) && !(out.resps.any (·.close))) = _
  cases out.ok <;> cases ok.req.headers.close <;> cases out.body.drain.fail <;> cases (out.resps.any (·.close)) <;> rfl

/-- The hook answered itself and said Drop: only its response (if any) is sent, no handler runs; the connection
    is kept iff neither the request nor that response carried `Connection: close` and discarding the body did not
    fail.  When it is closing, the body is not touched: the socket is as `read_request` left it. -/
theorem C09_keep_iff_hook_drop (cfg : Cfg) (s : Sock) (ok : ReadOk) (s1 : Sock) (log : RecvLog)
    (h : readRequest cfg.max s = (.ok ok, s1, log)) (resp : Option Resp) (hh : hookOf cfg ok.req = .drop resp) :
    let o := handleOne cfg s
    o.resps = resp.toList ∧ o.parsed = true ∧ o.failed = false ∧
    o.keep = (!ok.req.headers.close && !(resp.toList.any (·.close)) && !(bodyOf ok s1).drain.fail) ∧
    ((ok.req.headers.close || resp.toList.any (·.close)) = true → o.sock = s1 ∧ o.hang = false) := by
  intro o
  have := handleOne_ok cfg s ok s1 log h
  simp only [hh] at this
  by_cases hc : (ok.req.headers.close || resp.toList.any (·.close)) = true
  · rw [if_pos hc] at this
    rw [show o = _ from this]
    refine ⟨rfl, rfl, rfl, ?_, fun _ => ⟨rfl, rfl⟩⟩
    simp only [Bool.or_eq_true] at hc
    rcases hc with hc | hc <;> simp [hc]
  · rw [if_neg hc] at this
    rw [show o = _ from this]
    refine ⟨rfl, rfl, rfl, ?_, fun h' => absurd h' hc⟩
    simp only [Bool.or_eq_true, not_or, Bool.not_eq_true] at hc
    simp [hc.1, hc.2]

/-- The request head was rejected: exactly one response, 400 (malformed) or 431 (too large), which carries
    `connection: close`; the connection is not kept and nothing more is read from the socket. -/
theorem C09_rejected_closes (cfg : Cfg) (s : Sock) (e : ReadErr) (s1 : Sock) (log : RecvLog)
    (h : readRequest cfg.max s = (.error e, s1, log)) (he : e = .invalid ∨ e = .tooLarge) :
    let o := handleOne cfg s
    o.keep = false ∧ o.hang = false ∧ o.parsed = false ∧ o.sock = s1 ∧
    o.resps = [⟨if e = .invalid then 400 else 431, true, []⟩] := by
  intro o
  rw [show o = _ from handleOne_err cfg s e s1 log h]
  rcases he with rfl | rfl <;> exact ⟨rfl, rfl, rfl, rfl, rfl⟩

/-- The peer closed (or went silent) before a complete head: no response; on EOF the connection is closed. -/
theorem C09_eof_closes (cfg : Cfg) (s : Sock) (e : ReadErr) (s1 : Sock) (log : RecvLog)
    (h : readRequest cfg.max s = (.error e, s1, log)) (he : e = .readEof ∨ e = .hang) :
    let o := handleOne cfg s
    o.keep = false ∧ o.resps = [] ∧ o.parsed = false ∧ o.sock = s1 ∧ (o.hang = true ↔ e = .hang) := by
  intro o
  rw [show o = _ from handleOne_err cfg s e s1 log h]
  rcases he with rfl | rfl <;> refine ⟨rfl, rfl, rfl, rfl, ?_⟩ <;> simp [errHang]

/-- Summary: `handle_one_request` says keep-alive exactly when a head was parsed, nothing signalled close —
    request `Connection: close` token, a response's `connection: close`, a handler error, a failed body — . -/
theorem C09_keep_iff (cfg : Cfg) (s : Sock) :
    (handleOne cfg s).keep = true ↔
      ∃ ok s1 log, readRequest cfg.max s = (.ok ok, s1, log) ∧ ok.req.headers.close = false ∧
        ((hookOf cfg ok.req = .proceed ∧
            (handlerCall cfg ok.req (bodyOf ok s1)).ok = true ∧
            (∀ r ∈ (handlerCall cfg ok.req (bodyOf ok s1)).resps, r.close = false) ∧
            (handlerCall cfg ok.req (bodyOf ok s1)).body.drain.fail = false) ∨
         (∃ resp, hookOf cfg ok.req = .drop resp ∧ (∀ r ∈ resp, r.close = false) ∧
            (bodyOf ok s1).drain.fail = false)) := by
  rcases hr : readRequest cfg.max s with ⟨res, s1, log⟩
  cases res with
  | error e =>
    rw [handleOne_err cfg s e s1 log hr]
    simp
  | ok ok =>
    cases hh : hookOf cfg ok.req with
    | proceed =>
      rw [(C09_keep_iff_handler cfg s ok s1 log hr hh).2.2.2]
      constructor
      · intro h
        simp only [Bool.and_eq_true, Bool.not_eq_true', List.any_eq_false] at h
        refine ⟨ok, s1, log, rfl, h.1.1.2, .inl ⟨hh, h.1.1.1, ?_, h.2⟩⟩
        intro r hr'; simpa using h.1.2 r hr'
      · rintro ⟨ok', s1', log', heq, hc, hd⟩
        cases heq
        rcases hd with ⟨_, h1, h2, h3⟩ | ⟨resp, h1, _⟩
        · simp only [Bool.and_eq_true, Bool.not_eq_true', List.any_eq_false]
          exact ⟨⟨⟨h1, hc⟩, fun r hr' => by simp [h2 r hr']⟩, h3⟩
        · rw [hh] at h1; cases h1
    | drop resp =>
      rw [(C09_keep_iff_hook_drop cfg s ok s1 log hr resp hh).2.2.2.1]
      constructor
      · intro h
        simp only [Bool.and_eq_true, Bool.not_eq_true', List.any_eq_false] at h
        refine ⟨ok, s1, log, rfl, h.1.1, .inr ⟨resp, hh, ?_, h.2⟩⟩
        intro r hr'; simpa using h.1.2 r (by simpa using hr')
      · rintro ⟨ok', s1', log', heq, hc, hd⟩
        cases heq
        rcases hd with ⟨h1, _⟩ | ⟨resp', h1, h2, h3⟩
        · rw [hh] at h1; cases h1
        · rw [hh] at h1; cases h1
          simp only [Bool.and_eq_true, Bool.not_eq_true', List.any_eq_false]
          exact ⟨⟨hc, fun r hr' => by simp [h2 r (by simpa using hr')]⟩, h3⟩

-- non-vacuity of the four cases (driver configuration of the differential harness)
def c09Keep : Sock := ⟨[str "GET /p/1/2 HTTP/1.1\r\n\r\n"], false⟩
def c09ReqClose : Sock := ⟨[str "GET /p/1/2 HTTP/1.1\r\nConnection: keep-alive, Close \r\n\r\n"], false⟩
def c09RespClose : Sock := ⟨[str "GET /close HTTP/1.1\r\n\r\n"], false⟩
def c09Err : Sock := ⟨[str "GET /err HTTP/1.1\r\n\r\n"], false⟩
def c09HookDrop : Sock := ⟨[str "POST /echo HTTP/1.1\r\nx-hook: drop\r\nContent-Length: 2\r\n\r\nab"], false⟩
def c09HookDropClose : Sock := ⟨[str "POST /echo HTTP/1.1\r\nx-hook: dropclose\r\nContent-Length: 2\r\n\r\n", str "ab"], false⟩
def c09Bad : Sock := ⟨[str "GET /p/1/2 HTTP/1.1\r\nbad header\r\n\r\n"], false⟩
def c09Big : Sock := ⟨[str "GET /p/1/2 HTTP/1.1\r\nx: 0123456789012345678901234567890123456789\r\n\r\n"], false⟩

example : (handleOne (Driver.harnessCfg 64) c09Keep).keep = true ∧
    (handleOne (Driver.harnessCfg 64) c09ReqClose).keep = false ∧
    (handleOne (Driver.harnessCfg 64) c09ReqClose).resps = [⟨200, false, str "1,2"⟩] ∧
    (handleOne (Driver.harnessCfg 64) c09RespClose).keep = false ∧
    (handleOne (Driver.harnessCfg 64) c09Err).keep = false ∧ (handleOne (Driver.harnessCfg 64) c09Err).failed = true ∧
    (handleOne (Driver.harnessCfg 64) c09HookDrop).keep = true ∧
    (handleOne (Driver.harnessCfg 64) c09HookDrop).resps = [⟨405, false, []⟩] ∧
    (handleOne (Driver.harnessCfg 64) c09HookDrop).sock.pending = [] ∧
    (handleOne (Driver.harnessCfg 64) c09HookDropClose).keep = false ∧
    (handleOne (Driver.harnessCfg 64) c09HookDropClose).sock.pending = str "ab" ∧
    (handleOne (Driver.harnessCfg 64) c09Bad).resps = [BAD_REQUEST] ∧
    (handleOne (Driver.harnessCfg 64) c09Big).resps = [HEAD_TOO_LARGE] ∧
    (handleOne (Driver.harnessCfg 64) ⟨[str "GET /p"], true⟩).resps = [] := by decide +kernel

-- ------------------------------------------------------------------ the request's close token

/-- For an accepted request, `is_connection_close()` says exactly: some field line named `connection` (any letter
    case) has a comma-separated element equal to `close` ignoring letter case and surrounding whitespace —
    whichever line, whichever position in the list, however often the field is repeated.  (`hd` is THE head the
    consumed bytes render, C04.)  Read with OWS = SP / HTAB when no value contains CR / FF. -/
theorem C09_close_token (bs : Bytes) (r : Request) (h : Request.parse bs = .ok r) :
    ∃ hd : Spec.Head, Spec.WfStrict hd ∧ Spec.render hd = bs.take r.off ∧
      (r.headers.close = true ↔
        ∃ f ∈ hd.fields, eqIgnoreCase f.1 (str "connection") = true ∧
          ∃ e ∈ splitOn COMMA f.2, eqIgnoreCase (trimAscii e) (str "close") = true) ∧
      ((∀ f ∈ hd.fields, ∀ b ∈ f.2, Spec.isPlainByte b = true) →
        (r.headers.close = true ↔
          ∃ f ∈ hd.fields, eqIgnoreCase f.1 (str "connection") = true ∧
            ∃ e ∈ splitOn COMMA f.2, eqIgnoreCase (Spec.trimOws e) (str "close") = true)) := by
  obtain ⟨hd, w, hr, _, _, _, hh⟩ := C04_accepted_is_rendered bs r h
  obtain ⟨_, c2, c3, _⟩ := C19.C19_after_parse_ascii hd.fields
  have hcl : r.headers.close = Spec.evalCloseA hd.fields := by
    rw [hh, c2, c3]; exact evalCloseA_stored hd.fields
  refine ⟨hd, w, hr, ?_, ?_⟩
  · rw [hcl]; exact evalCloseBy_iff isAsciiWs hd.fields
  · intro hp
    have : Spec.evalCloseA hd.fields = Spec.evalClose hd.fields := (evalFlagBy_plain hp _ _).symm
    rw [hcl, this]; exact evalCloseBy_iff Spec.isOws hd.fields

example : (match Request.parse (str "GET / HTTP/1.1\r\nA: close\r\nCONNECTION:\tkeep-alive ,, cLoSe \r\n\r\n") with
    | .ok r => some r.headers.close | _ => none) = some true := by decide +kernel
example : (match Request.parse (str "GET / HTTP/1.1\r\nConnection: closed, clo se\r\n\r\n") with
    | .ok r => some r.headers.close | _ => none) = some false := by decide +kernel

-- ------------------------------------------------------------------ nothing is read after a closing response

/-- Every `handle_one_request` call that says keep-alive has consumed at least one byte of the connection, so the
    fuel `pending + 2` of the model's loop is never exhausted: any larger fuel gives the same result.
    (Hypothesis: handlers use the body reader they are given only through its `Read`/`BufRead` interface — the
    model lets a handler return an arbitrary reader; the hook-Drop path needs no hypothesis.) -/
theorem C09_fuel_adequate (cfg : Cfg) (hapi : cfg.HandlersUseApi) :
    (∀ s, (handleOne cfg s).keep = true → (handleOne cfg s).sock.pending.length < s.pending.length) ∧
    (∀ s fuel, s.pending.length + 1 ≤ fuel → connLoop cfg fuel s [] 0 = handleConnection cfg s) := by
  refine ⟨fun s hk => handleOne_progress cfg (handlersShrink_of_api hapi) s hk, ?_⟩
  intro s fuel hf
  exact connLoop_fuel_irrelevant cfg (progress_of_api hapi) fuel _ s [] 0 hf (by omega)

/-- `handle_connection` is a run of `handle_one_request` calls `cs` (`IsCallRun`: each starts on the socket the
    previous one left; every call but the last said keep-alive and was not blocked); the run stops at the FIRST call
    that says "do not keep" or blocks; one `reqs` entry per call; and the socket left at the end is the socket left
    by that last call — nothing is read after a closing response.  The result is `closed` (with that call's I/O
    result) unless the last call blocks waiting for the client. -/
theorem C09_reads_nothing_after_close (cfg : Cfg) (hapi : cfg.HandlersUseApi) (s : Sock) :
    ∃ cs last, IsCallRun cfg s cs ∧ cs.getLast? = some last ∧ (last.keep = false ∨ last.hang = true) ∧
      (handleConnection cfg s).reqs = cs.map (fun o => (o.parsed, o.resps)) ∧
      (handleConnection cfg s).reqs.length = cs.length ∧
      (handleConnection cfg s).sock = last.sock ∧
      (handleConnection cfg s).fin = (if last.hang then .hang else .closed) ∧
      (handleConnection cfg s).failed = (!last.hang && last.failed) := by
  obtain ⟨cs, last, h1, h2, h3, h4, h5, h6, h7, _⟩ :=
    connLoop_run cfg (progress_of_api hapi) (s.pending.length + 2) s [] 0 (by omega)
  refine ⟨cs, last, h1, h2, h3, ?_, ?_, h5, h6, h7⟩
  · exact h4
  · show (connLoop cfg (s.pending.length + 2) s [] 0).reqs.length = _
    rw [h4]; simp

/-- the hypothesis is satisfiable: a handler that reads four bytes of the body and answers -/
def c09Cfg : Cfg :=
  { max := 64, hook := none, routes := [],
    handler := fun _ _ _ b => ⟨[], b, true⟩,
    fallback := fun _ _ b => ⟨[⟨200, false, (match (b.read 4).1 with | .ok d => d | .err _ => [])⟩], (b.read 4).2, true⟩ }

example : c09Cfg.HandlersUseApi :=
  ⟨fun _ _ _ _ => ⟨[], rfl⟩, fun _ _ _ => ⟨[.read 4], rfl⟩⟩

/-- … and it holds for the configuration of the differential harness (`echo`, `read/:k`, … handlers) -/
example : (Driver.harnessCfg 128).HandlersUseApi := harnessCfg_api 128

-- a concrete 2-request connection: first keep-alive, second with `Connection: keep-alive, Close `, then a third
-- request that is never read
def c09Two : Sock :=
  ⟨[str "GET /p/1/2 HTTP/1.1\r\nConnection: keep-alive\r\n\r\n",
    str "GET /p/3/4 HTTP/1.1\r\nConnection: keep-alive, Close \r\n\r\n",
    str "GET /p/5/6 HTTP/1.1\r\n\r\n"], false⟩

example : (handleConnection (Driver.harnessCfg 128) c09Two).reqs =
      [(true, [⟨200, false, str "1,2"⟩]), (true, [⟨200, false, str "3,4"⟩])] ∧
    (handleConnection (Driver.harnessCfg 128) c09Two).fin = .closed ∧
    (handleConnection (Driver.harnessCfg 128) c09Two).failed = false ∧
    (handleConnection (Driver.harnessCfg 128) c09Two).sock = ⟨[str "GET /p/5/6 HTTP/1.1\r\n\r\n"], false⟩ := by
  decide +kernel

end Khttp
