/-
  C09, the response side of "connections persist or close exactly as signalled": the sticky keep-alive flag of
  `ResponseHandle`.  For EVERY sequence of answers given through the handle — any mix of the eight sending
  methods, any header sets — the flag is clear exactly when some final response carried a close token, whatever
  the body (empty or not) and whichever method was used; interim responses never change it; once clear it
  stays clear.  Tie: `Gen.handleSkeleton` (extracted from src/server/mod.rs on every run) = the skeleton the
  model abstracts.
-/
import Khttp.Model.Handle
import Khttp.Gen.Skeleton
namespace Khttp.Handle
open Khttp

theorem record_keepAlive (h : RH) (hs : Headers) : (record h hs).keepAlive = (h.keepAlive && !hs.close) := by
  unfold record; cases hc : hs.close <;> simp

/-- one call: the flag afterwards -/
theorem C09_call_keepAlive (h : RH) (m : Method) (hs : Headers) :
    (call h m hs).1.keepAlive = (h.keepAlive && !(m.final && hs.close)) := by
  cases m <;> simp [call, Method.final, record_keepAlive]

/-- every sending method records the close token of the headers it is given, bodyless variants included -/
theorem C09_close_recorded (h : RH) (m : Method) (hs : Headers) (hf : m.final = true) (hc : hs.close = true) :
    (call h m hs).1.keepAlive = false := by
  rw [C09_call_keepAlive]; simp [hf, hc]

/-- interim responses (100 Continue, 417) never touch the flag -/
theorem C09_interim_neutral (h : RH) (m : Method) (hs : Headers) (hf : m.final = false) :
    (call h m hs).1 = h := by
  cases m <;> simp_all [call, Method.final]

/-- the flag after any sequence of calls -/
theorem C09_handle_flag (h : RH) (calls : List (Method × Headers)) :
    (run h calls).keepAlive = (h.keepAlive && !(calls.any fun c => c.1.final && c.2.close)) := by
  induction calls generalizing h with
  | nil => simp [run]
  | cons c cs ih =>
    have : run h (c :: cs) = run (call h c.1 c.2).1 cs := rfl
    rw [this, ih, C09_call_keepAlive, List.any_cons]
    cases h.keepAlive <;> cases (c.1.final && c.2.close) <;> cases (cs.any fun c => c.1.final && c.2.close) <;> rfl

/-- on a fresh handle: open iff no final response announced close -/
theorem C09_handle_persist_iff (calls : List (Method × Headers)) :
    (run new calls).keepAlive = true ↔ ∀ c ∈ calls, c.1.final = true → c.2.close = false := by
  rw [C09_handle_flag]
  have hn : new.keepAlive = true := rfl
  rw [hn, Bool.true_and, Bool.not_eq_true', List.any_eq_false]
  constructor
  · intro h c hc hf
    have := h c hc
    cases hcl : c.2.close
    · rfl
    · simp [hf, hcl] at this
  · intro h c hc
    cases hf : c.1.final
    · simp
    · simp [h c hc hf]

/-- the link to `Model/Conn.lean`: there a request's answers are a list of final responses with their `close` flags and
    `handleOne` computes `respKeep := !(resps.any (·.close))`; that is the handle's flag after those answers, whichever
    sending methods produced them -/
theorem C09_handle_matches_conn (calls : List (Method × Headers)) (hfin : ∀ c ∈ calls, c.1.final = true) :
    (run new calls).keepAlive = !(calls.any fun c => c.2.close) := by
  rw [C09_handle_flag]
  have : (calls.any fun c => c.1.final && c.2.close) = (calls.any fun c => c.2.close) := by
    induction calls with
    | nil => rfl
    | cons c cs ih =>
      simp only [List.any_cons, hfin c (by simp), Bool.true_and]
      rw [ih (fun x hx => hfin x (by simp [hx]))]
  simp [this, new]

/-- sticky: once a close was recorded no later call re-opens the connection -/
theorem C09_handle_sticky (h : RH) (calls : List (Method × Headers)) (hk : h.keepAlive = false) :
    (run h calls).keepAlive = false := by
  rw [C09_handle_flag, hk]; simp

/-- which entry point a method reaches does not depend on the headers (and `ok*` = `send*`) -/
theorem C09_ok_is_send (h : RH) (hs : Headers) :
    call h .ok hs = call h .send hs ∧ call h .ok0 hs = call h .send0 hs ∧ call h .okr hs = call h .sendr hs := by
  simp [call]

/-- non-vacuity: a two-answer history in which only the second, bodyless answer announces close -/
example : (run new [(.send, Headers.new), (.send0, Headers.closeStatic)]).keepAlive = false := by decide

end Khttp.Handle
