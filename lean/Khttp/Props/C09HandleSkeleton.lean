/-
  C09 — change detector for `ResponseHandle` (src/server/mod.rs): the control skeleton of its methods extracted from the source on
  every run (tools/extract_skeleton.py → Khttp/Gen/Skeleton.lean) is the one `Khttp/Model/Handle.lean` mirrors.

  This is a SOFT obligation (DESIGN.md §17): what `ResponseHandle` does is fully observable through the CONN correspondence run, which
  is the tie between `Model/Handle` + `Model/Conn` and the code.  When this comparison stops checking — a re-shaped but equivalent
  method body does that as well as a changed one — the check does not report by itself: it runs the correspondence and the oracles
  with the thorough budget and reports only a concrete failing input (or a model/implementation disagreement).
-/
import Khttp.Model.Handle
import Khttp.Gen.Skeleton
namespace Khttp.Handle

theorem C09_skeleton_response_handle : Gen.handleSkeleton = expectedSkeleton := by decide

end Khttp.Handle
