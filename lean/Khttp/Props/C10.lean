/-
  C10 — Request-head size limit is enforced exactly (model of `read_request`, Khttp/Model/ReadLoop.lean).
  `s.pending` is the byte stream the peer sends; the theorems hold for EVERY segmentation of it.
-/
import Khttp.Model.ReadLoop
import Khttp.Props.C03
import Khttp.Lemmas.ReadLoop
namespace Khttp

/-- The server never buffers more than `max` bytes of a head: every `recv` asks for exactly the free
    space `max - filled` with `filled < max`. -/
theorem C10_never_buffers_more (max : Nat) (s : Sock) :
    ∀ e ∈ (readRequest max s).2.2, e.1 < max ∧ e.1 + e.2 = max := by
  exact readLoop_log max (fun e => e.1 < max ∧ e.1 + e.2 = max) (fun n hn => ⟨hn, by simp only; omega⟩)
    (max + 1) [] s [] (by simp) (by simp)

/-- On success the buffered bytes are at most `max`, and nothing is lost or duplicated:
    buffered ++ still-in-flight = what the peer sent. -/
theorem C10_accept_accounting (max : Nat) (s : Sock) (ok : ReadOk) (s' : Sock) (log : RecvLog)
    (h : readRequest max s = (.ok ok, s', log)) :
    ok.buf.length ≤ max ∧ ok.buf ++ s'.pending = s.pending ∧ s'.eof = s.eof ∧
    Request.parse ok.buf = .ok ok.req := by
  have h1 : (readRequest max s).1 = .ok ok := by rw [h]
  obtain ⟨hp, hl, hs, he⟩ := readRequest_ok_post h1
  rw [h] at hs he
  exact ⟨hl, hs, he, hp⟩

/-- A request whose head is at most `max` bytes long is processed normally however it is segmented
    and whatever follows it (body bytes in the same segment included). -/
theorem C10_within_limit_ok (max : Nat) (s : Sock) (head rest : Bytes) (r : Request)
    (hs : s.pending = head ++ rest) (hp : Request.parse head = .ok r) (ho : r.off = head.length)
    (hm : head.length ≤ max) :
    ∃ ok s' log, readRequest max s = (.ok ok, s', log) ∧ ok.req = r ∧ ok.buf ++ s'.pending = s.pending := by
  have _ := ho  -- not needed: accept-stability alone pins the result
  have hk : s.pending.take head.length = head := by rw [hs]; exact List.take_left' rfl
  obtain ⟨ok, h1, h2, h3⟩ := readRequest_decided_ok (max := max) (s := s) (k := head.length) (r := r) hm
    (by rw [hs]; simp) (by rw [hk]; exact hp)
  exact ⟨ok, (readRequest max s).2.1, (readRequest max s).2.2, by rw [← h1], h2, h3⟩

/-- A connection whose head is not complete within its first `max` bytes gets RequestHeadTooLarge (431). -/
theorem C10_over_limit_431 (max : Nat) (s : Sock) (hl : max ≤ s.pending.length)
    (hi : ∀ k, k ≤ max → Request.parse (s.pending.take k) = .err .eof) :
    (readRequest max s).1 = .error .tooLarge := by
  rw [readRequest_undecided (fun k hk _ => hi k hk), if_pos hl]

/-- … or InvalidRequestHead (400) if those bytes are already malformed. -/
theorem C10_malformed_400 (max : Nat) (s : Sock) (k : Nat) (e : PErr) (hk : k ≤ max) (hk' : k ≤ s.pending.length)
    (hr : Request.parse (s.pending.take k) = .err e) (he : e ≠ .eof) :
    (readRequest max s).1 = .error .invalid := by
  exact readRequest_decided_err hk hk' hr he

/-- an incomplete head that is neither over the limit nor malformed: silent close when the peer closed,
    otherwise the server keeps waiting -/
theorem C10_incomplete (max : Nat) (s : Sock) (hl : s.pending.length < max)
    (hi : ∀ k, k ≤ s.pending.length → Request.parse (s.pending.take k) = .err .eof) :
    (readRequest max s).1 = .error (if s.eof then .readEof else .hang) := by
  rw [readRequest_undecided (fun k _ hk => hi k hk), if_neg (by omega)]

-- non-vacuity
example : (readRequest 30 ⟨[str "GET / HT", str "TP/1.1\r\n", str "\r\nrest"], false⟩).1.toOption.map (·.req.off) = some 18 := by
  decide +kernel
example : (readRequest 10 ⟨[str "GET / HT", str "TP/1.1\r\n", str "\r\nrest"], false⟩).1.toOption.isNone = true := by
  decide +kernel

end Khttp
