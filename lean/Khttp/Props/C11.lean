/-
  C11 — the router dispatches to the most specific matching route.

  Model: `Khttp.Router.build` / `Router.matchRoute` (src/router.rs); spec: `Khttp.Spec.Route.select`.
  All theorems quantify over ALL registration lists (any number / order / overlap of literal, `:param`,
  `*`, `**` patterns, all methods including custom ones), all request methods and all paths; the only
  hypothesis is `WfTable regs` (`**` occurs only as the last segment of a registered pattern).
-/
import Khttp.Lemmas.RouterFacts
import Khttp.Lemmas.RouterSorted
namespace Khttp.Props.C11
open Khttp Khttp.Router Khttp.Spec.Route

/-- The selected handler is the one the specification selects (fallback = `none`). -/
theorem C11_dispatch (regs : List (Method × Bytes)) (wf : WfTable regs) (m : Method) (path : Bytes) :
    ((build regs).matchRoute m path).1 = select regs m path := by
  rw [matchRoute_winner regs wf, select_winner]

/-- The fallback is selected iff no effective entry of that method matches the path. -/
theorem C11_fallback_iff (regs : List (Method × Bytes)) (wf : WfTable regs) (m : Method) (path : Bytes) :
    ((build regs).matchRoute m path).1 = none ↔
      ∀ e ∈ effectiveTable regs, e.method = m → segMatches e.pat (pathSegs path) = false := by
  rw [matchRoute_winner regs wf, winner_none_iff]
  constructor
  · intro h e he hm
    obtain ⟨r, hr, rfl⟩ := mem_effectiveTable.mp he
    exact h r (mem_Tm_iff.mpr ⟨hr, hm⟩)
  · intro h r hr
    have := mem_Tm_iff.mp hr
    exact h (toEntry r) (mem_effectiveTable.mpr ⟨r, this.1, rfl⟩) this.2

/-- A selected handler is a registration of the request method whose pattern matches the path segment by
    segment, and it is still in the effective table (not replaced by a later equivalent registration). -/
theorem C11_selected_matches (regs : List (Method × Bytes)) (wf : WfTable regs) (m : Method) (path : Bytes)
    (id : Nat) (h : ((build regs).matchRoute m path).1 = some id) :
    ∃ route, regs[id]? = some (m, route) ∧ segMatches (parsePattern route) (pathSegs path) = true ∧
      { id := id, method := m, pat := parsePattern route : Entry } ∈ effectiveTable regs := by
  rw [matchRoute_winner regs wf] at h
  obtain ⟨r, hr, hid, hmat, _⟩ := winner_some h
  have hT := mem_Tm_iff.mp hr
  have hz := (mem_Tm hr).1
  have hget := mem_zipIdx_get hz
  obtain ⟨⟨m', route⟩, i⟩ := r
  simp only at hid hT hget hmat
  subst hid
  obtain ⟨hT1, rfl⟩ := hT
  exact ⟨route, hget, hmat, mem_effectiveTable.mpr ⟨_, hT1, rfl⟩⟩

/-- An exact literal route always wins (and gets no parameters): if the effective table has an entry of the
    method whose pattern is the literal segments of the path, that entry is selected. -/
theorem C11_exact_literal_wins (regs : List (Method × Bytes)) (wf : WfTable regs) (m : Method) (path : Bytes)
    (e : Entry) (he : e ∈ effectiveTable regs) (hm : e.method = m)
    (hp : e.pat = (pathSegs path).map Seg.lit) :
    (build regs).matchRoute m path = (some e.id, []) := by
  rw [matchRoute_winner regs wf]
  obtain ⟨r, hr, rfl⟩ := mem_effectiveTable.mp he
  exact winner_exact_literal (mem_Tm_iff.mpr ⟨hr, hm⟩) hp

/-- Re-registering an equivalent pattern (same method, same segments up to parameter names) replaces the
    earlier handler: the earlier registration is never selected again, for any method and path. -/
theorem C11_rereg_replaces (regs : List (Method × Bytes)) (wf : WfTable regs) (i j : Nat) (m : Method)
    (r1 r2 : Bytes) (hij : i < j) (hi : regs[i]? = some (m, r1)) (hj : regs[j]? = some (m, r2))
    (heq : patEquiv (parsePattern r1) (parsePattern r2) = true) (m' : Method) (path : Bytes) :
    ((build regs).matchRoute m' path).1 ≠ some i := by
  intro hc
  obtain ⟨route, hget, _, hmem⟩ := C11_selected_matches regs wf m' path i hc
  rw [hi] at hget
  injection hget with hget
  injection hget with h1 h2
  subst h1 h2
  obtain ⟨r, hr, hre⟩ := mem_effectiveTable.mp hmem
  obtain ⟨⟨m'', route⟩, i'⟩ := r
  simp only [toEntry, Entry.mk.injEq] at hre
  obtain ⟨e1, e2, hpat⟩ := hre
  have e1' := e1.symm
  have e2' := e2.symm
  subst e1' e2'
  have hz : ((m, route), i) ∈ regs.zipIdx := by
    rcases mem_foldl_regRaw _ _ _ hr with h | h
    · cases h
    · exact h
  have := mem_zipIdx_get hz
  simp only at this
  rw [hi] at this
  injection this with this
  injection this with _ h2
  subst h2
  exact not_mem_effRaw_of_rereg hij hi hj heq hr

/-- … and the latest registration of a pattern is in the effective table. -/
theorem C11_last_registration_effective (regs : List (Method × Bytes)) (m : Method) (route : Bytes) :
    { id := regs.length, method := m, pat := parsePattern route : Entry } ∈ effectiveTable (regs ++ [(m, route)]) := by
  rw [mem_effectiveTable]
  refine ⟨((m, route), regs.length), ?_, rfl⟩
  unfold effRaw
  rw [List.zipIdx_append, List.foldl_append]
  simp [List.zipIdx_cons, regRaw]

/-- Most specific: every effective entry of the method that matches the path has a rank
    (leading literal run, precedence of last segment) ≤ the rank of the selected route. -/
theorem C11_selected_max_rank (regs : List (Method × Bytes)) (wf : WfTable regs) (m : Method) (path : Bytes)
    (id : Nat) (h : ((build regs).matchRoute m path).1 = some id) :
    ∀ e ∈ effectiveTable regs, e.method = m → segMatches e.pat (pathSegs path) = true →
      rankLe (rank e.pat) (rank (patternOf regs id)) = true := by
  rw [matchRoute_winner regs wf] at h
  obtain ⟨r, hr, hid, hmax⟩ := winner_max h
  have hget := mem_zipIdx_get (mem_Tm hr).1
  have hpat : patternOf regs id = parsePattern r.1.2 := by
    unfold patternOf; rw [← hid, hget]
  intro e he hm hmat
  obtain ⟨o, ho, rfl⟩ := mem_effectiveTable.mp he
  have := hmax o (mem_Tm_iff.mpr ⟨ho, hm⟩) hmat
  rw [hpat, rankLe_key]
  exact decide_eq_true this

/-- What the binary search of `find_literal` needs: after `build`, the literal table of every method bucket
    (standard or custom) is sorted by key (byte-lexicographic `str::cmp`) and has no duplicate key. -/
theorem C11_sorted_after_build (regs : List (Method × Bytes)) (m : Method) :
    (bucketOf (build regs) m).literals.Pairwise (fun a b => bytesLe a.1 b.1 = true) ∧
    (bucketOf (build regs) m).literals.Pairwise (fun a b => a.1 ≠ b.1) :=
  build_literals_sorted regs m

/-! ### non-vacuity: concrete instances -/

/-- registrations: 0 `GET /a/:x`, 1 `GET /a/b`, 2 `GET /a/**`, 3 `FOO /a/:y/*`, 4 `GET /a/:z` (replaces 0),
    5 `GET /:p/b`, 6 `GET /a/*` -/
def exRegs : List (Method × Bytes) :=
  [(.get, str "/a/:x"), (.get, str "/a/b"), (.get, str "/a/**"), (.custom (str "FOO"), str "/a/:y/*"),
   (.get, str "/a/:z"), (.get, str "/:p/b"), (.get, str "/a/*")]

example : WfTable exRegs := by decide +kernel
-- dispatch: `/a/c` → registration 4 (`/a/:z`: one leading literal, last segment `:param` beats `*` and `**`)
example : ((build exRegs).matchRoute .get (str "/a/c")).1 = some 4 ∧ select exRegs .get (str "/a/c") = some 4 := by
  decide +kernel
-- exact literal wins over `/a/:z`, `/a/*`, `/a/**`, `/:p/b`
example : (build exRegs).matchRoute .get (str "/a/b") = (some 1, []) := by decide +kernel
example : { id := 1, method := .get, pat := (pathSegs (str "/a/b")).map Seg.lit : Entry } ∈ effectiveTable exRegs := by
  decide +kernel
-- fallback: wrong method / nothing matches / custom method without bucket
example : ((build exRegs).matchRoute .post (str "/a/b")).1 = none := by decide +kernel
example : ((build exRegs).matchRoute .get (str "/b/c/d")).1 = none := by decide +kernel
example : ((build exRegs).matchRoute (.custom (str "BAR")) (str "/a/b")).1 = none := by decide +kernel
-- `**` matches the rest, including nothing
example : ((build exRegs).matchRoute .get (str "/a")).1 = some 2 ∧
    ((build exRegs).matchRoute .get (str "/a/b/c//")).1 = some 2 := by decide +kernel
-- re-registration: 0 and 4 are equivalent (`:x` vs `:z`), 0 is gone
example : exRegs[0]? = some (.get, str "/a/:x") ∧ exRegs[4]? = some (.get, str "/a/:z") ∧
    patEquiv (parsePattern (str "/a/:x")) (parsePattern (str "/a/:z")) = true := by decide +kernel

end Khttp.Props.C11
