/-
  C12 — route parameters are exactly the matched path segments.

  `(build regs).matchRoute m path` returns `(winner, params)`; `params` is what the handler receives
  (`Match::params`).  The model keeps the two `RouteParams` buffers of `match_route` (`route_params`, cleared
  per candidate, and `best_params`, exchanged with `mem::swap` on improvement), so "nothing left over from
  other candidates" is a statement about that code.
-/
import Khttp.Props.C11
namespace Khttp.Props.C12
open Khttp Khttp.Router Khttp.Spec.Route

/-- The parameters are the bindings of the winner's own pattern against the request path, in pattern order;
    the fallback gets none. -/
theorem C12_params (regs : List (Method × Bytes)) (wf : WfTable regs) (m : Method) (path : Bytes) :
    ((build regs).matchRoute m path).2 =
      match ((build regs).matchRoute m path).1 with
      | none => []
      | some id => bindParams (patternOf regs id) (pathSegs path) := by
  rw [matchRoute_winner regs wf]
  cases h : (winner regs m path).1 with
  | none =>
    simp only []
    unfold winner at h ⊢
    cases hfl : (Tm regs m).find? (fun r => litR r && matchR (pathSegs path) r) with
    | some r => simp [hfl] at h
    | none =>
      rw [hfl] at h
      simp only [] at h ⊢
      cases hw : firstMaxBy keyR ((Tm regs m).filter (matchR (pathSegs path))) with
      | some r => simp [hw] at h
      | none => rfl
  | some id =>
    simp only []
    obtain ⟨r, hr, hid, _, hpar⟩ := winner_some h
    have hget := mem_zipIdx_get (mem_Tm hr).1
    rw [hpar]
    unfold patternOf
    rw [← hid, hget]

/-- … with the winner named by the specification. -/
theorem C12_params_select (regs : List (Method × Bytes)) (wf : WfTable regs) (m : Method) (path : Bytes) :
    ((build regs).matchRoute m path).2 =
      match select regs m path with
      | none => []
      | some id => bindParams (patternOf regs id) (pathSegs path) := by
  rw [← C11.C11_dispatch regs wf]; exact C12_params regs wf m path

/-- Routes without `:name` segments receive no parameters (whatever other candidates were examined). -/
theorem C12_no_params_for_paramfree (regs : List (Method × Bytes)) (wf : WfTable regs) (m : Method) (path : Bytes)
    (id : Nat) (h : ((build regs).matchRoute m path).1 = some id) (hp : paramNames (patternOf regs id) = []) :
    ((build regs).matchRoute m path).2 = [] := by
  rw [C12_params regs wf, h]
  exact bindParams_noParams _ _ hp

/-- The fallback receives no parameters. -/
theorem C12_no_params_for_fallback (regs : List (Method × Bytes)) (wf : WfTable regs) (m : Method) (path : Bytes)
    (h : ((build regs).matchRoute m path).1 = none) : ((build regs).matchRoute m path).2 = [] := by
  rw [C12_params regs wf, h]

/-- Sanity of the specification's `bindParams`: on a matching well-formed pattern the bound names are exactly the
    pattern's parameter names, in pattern order, and each value is the path segment at the parameter's position. -/
theorem C12_bound_names : ∀ (pat : List Seg) (segs : List Bytes), WfPattern pat → segMatches pat segs = true →
    (bindParams pat segs).map (·.1) = paramNames pat := by
  intro pat
  induction pat with
  | nil => intro segs _ _; cases segs <;> rfl
  | cons s ps ih =>
    intro segs hwf hm
    have hwf' : WfPattern ps := wf_tail hwf
    cases s with
    | dstar =>
      have := wf_dstar hwf
      subst this
      cases segs <;> rfl
    | lit l =>
      cases segs with
      | nil => simp [segMatches] at hm
      | cons x xs =>
        simp [segMatches] at hm
        simpa [bindParams, paramNames] using ih xs hwf' hm.2
    | star =>
      cases segs with
      | nil => simp [segMatches] at hm
      | cons x xs =>
        simp [segMatches] at hm
        simpa [bindParams, paramNames] using ih xs hwf' hm
    | param n =>
      cases segs with
      | nil => simp [segMatches] at hm
      | cons x xs =>
        simp [segMatches] at hm
        have := ih xs hwf' hm
        simp [bindParams, paramNames] at this ⊢
        exact this

theorem C12_bound_values : ∀ (pat : List Seg) (segs : List Bytes) (n v : Bytes), (n, v) ∈ bindParams pat segs →
    ∃ k : Nat, pat[k]? = some (Seg.param n) ∧ segs[k]? = some v := by
  intro pat
  induction pat with
  | nil => intro segs n v h; cases segs <;> simp [bindParams] at h
  | cons s ps ih =>
    intro segs n v h
    cases segs with
    | nil => cases s <;> simp [bindParams] at h
    | cons x xs =>
      cases s with
      | dstar => simp [bindParams] at h
      | lit l =>
        obtain ⟨k, hk⟩ := ih xs n v (by simpa [bindParams] using h)
        exact ⟨k + 1, by simpa using hk⟩
      | star =>
        obtain ⟨k, hk⟩ := ih xs n v (by simpa [bindParams] using h)
        exact ⟨k + 1, by simpa using hk⟩
      | param n' =>
        simp [bindParams] at h
        rcases h with ⟨rfl, rfl⟩ | h
        · exact ⟨0, by simp⟩
        · obtain ⟨k, hk⟩ := ih xs n v h
          exact ⟨k + 1, by simpa using hk⟩

/-! ### non-vacuity -/

/-- 0 `GET /u/:id/posts/:pid/x` (examined first, fails on its LAST segment after binding two parameters),
    1 `GET /u/:a/posts/:b` (matches), 2 `GET /u/:k/**` (matches, lower rank), 3 `GET /u/*/posts/*` (matches, no params),
    4 `GET /lit` -/
def exRegs : List (Method × Bytes) :=
  [(.get, str "/u/:id/posts/:pid/x"), (.get, str "/u/:a/posts/:b"), (.get, str "/u/:k/**"),
   (.get, str "/u/*/posts/*"), (.get, str "/lit")]

example : WfTable exRegs := by decide +kernel
-- the late-failing candidate 0 and the lower-ranked candidate 2 leave nothing behind
example : (build exRegs).matchRoute .get (str "/u/7/posts/9") = (some 1, [(str "a", str "7"), (str "b", str "9")]) := by
  decide +kernel
example : (build exRegs).matchRoute .get (str "/u/7/zz") = (some 2, [(str "k", str "7")]) := by decide +kernel
-- literal fast path and fallback: no parameters
example : (build exRegs).matchRoute .get (str "/lit") = (some 4, []) := by decide +kernel
example : (build exRegs).matchRoute .get (str "/nope") = (none, []) := by decide +kernel
-- parameter-free winner examined after parameterised candidates were rejected
example : (build [(.get, str "/u/:id/x"), (.get, str "/u/*/y")]).matchRoute .get (str "/u/7/y") = (some 1, []) ∧
    paramNames (patternOf [(.get, str "/u/:id/x"), (.get, str "/u/*/y")] 1) = [] := by decide +kernel
-- empty segments are bound as such
example : (build exRegs).matchRoute .get (str "/u//posts/") = (some 1, [(str "a", []), (str "b", [])]) := by
  decide +kernel

end Khttp.Props.C12
