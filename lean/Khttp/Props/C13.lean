/-
C13 — "Worker pool runs every job exactly once, in parallel, and drains on shutdown."

All statements are about EVERY reachable state of the transition system `Khttp/Model/Pool.lean`, i.e. every
interleaving of the owner thread and the worker threads, for every pool size `n ≥ 1` and any number of jobs.
Assumption (see the model): jobs terminate and do not panic.
-/
import Khttp.Lemmas.Pool
namespace Khttp.Pool

/-! ## The inductive invariant -/

theorem C13_inv_init (n : Nat) (h : 1 ≤ n) : PoolInv (init n) := PoolInv.init h

theorem C13_inv_step {s t : State} (I : PoolInv s) (h : Step s t) : PoolInv t := by
  obtain ⟨e, he⟩ := h; exact I.step he

theorem C13_inv_reachable {s : State} (h : Reachable s) : PoolInv s := PoolInv.of_reachable h

/-! ## A concrete schedule used for the non-vacuity examples

2 workers, 3 jobs.  Worker 0 takes job 0 and stays in it (a blocked / long-running job) while worker 1 takes,
runs and finishes jobs 1 and 2; only then job 0 finishes; shutdown. -/

def demoPrefix : List Event :=
  [.submit 0, .submit 1, .submit 2, .acquire 0, .recvJob 0 0,
   .acquire 1, .recvJob 1 1, .finish 1 1, .acquire 1, .recvJob 1 2, .finish 1 2]

def demoSuffix : List Event :=
  [.finish 0 0, .dropSender, .acquire 0, .recvDisconnected 0, .acquire 1, .recvDisconnected 1,
   .join 0, .join 1, .ret]

/-- state after the prefix: job 0 still running on worker 0, jobs 1 and 2 done by worker 1 -/
def demoMid : State := (replay? (init 2) demoPrefix).getD (init 2)
/-- state after the whole schedule -/
def demoEnd : State := (replay? (init 2) (demoPrefix ++ demoSuffix)).getD (init 2)

private theorem eq_some_getD {α : Type} {o : Option α} (d : α) (h : o.isSome = true) : o = some (o.getD d) := by
  cases o with
  | none => cases h
  | some a => rfl

theorem demoMid_reachable : Reachable demoMid := by
  have h : replay? (init 2) demoPrefix = some demoMid :=
    eq_some_getD (init 2) (by decide)
  exact (Reachable.init 2 (by omega)).steps (replay?_steps h)

theorem demoEnd_reachable : Reachable demoEnd := by
  have h : replay? (init 2) (demoPrefix ++ demoSuffix) = some demoEnd :=
    eq_some_getD (init 2) (by decide)
  exact (Reachable.init 2 (by omega)).steps (replay?_steps h)

/-- Non-vacuity / "parallel" witness checked by evaluation: every event of the schedule is enabled; in the middle
    worker 0 is still inside job 0 (and does NOT hold the lock) while jobs 1 and 2 are already done by worker 1. -/
example : (replay? (init 2) demoPrefix).isSome = true := by decide
example : demoMid.worker 0 = .running 0 ∧ demoMid.worker 1 = .idle ∧ demoMid.lock = none ∧
    demoMid.status 0 = .running 0 ∧ demoMid.status 1 = .done ∧ demoMid.status 2 = .done ∧
    demoMid.runCount 0 = 1 ∧ demoMid.runCount 1 = 1 ∧ demoMid.runCount 2 = 1 ∧ demoMid.queue = [] ∧
    demoMid.runningCount = 1 := by decide
example : (replay? (init 2) (demoPrefix ++ demoSuffix)).isSome = true := by decide
example : demoEnd.main = .returned ∧ demoEnd.worker 0 = .exited ∧ demoEnd.worker 1 = .exited ∧
    demoEnd.status 0 = .done ∧ demoEnd.status 1 = .done ∧ demoEnd.status 2 = .done ∧
    demoEnd.runCount 0 = 1 ∧ demoEnd.runCount 1 = 1 ∧ demoEnd.runCount 2 = 1 ∧ demoEnd.next = 3 := by decide
/-- blocking: with an empty channel and a live sender the worker holding the lock can neither receive nor exit,
    and the other worker cannot acquire: the only enabled events are the owner's. -/
example : let s := (replay? (init 2) [.acquire 0]).getD (init 2)
    (decide (enabled s (.recvDisconnected 0)), decide (enabled s (.recvJob 0 0)), decide (enabled s (.acquire 1)),
     decide (enabled s (.submit 0)), decide (enabled s .dropSender)) = (false, false, false, true, true) := by decide
/-- a job cannot be received twice / out of order, a worker cannot finish a job it does not run,
    `drop` cannot return while a worker is alive -/
example : replay? (init 2) [.submit 0, .submit 1, .acquire 0, .recvJob 0 1] = none := by decide
example : (replay? (init 2) [.submit 0, .acquire 0, .recvJob 0 0, .acquire 1, .recvJob 1 0]).isSome = false := by decide
example : (replay? (init 2) [.submit 0, .acquire 0, .recvJob 0 0, .finish 1 0]).isSome = false := by decide
example : (replay? (init 2) [.submit 0, .acquire 0, .recvJob 0 0, .dropSender, .acquire 1, .recvDisconnected 1,
                             .join 0]).isSome = false := by decide

/-! ## Exactly once -/

/-- No job is ever started more than once, under any interleaving. -/
theorem C13_at_most_once {s : State} (h : Reachable s) : ∀ j, s.runCount j ≤ 1 := by
  intro j
  have := (PoolInv.of_reachable h).count j
  split at this <;> omega

example : Reachable demoMid ∧ demoMid.runCount 0 = 1 := ⟨demoMid_reachable, by decide⟩

/-- When `drop` has returned, every submitted job has been run to completion exactly once. -/
theorem C13_exactly_once {s : State} (h : Reachable s) (hr : s.main = .returned) :
    ∀ j, j < s.next → s.status j = .done ∧ s.runCount j = 1 := by
  intro j hj
  have I := PoolInv.of_reachable h
  have hex := I.returned hr
  have hq : s.queue = [] := I.exit_empty 0 (hex 0 I.size_pos)
  have hc := I.count j
  cases hs : s.status j with
  | fresh => have := (I.fresh_iff j).mp hs; omega
  | queued => have := (I.queued_iff j).mp hs; rw [hq] at this; cases this
  | running w =>
    have hw := (I.running_iff j w).mp hs
    by_cases hlt : w < s.size
    · rw [hex w hlt] at hw; cases hw
    · rw [I.out_idle w (by omega)] at hw; cases hw
  | done => rw [hs] at hc; exact ⟨rfl, hc⟩

example : Reachable demoEnd ∧ demoEnd.main = .returned ∧ 2 < demoEnd.next :=
  ⟨demoEnd_reachable, by decide, by decide⟩

/-- A job is executed by at most one worker at a time (two workers never run the same job). -/
theorem C13_running_jobs_distinct {s : State} (h : Reachable s) {w₁ w₂ j : Nat}
    (h1 : s.worker w₁ = .running j) (h2 : s.worker w₂ = .running j) : w₁ = w₂ := by
  have I := PoolInv.of_reachable h
  have a := (I.running_iff j w₁).mpr h1
  have b := (I.running_iff j w₂).mpr h2
  rw [a] at b; cases b; rfl

/-- Every job that was submitted is queued, running or done (none is lost), and a job counts as started
    exactly when it is running or done. -/
theorem C13_no_job_lost {s : State} (h : Reachable s) (j : Nat) (hj : j < s.next) :
    (s.status j = .queued ∧ j ∈ s.queue ∧ s.runCount j = 0) ∨
    (∃ w, s.status j = .running w ∧ w < s.size ∧ s.worker w = .running j ∧ s.runCount j = 1) ∨
    (s.status j = .done ∧ s.runCount j = 1) := by
  have I := PoolInv.of_reachable h
  have hc := I.count j
  cases hs : s.status j with
  | fresh => have := (I.fresh_iff j).mp hs; omega
  | queued => rw [hs] at hc; exact .inl ⟨rfl, (I.queued_iff j).mp hs, hc⟩
  | running w =>
    rw [hs] at hc
    have hw := (I.running_iff j w).mp hs
    refine .inr (.inl ⟨w, rfl, ?_, hw, hc⟩)
    apply Classical.byContradiction; intro hn
    rw [I.out_idle w (by omega)] at hw; cases hw
  | done => rw [hs] at hc; exact .inr (.inr ⟨rfl, hc⟩)

/-! ## The receiver lock is released before the job runs -/

/-- A worker that is executing `job.run()` never holds the receiver mutex (the guard is dropped at the end of the
    block on lines 57–60 of threadpool.rs, before line 62).  A variant of the code that ran the job inside the
    lock scope would reach a state violating this, hence is not an instance of the model. -/
theorem C13_lock_not_held_while_running {s : State} (h : Reachable s) {w j : Nat}
    (hw : s.worker w = .running j) : s.lock ≠ some w := by
  intro hl
  have := ((PoolInv.of_reachable h).lock_iff w).mp hl
  rw [hw] at this; cases this

example : Reachable demoMid ∧ demoMid.worker 0 = .running 0 := ⟨demoMid_reachable, by decide⟩

/-- The variant of the code that is NOT an instance of the model: had `job.run()` been called inside the block of
    lines 57–60 (guard `rx` still alive), then after `S0,S1,A0,R0:0` worker 0 would be running job 0 with the
    mutex still held.  That state is not reachable in the model, and in it the pool is serialised: job 1 is
    queued, worker 1 is idle, yet no step of worker 1 is enabled until job 0 finishes. -/
def heldVariantState : State :=
  let s := (replay? (init 2) [.submit 0, .submit 1, .acquire 0]).getD (init 2)
  { apply s (.recvJob 0 0) with lock := some 0 }

theorem C13_held_variant_not_reachable : ¬ Reachable heldVariantState := fun h =>
  C13_lock_not_held_while_running h (w := 0) (j := 0) (by decide) (by decide)

example : heldVariantState.queue = [1] ∧ heldVariantState.worker 1 = .idle ∧ heldVariantState.runningCount = 1 ∧
    decide (enabled heldVariantState (.acquire 1)) = false ∧
    decide (enabled heldVariantState (.recvJob 1 1)) = false ∧
    decide (enabled heldVariantState (.recvDisconnected 1)) = false := by decide
/-- whereas in the model the same trace leaves the lock free and worker 1 can take job 1 at once -/
example : (replay? (init 2) [.submit 0, .submit 1, .acquire 0, .recvJob 0 0, .acquire 1, .recvJob 1 1]).isSome
    = true := by decide

/-- The mutex is a mutex: at most one worker is inside the lock scope, and it is the lock holder. -/
theorem C13_lock_exclusive {s : State} (h : Reachable s) {w : Nat} :
    s.worker w = .locked ↔ s.lock = some w := ((PoolInv.of_reachable h).lock_iff w).symm

/-! ## FIFO -/

/-- `recvJob` always takes the oldest queued job: the head of the channel, which is the smallest id among the
    queued jobs (ids are assigned in submission order); the rest of the channel is unchanged. -/
theorem C13_fifo {s : State} (h : Reachable s) {w j : Nat} (he : enabled s (.recvJob w j)) :
    s.queue = j :: (apply s (.recvJob w j)).queue ∧ s.status j = .queued ∧
    ∀ j', s.status j' = .queued → j ≤ j' := by
  have I := PoolInv.of_reachable h
  obtain ⟨_, _, _, hq⟩ := he
  have hq' := head?_eq_some_cons hq
  refine ⟨hq', (I.queued_iff j).mpr (by rw [hq']; simp), ?_⟩
  intro j' hj'
  have hmem := (I.queued_iff j').mp hj'
  have hs := I.queue_sorted
  rw [hq', List.pairwise_cons] at hs
  rw [hq'] at hmem
  cases hmem with
  | head => exact Nat.le_refl _
  | tail _ hm => exact Nat.le_of_lt (hs.1 _ hm)

/-- The channel always holds the queued jobs in submission order, without duplicates. -/
theorem C13_queue_sorted {s : State} (h : Reachable s) : s.queue.Pairwise (· < ·) :=
  (PoolInv.of_reachable h).queue_sorted

example : let s := (replay? (init 2) [.submit 0, .submit 1, .acquire 1]).getD (init 2)
    decide (enabled s (.recvJob 1 0)) = true ∧ decide (enabled s (.recvJob 1 1)) = false := by decide

/-! ## A blocked job occupies only its own worker -/

/-- events by which a worker takes work: `lock()` succeeded / `recv()` returned a job -/
def Event.isTake (w : Nat) : Event → Prop
  | .acquire w' => w' = w
  | .recvJob w' _ => w' = w
  | _ => False

/-- Whenever fewer than `size` workers are executing jobs and the channel is non-empty, some worker that is NOT
    executing a job has an enabled step towards taking the next job (acquire the lock, or receive the head job
    if it already holds the lock) — no matter how long the running jobs take (no `finish` is needed). -/
theorem C13_parallel_progress {s : State} (h : Reachable s)
    (hr : s.runningCount < s.size) (hq : s.queue ≠ []) :
    ∃ w e, w < s.size ∧ (s.worker w).isRunning = false ∧ Event.isTake w e ∧ enabled s e := by
  have I := PoolInv.of_reachable h
  obtain ⟨j, hj⟩ : ∃ j, s.queue.head? = some j := by
    cases hq' : s.queue with
    | nil => exact absurd hq' hq
    | cons a t => exact ⟨a, rfl⟩
  cases hl : s.lock with
  | some w =>
    have hw := (I.lock_iff w).mp hl
    exact ⟨w, .recvJob w j, I.lock_lt hl, by rw [hw]; rfl, rfl, I.lock_lt hl, hw, hl, hj⟩
  | none =>
    obtain ⟨w, hw, hnr⟩ := exists_not_running s.worker s.size hr
    refine ⟨w, .acquire w, hw, hnr, rfl, hw, ?_, hl⟩
    cases hs : s.worker w with
    | idle => rfl
    | locked => have := (I.lock_iff w).mpr hs; rw [hl] at this; cases this
    | running j => rw [hs] at hnr; cases hnr
    | exited => exact absurd (I.exit_empty w hs) hq

example : Reachable demoMid ∧ demoMid.runningCount < demoMid.size := ⟨demoMid_reachable, by decide⟩

/-- … and taking those (at most two) steps starts one more job: the number of simultaneously running jobs grows
    by one, every job that was running is still running on the same worker (none had to finish), and the new
    job is the head of the channel. -/
theorem C13_parallel_progress_run {s : State} (h : Reachable s)
    (hr : s.runningCount < s.size) (hq : s.queue ≠ []) :
    ∃ w es t, w < s.size ∧ (s.worker w).isRunning = false ∧ (∀ e ∈ es, Event.isTake w e) ∧
      replay? s es = some t ∧
      t.runningCount = s.runningCount + 1 ∧ (∀ w' j, s.worker w' = .running j → t.worker w' = .running j) ∧
      (∃ j, s.queue = j :: t.queue ∧ t.worker w = .running j) ∧
      t.size = s.size ∧ t.next = s.next ∧ t.main = s.main := by
  have I := PoolInv.of_reachable h
  obtain ⟨j, hj⟩ : ∃ j, s.queue.head? = some j := by
    cases hq' : s.queue with
    | nil => exact absurd hq' hq
    | cons a t => exact ⟨a, rfl⟩
  cases hl : s.lock with
  | some w =>
    have hw := (I.lock_iff w).mp hl
    have hws := I.lock_lt hl
    have en : enabled s (.recvJob w j) := ⟨hws, hw, hl, hj⟩
    refine ⟨w, [.recvJob w j], apply s (.recvJob w j), hws, by rw [hw]; rfl, by simp [Event.isTake], ?_,
      ?_, ?_, ⟨j, ?_, ?_⟩, rfl, rfl, rfl⟩
    · simp [replay?, step?, en]
    · have := runningBelow_upd_lt s.worker w (.running j) s.size hws
      rw [hw] at this
      simp only [State.runningCount, apply]
      simpa [WState.isRunning] using this
    · intro w' j' hw'
      have hne : w' ≠ w := by intro e; subst e; rw [hw] at hw'; cases hw'
      simp only [apply]; rw [upd_other _ _ _ _ hne]; exact hw'
    · exact head?_eq_some_cons hj
    · simp [apply]
  | none =>
    obtain ⟨w, hws, hnr⟩ := exists_not_running s.worker s.size hr
    have hidle : s.worker w = .idle := by
      cases hs : s.worker w with
      | idle => rfl
      | locked => have := (I.lock_iff w).mpr hs; rw [hl] at this; cases this
      | running j => rw [hs] at hnr; cases hnr
      | exited => exact absurd (I.exit_empty w hs) hq
    have en1 : enabled s (.acquire w) := ⟨hws, hidle, hl⟩
    have en2 : enabled (apply s (.acquire w)) (.recvJob w j) := ⟨hws, by simp [apply], rfl, hj⟩
    refine ⟨w, [.acquire w, .recvJob w j], apply (apply s (.acquire w)) (.recvJob w j), hws, hnr,
      by simp [Event.isTake], ?_, ?_, ?_, ⟨j, ?_, ?_⟩, rfl, rfl, rfl⟩
    · simp [replay?, step?, en1, en2]
    · have h1 := runningBelow_upd_lt s.worker w .locked s.size hws
      have h2 := runningBelow_upd_lt (upd s.worker w .locked) w (.running j) s.size hws
      rw [hidle] at h1
      simp only [State.runningCount, apply]
      simp [WState.isRunning] at h1 h2 ⊢
      omega
    · intro w' j' hw'
      have hne : w' ≠ w := by intro e; subst e; rw [hidle] at hw'; cases hw'
      simp only [apply]; rw [upd_other _ _ _ _ hne, upd_other _ _ _ _ hne]; exact hw'
    · exact head?_eq_some_cons hj
    · simp [apply]

/-- never more than `size` jobs at once (one per worker) -/
theorem C13_running_le_size (s : State) : s.runningCount ≤ s.size := runningBelow_le _ _

/-- Existence of a fully parallel schedule: for every pool size `n ≥ 1` and every number `k` of submitted jobs
    there is a reachable state in which `min n k` jobs are being executed simultaneously (and the owner is
    still free to submit more). -/
theorem C13_can_run_in_parallel (n : Nat) (hn : 1 ≤ n) (k : Nat) :
    ∃ s, Reachable s ∧ s.size = n ∧ s.next = k ∧ s.main = .submitting ∧ s.runningCount = min n k := by
  -- phase 1: submit k jobs
  have submitted : ∀ k, ∃ s, Reachable s ∧ s.size = n ∧ s.next = k ∧ s.main = .submitting ∧
      s.runningCount = 0 ∧ s.queue.length = k := by
    intro k
    induction k with
    | zero =>
      refine ⟨init n, .init n hn, rfl, rfl, rfl, ?_, rfl⟩
      have : ∀ m, runningBelow (fun _ => WState.idle) m = 0 := by
        intro m; induction m with
        | zero => rfl
        | succ m ih => simp [runningBelow, ih, WState.isRunning]
      exact this n
    | succ k ih =>
      obtain ⟨s, hs, h1, h2, h3, h4, h5⟩ := ih
      have I := PoolInv.of_reachable hs
      have en : enabled s (.submit s.next) := ⟨h3, I.alive_iff.mpr h3, rfl⟩
      refine ⟨apply s (.submit s.next), hs.step ⟨_, en, rfl⟩, h1, by simp [apply, h2], h3, h4, ?_⟩
      simp [apply, h5]
  -- phase 2: start m jobs, m ≤ min n k
  have started : ∀ m, m ≤ min n k → ∃ s, Reachable s ∧ s.size = n ∧ s.next = k ∧ s.main = .submitting ∧
      s.runningCount = m ∧ s.queue.length = k - m := by
    intro m
    induction m with
    | zero => intro _; simpa using submitted k
    | succ m ih =>
      intro hm
      obtain ⟨s, hs, h1, h2, h3, h4, h5⟩ := ih (by omega)
      have hq : s.queue ≠ [] := by intro e; rw [e] at h5; simp at h5; omega
      obtain ⟨w, es, t, _, _, _, hrep, hc, _, ⟨j, hjq, _⟩, ht1, ht2, ht3⟩ :=
        C13_parallel_progress_run hs (by omega) hq
      refine ⟨t, hs.steps (replay?_steps hrep), by omega, by omega, by rw [ht3, h3], by omega, ?_⟩
      rw [hjq] at h5; simp at h5; omega
  obtain ⟨s, hs, h1, h2, h3, h4, _⟩ := started (min n k) (Nat.le_refl _)
  exact ⟨s, hs, h1, h2, h3, h4⟩

/-! ## Shutdown -/

/-- `drop` returns only when the channel is empty and every worker thread has exited … -/
theorem C13_drop_returns_after_all_finished {s : State} (h : Reachable s) (hr : s.main = .returned) :
    s.queue = [] ∧ ∀ w, w < s.size → s.worker w = .exited := by
  have I := PoolInv.of_reachable h
  exact ⟨I.exit_empty 0 (I.returned hr 0 I.size_pos), I.returned hr⟩

example : Reachable demoEnd ∧ demoEnd.main = .returned := ⟨demoEnd_reachable, by decide⟩

/-- … in particular no job is still queued or running at that point. -/
theorem C13_drop_returns_nothing_in_flight {s : State} (h : Reachable s) (hr : s.main = .returned) (j : Nat) :
    s.status j ≠ .queued ∧ ∀ w, s.status j ≠ .running w := by
  have I := PoolInv.of_reachable h
  obtain ⟨hq, hex⟩ := C13_drop_returns_after_all_finished h hr
  constructor
  · intro hs; have := (I.queued_iff j).mp hs; rw [hq] at this; cases this
  · intro w hs
    have hw := (I.running_iff j w).mp hs
    by_cases hlt : w < s.size
    · rw [hex w hlt] at hw; cases hw
    · rw [I.out_idle w (by omega)] at hw; cases hw

/-- While the pool is alive, `execute` can always be called and cannot fail: the sender exists
    (`self.sender.as_ref().unwrap()` is fine) and the receiver is still owned by live workers
    (`send(job).unwrap()` is fine: no worker has exited); and the owner can always start `drop`. -/
theorem C13_submit_always_possible {s : State} (h : Reachable s) (hm : s.main = .submitting) :
    enabled s (.submit s.next) ∧ enabled s .dropSender ∧ s.senderAlive = true ∧
    ∀ w, s.worker w ≠ .exited := by
  have I := PoolInv.of_reachable h
  exact ⟨⟨hm, I.alive_iff.mpr hm, rfl⟩, hm, I.alive_iff.mpr hm, I.alive_no_exit hm⟩

def Event.isSubmit : Event → Bool
  | .submit _ => true
  | _ => false

/-- Once the owner is inside `drop` (sender dropped) and has not yet returned, some step of a worker or of the
    owner itself is enabled — never a `submit` — so the shutdown cannot get stuck. -/
theorem C13_no_deadlock_shutdown {s : State} (h : Reachable s) (hm : s.main ≠ .submitting)
    (hr : s.main ≠ .returned) : ∃ e, e.isSubmit = false ∧ enabled s e := by
  have I := PoolInv.of_reachable h
  have hdead : s.senderAlive = false := by
    cases ha : s.senderAlive with
    | false => rfl
    | true => exact absurd (I.alive_iff.mp ha) hm
  -- a worker holding the lock can always move once the sender is gone
  have lockedMoves : ∀ w, s.lock = some w → ∃ e, e.isSubmit = false ∧ enabled s e := by
    intro w hl
    have hw := (I.lock_iff w).mp hl
    have hws := I.lock_lt hl
    cases hq : s.queue with
    | nil => exact ⟨.recvDisconnected w, rfl, hws, hw, hl, hq, hdead⟩
    | cons j t => exact ⟨.recvJob w j, rfl, hws, hw, hl, by rw [hq]; rfl⟩
  cases hmain : s.main with
  | submitting => exact absurd hmain hm
  | returned => exact absurd hmain hr
  | joining k =>
    obtain ⟨hk, _⟩ := I.joined k hmain
    by_cases hks : k = s.size
    · exact ⟨.ret, rfl, by subst hks; exact hmain⟩
    · have hlt : k < s.size := by omega
      cases hw : s.worker k with
      | exited => exact ⟨.join k, rfl, hmain, hlt, hw⟩
      | running j => exact ⟨.finish k j, rfl, hlt, hw⟩
      | locked => exact lockedMoves k ((I.lock_iff k).mpr hw)
      | idle =>
        cases hl : s.lock with
        | none => exact ⟨.acquire k, rfl, hlt, hw, hl⟩
        | some w' => exact lockedMoves w' hl

example : let s := (replay? (init 2) [.submit 0, .acquire 0, .dropSender]).getD (init 2)
    s.main ≠ .submitting ∧ s.main ≠ .returned ∧ decide (enabled s (.recvJob 0 0)) = true := by decide

/-- Deadlock freedom: every reachable state in which `drop` has not returned has a successor. -/
theorem C13_no_deadlock {s : State} (h : Reachable s) (hr : s.main ≠ .returned) : ∃ t, Step s t := by
  by_cases hm : s.main = .submitting
  · exact ⟨_, .dropSender, (C13_submit_always_possible h hm).2.1, rfl⟩
  · obtain ⟨e, _, he⟩ := C13_no_deadlock_shutdown h hm hr
    exact ⟨_, e, he, rfl⟩

example : Reachable demoMid ∧ demoMid.main ≠ .returned := ⟨demoMid_reachable, by decide⟩

/-- Variant for the shutdown: 3 per queued job (receive, run), 1 per running job, 2 per idle/running worker,
    1 per worker inside the lock scope, and the number of joins still to do. -/
def State.measure (s : State) : Nat :=
  sumBelow (fun j => (s.status j).weight) s.next + sumBelow (fun w => (s.worker w).weight) s.size +
  (match s.main with
   | .submitting => s.size + 2
   | .joining k => s.size + 1 - k
   | .returned => 0)

private theorem comp_upd {α : Type} (g : α → Nat) (f : Nat → α) (i : Nat) (v : α) :
    (fun k => g (upd f i v k)) = upd (fun k => g (f k)) i (g v) := by
  funext k; unfold upd; split <;> rfl

/-- Every step other than `submit` strictly decreases the variant (in every reachable state). -/
theorem C13_shutdown_terminates {s t : State} {e : Event} (h : Reachable s) (st : StepE s e t)
    (he : e.isSubmit = false) : t.measure < s.measure := by
  have I := PoolInv.of_reachable h
  obtain ⟨en, rfl⟩ := st
  cases e with
  | submit j => cases he
  | acquire w =>
    obtain ⟨hw, hi, _⟩ := en
    have := sumBelow_upd_lt (fun w => (s.worker w).weight) w (WState.locked).weight s.size hw
    simp only [State.measure, apply, comp_upd]
    simp only [hi, WState.weight] at this ⊢
    omega
  | recvJob w j =>
    obtain ⟨hw, hi, _, hq⟩ := en
    have hjq : s.status j = .queued := (I.queued_iff j).mpr (by rw [head?_eq_some_cons hq]; simp)
    have hjn : j < s.next := I.queue_lt (by rw [head?_eq_some_cons hq]; simp)
    have h1 := sumBelow_upd_lt (fun w => (s.worker w).weight) w (WState.running j).weight s.size hw
    have h2 := sumBelow_upd_lt (fun j => (s.status j).weight) j (JStatus.running w).weight s.next hjn
    simp only [State.measure, apply, comp_upd]
    simp only [hi, hjq, WState.weight, JStatus.weight] at h1 h2 ⊢
    omega
  | recvDisconnected w =>
    obtain ⟨hw, hi, _⟩ := en
    have := sumBelow_upd_lt (fun w => (s.worker w).weight) w (WState.exited).weight s.size hw
    simp only [State.measure, apply, comp_upd]
    simp only [hi, WState.weight] at this ⊢
    omega
  | finish w j =>
    obtain ⟨hw, hi⟩ := en
    have hjr : s.status j = .running w := (I.running_iff j w).mpr hi
    have hjn : j < s.next := by
      apply Classical.byContradiction; intro hn
      have := (I.fresh_iff j).mpr (by omega); rw [hjr] at this; cases this
    have h1 := sumBelow_upd_lt (fun w => (s.worker w).weight) w (WState.idle).weight s.size hw
    have h2 := sumBelow_upd_lt (fun j => (s.status j).weight) j (JStatus.done).weight s.next hjn
    simp only [State.measure, apply, comp_upd]
    simp only [hi, hjr, WState.weight, JStatus.weight] at h1 h2 ⊢
    omega
  | dropSender =>
    have hm : s.main = .submitting := en
    simp only [State.measure, apply, hm]
    omega
  | join k =>
    obtain ⟨hm, hk, _⟩ := en
    simp only [State.measure, apply, hm]
    omega
  | ret =>
    have hm : s.main = .joining s.size := en
    simp only [State.measure, apply, hm]
    omega

example : Reachable demoMid ∧ StepE demoMid (.finish 0 0) (apply demoMid (.finish 0 0)) :=
  ⟨demoMid_reachable, by decide, rfl⟩

/-- Consequently, once the sender has been dropped every execution (any scheduling of workers and owner) has at
    most `s.measure` further steps; together with `C13_no_deadlock_shutdown` (a step is enabled until `returned`)
    every maximal execution of the shutdown ends with `drop` returned. -/
theorem C13_shutdown_bounded {s t : State} {es : List Event} (h : Reachable s) (hm : s.main ≠ .submitting)
    (hrep : replay? s es = some t) : es.length + t.measure ≤ s.measure ∧ t.main ≠ .submitting := by
  induction es generalizing s with
  | nil => simp [replay?] at hrep; subst hrep; exact ⟨by simp, hm⟩
  | cons e es ih =>
    simp only [replay?] at hrep
    split at hrep
    · rename_i u hu
      have st := step?_eq_some.mp hu
      have hns : e.isSubmit = false := by
        cases e with
        | submit j => exact absurd st.1.1 hm
        | _ => rfl
      have hlt := C13_shutdown_terminates h st hns
      have hum : u.main ≠ .submitting := by
        obtain ⟨en, rfl⟩ := st
        cases e with
        | submit j => cases hns
        | dropSender => exact absurd en hm
        | join k => simp [apply]
        | ret => simp [apply]
        | _ => exact hm
      have := ih (h.step ⟨e, st⟩) hum hrep
      simp only [List.length_cons]
      exact ⟨by omega, this.2⟩
    · simp at hrep

example : (replay? demoMid demoSuffix).isSome = true ∧ demoSuffix.length = 9 ∧ demoMid.measure = 9 := by
  decide

/-- A stuck state (no step enabled) is a state in which `drop` has returned. -/
theorem C13_stuck_only_when_returned {s : State} (h : Reachable s) (hstuck : ¬ ∃ t, Step s t) :
    s.main = .returned :=
  Classical.byContradiction fun hr => hstuck (C13_no_deadlock h hr)

end Khttp.Pool
