/-
  C13 — tie between src/threadpool.rs and the transition system of Khttp/Model/Pool.lean:
  the synchronisation skeleton extracted from the source on every run (Khttp/Gen/Skeleton.lean,
  tools/extract_skeleton.py) must be the one whose actions the model's steps abstract.

    worker:  spawn loop lock recv unlock run        (canonical form: `unlock` = the closing brace of the block in which the
                                                     guard lives; other braces and `match` / `break` are not part of it, so
                                                     `match msg {Ok(j) => j.run(), Err(_) => break}` and
                                                     `let Ok(j) = msg else { break }; j.run()` give the same skeleton)
             `acquire`            = lock
             `recvJob` / `recvDisconnected` = recv, and the closing brace of the inner block = the
                                    guard is dropped (lock released) BEFORE `run`
             `finish`             = run returns;  `break` = worker exits after recvDisconnected
    execute: send                 = `submit`
    drop:    drop_sender for join           = `dropSender`, then `join k` in spawn order

  Moving `run` inside the lock scope, dropping the sender after the joins, or removing the join
  changes the extracted list and this obligation stops checking.
-/
import Khttp.Gen.Skeleton
import Khttp.Model.Pool
namespace Khttp

def Pool.expectedWorker : List String :=
  ["spawn", "loop", "lock", "recv", "unlock", "run"]
def Pool.expectedExecute : List String := ["send"]
def Pool.expectedDrop : List String := ["drop_sender", "for", "join"]

theorem C13_skeleton_worker : Gen.poolWorker = Pool.expectedWorker := by decide
theorem C13_skeleton_execute : Gen.poolExecute = Pool.expectedExecute := by decide
theorem C13_skeleton_drop : Gen.poolDrop = Pool.expectedDrop := by decide

end Khttp
