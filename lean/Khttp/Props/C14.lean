/-
C14 — "Epoll mode: one worker per connection, requests in order, no lost wakeups."

All statements are about EVERY reachable state of the transition system `Khttp/Model/Epoll.lean`, i.e. every
interleaving of the event loop, the workers and the clients, for every number of workers `n ≥ 1` and any number of
connections and requests.  Assumptions: see the header of the model (level-triggered epoll, `handle_one_request`
abstracted, handlers terminate and do not panic, pool = FIFO + `n` workers as proved in `Props/C13.lean`).

Liveness ("eventually dispatched") is NOT unconditional in the code — see `C14_not_stuck_full` /
`C14_not_stuck_full_false` and the section "Fairness" at the end.
-/
import Khttp.Lemmas.EpollAux
namespace Khttp.Epoll
open Khttp.Pool (upd upd_same upd_other)

/-! ## The inductive invariant -/

theorem C14_inv_init (n : Nat) (h : 1 ≤ n) : EpollInv (init n) := EpollInv.init h

theorem C14_inv_step {s t : State} (I : EpollInv s) (h : Step s t) : EpollInv t := by
  obtain ⟨e, he⟩ := h; exact I.step he

theorem C14_inv_reachable {s : State} (h : Reachable s) : EpollInv s := EpollInv.of_reachable h

/-! ## Concrete schedules used for the non-vacuity examples

2 workers, 2 connections.  Both connections send a request (ids 0 and 1); both are dispatched in one batch; worker 0
takes connection 0, worker 1 takes connection 1.  While connection 1 is being handled its client sends a SECOND
request (id 2); the loop harvests a readiness event for connection 1, loses the CAS (`in_flight` is set) and ignores
it.  Worker 1 answers request 1 and re-arms; worker 0 answers request 0 with `Connection: close` and walks through
the close path, during which the loop still holds a stale event for connection 0 and skips it (`closed` is set).
After the wake-up the loop harvests connection 1 again (level triggered: request 2 is still unread), dispatches
it, frees the record of connection 0 at the end of the batch; request 2 is answered. -/

def accept2 : List Event :=
  [.batchStart [.listener], .acceptConn 0, .boxHandle 0, .addOk 0, .acceptConn 1, .boxHandle 1, .addOk 1,
   .acceptDone, .batchEnd]

def demoA : List Event := accept2 ++
  [.cSend 0, .cSend 1,
   .batchStart [.conn 0, .conn 1], .loadClosed 0 false, .cas 0 true, .execute 0,
   .loadClosed 1 false, .cas 1 true, .execute 1, .batchEnd,
   .take 0 0, .take 1 1,
   .cSend 1,                                              -- second request while the first is being handled
   .batchStart [.conn 1, .conn 0], .loadClosed 1 false]   -- readiness event for the in-flight connection …

def demoB : List Event :=
  [.cas 1 false,                                          -- … is ignored
   .handleKeep 1 1, .handleClose 0 0 true]

def demoC : List Event :=
  [.storeInFlight 1 1,                                    -- re-arm
   .del 0 0, .dropStream 0 0, .setClosed 0 0,
   .loadClosed 0 true, .batchEnd,                         -- stale event of the closed connection skipped
   .push 0 0, .wake 0 0,
   .batchStart [.wake, .conn 1], .drainWake, .loadClosed 1 false, .cas 1 true, .execute 1, .batchEnd,
   .take 0 1, .handleKeep 0 1, .storeInFlight 0 1]

/-- in the middle of handling: loop about to CAS for the in-flight connection 1 -/
def demoMid1 : State := (replay? (init 2) demoA).getD (init 2)
/-- both requests answered, nothing re-armed / closed yet -/
def demoMid2 : State := (replay? (init 2) (demoA ++ demoB)).getD (init 2)
def demoEnd : State := (replay? (init 2) (demoA ++ demoB ++ demoC)).getD (init 2)

theorem reachable_of_replay {n : Nat} (hn : 1 ≤ n) {es : List Event} (h : (replay? (init n) es).isSome = true) :
    Reachable ((replay? (init n) es).getD (init n)) :=
  (Reachable.init n hn).steps (replay?_steps (eq_some_getD (init n) h))

theorem demoMid1_reachable : Reachable demoMid1 := reachable_of_replay (by omega) (by decide)
theorem demoMid2_reachable : Reachable demoMid2 := reachable_of_replay (by omega) (by decide)
theorem demoEnd_reachable : Reachable demoEnd := reachable_of_replay (by omega) (by decide)

/-- Non-vacuity of the whole development, checked by evaluation: every event of the schedule is enabled, and the
    run ends with: connection 1 answered requests 1 and 2 in order and is re-armed; connection 0 answered request
    0, its socket closed once, its record freed once. -/
example : (replay? (init 2) (demoA ++ demoB ++ demoC)).isSome = true := by decide
example : (demoEnd.conn 1).answered = [1, 2] ∧ (demoEnd.conn 1).sent = [1, 2] ∧ (demoEnd.conn 1).pending = [] ∧
    (demoEnd.conn 1).inFlight = false ∧ (demoEnd.conn 1).registered = true ∧
    (demoEnd.conn 0).answered = [0] ∧ (demoEnd.conn 0).ended = true ∧
    (demoEnd.conn 0).streamClosedCount = 1 ∧ (demoEnd.conn 0).handleFreedCount = 1 ∧
    (demoEnd.conn 0).handleLive = false ∧ (demoEnd.conn 0).streamLive = false ∧
    demoEnd.reaper = [] ∧ demoEnd.jobs = [] ∧ demoEnd.mode = .waiting := by decide
/-- the readiness event for the in-flight connection is ignored: the CAS can only fail … -/
example : decide (enabled demoMid1 (.cas 1 false)) = true ∧ decide (enabled demoMid1 (.cas 1 true)) = false := by
  decide
/-- … a second worker cannot be given the connection, a job cannot be taken twice, the loop cannot free records in
    the middle of a batch, a worker cannot skip a step of the close path -/
example : (replay? (init 2) (demoA ++ [.cas 1 true])).isSome = false := by decide
example : (replay? (init 2) (demoA ++ [.take 0 1])).isSome = false := by decide
example : (replay? (init 2) (demoA ++ [.batchEnd])).isSome = false := by decide
example : (replay? (init 2) (demoA ++ demoB ++ [.storeInFlight 1 1, .del 0 0, .setClosed 0 0])).isSome = false := by
  decide
/-- `epoll_wait` does not return a connection that is not ready, nor the wake token without a wake-up -/
example : (replay? (init 2) (accept2 ++ [.batchStart [.conn 0]])).isSome = false := by decide
example : (replay? (init 2) (accept2 ++ [.batchStart [.wake]])).isSome = false := by decide

/-! ## One worker per connection -/

/-- For each connection: (number of queued jobs) + (number of workers running a job of it) ≤ 1 — under every
    interleaving.  Counting also the job the loop holds between its successful CAS and `execute` (`inHand`), the sum
    is exactly 1 iff `in_flight` is set and the connection has not been closed for good. -/
theorem C14_mutual_exclusion {s : State} (h : Reachable s) (c : Nat) :
    s.jobsFor c + s.workersOn c ≤ 1 ∧
    s.jobsFor c + s.workersOn c + s.inHand c =
      (if (s.conn c).inFlight = true ∧ (s.conn c).ended = false then 1 else 0) := by
  have I := EpollInv.of_reachable h
  have J := I.conn c
  rw [I.jobsFor_eq, I.workersOn_eq]
  unfold State.inHand
  obtain ⟨j1, j2, j3, j4, j5, j6, j7, j8, j9, j10, j11, j12, j13, j14, j15, j16, j17, j18, j19, j20, j21, j22,
    j23, j24, j25, j26⟩ := J
  cases hp : (s.conn c).phase <;> simp only [hp, Phase.isWorking] at * <;> grind

example : Reachable demoMid1 ∧ demoMid1.jobsFor 1 + demoMid1.workersOn 1 = 1 ∧ demoMid1.workersOn 0 = 1 :=
  ⟨demoMid1_reachable, by decide, by decide⟩

/-- two workers never run jobs of the same connection -/
theorem C14_one_worker_per_connection {s : State} (h : Reachable s) {w₁ w₂ c : Nat}
    (h1 : s.worker w₁ = some c) (h2 : s.worker w₂ = some c) : w₁ = w₂ := by
  have I := EpollInv.of_reachable h
  rw [← (I.workerP _ _ h1).2.1, ← (I.workerP _ _ h2).2.1]

/-- while a job of the connection is queued no worker runs one, and the channel holds at most one -/
theorem C14_queued_job_exclusive {s : State} (h : Reachable s) {c : Nat} (hj : c ∈ s.jobs) :
    (∀ w, s.worker w ≠ some c) ∧ s.jobs.count c = 1 ∧ s.mode ≠ .won c := by
  have I := EpollInv.of_reachable h
  have hp := (I.conn c).jobq.mpr hj
  refine ⟨?_, ?_, ?_⟩
  · intro w e; have := (I.workerP w c e).2.2; rw [hp] at this; cases this
  · rw [I.jobsNodup.count, if_pos hj]
  · intro e; have := ((I.conn c).wonP e).2.1; rw [hp] at this; cases this

example : Reachable demoMid1 ∧ demoMid1.worker 1 = some 1 := ⟨demoMid1_reachable, by decide⟩

/-- the CAS of the loop succeeds only when nobody holds the connection: no job queued, no worker inside `run` -/
theorem C14_cas_success_means_free {s : State} (h : Reachable s) {c : Nat} (en : enabled s (.cas c true)) :
    c ∉ s.jobs ∧ (∀ w, s.worker w ≠ some c) ∧ (s.conn c).phase = .idle ∧ (s.conn c).registered = true := by
  have I := EpollInv.of_reachable h
  obtain ⟨hm, hok⟩ := en
  have hif : (s.conn c).inFlight = false := by
    cases hh : (s.conn c).inFlight <;> simp [hh] at hok ⊢
  have hidle : (s.conn c).phase = .idle := by
    apply Classical.byContradiction; intro hne
    have := ((I.conn c).busy hne).1; rw [hif] at this; cases this
  refine ⟨?_, ?_, hidle, ?_⟩
  · intro hj; have := (I.conn c).jobq.mpr hj; rw [hidle] at this; cases this
  · intro w e; have := (I.workerP w c e).2.2; rw [hidle] at this; cases this
  · rcases ((I.conn c).loadedP hm).2 with hr | hf
    · exact hr
    · rw [hif] at hf; cases hf

/-! ## Requests in order -/

/-- The requests answered on a connection are a prefix of the requests sent on it, in the same order; what is
    not answered yet is exactly what is still pending, in order. -/
theorem C14_in_order {s : State} (h : Reachable s) (c : Nat) :
    (s.conn c).answered ++ (s.conn c).pending = (s.conn c).sent ∧ (s.conn c).answered <+: (s.conn c).sent := by
  have := ((EpollInv.of_reachable h).conn c).order
  exact ⟨this, ⟨_, this⟩⟩

example : Reachable demoMid2 ∧ (demoMid2.conn 1).answered = [1] ∧ (demoMid2.conn 1).pending = [2] ∧
    (demoMid2.conn 1).sent = [1, 2] := ⟨demoMid2_reachable, by decide⟩

/-- every answering step answers the OLDEST unanswered request of the connection and removes exactly it -/
theorem C14_answers_oldest {s : State} {w c : Nat} (en : enabled s (.handleKeep w c)) :
    ∃ r rest, (s.conn c).pending = r :: rest ∧
      ((apply s (.handleKeep w c)).conn c).answered = (s.conn c).answered ++ [r] ∧
      ((apply s (.handleKeep w c)).conn c).pending = rest := by
  obtain ⟨_, _, hne⟩ := en
  cases hp : (s.conn c).pending with
  | nil => exact absurd hp hne
  | cons r rest => exact ⟨r, rest, rfl, by simp [apply, Conn.answerOldest, hp], by simp [apply, Conn.answerOldest, hp]⟩

theorem C14_answers_oldest_close {s : State} {w c : Nat} (en : enabled s (.handleClose w c true)) :
    ∃ r rest, (s.conn c).pending = r :: rest ∧
      ((apply s (.handleClose w c true)).conn c).answered = (s.conn c).answered ++ [r] ∧
      ((apply s (.handleClose w c true)).conn c).pending = rest := by
  obtain ⟨_, _, _, hne⟩ := en
  cases hp : (s.conn c).pending with
  | nil => exact absurd hp (hne rfl)
  | cons r rest => exact ⟨r, rest, rfl, by simp [apply, Conn.answerOldest, hp], by simp [apply, Conn.answerOldest, hp]⟩

example : decide (enabled demoMid1 (.handleKeep 1 1)) = true := by decide

/-- no other step changes what was answered -/
theorem C14_answered_frame (s : State) (e : Event) (c : Nat)
    (he : ∀ w, e ≠ .handleKeep w c ∧ e ≠ .handleClose w c true) :
    ((apply s e).conn c).answered = (s.conn c).answered := by
  cases e with
  | loadClosed c' v => cases v <;> rfl
  | cas c' ok => cases ok <;> simp only [apply] <;> grind [upd]
  | handleKeep w c' => have := (he w).1; simp only [apply]; grind [upd]
  | handleClose w c' ans => have := (he w).2; cases ans <;> simp only [apply] <;> grind [upd]
  | _ => simp only [apply] <;> grind [upd, Conn.freed]

/-! ## No lost wake-ups -/

/-- the connection has work for the server: it is registered and has an unanswered complete request, or the peer
    has closed -/
def State.hasWork (s : State) (c : Nat) : Prop := (s.conn c).registered = true ∧ (s.conn c).readable = true

instance (s : State) (c : Nat) : Decidable (s.hasWork c) := by unfold State.hasWork; infer_instance

/-- Level-triggered readiness is a function of the STATE, not of past events: a connection with work satisfies the
    batch predicate of the next `epoll_wait`, whatever events were harvested, ignored or skipped before; a sleeping
    loop can be woken by it. -/
theorem C14_work_is_ready {s : State} {c : Nat} (hw : s.hasWork c) :
    s.ready (.conn c) = true ∧ (s.mode = .waiting → enabled s (.batchStart [.conn c])) := by
  have hr : s.ready (.conn c) = true := by simp [State.ready, hw.1, hw.2]
  exact ⟨hr, fun hm => ⟨hm, by simp, by simp, by simpa using hr⟩⟩

/-- an ignored readiness event (CAS lost) and a skipped one (`closed` set) change nothing about any connection -/
theorem C14_ignored_event_harmless (s : State) (c : Nat) :
    (apply s (.cas c false)).conn = s.conn ∧ (apply s (.loadClosed c true)).conn = s.conn := ⟨rfl, rfl⟩

/-- A batch event for a registered connection that is not in flight dispatches a job: the three steps of the loop
    are enabled one after the other and end with the job in the channel. -/
theorem C14_event_dispatches {s : State} (h : Reachable s) {c : Nat} (hm : s.mode = .batch)
    (hh : s.rest.head? = some (.conn c)) (hr : (s.conn c).registered = true)
    (hf : (s.conn c).inFlight = false) :
    ∃ t, replay? s [.loadClosed c false, .cas c true, .execute c] = some t ∧ c ∈ t.jobs ∧
      (t.conn c).phase = .jobQueued ∧ (t.conn c).inFlight = true ∧ t.mode = .batch ∧ t.rest = s.rest.tail := by
  have I := EpollInv.of_reachable h
  have hcl := ((I.conn c).reg hr).2.2.1
  have en1 : enabled s (.loadClosed c false) := ⟨hm, hh, hcl.symm⟩
  have en2 : enabled (apply s (.loadClosed c false)) (.cas c true) := ⟨by simp [apply], by simp [apply, hf]⟩
  have en3 : enabled (apply (apply s (.loadClosed c false)) (.cas c true)) (.execute c) := by simp [apply, enabled]
  refine ⟨apply (apply (apply s (.loadClosed c false)) (.cas c true)) (.execute c),
    by simp [replay?, step?, en1, en2, en3], ?_, ?_, ?_, ?_, ?_⟩ <;> simp [apply]

example : let s := (replay? (init 2) (accept2 ++ [.cSend 0, .batchStart [.conn 0]])).getD (init 2)
    s.mode = .batch ∧ s.rest.head? = some (.conn 0) ∧ (s.conn 0).registered = true ∧ (s.conn 0).inFlight = false := by
  decide

/-- … and a sleeping loop can be woken by a connection with work that is not in flight, after which four steps of
    the loop put its job into the channel. -/
theorem C14_wakeup_dispatches {s : State} (h : Reachable s) {c : Nat} (hm : s.mode = .waiting)
    (hw : s.hasWork c) (hf : (s.conn c).inFlight = false) :
    ∃ t, replay? s [.batchStart [.conn c], .loadClosed c false, .cas c true, .execute c] = some t ∧ c ∈ t.jobs := by
  have en0 := (C14_work_is_ready hw).2 hm
  have h1 : Reachable (apply s (.batchStart [.conn c])) := h.step ⟨_, en0, rfl⟩
  obtain ⟨t, ht, hj, _⟩ := C14_event_dispatches h1 (c := c) (by simp [apply]) (by simp [apply]) hw.1 hf
  exact ⟨t, by simpa [replay?, step?, en0] using ht, hj⟩

/-- a worker that is inside `EpollJob::run` and is not blocked in `read` on an idle connection has an enabled step -/
theorem C14_worker_step_enabled {s : State} (h : Reachable s) {w k : Nat} (hw : s.worker w = some k)
    (hb : s.blocked w = false) : ∃ e, e.workerOf = some w ∧ enabled s e := by
  have I := EpollInv.of_reachable h
  have hp := (I.workerP w k hw).2.2
  cases hph : (s.conn k).phase with
  | idle => rw [hph] at hp; cases hp
  | jobQueued => rw [hph] at hp; cases hp
  | handling =>
    have hr : (s.conn k).readable = true := by
      simp [State.blocked, hw, hph] at hb; exact hb
    by_cases hpe : (s.conn k).pending = []
    · exact ⟨.handleClose w k false, rfl, hw, hph, hr, by simp⟩
    · exact ⟨.handleKeep w k, rfl, hw, hph, hpe⟩
  | keep => exact ⟨.storeInFlight w k, rfl, hw, hph⟩
  | closing => exact ⟨.del w k, rfl, hw, hph⟩
  | deleted => exact ⟨.dropStream w k, rfl, hw, hph⟩
  | streamDropped => exact ⟨.setClosed w k, rfl, hw, hph⟩
  | closedSet => exact ⟨.push w k, rfl, hw, hph⟩
  | pushed => exact ⟨.wake w k, rfl, hw, hph⟩

/-- If a registered connection is in flight, then somebody is responsible for it: the loop is about to submit its
    job, or its job is queued, or a worker is inside `run` for it (before `EPOLL_CTL_DEL`). -/
theorem C14_in_flight_has_agent {s : State} (h : Reachable s) {c : Nat} (hr : (s.conn c).registered = true)
    (hf : (s.conn c).inFlight = true) :
    s.mode = .won c ∨ c ∈ s.jobs ∨
    ∃ w, w < s.nWorkers ∧ s.worker w = some c ∧
      ((s.conn c).phase = .handling ∨ (s.conn c).phase = .keep ∨ (s.conn c).phase = .closing) := by
  have I := EpollInv.of_reachable h
  have J := I.conn c
  have hreg := J.reg hr
  cases hph : (s.conn c).phase with
  | idle =>
    rcases (J.idle hph).mp hf with ⟨he, _⟩ | hw
    · rw [hreg.2.2.2.1] at he; cases he
    · exact .inl hw
  | jobQueued => exact .inr (.inl (J.jobq.mp hph))
  | handling =>
    have := J.working (by rw [hph]; rfl)
    exact .inr (.inr ⟨_, (I.workerP _ _ this).1, this, .inl rfl⟩)
  | keep =>
    have := J.working (by rw [hph]; rfl)
    exact .inr (.inr ⟨_, (I.workerP _ _ this).1, this, .inr (.inl rfl)⟩)
  | closing =>
    have := J.working (by rw [hph]; rfl)
    exact .inr (.inr ⟨_, (I.workerP _ _ this).1, this, .inr (.inr rfl)⟩)
  | deleted => have := hreg.2.2.2.2.2; rw [hph] at this; cases this
  | streamDropped => have := hreg.2.2.2.2.2; rw [hph] at this; cases this
  | closedSet => have := hreg.2.2.2.2.2; rw [hph] at this; cases this
  | pushed => have := hreg.2.2.2.2.2; rw [hph] at this; cases this

/-- The keep-alive completion re-arms: afterwards the connection is registered, not in flight, its unread data is
    untouched — so if data remains (a request that arrived while it was in flight, whose readiness event was
    ignored) it is again eligible for the next batch. -/
theorem C14_rearm_makes_eligible {s : State} (h : Reachable s) {w c : Nat} (en : enabled s (.storeInFlight w c)) :
    let t := apply s (.storeInFlight w c)
    (t.conn c).registered = true ∧ (t.conn c).inFlight = false ∧ (t.conn c).pending = (s.conn c).pending ∧
    (t.conn c).peerClosed = (s.conn c).peerClosed ∧
    ((s.conn c).readable = true → t.hasWork c ∧ t.ready (.conn c) = true) := by
  have I := EpollInv.of_reachable h
  obtain ⟨hw, hp⟩ := en
  have hr := (I.conn c).openReg (by rw [hp]; simp) (by rw [hp]; rfl)
  refine ⟨by simp [apply, hr], by simp [apply], by simp [apply], by simp [apply], ?_⟩
  intro hrd
  have : (apply s (.storeInFlight w c)).hasWork c := by
    simp only [State.hasWork, apply, upd_same, Conn.readable] at hrd ⊢; exact ⟨hr, hrd⟩
  exact ⟨this, (C14_work_is_ready this).1⟩

example : decide (enabled demoMid2 (.storeInFlight 1 1)) = true ∧ (demoMid2.conn 1).readable = true := by decide

/-- The close completion ends the connection: the worker in phase `closing` deregisters it (`C15_*` show that
    everything is then released exactly once). -/
theorem C14_close_deregisters {s : State} {w c : Nat} (_en : enabled s (.del w c)) :
    ((apply s (.del w c)).conn c).registered = false := by simp [apply]

/-- No lost wake-up.  A connection with work is, in every reachable state, either not in flight — then it
    satisfies the batch predicate and can wake a sleeping loop — or in flight — then the loop is about to submit its
    job, or the job is queued, or a worker is running it and (having something to read) has an enabled step; by
    `C14_rearm_makes_eligible` / `C14_close_deregisters` that worker's run ends in a re-arm (eligible again if data
    remains) or in the close of the connection. -/
theorem C14_no_lost_wakeup {s : State} (h : Reachable s) {c : Nat} (hw : s.hasWork c) :
    ((s.conn c).inFlight = false ∧ s.ready (.conn c) = true ∧
      (s.mode = .waiting → enabled s (.batchStart [.conn c]))) ∨
    ((s.conn c).inFlight = true ∧
      ((s.mode = .won c ∧ enabled s (.execute c)) ∨ c ∈ s.jobs ∨
       ∃ w e, w < s.nWorkers ∧ s.worker w = some c ∧ e.workerOf = some w ∧ enabled s e)) := by
  cases hf : (s.conn c).inFlight with
  | false => exact .inl ⟨rfl, C14_work_is_ready hw⟩
  | true =>
    refine .inr ⟨rfl, ?_⟩
    rcases C14_in_flight_has_agent h hw.1 hf with hm | hj | ⟨w, hlt, hwk, _⟩
    · exact .inl ⟨hm, hm⟩
    · exact .inr (.inl hj)
    · have hb : s.blocked w = false := by simp [State.blocked, hwk, hw.2]
      obtain ⟨e, he, hen⟩ := C14_worker_step_enabled h hwk hb
      exact .inr (.inr ⟨w, e, hlt, hwk, he, hen⟩)

example : Reachable demoMid1 ∧ demoMid1.hasWork 1 ∧ (demoMid1.conn 1).inFlight = true :=
  ⟨demoMid1_reachable, by decide, by decide⟩

/-! ## Not stuck -/

/-- Steps that make progress: everything except client steps and `epoll_wait` returns that can only spin — a batch
    in which every connection is in flight (each CAS will fail) and that carries no wake token.  (The listener token
    does not count: a new connection arriving is client activity.) -/
def Event.productive (s : State) : Event → Bool
  | .cSend _ | .cClose _ => false
  | .batchStart evs => evs.any fun t => match t with
    | .conn k => !(s.conn k).inFlight
    | .wake => true
    | .listener => false
  | _ => true

/-- FULL statement (false, see `C14_not_stuck_full_false`): whenever some connection has work and the loop has not
    returned, a productive step is enabled. -/
def C14_not_stuck_full : Prop :=
  ∀ s, Reachable s → s.mode ≠ .stopped → ∀ c, s.hasWork c → ∃ e, e.productive s = true ∧ enabled s e

/-- What holds: the same, provided at least one worker is not blocked in the `read` of `handle_one_request` on a
    connection that has nothing to read (`blocked`: decidable). -/
theorem C14_not_stuck {s : State} (h : Reachable s) (hs : s.mode ≠ .stopped) {c : Nat} (hw : s.hasWork c)
    (hb : ∃ w, w < s.nWorkers ∧ s.blocked w = false) : ∃ e, e.productive s = true ∧ enabled s e := by
  have I := EpollInv.of_reachable h
  by_cases hm : s.mode = .waiting
  · cases hf : (s.conn c).inFlight with
    | false => exact ⟨.batchStart [.conn c], by simp [Event.productive, hf], (C14_work_is_ready hw).2 hm⟩
    | true =>
      have workerCase : ∀ w k, s.worker w = some k → s.blocked w = false → ∃ e, e.productive s = true ∧ enabled s e := by
        intro w k hwk hbl
        obtain ⟨e, he, hen⟩ := C14_worker_step_enabled h hwk hbl
        refine ⟨e, ?_, hen⟩
        cases e <;> first | rfl | cases he
      rcases C14_in_flight_has_agent h hw.1 hf with hwon | hj | ⟨w, _, hwk, _⟩
      · rw [hm] at hwon; cases hwon
      · obtain ⟨w, hlt, hbl⟩ := hb
        cases hwk : s.worker w with
        | some k => exact workerCase w k hwk hbl
        | none =>
          cases hq : s.jobs with
          | nil => rw [hq] at hj; cases hj
          | cons j js => exact ⟨.take w j, rfl, hlt, hwk, by simp [hq]⟩
      · exact workerCase w c hwk (by simp [State.blocked, hwk, hw.2])
  · obtain ⟨e, hl, hnb, hen⟩ := loop_step_enabled s hm hs
    refine ⟨e, ?_, hen⟩
    cases e <;> first | exact absurd rfl (hnb _) | rfl | cases hl

example : Reachable demoMid1 ∧ demoMid1.mode ≠ .stopped ∧ demoMid1.hasWork 1 ∧ demoMid1.blocked 0 = false :=
  ⟨demoMid1_reachable, by decide, by decide, by decide⟩

/-- The excluded class is real.  One worker, two connections.  Connection 0 sends a request; it is dispatched;
    BEFORE the worker has read it the loop harvests connection 0 again (level triggered: the data is still
    unread); the worker now reads, answers and re-arms; the loop then processes the stale event: `closed` is false,
    the CAS succeeds — a job is dispatched for a connection with NOTHING to read.  The worker takes it and sits in
    the blocking `read` (no timeout) until that client sends again or closes.  Connection 1 now sends a request:
    it is dispatched, its job queued — and stays queued: the only worker is blocked, the loop can only spin on
    connection 1's readiness (CAS fails). -/
def starveTrace : List Event := accept2 ++
  [.cSend 0,
   .batchStart [.conn 0], .loadClosed 0 false, .cas 0 true, .execute 0, .batchEnd,
   .batchStart [.conn 0],
   .take 0 0, .handleKeep 0 0, .storeInFlight 0 0,
   .loadClosed 0 false, .cas 0 true, .execute 0, .batchEnd,
   .take 0 0,
   .cSend 1,
   .batchStart [.conn 1], .loadClosed 1 false, .cas 1 true, .execute 1, .batchEnd]

def starved : State := (replay? (init 1) starveTrace).getD (init 1)

theorem starved_reachable : Reachable starved := reachable_of_replay (by omega) (by decide)

example : (replay? (init 1) starveTrace).isSome = true ∧ starved.hasWork 1 ∧ starved.jobs = [1] ∧
    starved.worker 0 = some 0 ∧ starved.blocked 0 = true ∧ (starved.conn 0).answered = [0] ∧
    (starved.conn 0).pending = [] ∧ starved.mode = .waiting := by decide

theorem C14_not_stuck_full_false : ¬ C14_not_stuck_full := by
  intro hfull
  obtain ⟨e, hp, en⟩ := hfull starved starved_reachable (by decide) 1 (by decide)
  have I := EpollInv.of_reachable starved_reachable
  have hmode : starved.mode = .waiting := by decide
  have hw0 : starved.worker 0 = some 0 := by decide
  have hph : (starved.conn 0).phase = .handling := by decide
  have hn : starved.nWorkers = 1 := by decide
  -- every worker event is executed by worker 0 on connection 0, which is in phase `handling`
  have wk : ∀ w k, starved.worker w = some k → w = 0 ∧ k = 0 := by
    intro w k hwk
    have := (I.workerP w k hwk).1
    have hw : w = 0 := by omega
    subst hw
    rw [hw0] at hwk; cases hwk; exact ⟨rfl, rfl⟩
  cases e with
  | cSend c => cases hp
  | cClose c => cases hp
  | batchStart evs =>
    obtain ⟨_, _, _, hready⟩ := en
    simp only [Event.productive, List.any_eq_true] at hp
    obtain ⟨t, ht, hpt⟩ := hp
    have hr := hready t ht
    cases t with
    | listener => cases hpt
    | wake => exact absurd hr (by decide)
    | conn k =>
      by_cases hk : 2 ≤ k
      · have := (I.conn k).fresh (by have : starved.next = 2 := by decide
                                     omega)
        simp [State.ready, this] at hr
      · have : k = 0 ∨ k = 1 := by omega
        rcases this with rfl | rfl
        · exact absurd hr (by decide)
        · exact absurd hpt (by decide)
  | drainWake => rw [en.1] at hmode; cases hmode
  | loadClosed c v => rw [en.1] at hmode; cases hmode
  | cas c ok => rw [en.1] at hmode; cases hmode
  | execute c => have : starved.mode = .won c := en
                 rw [this] at hmode; cases hmode
  | batchEnd => rw [en.1] at hmode; cases hmode
  | acceptConn c => rw [en.1] at hmode; cases hmode
  | boxHandle c => have : starved.mode = .acc1 c := en
                   rw [this] at hmode; cases hmode
  | addOk c => have : starved.mode = .acc2 c := en
               rw [this] at hmode; cases hmode
  | addFail c => have : starved.mode = .acc2 c := en
                 rw [this] at hmode; cases hmode
  | failFreeHandle c => have : starved.mode = .accF1 c := en
                        rw [this] at hmode; cases hmode
  | failTeardown c => have : starved.mode = .accF2 c := en
                      rw [this] at hmode; cases hmode
  | acceptDone => rw [en.1] at hmode; cases hmode
  | stopAccepting => rw [en.1] at hmode; cases hmode
  | take w c =>
    obtain ⟨hlt, hidle, _⟩ := en
    have : w = 0 := by omega
    subst this; rw [hw0] at hidle; cases hidle
  | handleKeep w c =>
    obtain ⟨hwk, _, hne⟩ := en
    obtain ⟨rfl, rfl⟩ := wk _ _ hwk
    exact absurd hne (by decide)
  | handleClose w c ans =>
    obtain ⟨hwk, _, hr, _⟩ := en
    obtain ⟨rfl, rfl⟩ := wk _ _ hwk
    exact absurd hr (by decide)
  | storeInFlight w c => obtain ⟨hwk, hp'⟩ := en; obtain ⟨rfl, rfl⟩ := wk _ _ hwk; rw [hph] at hp'; cases hp'
  | del w c => obtain ⟨hwk, hp'⟩ := en; obtain ⟨rfl, rfl⟩ := wk _ _ hwk; rw [hph] at hp'; cases hp'
  | dropStream w c => obtain ⟨hwk, hp'⟩ := en; obtain ⟨rfl, rfl⟩ := wk _ _ hwk; rw [hph] at hp'; cases hp'
  | setClosed w c => obtain ⟨hwk, hp'⟩ := en; obtain ⟨rfl, rfl⟩ := wk _ _ hwk; rw [hph] at hp'; cases hp'
  | push w c => obtain ⟨hwk, hp'⟩ := en; obtain ⟨rfl, rfl⟩ := wk _ _ hwk; rw [hph] at hp'; cases hp'
  | wake w c => obtain ⟨hwk, hp'⟩ := en; obtain ⟨rfl, rfl⟩ := wk _ _ hwk; rw [hph] at hp'; cases hp'

/-- the spurious dispatch in isolation: a reachable state in which a worker runs a job for a registered connection
    that has nothing to read and whose peer is still there -/
theorem C14_spurious_dispatch_reachable :
    ∃ s w c, Reachable s ∧ s.worker w = some c ∧ (s.conn c).phase = .handling ∧ (s.conn c).registered = true ∧
      (s.conn c).readable = false ∧ s.blocked w = true :=
  ⟨starved, 0, 0, starved_reachable, by decide, by decide, by decide, by decide, by decide⟩

/-- Observation (performance, not safety): while a connection is in flight and its data has not been read yet
    (job queued, or the worker has not reached `read`), level-triggered `epoll_wait` keeps returning it: the loop
    can run the cycle "harvest, load `closed`, lose the CAS, `free_dead`" again and again without changing anything
    — it busy-spins instead of sleeping (measured on the real server: ~63 000 `epoll_wait` returns in 30 ms). -/
theorem C14_spin_cycle {s : State} (h : Reachable s) {c : Nat} (hm : s.mode = .waiting) (hw : s.hasWork c)
    (hf : (s.conn c).inFlight = true) :
    ∃ t, replay? s [.batchStart [.conn c], .loadClosed c false, .cas c false, .batchEnd] = some t ∧
      t.mode = .waiting ∧ t.conn c = s.conn c ∧ t.jobs = s.jobs ∧ t.worker = s.worker ∧ t.hasWork c := by
  have I := EpollInv.of_reachable h
  have hreg := (I.conn c).reg hw.1
  have hcl := hreg.2.2.1
  have hnr : c ∉ s.reaper := by
    intro hc
    rcases ((I.conn c).reap hc).2 with hp | ⟨_, he⟩
    · have := hreg.2.2.2.2.2; rw [hp] at this; cases this
    · rw [hreg.2.2.2.1] at he; cases he
  have hcount : s.reaper.count c = 0 := List.count_eq_zero.mpr hnr
  have en0 := (C14_work_is_ready hw).2 hm
  have en1 : enabled (apply s (.batchStart [.conn c])) (.loadClosed c false) := ⟨rfl, rfl, hcl.symm⟩
  have en2 : enabled (apply (apply s (.batchStart [.conn c])) (.loadClosed c false)) (.cas c false) :=
    ⟨rfl, by simp [apply, hf]⟩
  have en3 : enabled (apply (apply (apply s (.batchStart [.conn c])) (.loadClosed c false)) (.cas c false))
      .batchEnd := ⟨rfl, rfl⟩
  have hconn : (apply (apply (apply (apply s (.batchStart [.conn c])) (.loadClosed c false)) (.cas c false))
      .batchEnd).conn c = s.conn c := by simp [apply, Conn.freed, hcount]
  refine ⟨_, by simp [replay?, step?, en0, en1, en2, en3], rfl, hconn, rfl, rfl, ?_⟩
  unfold State.hasWork
  rw [hconn]; exact hw

example : Reachable starved ∧ starved.mode = .waiting ∧ starved.hasWork 1 ∧ (starved.conn 1).inFlight = true :=
  ⟨starved_reachable, by decide, by decide, by decide⟩

/-! ## Fairness: what "eventually dispatched" needs

`C14_no_lost_wakeup` and `C14_not_stuck` are state properties.  "A connection with work is EVENTUALLY dispatched to
a worker (and answered)" follows from them for every infinite execution that satisfies:

* (F1) weak fairness of the loop thread and of every worker thread: a thread one of whose steps is continuously
  enabled eventually takes a step (OS scheduler);
* (F2) level-triggered epoll is fair: a registered connection that stays ready is eventually contained in a batch
  returned by `epoll_wait` (Linux rotates its ready list; `max_events` only bounds ONE batch) — the model's
  `batchStart` allows any sub-list, so this is an assumption about which batches occur;
* (F3) the accept loop of one listener event ends (`accept` eventually returns `WouldBlock`);
* (F4) no starvation by idle clients: a client whose connection has a worker blocked in `read`
  (`blocked`) eventually sends a request or closes — `C14_not_stuck_full_false` shows (F4) cannot be dropped.

The argument, with the variants proved below: if the loop is inside a batch, the batch ends
(`C14_batch_terminates`, F1, F3); a sleeping loop is woken by the connection (`C14_work_is_ready`) and by F2 a batch
eventually contains it; its event dispatches a job unless it is in flight (`C14_event_dispatches`); a queued job
moves to the head of the channel (`C14_job_advances`) as long as workers finish, which they do by F1 and F4
(`C14_worker_step_enabled`; the run of a job is at most 6 steps); the worker that runs the connection's job answers
the oldest request or closes (`C14_answers_oldest`); after a re-arm the argument repeats while data remains
(`C14_rearm_makes_eligible`). -/

/-- Every loop step inside a batch other than accepting one more connection strictly decreases `loopMeasure`: a
    batch ends after at most `4·(events left) + 1` such steps plus 9 per connection accepted meanwhile
    (`acceptConn` raises the measure by 5, the up to 4 steps that follow lower it again). -/
theorem C14_batch_terminates {s t : State} {e : Event} (h : Reachable s) (st : StepE s e t) (hl : e.isLoop = true)
    (h1 : ∀ evs, e ≠ .batchStart evs) (h2 : ∀ c, e ≠ .acceptConn c) : loopMeasure t < loopMeasure s := by
  have L := LoopInv.of_reachable h
  obtain ⟨en, rfl⟩ := st
  have hlen : ∀ {a : Token}, s.rest.head? = some a → s.rest.length = s.rest.tail.length + 1 := by
    intro a ha; rw [head?_cons_tail ha]; simp
  cases e with
  | batchStart evs => exact absurd rfl (h1 evs)
  | acceptConn c => exact absurd rfl (h2 c)
  | drainWake => obtain ⟨hm, hh⟩ := en; have := hlen hh; simp only [loopMeasure, apply, hm]; omega
  | loadClosed c v =>
    obtain ⟨hm, hh, _⟩ := en; have := hlen hh
    cases v <;> simp only [loopMeasure, apply, hm] <;> simp <;> omega
  | cas c ok =>
    obtain ⟨hm, _⟩ := en; have := hlen (L.connHead c (.inl hm))
    cases ok <;> simp only [loopMeasure, apply, hm] <;> simp <;> omega
  | execute c =>
    have hm : s.mode = .won c := en
    have := hlen (L.connHead c (.inr hm))
    simp only [loopMeasure, apply, hm]; omega
  | batchEnd => obtain ⟨hm, hr⟩ := en; simp [loopMeasure, apply, hm]
  | boxHandle c => have hm : s.mode = .acc1 c := en; simp only [loopMeasure, apply, hm]; omega
  | addOk c =>
    have hm : s.mode = .acc2 c := en
    have := hlen (L.lstHead c (.inr (.inl hm)))
    simp only [loopMeasure, apply, hm]; omega
  | addFail c => have hm : s.mode = .acc2 c := en; simp only [loopMeasure, apply, hm]; omega
  | failFreeHandle c => have hm : s.mode = .accF1 c := en; simp only [loopMeasure, apply, hm]; omega
  | failTeardown c =>
    have hm : s.mode = .accF2 c := en
    have := hlen (L.lstHead c (.inr (.inr (.inr hm))))
    simp only [loopMeasure, apply, hm]; omega
  | acceptDone => obtain ⟨hm, hh⟩ := en; have := hlen hh; simp only [loopMeasure, apply, hm]; omega
  | stopAccepting => obtain ⟨hm, hh⟩ := en; have := hlen hh; simp only [loopMeasure, apply, hm]; omega
  | _ => cases hl

example : loopMeasure demoMid1 = 8 ∧ decide (enabled demoMid1 (.cas 1 false)) = true ∧
    loopMeasure (apply demoMid1 (.cas 1 false)) = 5 := by decide

/-- FIFO progress of a queued job: every `take` either takes the job of `c` or moves it one place forward; a new
    job is appended BEHIND it; no other step touches the channel. -/
theorem C14_job_advances {s : State} {c : Nat} (hj : c ∈ s.jobs) (e : Event) (en : enabled s e) :
    (∃ w, e = .take w c) ∨
    (c ∈ (apply s e).jobs ∧
      ((∃ w j, e = .take w j ∧ ahead c (apply s e).jobs + 1 = ahead c s.jobs) ∨
       (¬ (∃ w j, e = .take w j) ∧ ahead c (apply s e).jobs = ahead c s.jobs))) := by
  cases e with
  | take w j =>
    obtain ⟨_, _, hq⟩ := en
    have hq' := head?_cons_tail hq
    by_cases hjc : j = c
    · subst hjc; exact .inl ⟨w, rfl⟩
    · right
      have hmem : c ∈ s.jobs.tail := by
        rw [hq'] at hj
        cases hj with
        | head => exact absurd rfl hjc
        | tail _ h => exact h
      refine ⟨by simpa [apply] using hmem, .inl ⟨w, j, rfl, ?_⟩⟩
      simp only [apply]
      conv => rhs; rw [hq']
      simp [ahead, hjc]
  | execute c' =>
    right
    refine ⟨by simp [apply, hj], .inr ⟨by simp, ?_⟩⟩
    simp only [apply]; exact ahead_append_of_mem _ hj
  | loadClosed c' v => right; cases v <;> exact ⟨hj, .inr ⟨by simp, rfl⟩⟩
  | cas c' ok => right; cases ok <;> exact ⟨hj, .inr ⟨by simp, rfl⟩⟩
  | _ => right; exact ⟨hj, .inr ⟨by simp, rfl⟩⟩

example : starved.jobs = [1] ∧ ahead 1 starved.jobs = 0 := by decide

end Khttp.Epoll
