/-
  C14 (no lost wake-ups), listener side — theorems over `Khttp/Model/Accept.lean`.

  * `C14_accept_never_stranded`: with the accept loop of the code (drain until `accept()` fails) no reachable state has connections
    waiting in the listen queue while the listener is neither reported-pending nor being drained — for every number of arrivals and
    every interleaving of arrivals with the loop.
  * `C14_accept_progress`: whenever connections wait, a step of the SERVER (not a new arrival) is enabled that leads towards accepting
    them: the pending listener event can be reported, or the running accept loop can take the next connection.
  * `C14_accept_bounded_strands`: for every per-event cap k the variant "at most k accepts per listener event" reaches a stranded
    state (k+1 arrivals under one edge, then silence) — the edge-triggered listener is the reason the loop must drain.
  * `C14_accept_counts`: accepted + backlog = arrivals (nothing is lost or invented by the loop itself).
-/
import Khttp.Model.Accept
namespace Khttp.Accept

/-- the invariant of the code's loop -/
def AccInv (s : St) : Prop := 0 < s.backlog → (s.edge = true ∨ s.inLoop = true)

theorem accInv_init : AccInv {} := by intro h; simp at h

theorem accInv_step (s : St) (e : Ev) (_I : AccInv s) (en : enabled none s e = true) : AccInv (step s e) := by
  cases e with
  | arrive => intro _; left; simp [step]
  | report => intro _; right; simp [step]
  | acceptOne =>
    intro _
    simp [enabled] at en
    right; simp [step, en.1]
  | endLoop =>
    intro h
    simp [enabled] at en
    simp [step, en.2] at h

theorem accInv_run : ∀ (es : List Ev) (s t : St), AccInv s → run none s es = some t → AccInv t := by
  intro es
  induction es with
  | nil => intro s t I h; simp [run] at h; exact h ▸ I
  | cons e es ih =>
    intro s t I h
    unfold run at h
    split at h
    · rename_i en; exact ih _ _ (accInv_step s e I en) h
    · exact absurd h (by simp)

/-- **no connection is stranded** by the accept loop of the code, whatever the arrivals and the interleaving -/
theorem C14_accept_never_stranded {s : St} (h : Reachable none s) : ¬ Stranded s := by
  obtain ⟨es, hr⟩ := h
  have I := accInv_run es {} s accInv_init hr
  intro ⟨hb, he, hl⟩
  rcases I hb with h1 | h1
  · rw [he] at h1; exact absurd h1 (by decide)
  · rw [hl] at h1; exact absurd h1 (by decide)

/-- whenever connections wait, the server itself has an enabled step towards accepting them -/
theorem C14_accept_progress {s : St} (h : Reachable none s) (hb : 0 < s.backlog) :
    enabled none s .report = true ∨ enabled none s .acceptOne = true := by
  obtain ⟨es, hr⟩ := h
  have I := accInv_run es {} s accInv_init hr
  by_cases hl : s.inLoop = true
  · right; simp [enabled, hl, hb]
  · left
    have hl' : s.inLoop = false := by cases h' : s.inLoop <;> simp_all
    rcases I hb with h1 | h1
    · simp [enabled, h1, hl']
    · exact absurd h1 hl

/-- the stranding schedule for a cap of `k`: k+1 arrivals, one report, k accepts, the loop ends -/
def strandTrace (k : Nat) : List Ev :=
  List.replicate (k + 1) .arrive ++ [.report] ++ List.replicate k .acceptOne ++ [.endLoop]

theorem run_arrivals (cap : Option Nat) (n : Nat) (s : St) (rest : List Ev) :
    run cap s (List.replicate n .arrive ++ rest)
      = run cap { s with backlog := s.backlog + n, edge := if n = 0 then s.edge else true } rest := by
  induction n generalizing s with
  | zero => simp
  | succ n ih =>
    simp only [List.replicate_succ, List.cons_append, run, enabled, if_true]
    rw [ih]
    congr 1
    cases n <;> simp [step] <;> omega

theorem run_accepts (k : Nat) : ∀ (j : Nat) (s : St) (rest : List Ev), s.inLoop = true → j ≤ s.backlog → s.taken + j ≤ k →
    run (some k) s (List.replicate j .acceptOne ++ rest)
      = run (some k) { s with backlog := s.backlog - j, accepted := s.accepted + j, taken := s.taken + j } rest := by
  intro j
  induction j with
  | zero => intro s rest _ _ _; simp
  | succ j ih =>
    intro s rest hl hb ht
    have en : enabled (some k) s .acceptOne = true := by
      simp [enabled, hl]; omega
    simp only [List.replicate_succ, List.cons_append, run, en, if_true]
    rw [ih (step s .acceptOne) rest (by simp [step, hl]) (by simp [step]; omega) (by simp [step]; omega)]
    congr 1
    simp [step]
    refine ⟨by omega, by omega, by omega⟩

/-- **a bounded accept loop strands connections**: for every cap k, k+1 arrivals under one edge followed by silence leave one
    connection in the queue with the listener neither pending nor being drained -/
theorem C14_accept_bounded_strands (k : Nat) : ∃ s, Reachable (some k) s ∧ Stranded s := by
  refine ⟨{ backlog := 1, edge := false, inLoop := false, accepted := k, taken := k }, ⟨strandTrace k, ?_⟩, by simp [Stranded]⟩
  unfold strandTrace
  rw [List.append_assoc, List.append_assoc, run_arrivals]
  simp only [List.cons_append, List.nil_append, run]
  have e1 : enabled (some k) { ({} : St) with backlog := (({} : St).backlog + (k + 1)), edge := if k + 1 = 0 then ({} : St).edge else true } .report = true := by
    simp [enabled]
  rw [if_pos e1]
  rw [run_accepts k k _ [.endLoop] (by simp [step]) (by simp [step]) (by simp [step])]
  simp [run, enabled, step]

/-- the loop neither loses nor invents connections -/
theorem C14_accept_counts (cap : Option Nat) : ∀ (es : List Ev) (s t : St), run cap s es = some t →
    t.accepted + t.backlog = s.accepted + s.backlog + (es.filter (· == .arrive)).length := by
  intro es
  induction es with
  | nil => intro s t h; simp [run] at h; subst h; simp
  | cons e es ih =>
    intro s t h
    unfold run at h
    split at h
    · rename_i en
      have := ih _ _ h
      cases e with
      | arrive => simp [step] at this ⊢; omega
      | report => simp [step] at this ⊢; omega
      | acceptOne =>
        have hb : 0 < s.backlog := by
          simp [enabled] at en; exact en.1.2
        simp [step] at this ⊢; omega
      | endLoop => simp [step] at this ⊢; omega
    · exact absurd h (by simp)

/-- non-vacuity: a run with arrivals before, during and after an accept round; three accepted, the late arrival still pending-reported -/
example : run none {} [.arrive, .arrive, .report, .acceptOne, .arrive, .acceptOne, .acceptOne, .endLoop, .arrive]
    = some { backlog := 1, edge := true, inLoop := false, accepted := 3, taken := 3 } := by decide

/-- … and the cap-2 variant stranded after three arrivals -/
example : run (some 2) {} (strandTrace 2) = some { backlog := 1, edge := false, inLoop := false, accepted := 2, taken := 2 } := by decide

end Khttp.Accept
