/-
  C14 / C15 — tie between src/server/epoll.rs and the transition system of Khttp/Model/Epoll.lean.
  tools/extract_skeleton.py extracts, on every run, the ordered synchronisation actions of `EpollJob::run`,
  `serve_epoll` and `Reaper::free_dead` (with memory orderings), in CANONICAL form: helper functions of the same file inlined at
  their call sites, named event masks resolved, and only the actions in program order kept (no braces, no `return` / `continue`) —
  so re-shaped control flow (`if let … return` / `match`, early `continue` / nested `if`, a block extracted into a private function
  or inlined, a narrower `unsafe` block, renamed locals) gives the same lists, while a missing, added, re-ordered or weakened action
  does not.  What the flat form cannot see — an action moved into or out of a branch without any other change — changes the event
  traces of the instrumented server, which the trace-conformance run of every check compares with the model.
  Two kernel-checked obligations per function:
   (1) the extracted list is literally the expected one (order, orderings, nothing missing, nothing added);
   (2) its synchronisation actions, in program order, are the ones the model's steps are annotated with
       (`Epoll.expectedSkeleton`, derived from `Epoll.skeletonSyncs` — the data `orderings_sufficient` is about).
  The registration flags of a connection socket are part of the list: `events EPOLLIN|EPOLLRDHUP` — LEVEL-triggered, the
  modelling assumption behind `C14_no_lost_wakeup` (an ignored readiness event is reported again); adding EPOLLET changes it.
  Weakening an ordering, replacing the CAS by a store, moving `closed.store` before the DEL, freeing records
  elsewhere than at the end of a batch … changes the extracted list and these obligations stop checking.
-/
import Khttp.Gen.Skeleton
import Khttp.Model.Epoll
namespace Khttp

def Epoll.expectedJobRun : List String :=
  ["handle_one_request", "store in_flight false Release",
   "epoll_ctl DEL", "take stream", "teardown", "drop stream",
   "store closed true Release", "reaper push", "reaper wake"]

def Epoll.expectedServe : List String :=
  ["epoll_wait", "accept", "setup", "box stream", "box handle", "events EPOLLIN|EPOLLRDHUP", "epoll_ctl ADD",
   "free handle", "take stream", "teardown", "drop stream",
   "drain_wake",
   "load closed Acquire", "cas in_flight false true Acquire Relaxed", "execute",
   "free_dead"]

def Epoll.expectedFreeDead : List String := ["take dead list", "free handle"]

theorem C14_skeleton_job : Gen.epollJobRun = Epoll.expectedJobRun := by decide
theorem C14_skeleton_serve : Gen.epollServe = Epoll.expectedServe := by decide
theorem C15_skeleton_free_dead : Gen.epollFreeDead = Epoll.expectedFreeDead := by decide

/-- the actions of the source, labelled by code site by the extractor, are exactly the annotated steps of the model
    (`Epoll.expectedSkeleton` = `Epoll.skeletonSyncs.map Sync.render`, with the memory orderings as data) -/
theorem C14_skeleton_matches_model : Gen.epollActions = Epoll.expectedSkeleton := by decide

end Khttp
