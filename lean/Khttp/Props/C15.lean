/-
C15 — "Epoll mode: connection resources released exactly once, never accumulate."

All statements are about EVERY reachable state of the transition system `Khttp/Model/Epoll.lean` (every
interleaving of the event loop, the workers and the clients; any number of workers `n ≥ 1`, of connections, of
requests; `EPOLL_CTL_ADD` may fail at any accept).  Ghost counters of the model: `streamClosedCount` (the boxed
`TcpStream` was taken out of its box and dropped / handed to the teardown hook), `teardownCount` (the teardown
decision was executed), `handleFreedCount` (`drop(Box::from_raw(handle_ptr))` was executed; `free_dead` counts once
PER OCCURRENCE of the pointer in the reaper queue, so a double push would show up as a double free).

Known limitation, recorded as `C15_after_stop_full` / `C15_after_stop_full_false`: when `serve_epoll` returns because
the setup hook answered `StopAccepting`, connections that are still open are abandoned (neither closed nor freed),
and records queued for freeing are never freed.
-/
import Khttp.Props.C14
namespace Khttp.Epoll
open Khttp.Pool (upd upd_same upd_other)

/-! ## Concrete schedules for the non-vacuity examples -/

/-- `EPOLL_CTL_ADD` fails for the first connection, succeeds for the second -/
def addFailTrace : List Event :=
  [.batchStart [.listener], .acceptConn 0, .boxHandle 0, .addFail 0]

def addFailRest : List Event :=
  [.failFreeHandle 0, .failTeardown 0, .acceptConn 1, .boxHandle 1, .addOk 1, .acceptDone, .batchEnd]

/-- right after the failed `ADD` -/
def addFailMid : State := (replay? (init 2) addFailTrace).getD (init 2)
def addFailEnd : State := (replay? (init 2) (addFailTrace ++ addFailRest)).getD (init 2)

theorem addFailMid_reachable : Reachable addFailMid := reachable_of_replay (by omega) (by decide)
theorem addFailEnd_reachable : Reachable addFailEnd := reachable_of_replay (by omega) (by decide)

/-- `demoA ++ demoB ++` the close path of connection 0 up to and including the push: the loop is inside a batch
    that still holds a stale event of connection 0, whose record is already in the reaper queue. -/
def closeTrace : List Event :=
  demoA ++ demoB ++ [.storeInFlight 1 1, .del 0 0, .dropStream 0 0, .setClosed 0 0, .push 0 0]

def closeMid : State := (replay? (init 2) closeTrace).getD (init 2)
theorem closeMid_reachable : Reachable closeMid := reachable_of_replay (by omega) (by decide)

example : closeMid.reaper = [0] ∧ closeMid.mode = .batch ∧ closeMid.rest = [.conn 0] ∧
    (closeMid.conn 0).handleLive = true ∧ (closeMid.conn 0).closedFlag = true ∧
    (closeMid.conn 0).registered = false := by decide

/-! ## The socket is closed exactly once -/

/-- `streamClosedCount c ≤ 1` always; it is 1 exactly when the stream was boxed and is gone; and it is 1 (with the
    teardown executed once) once the connection has ended — close path of the worker finished, or `ADD` failed. -/
theorem C15_socket_closed_once {s : State} (h : Reachable s) (c : Nat) :
    (s.conn c).streamClosedCount ≤ 1 ∧
    ((s.conn c).streamClosedCount = 1 ↔ (s.conn c).accepted = true ∧ (s.conn c).streamLive = false) ∧
    (s.conn c).teardownCount = (s.conn c).streamClosedCount ∧
    ((s.conn c).ended = true →
      (s.conn c).streamClosedCount = 1 ∧ (s.conn c).teardownCount = 1 ∧ (s.conn c).streamLive = false) := by
  have J := (EpollInv.of_reachable h).conn c
  obtain ⟨j1, j2, j3, j4, j5, j6, j7, j8, j9, j10, j11, j12, j13, j14, j15, j16, j17, j18, j19, j20, j21, j22,
    j23, j24, j25, j26⟩ := J
  grind

example : Reachable demoEnd ∧ (demoEnd.conn 0).ended = true ∧ (demoEnd.conn 0).streamClosedCount = 1 :=
  ⟨demoEnd_reachable, by decide, by decide⟩

/-- an open (registered) connection's socket has not been closed -/
theorem C15_open_socket_not_closed {s : State} (h : Reachable s) {c : Nat} (hr : (s.conn c).registered = true) :
    (s.conn c).streamLive = true ∧ (s.conn c).streamClosedCount = 0 := by
  have J := (EpollInv.of_reachable h).conn c
  have := J.reg hr
  have hc := J.cnt.1
  simp [this.2.1] at hc
  exact ⟨this.2.1, hc⟩

/-! ## The record is freed at most once -/

/-- `handleFreedCount c ≤ 1` always; it is 1 exactly when the record was allocated and is gone. -/
theorem C15_record_freed_at_most_once {s : State} (h : Reachable s) (c : Nat) :
    (s.conn c).handleFreedCount ≤ 1 ∧
    ((s.conn c).handleFreedCount = 1 ↔ (s.conn c).boxed = true ∧ (s.conn c).handleLive = false) := by
  have J := (EpollInv.of_reachable h).conn c
  have := J.cnt.2.2
  constructor
  · rw [this]; split <;> omega
  · rw [this]; cases (s.conn c).boxed <;> cases (s.conn c).handleLive <;> simp

/-- … and exactly once as soon as the connection has ended and its record is no longer waiting in the reaper queue
    (`C15_reaper_drains`: it does not wait there for ever) -/
theorem C15_record_freed_exactly_once {s : State} (h : Reachable s) {c : Nat} (he : (s.conn c).ended = true)
    (hq : c ∉ s.reaper) : (s.conn c).handleFreedCount = 1 ∧ (s.conn c).handleLive = false := by
  have J := (EpollInv.of_reachable h).conn c
  obtain ⟨j1, j2, j3, j4, j5, j6, j7, j8, j9, j10, j11, j12, j13, j14, j15, j16, j17, j18, j19, j20, j21, j22,
    j23, j24, j25, j26⟩ := J
  grind

example : Reachable demoEnd ∧ (demoEnd.conn 0).ended = true ∧ 0 ∉ demoEnd.reaper := ⟨demoEnd_reachable, by decide, by decide⟩

/-- the reaper queue never holds a record twice, and holds only live records of connections whose worker is past
    the push: deregistered, socket closed, `closed` set, no job queued, no worker before the push -/
theorem C15_reaper_queue_sound {s : State} (h : Reachable s) :
    s.reaper.Nodup ∧
    ∀ c ∈ s.reaper, (s.conn c).handleLive = true ∧ (s.conn c).registered = false ∧ (s.conn c).streamLive = false ∧
      (s.conn c).closedFlag = true ∧ c ∉ s.jobs ∧ s.mode ≠ .won c ∧
      (∀ w, s.worker w = some c → (s.conn c).phase = .pushed) := by
  have I := EpollInv.of_reachable h
  refine ⟨I.reaperNodup, fun c hc => ?_⟩
  have J := I.conn c
  have hr := J.reap hc
  have hnreg : (s.conn c).registered = false := by
    cases hreg : (s.conn c).registered with
    | false => rfl
    | true =>
      have := J.reg hreg
      rcases hr.2 with hp | ⟨_, he⟩
      · rw [hp] at this; simp [Phase.isOpen] at this
      · rw [he] at this; simp at this
  have hnj : c ∉ s.jobs := by
    intro hj; have := J.jobq.mpr hj
    rcases hr.2 with hp | ⟨hp, _⟩ <;> rw [hp] at this <;> cases this
  have hnw : s.mode ≠ .won c := by
    intro hm; have := (J.wonP hm).1; rw [hnreg] at this; cases this
  rcases hr.2 with hp | ⟨hp, he⟩
  · have := J.pushedP hp
    exact ⟨hr.1, hnreg, this.1, this.2.1, hnj, hnw, fun _ _ => hp⟩
  · have haf : (s.conn c).addFailed = false := by
      cases haf : (s.conn c).addFailed with
      | false => rfl
      | true => have := (J.endedF he haf).1; rw [hr.1] at this; cases this
    have := J.endedW he haf
    refine ⟨hr.1, hnreg, this.2.2.2.1, this.2.2.1, hnj, hnw, ?_⟩
    intro w hw
    have := (I.workerP w c hw).2.2
    rw [hp] at this; cases this

example : Reachable closeMid ∧ 0 ∈ closeMid.reaper := ⟨closeMid_reachable, by decide⟩

/-! ## No use after free -/

/-- Every step that dereferences the record of connection `c` — the loop's `closed.load` and CAS, everything a
    worker does from `handle_one_request` up to and including `closed.store`, the `ADD` and its failure branch — is
    enabled only while the record is live.  (The guards of the model do NOT mention `handleLive`.) -/
theorem C15_no_use_after_free {s : State} (h : Reachable s) {e : Event} (en : enabled s e) {c : Nat}
    (ha : e.accessesRecord = some c) : (s.conn c).handleLive = true := by
  have I := EpollInv.of_reachable h
  have open_live : ∀ {w : Nat}, s.worker w = some c → (s.conn c).phase ≠ .idle → (s.conn c).phase.isOpen = true →
      (s.conn c).handleLive = true :=
    fun _ h1 h2 => ((I.conn c).reg ((I.conn c).openReg h1 h2)).1
  cases e <;> simp only [Event.accessesRecord, Option.some.injEq, reduceCtorEq] at ha <;> subst ha
  case loadClosed v => exact ((I.conn _).inRest (mem_of_head? en.2.1)).1
  case cas ok => exact ((I.conn _).loadedP en.1).1
  case handleKeep w => exact open_live en.1 (by rw [en.2.1]; simp) (by rw [en.2.1]; rfl)
  case handleClose w ans => exact open_live en.1 (by rw [en.2.1]; simp) (by rw [en.2.1]; rfl)
  case storeInFlight w => exact open_live en.1 (by rw [en.2]; simp) (by rw [en.2]; rfl)
  case del w => exact open_live en.1 (by rw [en.2]; simp) (by rw [en.2]; rfl)
  case dropStream w => exact ((I.conn _).deletedP en.2).1
  case setClosed w => exact ((I.conn _).droppedP en.2).1
  case addOk => exact ((I.conn _).acc2P (.inl en)).2.2.2.1
  case addFail => exact ((I.conn _).acc2P (.inl en)).2.2.2.1
  case failFreeHandle => exact ((I.conn _).acc2P (.inr en)).2.2.2.1

/-- non-vacuity, and the situation the repair is about: the loop is in the middle of a batch that holds a STALE
    event of connection 0, whose record is already queued for freeing — the record is still live when the loop
    loads `closed` from it (and the load returns `true`: the event is skipped) -/
example : Reachable closeMid ∧ decide (enabled closeMid (.loadClosed 0 true)) = true ∧
    Event.accessesRecord (.loadClosed 0 true) = some 0 ∧ (closeMid.conn 0).handleLive = true :=
  ⟨closeMid_reachable, by decide, rfl, by decide⟩

/-- What the theorem excludes.  Had the worker freed the record itself right after `closed.store(true)` instead of
    handing it to the reaper, the run `closeTrace` would end in the state below: the loop still holds the stale
    event of connection 0 and is about to load `closed` from a record that is gone.  That state is not reachable
    in the model of the repaired code. -/
def earlyFreeVariant : State :=
  { closeMid with conn := upd closeMid.conn 0 { closeMid.conn 0 with handleLive := false }, reaper := [] }

theorem C15_early_free_variant_not_reachable : ¬ Reachable earlyFreeVariant := fun h =>
  absurd (C15_no_use_after_free h (e := .loadClosed 0 true) (by decide) rfl) (by decide)

example : decide (enabled earlyFreeVariant (.loadClosed 0 true)) = true ∧
    (earlyFreeVariant.conn 0).handleLive = false := by decide

/-- the same for the boxed `TcpStream`: every step that uses the socket is enabled only while it is open
    (in particular `EPOLL_CTL_DEL` runs while `handle.fd` still denotes this connection's socket) -/
theorem C15_no_stream_use_after_close {s : State} (h : Reachable s) {e : Event} (en : enabled s e) {c : Nat}
    (ha : e.accessesStream = some c) : (s.conn c).streamLive = true := by
  have I := EpollInv.of_reachable h
  have open_live : ∀ {w : Nat}, s.worker w = some c → (s.conn c).phase ≠ .idle → (s.conn c).phase.isOpen = true →
      (s.conn c).streamLive = true :=
    fun _ h1 h2 => ((I.conn c).reg ((I.conn c).openReg h1 h2)).2.1
  cases e <;> simp only [Event.accessesStream, Option.some.injEq, reduceCtorEq] at ha <;> subst ha
  case handleKeep w => exact open_live en.1 (by rw [en.2.1]; simp) (by rw [en.2.1]; rfl)
  case handleClose w ans => exact open_live en.1 (by rw [en.2.1]; simp) (by rw [en.2.1]; rfl)
  case del w => exact open_live en.1 (by rw [en.2]; simp) (by rw [en.2]; rfl)
  case dropStream w => exact ((I.conn _).deletedP en.2).2.1
  case addOk => exact ((I.conn _).acc2P (.inl en)).2.1
  case addFail => exact ((I.conn _).acc2P (.inl en)).2.1
  case failTeardown => exact ((I.conn _).accF2P en).2.1

/-- THE CRUX, as a statement of its own: every event of the current batch that is still to be processed (and the
    event the loop is working on) refers to a live record; and a record is freed (`batchEnd`) only when no event is
    left.  So no harvested event outlives the record it points to. -/
theorem C15_batch_events_live {s : State} (h : Reachable s) :
    (∀ c, Token.conn c ∈ s.rest → (s.conn c).handleLive = true) ∧
    (∀ c, s.mode = .loaded c ∨ s.mode = .won c → (s.conn c).handleLive = true) ∧
    (enabled s .batchEnd → s.rest = []) := by
  have I := EpollInv.of_reachable h
  refine ⟨fun c hc => ((I.conn c).inRest hc).1, ?_, fun en => en.2⟩
  rintro c (hm | hm)
  · exact ((I.conn c).loadedP hm).1
  · exact ((I.conn c).reg ((I.conn c).wonP hm).1).1

/-- and a job (queued or running, before the push) keeps its record alive -/
theorem C15_job_record_live {s : State} (h : Reachable s) {c : Nat}
    (hp : (s.conn c).phase ≠ .idle) (hq : (s.conn c).phase ≠ .pushed) : (s.conn c).handleLive = true := by
  have J := (EpollInv.of_reachable h).conn c
  cases hph : (s.conn c).phase with
  | idle => exact absurd hph hp
  | pushed => exact absurd hph hq
  | deleted => exact (J.deletedP hph).1
  | streamDropped => exact (J.droppedP hph).1
  | closedSet => exact (J.closedP hph).1
  | _ => exact (J.reg (J.openReg hp (by rw [hph]; rfl))).1

/-! ## Nothing accumulates -/

/-- the server is idle: loop asleep in `epoll_wait`, reaper queue empty, no job queued or running -/
def State.quiescent (s : State) : Prop :=
  s.mode = .waiting ∧ s.reaper = [] ∧ s.jobs = [] ∧ ∀ w, w < s.nWorkers → s.worker w = none

/-- In every quiescent state every connection that has ended holds neither memory nor a descriptor; more: the ONLY
    connections that hold a record or a socket are the registered (open, idle) ones, and each holds exactly one of
    each. -/
theorem C15_quiescent_clean {s : State} (h : Reachable s) (hq : s.quiescent) (c : Nat) :
    ((s.conn c).ended = true → (s.conn c).handleLive = false ∧ (s.conn c).streamLive = false) ∧
    ((s.conn c).handleLive = true ∨ (s.conn c).streamLive = true → (s.conn c).registered = true) ∧
    ((s.conn c).accepted = true → (s.conn c).registered = true ∨ (s.conn c).ended = true) := by
  have I := EpollInv.of_reachable h
  obtain ⟨hm, hr, hj, hw⟩ := hq
  have J := I.conn c
  have hnw : (s.conn c).phase.isWorking = false := by
    cases hwk : (s.conn c).phase.isWorking with
    | false => rfl
    | true =>
      have h1 := J.working hwk
      have h2 := (I.workerP _ _ h1).1
      rw [hw _ h2] at h1; cases h1
  obtain ⟨j1, j2, j3, j4, j5, j6, j7, j8, j9, j10, j11, j12, j13, j14, j15, j16, j17, j18, j19, j20, j21, j22,
    j23, j24, j25, j26⟩ := J
  simp only [hr, hj, hm, List.not_mem_nil] at *
  cases hp : (s.conn c).phase <;> simp only [hp, Phase.isWorking, Phase.isClosing, Phase.isOpen] at * <;> grind

theorem demoEnd_quiescent : demoEnd.quiescent := by
  refine ⟨by decide, by decide, by decide, ?_⟩
  intro w hw
  have : demoEnd.nWorkers = 2 := by decide
  have : w = 0 ∨ w = 1 := by omega
  rcases this with rfl | rfl <;> decide

example : Reachable demoEnd ∧ demoEnd.quiescent ∧ (demoEnd.conn 0).ended = true ∧
    (demoEnd.conn 1).handleLive = true := ⟨demoEnd_reachable, demoEnd_quiescent, by decide, by decide⟩

/-- The reaper queue drains.  Whenever the loop sleeps with a non-empty reaper queue, the wake-up is pending — the
    wake token makes `epoll_wait` return — or the worker that pushed last is about to send it (and sending it
    makes it pending); a loop that is inside a batch reaches `free_dead` by itself (`C14_batch_terminates`); and
    `free_dead` empties the queue, freeing every queued record. -/
theorem C15_reaper_drains {s : State} (h : Reachable s) (hne : s.reaper ≠ []) :
    (s.mode = .waiting →
      (s.wakePending = true ∧ enabled s (.batchStart [.wake])) ∨
      (∃ w c, enabled s (.wake w c) ∧ (apply s (.wake w c)).wakePending = true ∧
        enabled (apply s (.wake w c)) (.batchStart [.wake]))) ∧
    (enabled s .batchEnd →
      (apply s .batchEnd).reaper = [] ∧
      ∀ c ∈ s.reaper, ((apply s .batchEnd).conn c).handleLive = false ∧
        ((apply s .batchEnd).conn c).handleFreedCount = 1) := by
  have I := EpollInv.of_reachable h
  constructor
  · intro hm
    cases hwp : s.wakePending with
    | true => exact .inl ⟨rfl, hm, by simp, by simp, by simp [State.ready, hwp]⟩
    | false =>
      right
      cases hr : s.reaper with
      | nil => exact absurd hr hne
      | cons c r =>
        have hc : c ∈ s.reaper := by rw [hr]; simp
        have hp : (s.conn c).phase = .pushed := by
          rcases I.wakeP hm c hc with h1 | h1
          · rw [hwp] at h1; cases h1
          · exact h1
        have hwk := (I.conn c).working (by rw [hp]; rfl)
        refine ⟨_, c, ⟨hwk, hp⟩, by simp [apply], ?_⟩
        exact ⟨by simp [apply, hm], by simp, by simp, by simp [State.ready, apply]⟩
  · intro _
    refine ⟨by simp [apply], fun c hc => ?_⟩
    have hcount : s.reaper.count c = 1 := by rw [I.reaperNodup.count, if_pos hc]
    have hl := ((I.conn c).reap hc).1
    have hcnt := (I.conn c).cnt.2.2
    have hb := (I.conn c).alloc.1 hl
    simp [apply, Conn.freed, hcount, hcnt, hl, hb]

/-- right after the worker's push, before its wake: the loop sleeps, the queue is non-empty, the wake is about to be
    sent -/
example : let s := (replay? (init 2) (demoA ++ demoB ++ [.storeInFlight 1 1, .del 0 0, .dropStream 0 0,
      .setClosed 0 0, .loadClosed 0 true, .batchEnd, .push 0 0])).getD (init 2)
    s.mode = .waiting ∧ s.reaper = [0] ∧ s.wakePending = false ∧ decide (enabled s (.wake 0 0)) = true := by decide

/-! ## Failure of `EPOLL_CTL_ADD` -/

/-- After a failed `ADD` (once its branch has completed) the record and the stream are both released, each exactly
    once, and the teardown was invoked once; the connection never was registered, no job ever existed for it. -/
theorem C15_add_failure_releases {s : State} (h : Reachable s) {c : Nat} (hf : (s.conn c).addFailed = true)
    (he : (s.conn c).ended = true) :
    (s.conn c).handleLive = false ∧ (s.conn c).streamLive = false ∧ (s.conn c).handleFreedCount = 1 ∧
    (s.conn c).streamClosedCount = 1 ∧ (s.conn c).teardownCount = 1 ∧ (s.conn c).registered = false ∧
    (s.conn c).phase = .idle ∧ c ∉ s.reaper := by
  have J := (EpollInv.of_reachable h).conn c
  obtain ⟨j1, j2, j3, j4, j5, j6, j7, j8, j9, j10, j11, j12, j13, j14, j15, j16, j17, j18, j19, j20, j21, j22,
    j23, j24, j25, j26⟩ := J
  grind

example : Reachable addFailEnd ∧ (addFailEnd.conn 0).addFailed = true ∧ (addFailEnd.conn 0).ended = true ∧
    (addFailEnd.conn 1).registered = true := ⟨addFailEnd_reachable, by decide, by decide, by decide⟩

/-- … and the branch does complete: from the failed `ADD` the loop's next two steps are the free of the record and
    the teardown of the stream, after which the connection has ended and the accept loop continues. -/
theorem C15_add_failure_completes {s : State} (h : Reachable s) {c : Nat} (hm : s.mode = .accF1 c) :
    ∃ t, replay? s [.failFreeHandle c, .failTeardown c] = some t ∧ (t.conn c).ended = true ∧
      (t.conn c).addFailed = true ∧ (t.conn c).handleLive = false ∧ (t.conn c).streamLive = false ∧
      t.mode = .batch ∧ t.rest = s.rest := by
  have I := EpollInv.of_reachable h
  have hA := ((I.conn c).acc2P (.inr hm)).2.2.2.2.2.2.2.2.2.mpr hm
  have en1 : enabled s (.failFreeHandle c) := hm
  have en2 : enabled (apply s (.failFreeHandle c)) (.failTeardown c) := by simp [apply, enabled]
  refine ⟨apply (apply s (.failFreeHandle c)) (.failTeardown c), by simp [replay?, step?, en1, en2],
    ?_, ?_, ?_, ?_, ?_, ?_⟩ <;> simp [apply, hA]

example : Reachable addFailMid ∧ addFailMid.mode = .accF1 0 := ⟨addFailMid_reachable, by decide⟩

/-- in the failure branch the loop thread has no other step than the next one of the branch -/
theorem C15_add_failure_forced {s : State} {c : Nat} {e : Event} (en : enabled s e) (hl : e.isLoop = true) :
    (s.mode = .acc2 c → e = .addOk c ∨ e = .addFail c) ∧
    (s.mode = .accF1 c → e = .failFreeHandle c) ∧ (s.mode = .accF2 c → e = .failTeardown c) := by
  cases e <;> simp only [enabled] at en <;> simp_all [Event.isLoop]

/-! ## Known limitation: `StopAccepting` -/

/-- FULL statement (false): once `serve_epoll` has returned and the workers have drained the channel, no
    connection holds a record or a socket. -/
def C15_after_stop_full : Prop :=
  ∀ s, Reachable s → s.mode = .stopped → s.jobs = [] → (∀ w, w < s.nWorkers → s.worker w = none) →
    ∀ c, (s.conn c).handleLive = false ∧ (s.conn c).streamLive = false

/-- one idle open connection, then the setup hook answers `StopAccepting` for the next one -/
def stopTrace : List Event :=
  [.batchStart [.listener], .acceptConn 0, .boxHandle 0, .addOk 0, .stopAccepting]

def stopEnd : State := (replay? (init 1) stopTrace).getD (init 1)
theorem stopEnd_reachable : Reachable stopEnd := reachable_of_replay (by omega) (by decide)

/-- Recorded finding: the connection that was open when the loop returned is abandoned — its socket is never
    closed, its record never freed (nothing refers to them any more: no step of the model can release them). -/
theorem C15_after_stop_full_false : ¬ C15_after_stop_full := by
  intro hfull
  have := hfull stopEnd stopEnd_reachable (by decide) (by decide)
    (fun w hw => by
      have : stopEnd.nWorkers = 1 := by decide
      have : w = 0 := by omega
      subst this; decide) 0
  exact absurd this.1 (by decide)

/-- second variant of the same finding: a connection closed by a worker around the time of the stop has its record
    pushed to the reaper queue, where it stays for ever (`free_dead` never runs again) -/
def stopTrace2 : List Event :=
  [.batchStart [.listener], .acceptConn 0, .boxHandle 0, .addOk 0, .acceptDone, .batchEnd,
   .cClose 0, .batchStart [.conn 0, .listener], .loadClosed 0 false, .cas 0 true, .execute 0, .stopAccepting,
   .take 0 0, .handleClose 0 0 false, .del 0 0, .dropStream 0 0, .setClosed 0 0, .push 0 0, .wake 0 0]

def stopEnd2 : State := (replay? (init 1) stopTrace2).getD (init 1)

example : (replay? (init 1) stopTrace2).isSome = true ∧ stopEnd2.mode = .stopped ∧ stopEnd2.jobs = [] ∧
    stopEnd2.worker 0 = none ∧ (stopEnd2.conn 0).ended = true ∧ (stopEnd2.conn 0).streamLive = false ∧
    (stopEnd2.conn 0).handleLive = true ∧ stopEnd2.reaper = [0] := by decide

/-- after the stop no step of the loop is enabled any more (in particular no `free_dead`, no `epoll_wait`) -/
theorem C15_stopped_loop_dead {s : State} (hm : s.mode = .stopped) {e : Event} (hl : e.isLoop = true) :
    ¬ enabled s e := by
  intro en
  cases e <;> simp only [enabled] at en <;> simp_all [Event.isLoop]

/-- what still holds after the stop: all the safety properties above (they hold in every reachable state), and
    sockets of connections whose close path runs to completion are still closed exactly once. -/
example : Reachable stopEnd := stopEnd_reachable

/-! ## The annotation of the steps (memory orderings) -/

/-- the skeleton exported for the comparison with the Rust source -/
example : expectedSkeleton =
    ["job: handle_one_request",
     "job.keep: store in_flight false Release",
     "job.close: epoll_ctl DEL",
     "job.close: take stream + teardown",
     "job.close: store closed true Release",
     "job.close: reaper push",
     "job.close: reaper wake",
     "loop.event: load closed Acquire",
     "loop.event: cas in_flight false true Acquire Relaxed",
     "loop.event: execute",
     "loop.batch_end: free_dead",
     "accept: box stream",
     "accept: box handle",
     "accept: epoll_ctl ADD",
     "accept.fail: free handle",
     "accept.fail: take stream + teardown"] := by decide

/-- every code site of the skeleton is the annotation of a step of the model, and every annotated step is in the
    skeleton -/
theorem skeleton_covers_model :
    (∀ e : Event, ∀ a, e.sync = some a → a ∈ skeletonSyncs) ∧
    (∀ a ∈ skeletonSyncs, ∃ e : Event, e.sync = some a) := by
  constructor
  · intro e a h
    cases e <;> simp only [Event.sync, Option.some.injEq, reduceCtorEq] at h <;> subst h <;> decide
  · intro a ha
    simp only [skeletonSyncs, List.mem_cons, List.not_mem_nil, or_false] at ha
    rcases ha with rfl | rfl | rfl | rfl | rfl | rfl | rfl | rfl | rfl | rfl | rfl | rfl | rfl | rfl | rfl | rfl
    · exact ⟨.handleKeep 0 0, rfl⟩
    · exact ⟨.storeInFlight 0 0, rfl⟩
    · exact ⟨.del 0 0, rfl⟩
    · exact ⟨.dropStream 0 0, rfl⟩
    · exact ⟨.setClosed 0 0, rfl⟩
    · exact ⟨.push 0 0, rfl⟩
    · exact ⟨.wake 0 0, rfl⟩
    · exact ⟨.loadClosed 0 false, rfl⟩
    · exact ⟨.cas 0 false, rfl⟩
    · exact ⟨.execute 0, rfl⟩
    · exact ⟨.batchEnd, rfl⟩
    · exact ⟨.acceptConn 0, rfl⟩
    · exact ⟨.boxHandle 0, rfl⟩
    · exact ⟨.addOk 0, rfl⟩
    · exact ⟨.failFreeHandle 0, rfl⟩
    · exact ⟨.failTeardown 0, rfl⟩

/-- The orderings recorded in the skeleton are strong enough for the hand-overs that the interleaving model takes
    for granted: both flag stores of the worker are (at least) `Release`, the loop's load of `closed` and the
    success ordering of its CAS on `in_flight` are (at least) `Acquire`, the CAS goes `false → true`, the keep-alive
    store writes `false`, the close store writes `true`. -/
theorem orderings_sufficient : ∀ a ∈ skeletonSyncs, a.orderOk = true := by decide

/-- … and a weaker ordering at any of these sites is rejected by the same check -/
example : (Sync.storeInFlight false .relaxed).orderOk = false ∧ (Sync.storeClosed true .relaxed).orderOk = false ∧
    (Sync.loadClosed .relaxed).orderOk = false ∧ (Sync.casInFlight false true .relaxed .relaxed).orderOk = false := by
  decide

/-- the program order inside `EpollJob::run`'s close path, as it appears in the skeleton: DEL, then the stream, then
    `closed`, then the push, then the wake — the order the proofs depend on (`ConnInv.reap`, `ConnInv.inRest`) -/
example : skeletonOfSite "job.close" =
    ["job.close: epoll_ctl DEL", "job.close: take stream + teardown", "job.close: store closed true Release",
     "job.close: reaper push", "job.close: reaper wake"] := by decide

end Khttp.Epoll
