/-
  C16 — Lifecycle hooks fire exactly as documented in every serve mode.

  `log` is the event log of `serve`, `serve_threaded` or `serve_epoll` (`IsServeLog`) for an arbitrary configuration
  and an arbitrary list of incoming connections; connection `c` is the `c`-th incoming connection `ins[c]`;
  `acceptedCount ins` connections reach the setup hook (all up to and including the first StopAccepting).
  `eventsOf c log` is the sub-sequence of the events of connection `c`, in log order.
-/
import Khttp.Lemmas.ConnFacts
import Khttp.Driver.Conn
namespace Khttp
open ConnFacts

/-- Setup hook: for every accepted connection it runs exactly once, and it is the first event of that connection
    (so before any byte of it is read, any hook, any response); connections that are not accepted (after a
    StopAccepting) produce no event at all. -/
theorem C16_setup_once_first (cfg : Cfg) (ins : List Incoming) (log : List HookEv) (hl : IsServeLog cfg ins log)
    (c : Nat) :
    (∀ i, c < acceptedCount ins → ins[c]? = some i →
      ∃ rest, eventsOf c log = .setup c :: rest ∧ ∀ e ∈ rest, e.isSetup = false) ∧
    (acceptedCount ins ≤ c → eventsOf c log = []) ∧
    (∀ d, HookEv.setup d ∈ log → d < acceptedCount ins) := by
  refine ⟨?_, ?_, ?_⟩
  · intro i hc hi
    rw [eventsOf_isServeLog hl hc hi]
    refine ⟨_, rfl, ?_⟩
    intro e he
    cases hd : i.decision <;> simp only [hd] at he
    · have hown := ownEvents_connThreaded cfg c i.sock c
      rw [connThreaded_eq] at he
      rcases List.mem_append.mp he with he | he
      · simp only [reqEvents, List.mem_flatMap] at he
        obtain ⟨r, _, he⟩ := he
        rcases List.mem_append.mp he with he | he
        · split at he <;> simp at he; subst he; rfl
        · obtain ⟨x, _, rfl⟩ := List.mem_map.mp he; rfl
      · unfold teardownEvents at he
        split at he <;> simp at he; subst he; rfl
    · simp at he; subst he; rfl
    · simp at he
  · intro hc
    rw [isServeLog_eq hl, eventsOf_serveLog]
    simp [Nat.not_lt.mpr hc]
  · intro d hd
    by_cases h : d < acceptedCount ins
    · exact h
    · have hm : HookEv.setup d ∈ eventsOf d log := by simp [eventsOf, hd]
      rw [isServeLog_eq hl, eventsOf_serveLog] at hm
      simp [h] at hm

/-- Drop: the connection is closed with no response, no other hook runs for it. -/
theorem C16_drop_silent (cfg : Cfg) (ins : List Incoming) (log : List HookEv) (hl : IsServeLog cfg ins log)
    (c : Nat) (i : Incoming) (hc : c < acceptedCount ins) (hi : ins[c]? = some i) (hd : i.decision = .drop) :
    eventsOf c log = [.setup c, .closedSilently c] := by
  rw [eventsOf_isServeLog hl hc hi]; simp [connEvents, hd]

/-- StopAccepting: the serve call returns right after that setup hook; the log is the log of the connections
    before it, then the setup event, then `returned`; nothing of later connections; and a serve call only returns
    for that reason. -/
theorem C16_stop_returns (cfg : Cfg) (pre post : List Incoming) (i : Incoming) (log : List HookEv)
    (hl : IsServeLog cfg (pre ++ i :: post) log)
    (hpre : ∀ j ∈ pre, j.decision ≠ .stopAccepting) (hi : i.decision = .stopAccepting) :
    log = serveLog cfg pre ++ [.setup pre.length, .returned] ∧ HookEv.returned ∉ serveLog cfg pre ∧
    eventsOf pre.length log = [.setup pre.length] ∧ ∀ c, pre.length < c → eventsOf c log = [] := by
  have hlog := isServeLog_eq hl
  have hcount := acceptedCount_append_stop pre post i hpre hi
  refine ⟨?_, ?_, ?_, ?_⟩
  · rw [hlog]; unfold serveLog
    rw [acceptLoop_append _ pre (i :: post) 0 hpre]
    simp [acceptLoop, hi]
  · exact returned_not_mem_acceptLoop _ (returned_not_mem_connThreaded cfg) pre 0 hpre
  · rw [eventsOf_isServeLog hl (c := pre.length) (i := i) (by omega) (by simp)]
    simp [connEvents, hi]
  · intro c hc
    rw [hlog, eventsOf_serveLog]
    simp [hcount, show ¬ c < pre.length + 1 by omega]

/-- … and when no connection says StopAccepting the serve call never returns. -/
theorem C16_no_stop_no_return (cfg : Cfg) (ins : List Incoming) (log : List HookEv) (hl : IsServeLog cfg ins log)
    (h : ∀ j ∈ ins, j.decision ≠ .stopAccepting) : HookEv.returned ∉ log := by
  rw [isServeLog_eq hl]
  exact returned_not_mem_acceptLoop _ (returned_not_mem_connThreaded cfg) ins 0 h

/-- Proceed: the connection is handed to request handling.  Its events are: setup, then per
    `handle_one_request` call (in order) the pre-routing hook event — iff a request head was parsed — followed by the
    responses of that request, then the teardown events.  The pre-routing hook runs exactly once per parsed request
    (`(handleConnection cfg i.sock).parsed` of them), before the responses of its request. -/
theorem C16_pre_once_per_request (cfg : Cfg) (ins : List Incoming) (log : List HookEv) (hl : IsServeLog cfg ins log)
    (c : Nat) (i : Incoming) (hc : c < acceptedCount ins) (hi : ins[c]? = some i) (hd : i.decision = .proceed) :
    let o := handleConnection cfg i.sock
    eventsOf c log = .setup c ::
      (o.reqs.flatMap fun r => (if r.1 then [HookEv.pre c] else []) ++ r.2.map (.resp c)) ++ teardownEvents c o ∧
    (log.filter (· == .pre c)).length = o.parsed := by
  intro o
  have hev : eventsOf c log = .setup c ::
      (o.reqs.flatMap fun r => (if r.1 then [HookEv.pre c] else []) ++ r.2.map (.resp c)) ++ teardownEvents c o := by
    rw [eventsOf_isServeLog hl hc hi]; simp only [connEvents, hd, connThreaded_eq]; rfl
  refine ⟨hev, ?_⟩
  have hf : log.filter (· == .pre c) = (eventsOf c log).filter (· == .pre c) := by
    unfold eventsOf
    rw [List.filter_filter]
    apply List.filter_congr
    intro e _
    cases e <;> simp
  rw [hf, hev]
  simp only [List.filter_cons, List.filter_append, ConnOut.parsed]
  have h1 : (HookEv.setup c == HookEv.pre c) = false := by simp
  have h2 : List.filter (· == HookEv.pre c) (teardownEvents c o) = [] := by
    unfold teardownEvents; split <;> simp
  rw [h1, h2]
  simp only [Bool.false_eq_true, if_false, List.append_nil]
  generalize o.reqs = reqs
  induction reqs with
  | nil => rfl
  | cons r rest ih =>
    simp only [List.flatMap_cons, List.filter_append, List.length_append, ih, List.filter_cons]
    have h3 : List.filter (· == HookEv.pre c) (r.2.map (.resp c)) = [] := by
      apply List.filter_eq_nil_iff.mpr
      intro e he; obtain ⟨x, _, rfl⟩ := List.mem_map.mp he; simp
    rw [h3]
    cases r.1 <;> simp <;> omega

/-- Teardown hook: for a proceeded connection whose handling returned it runs exactly once, it is the last event of
    the connection (after the last response), and it receives the connection's final I/O result (`Ok` unless a
    handler returned an error); while the server is still waiting for the client it has not run. -/
theorem C16_teardown_once_last (cfg : Cfg) (ins : List Incoming) (log : List HookEv) (hl : IsServeLog cfg ins log)
    (c : Nat) (i : Incoming) (hc : c < acceptedCount ins) (hi : ins[c]? = some i) (hd : i.decision = .proceed) :
    let o := handleConnection cfg i.sock
    (o.fin = .closed → ∃ init, eventsOf c log = init ++ [.teardown c (!o.failed)] ∧ ∀ e ∈ init, e.isTeardown = false) ∧
    (o.fin = .hang → ∀ e ∈ eventsOf c log, e.isTeardown = false) := by
  intro o
  have hev : eventsOf c log = .setup c :: reqEvents c o.reqs ++ teardownEvents c o := by
    rw [eventsOf_isServeLog hl hc hi]; simp only [connEvents, hd, connThreaded_eq]; rfl
  have hreq : ∀ e ∈ HookEv.setup c :: reqEvents c o.reqs, e.isTeardown = false := by
    intro e he
    rcases List.mem_cons.mp he with rfl | he
    · rfl
    · simp only [reqEvents, List.mem_flatMap] at he
      obtain ⟨r, _, he⟩ := he
      rcases List.mem_append.mp he with he | he
      · split at he <;> simp at he; subst he; rfl
      · obtain ⟨x, _, rfl⟩ := List.mem_map.mp he; rfl
  refine ⟨?_, ?_⟩
  · intro hf
    refine ⟨.setup c :: reqEvents c o.reqs, ?_, hreq⟩
    rw [hev]; simp [teardownEvents, hf]
  · intro hf e he
    rw [hev] at he
    simp only [teardownEvents, hf, List.append_nil] at he
    exact hreq e he

/-- no teardown for connections that were not handed to request handling (Drop / StopAccepting) -/
theorem C16_no_teardown_unless_proceeded (cfg : Cfg) (ins : List Incoming) (log : List HookEv)
    (hl : IsServeLog cfg ins log) (c : Nat) (i : Incoming) (hc : c < acceptedCount ins) (hi : ins[c]? = some i)
    (hd : i.decision ≠ .proceed) : ∀ e ∈ eventsOf c log, e.isTeardown = false ∧ e.isPre = false := by
  intro e he
  rw [eventsOf_isServeLog hl hc hi] at he
  cases h : i.decision
  · exact absurd h hd
  · simp [connEvents, h] at he; rcases he with rfl | rfl <;> exact ⟨rfl, rfl⟩
  · simp [connEvents, h] at he; subst he; exact ⟨rfl, rfl⟩

-- ------------------------------------------------------------------ non-vacuity
def c16Sock : Sock :=
  ⟨[str "GET /p/1/2 HT", str "TP/1.1\r\n\r\n", str "GET /err HTTP/1.1\r\n\r\n"], false⟩
def c16Hang : Sock := ⟨[str "GET /p/1/2 HTTP/1.1\r\n\r\n", str "GET /p"], false⟩
def c16Ins : List Incoming :=
  [⟨.proceed, c16Sock⟩, ⟨.drop, c16Sock⟩, ⟨.proceed, c16Hang⟩, ⟨.stopAccepting, c16Sock⟩, ⟨.proceed, c16Sock⟩]

example : IsServeLog (Driver.harnessCfg 64) c16Ins (serveEpollLog (Driver.harnessCfg 64) c16Ins) := .inr (.inr rfl)
example : acceptedCount c16Ins = 4 := by decide
example : serveEpollLog (Driver.harnessCfg 64) c16Ins =
    [.setup 0, .pre 0, .resp 0 ⟨200, false, str "1,2"⟩, .pre 0, .teardown 0 false,
     .setup 1, .closedSilently 1,
     .setup 2, .pre 2, .resp 2 ⟨200, false, str "1,2"⟩,
     .setup 3, .returned] := by decide +kernel
example : (handleConnection (Driver.harnessCfg 64) c16Sock).fin = .closed ∧
    (handleConnection (Driver.harnessCfg 64) c16Sock).failed = true ∧
    (handleConnection (Driver.harnessCfg 64) c16Sock).parsed = 2 ∧
    (handleConnection (Driver.harnessCfg 64) c16Hang).fin = .hang := by decide +kernel

end Khttp
