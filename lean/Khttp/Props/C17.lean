/-
  C17 — All three serve modes are observably equivalent.

  `serve` / `serve_threaded` run `handle_connection` per connection, `serve_epoll` runs a sequence of one-request
  jobs (`handle_one_request`, re-armed while it answers keep-alive).  Per connection both produce the same hook
  events, the same responses in the same order, and close (teardown) at the same point; hence the whole logs agree.
-/
import Khttp.Lemmas.ConnFacts
import Khttp.Driver.Conn
namespace Khttp
open ConnFacts

/-- The epoll job sequence *is* the `handle_connection` loop: same per-request entries (head parsed?, responses
    sent), and it ends (EPOLL_CTL_DEL + teardown + close) exactly when `handle_connection` returns, with the same
    I/O result; it stays armed (no teardown) exactly when `handle_connection` would block. -/
theorem C17_jobs_are_the_loop (cfg : Cfg) (s : Sock) :
    epollJobs cfg (s.pending.length + 2) s [] =
      ((handleConnection cfg s).reqs,
        match (handleConnection cfg s).fin with
        | .closed => some (!(handleConnection cfg s).failed)
        | .hang => none) :=
  epollJobs_eq_connLoop cfg _ s [] 0

/-- The hook / response events of one connection are the same under `serve_epoll` as under `serve` and
    `serve_threaded`. -/
theorem C17_conn_equal (cfg : Cfg) (c : Nat) (s : Sock) : connEpoll cfg c s = connThreaded cfg c s :=
  connEpoll_eq_connThreaded cfg c s

/-- The three serve modes produce the same log for every configuration and every list of incoming connections. -/
theorem C17_modes_equal (cfg : Cfg) (ins : List Incoming) :
    serveEpollLog cfg ins = serveLog cfg ins ∧ serveThreadedLog cfg ins = serveLog cfg ins :=
  ⟨acceptLoop_congr (connEpoll_eq_connThreaded cfg) ins 0, rfl⟩

/-- Per connection: the response stream and the closing point (position of the teardown event, if any) coincide
    in all three modes. -/
theorem C17_streams_equal (cfg : Cfg) (ins : List Incoming) (c : Nat) :
    eventsOf c (serveEpollLog cfg ins) = eventsOf c (serveLog cfg ins) ∧
    eventsOf c (serveThreadedLog cfg ins) = eventsOf c (serveLog cfg ins) := by
  obtain ⟨h1, h2⟩ := C17_modes_equal cfg ins
  rw [h1, h2]; exact ⟨rfl, rfl⟩

-- non-vacuity: two keep-alive requests on one connection, the second asks to close; a dropped and a stopping connection
def c17Sock : Sock :=
  ⟨[str "GET /p/1/2 HT", str "TP/1.1\r\n\r\n", str "GET /close HTTP/1.1\r\n\r\n"], false⟩
def c17Ins : List Incoming := [⟨.proceed, c17Sock⟩, ⟨.drop, c17Sock⟩, ⟨.stopAccepting, c17Sock⟩, ⟨.proceed, c17Sock⟩]

example : serveEpollLog (Driver.harnessCfg 64) c17Ins =
    [.setup 0, .pre 0, .resp 0 ⟨200, false, str "1,2"⟩, .pre 0, .resp 0 ⟨200, true, str "bye"⟩, .teardown 0 true,
     .setup 1, .closedSilently 1, .setup 2, .returned] := by decide +kernel
example : serveLog (Driver.harnessCfg 64) c17Ins = serveEpollLog (Driver.harnessCfg 64) c17Ins := by decide +kernel

end Khttp
