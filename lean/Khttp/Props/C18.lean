/-
  Property C18 — "Date header is the correct IMF-fixdate of the current second".

  For every instant from 1970-01-01T00:00:00Z through 9999-12-31T23:59:59Z (`0 ≤ secs < 253402300800`,
  i.e. all 2 932 897 days × 86 400 seconds) the line produced by `format_http_date` is exactly
  `date: <Day>, DD Mon YYYY HH:MM:SS GMT\r\n` for that UTC second in the proleptic Gregorian calendar
  (spec: `Khttp/Spec/Calendar.lean`, defined by plain summation of year and month lengths), and the per-thread
  cache of `get_date_now` always hands out the line of the second the clock returned *in that very call*.

  Proofs are symbolic (`omega` on the 400/100/4/1-year decomposition); no enumeration of days, no `native_decide`.
-/
import Khttp.Lemmas.Date

namespace Khttp.Props.C18
open Khttp Khttp.Date Khttp.Spec.Calendar Khttp.Lemmas.Date

/-- one past 9999-12-31T23:59:59Z -/
def secsEnd : Int := 253402300800

example : secsEnd = 2932897 * 86400 := by decide
example : civilToDays 9999 12 31 = 2932896 ∧ validDate 9999 12 31 := by decide +kernel

/-- the spec's day number is injective on valid dates: a day number names THE date -/
theorem civilToDays_injective {y1 m1 d1 y2 m2 d2 : Nat} (h1 : validDate y1 m1 d1) (h2 : validDate y2 m2 d2)
    (h : civilToDays y1 m1 d1 = civilToDays y2 m2 d2) : y1 = y2 ∧ m1 = m2 ∧ d1 = d2 :=
  Khttp.Lemmas.Date.civilToDays_injective h1 h2 h

example : validDate 2000 2 29 ∧ validDate 2001 3 1 ∧ civilToDays 2000 2 29 + 366 = civilToDays 2001 3 1 := by
  decide +kernel

/-- **C18, calendar part.**  The fields computed by `format_http_date` (before the narrowing casts) are the
    civil date, weekday and time of day of the second `secs`. `wday` is the code's 1 = Monday … 7 = Sunday,
    so `wday % 7` is the spec's 0 = Sunday … 6 = Saturday. -/
theorem C18_civil (secs : Int) (h : 0 ≤ secs ∧ secs < secsEnd) :
    let f := dateFields secs
    0 ≤ f.year ∧ 0 ≤ f.mday ∧
    validDate f.year.toNat f.mon f.mday.toNat ∧
    civilToDays f.year.toNat f.mon f.mday.toNat = secs / 86400 ∧
    1970 ≤ f.year ∧ f.year ≤ 9999 ∧
    1 ≤ f.wday ∧ f.wday ≤ 7 ∧ f.wday % 7 = (secs / 86400 + 4) % 7 ∧
    f.hour * 3600 + f.min * 60 + f.sec = secs % 86400 ∧
    0 ≤ f.hour ∧ f.hour < 24 ∧ 0 ≤ f.min ∧ f.min < 60 ∧ 0 ≤ f.sec ∧ f.sec < 60 := by
  intro f
  obtain ⟨h0, h1⟩ := h
  simp only [secsEnd] at h1
  have hd0 : 0 ≤ secs / 86400 := by omega
  have hd1 : secs / 86400 < 2932897 := by omega
  obtain ⟨y, m, d, hc, hv, hn⟩ := civilOf_spec (secs / 86400 - 11017) (by omega)
  obtain ⟨w1, w2, w3⟩ := wdayOf_range (secs / 86400 - 11017)
  have hf : f = _ := dateFields_eq secs
  rw [hc] at hf
  simp only [] at hf
  rw [hf]
  simp only [Int.toNat_natCast]
  have hn' : civilToDays y m d = secs / 86400 := by omega
  -- year bounds, from monotonicity of the spec's day number in the year
  have e1970 : civilToDays 1970 1 1 = 0 ∧ validDate 1970 1 1 := by decide +kernel
  have e9999 : civilToDays 9999 12 31 = 2932896 ∧ validDate 9999 12 31 := by decide +kernel
  have hy0 : 1970 ≤ y := by
    apply Nat.le_of_not_lt; intro hlt
    have := civilToDays_lt_of_year_lt hv e1970.2 hlt
    omega
  have hy1 : y ≤ 9999 := by
    apply Nat.le_of_not_lt; intro hlt
    have := civilToDays_lt_of_year_lt e9999.2 hv hlt
    omega
  refine ⟨by omega, by omega, hv, hn', by omega, by omega, w1, w2, by omega, by omega, by omega, by omega,
    by omega, by omega, by omega, by omega⟩

example : (0 : Int) ≤ 951782400 ∧ (951782400 : Int) < secsEnd := by decide
example : dateFields 951782400 =
    { year := 2000, mon := 2, mday := 29, wday := 2, hour := 0, min := 0, sec := 0 } := by decide +kernel
example : dateFields 253402300799 =
    { year := 9999, mon := 12, mday := 31, wday := 5, hour := 23, min := 59, sec := 59 } := by decide +kernel
example : dateFields 0 =
    { year := 1970, mon := 1, mday := 1, wday := 4, hour := 0, min := 0, sec := 0 } := by decide +kernel

/-- **No panic, for every `i64` input** (indeed every integer): no slice of `WDAY_STRS` / `MON_STRS` / `buf` is out
    of range (in particular `woff + 3 ≤ 21`, `moff + 3 ≤ 36`), no `usize - 1` underflows, no `b'0' + x` overflows;
    the result has the 37 bytes of the template. -/
theorem formatHttpDateR_ok (secs : Int) :
    formatHttpDateR secs = .ok (formatHttpDate secs) ∧ (formatHttpDate secs).length = 37 := by
  obtain ⟨w1, w2, -⟩ := wdayOf_range (secs / 86400 - 11017)
  obtain ⟨m1, m2⟩ := civilOf_mon (secs / 86400 - 11017)
  have hr := render_eval (dateFields secs) (by rw [dateFields_eq]; exact w1) (by rw [dateFields_eq]; exact w2)
    (by rw [dateFields_eq]; exact m1) (by rw [dateFields_eq]; exact m2)
  obtain ⟨a, b, c, hwn⟩ := wdayName_len3 ((dateFields secs).wday % 7).toNat (by omega)
  obtain ⟨a', b', c', hmn⟩ := monName_len3 (dateFields secs).mon (by rw [dateFields_eq]; exact m1)
    (by rw [dateFields_eq]; exact m2)
  unfold formatHttpDate formatHttpDateR
  rw [hr]
  refine ⟨rfl, ?_⟩
  simp only [hwn, hmn, d2, d4, List.length_append, List.length_cons, List.length_nil]

example : formatHttpDateR (-9223372036854775808) = .ok (formatHttpDate (-9223372036854775808)) :=
  (formatHttpDateR_ok _).1

/-- **C18, text part.**  In range, `format_http_date` writes exactly the IMF-fixdate line of the spec:
    no narrowing cast truncates (each field equals the spec value, which `dec 2` / `dec 4` renders), nothing
    panics, 37 bytes. -/
theorem C18_text (secs : Int) (h : 0 ≤ secs ∧ secs < secsEnd) :
    IsFixdate secs (formatHttpDate secs) ∧ formatHttpDateR secs = .ok (formatHttpDate secs) ∧
      (formatHttpDate secs).length = 37 := by
  obtain ⟨ok, len⟩ := formatHttpDateR_ok secs
  refine ⟨?_, ok, len⟩
  obtain ⟨y0, d0, hv, hn, y1, y2, w1, w2, w3, ht, a1, a2, a3, a4, a5, a6⟩ := C18_civil secs h
  have hm : 1 ≤ (dateFields secs).mon ∧ (dateFields secs).mon ≤ 12 := ⟨hv.1, hv.2.1⟩
  have hdm : (dateFields secs).mday.toNat ≤ 31 := by
    have := hv.2.2.2
    have hb := monthLen_tab (isLeap (dateFields secs).year.toNat)
    simp only [daysInMonth] at this
    have hmm : (dateFields secs).mon = 1 ∨ (dateFields secs).mon = 2 ∨ (dateFields secs).mon = 3 ∨
        (dateFields secs).mon = 4 ∨ (dateFields secs).mon = 5 ∨ (dateFields secs).mon = 6 ∨
        (dateFields secs).mon = 7 ∨ (dateFields secs).mon = 8 ∨ (dateFields secs).mon = 9 ∨
        (dateFields secs).mon = 10 ∨ (dateFields secs).mon = 11 ∨ (dateFields secs).mon = 12 := by omega
    rcases hmm with e | e | e | e | e | e | e | e | e | e | e | e <;> rw [e] at this <;>
      simp only [hb] at this <;> first | omega | (split at this <;> omega)
  have hr := render_eval (dateFields secs) w1 w2 hm.1 hm.2
  refine ⟨(dateFields secs).year.toNat, (dateFields secs).mon, (dateFields secs).mday.toNat,
    (dateFields secs).hour.toNat, (dateFields secs).min.toNat, (dateFields secs).sec.toNat,
    hv, hn, by omega, by omega, by omega, ?_⟩
  unfold formatHttpDate formatHttpDateR
  rw [hr]
  simp only []
  -- the narrowing casts are exact
  have c1 : asU8 (dateFields secs).mday = (dateFields secs).mday.toNat := by unfold asU8; omega
  have c2 : asU16 (dateFields secs).year = (dateFields secs).year.toNat := by unfold asU16; omega
  have c3 : asU8 (dateFields secs).hour = (dateFields secs).hour.toNat := by unfold asU8; omega
  have c4 : asU8 (dateFields secs).min = (dateFields secs).min.toNat := by unfold asU8; omega
  have c5 : asU8 (dateFields secs).sec = (dateFields secs).sec.toNat := by unfold asU8; omega
  have hwd : ((dateFields secs).wday % 7).toNat = weekday (secs / 86400) := by unfold weekday; omega
  rw [c1, c2, c3, c4, c5, hwd]
  simp only [fixdateLine, ascii_lits]
  rw [dec2_eq _ (by omega), dec4_eq _ (by omega), dec2_eq _ (by omega), dec2_eq _ (by omega), dec2_eq _ (by omega)]

/-- the spec relation determines the text: at most one line is the fixdate of `secs` -/
theorem IsFixdate_unique {secs : Int} {t1 t2 : Bytes} (h1 : IsFixdate secs t1) (h2 : IsFixdate secs t2) : t1 = t2 := by
  obtain ⟨y, m, d, hh, mm, ss, v, c, e, b1, b2, rfl⟩ := h1
  obtain ⟨y', m', d', hh', mm', ss', v', c', e', b1', b2', rfl⟩ := h2
  obtain ⟨rfl, rfl, rfl⟩ := civilToDays_injective v v' (c.trans c'.symm)
  have : hh = hh' ∧ mm = mm' ∧ ss = ss' := by omega
  obtain ⟨rfl, rfl, rfl⟩ := this
  rfl

-- non-vacuity / sanity: the model output on concrete instants, compared with literal text
example : formatHttpDate 951782400 = str "date: Tue, 29 Feb 2000 00:00:00 GMT\r\n" := by decide +kernel
example : formatHttpDate 253402300799 = str "date: Fri, 31 Dec 9999 23:59:59 GMT\r\n" := by decide +kernel
example : formatHttpDate 0 = str "date: Thu, 01 Jan 1970 00:00:00 GMT\r\n" := by decide +kernel
example : IsFixdate 951782400 (str "date: Tue, 29 Feb 2000 00:00:00 GMT\r\n") :=
  ⟨2000, 2, 29, 0, 0, 0, by decide +kernel⟩
/-- outside the range the property really fails (year 10000 does not fit 4 digits): the bound is sharp -/
example : formatHttpDate secsEnd = str "date: Sat, 01 Jan :000 00:00:00 GMT\r\n" := by decide +kernel

/-! ### the per-thread cache

`now_unix_sec()` (a `clock_gettime(CLOCK_REALTIME_COARSE)` FFI call) is outside the model: the model takes the
sequence of values it returned, one per `get_date_now()` call.  `C18_cache` says that every call returns the line
of the reading made **in that call** — the cache never serves a stale second.  Consequently the emitted header lags
the true time only by what the coarse clock itself lags (kernel tick, ≤ a few ms) plus truncation to whole
seconds, i.e. by less than one second + tick; that last step is a fact about the OS clock, not about this code. -/

/-- cache invariant: either never filled (`last_sec = i64::MIN`) or `buf` is the line of `last_sec` -/
def CacheOk (c : DateCache) : Prop := c.lastSec = i64Min ∨ c.buf = formatHttpDate c.lastSec

theorem getDateNow_spec (c : DateCache) (now : Int) (hc : CacheOk c) (hn : now ≠ i64Min) :
    (getDateNow c now).2 = formatHttpDate now ∧ CacheOk (getDateNow c now).1 := by
  unfold getDateNow
  by_cases hq : c.lastSec ≠ now
  · rw [if_pos hq]; exact ⟨rfl, Or.inr rfl⟩
  · rw [if_neg hq]
    have hq' : c.lastSec = now := Classical.not_not.mp hq
    rcases hc with h | h
    · exact absurd (hq' ▸ h) hn
    · exact ⟨by rw [h, hq'], Or.inr h⟩

theorem runCache_spec (c : DateCache) (hc : CacheOk c) (readings : List Int) (hr : ∀ r ∈ readings, r ≠ i64Min) :
    runCache c readings = readings.map formatHttpDate := by
  induction readings generalizing c with
  | nil => rfl
  | cons now rest ih =>
    obtain ⟨h1, h2⟩ := getDateNow_spec c now hc (hr now (by simp))
    simp only [runCache, List.map_cons]
    rw [h1, ih _ h2 (fun r hr' => hr r (by simp [hr']))]

/-- **C18, cache part.**  On a fresh thread, for any sequence of in-range clock readings, the k-th
    `get_date_now()` returns the fixdate line of the k-th reading (not of an earlier one). -/
theorem C18_cache (readings : List Int) (hr : ∀ r ∈ readings, 0 ≤ r ∧ r < secsEnd) :
    runCache DateCache.init readings = readings.map formatHttpDate ∧
    ∀ r ∈ readings, IsFixdate r (formatHttpDate r) := by
  refine ⟨runCache_spec _ (Or.inl rfl) readings ?_, fun r h => (C18_text r (hr r h)).1⟩
  intro r h
  have := hr r h
  unfold i64Min
  omega

example : runCache DateCache.init [0, 0, 1, 1, 0, 951782400] =
    [0, 0, 1, 1, 0, 951782400].map formatHttpDate := by decide +kernel
/-- the only reading the cache gets wrong is `i64::MIN` itself (first call returns the untouched template) -/
example : runCache DateCache.init [i64Min] = [Gen.headerTemplate] ∧ formatHttpDate i64Min ≠ Gen.headerTemplate := by
  decide +kernel

end Khttp.Props.C18
