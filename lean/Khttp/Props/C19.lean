/-
  C19 — header collection answers always agree with its contents.

  For every sequence of `add` / `replace` / `remove` / `set_content_length` /
  `set_transfer_encoding_chunked` / `set_connection_close` calls on a new collection
  (`Headers::new()` or `Headers::new_nodate()`), with names in any letter case:

    * `C19_fields`          the stored fields are what the list semantics `evalFields` says,
    * `C19_get`             `get` returns the last stored value under that name, ignoring case,
    * `C19_flags*`          `is_transfer_encoding_chunked` / `is_connection_close` equal a fresh
                            evaluation of the stored fields,
    * `C19_content_length*` `get_content_length` is the effect of the last call that touched it and
                            Content-Length is never a stored field,
    * `C19_after_parse*`    the same after parsing a head,
    * `C19_ows_case_invariant*`  the fresh evaluation does not see letter case or OWS around elements.

  Whitespace.  The property reads list elements with optional whitespace OWS = SP / HTAB; the code
  strips HT, LF, FF, CR, SP.  Theorems ending in `_ascii` hold for *all* byte strings with the
  code's set; the un-suffixed theorems use OWS and hold for all values without LF / FF / CR
  (`OpsPlain`, `_partial`) and in particular for the property's quantifier (`OpsListValued`:
  values made of tchar, SP, HTAB and commas).  For values containing FF (or CR, LF) the OWS reading
  is *not* what the code computes: `C19_flags_full_false`, `C19_content_length_full_false`.
-/
import Khttp.Lemmas.HeaderEval
namespace Khttp.C19
open Khttp Khttp.Spec

abbrev Op := HdrOp

/-- one call on the collection, via the model functions -/
abbrev apply : Headers → Op → Headers := Headers.applyOp

/-- `Headers::new()` or `Headers::new_nodate()` -/
def IsNew (init : Headers) : Prop := init = Headers.new ∨ init = Headers.newNodate

theorem IsNew.fresh {init : Headers} (h : IsNew init) : init.Fresh := by
  rcases h with h | h <;> subst h
  · exact fresh_new
  · exact fresh_newNodate

example : apply (apply Headers.new (.add (str "A") (str "b"))) .setConnClose
    = (Headers.new.add (str "A") (str "b")).setConnectionClose := rfl

-- ------------------------------------------------------------------ stored fields and lookups

/-- The stored fields are exactly what the list semantics of the calls gives: `add` appends (unless
    the name is Content-Length), `remove` deletes every field with that name ignoring case,
    `replace` is `remove` then `add`, the two setters append their field.  Order is preserved. -/
theorem C19_fields (init : Headers) (hinit : IsNew init) (ops : List Op) :
    (ops.foldl apply init).fields = evalFields ops := by
  have := run_fields init ops
  rw [hinit.fresh.1] at this
  exact this

/-- `get` returns the value of the last stored field with that name, ignoring case; `get_all` all of
    them in order (any collection, in particular any reachable one). -/
theorem C19_get (init : Headers) (hinit : IsNew init) (ops : List Op) (name : Bytes) :
    let s := ops.foldl apply init
    s.get name = lookupLast s.fields name ∧ s.get name = lookupLast (evalFields ops) name ∧
    s.getAll name = lookupAll (evalFields ops) name := by
  intro s
  refine ⟨get_eq_lookupLast s name, ?_, ?_⟩
  · rw [get_eq_lookupLast, C19_fields init hinit]
  · rw [getAll_eq_lookupAll, C19_fields init hinit]

/-- lookups do not see the letter case of the name asked for -/
theorem C19_get_case_insensitive (s : Headers) (n n' : Bytes) (h : eqIgnoreCase n n' = true) :
    s.get n = s.get n' ∧ s.getAll n = s.getAll n' := by
  refine ⟨?_, ?_⟩
  · rw [get_eq_lookupLast, get_eq_lookupLast, lookupLast_congr h]
  · rw [getAll_eq_lookupAll, getAll_eq_lookupAll, lookupAll_congr h]

/-- ... nor the letter case of the name stored: what was stored under `n` is found under `n'` -/
theorem C19_get_after_add (s : Headers) (n n' v : Bytes) (h : eqIgnoreCase n n' = true)
    (hcl : isClName n = false) : (s.add n v).get n' = some v := by
  rw [get_eq_lookupLast, add_fields, hcl]
  simp [lookupLast, lookupAll, List.filter_append, h]

/-- `get_count` is the number of stored fields -/
theorem C19_get_count (init : Headers) (hinit : IsNew init) (ops : List Op) :
    (ops.foldl apply init).getCount = (evalFields ops).length := by
  unfold Headers.getCount; rw [C19_fields init hinit]

-- non-vacuity: mixed case, OWS variants
def exOps : List Op :=
  [.add (str "Transfer-Encoding") (str "gzip , CHUNKED\t"), .remove (str "transfer-encoding"),
   .add (str "connection") (str " close ")]

def exOps2 : List Op :=
  [.add (str "Content-LENGTH") (str " 42\t"), .add (str "X-A") (str "1"), .add (str "x-a") (str "2"),
   .setTeChunked, .replace (str "X-a") (str "3"), .add (str "TRANSFER-encoding") (str "gzip ,\tChunked ")]

example : IsNew Headers.new ∧ IsNew Headers.newNodate := ⟨.inl rfl, .inr rfl⟩
example : (exOps.foldl apply Headers.new).fields = [(str "connection", str " close ")] := by decide +kernel
example : (exOps2.foldl apply Headers.newNodate).fields =
    [(str "transfer-encoding", str "chunked"), (str "X-a", str "3"),
     (str "TRANSFER-encoding", str "gzip ,\tChunked ")] := by decide +kernel
example : (exOps2.foldl apply Headers.new).get (str "Transfer-ENCODING") = some (str "gzip ,\tChunked ") := by
  decide +kernel
example : (exOps2.foldl apply Headers.new).get (str "content-length") = none := by decide +kernel
example : eqIgnoreCase (str "X-Foo") (str "x-fOO") = true := by decide +kernel

-- ------------------------------------------------------------------ flags

/-- All values, the code's whitespace set: the two flags (and `te_final_not_chunked`) equal a fresh
    evaluation of the stored fields. -/
theorem C19_flags_ascii (init : Headers) (hinit : IsNew init) (ops : List Op) :
    let s := ops.foldl apply init
    s.chunked = evalChunkedA s.fields ∧ s.close = evalCloseA s.fields ∧
    s.teFinalNotChunked = evalTeFinalNotChunkedA s.fields := by
  have ok := (FlagsOk.of_fresh hinit.fresh).run ops
  exact ⟨ok.chunked, ok.close, ok.teFinal⟩

/-- The full statement with OWS = SP / HTAB and *arbitrary* values. -/
def C19_flags_full : Prop :=
  ∀ (init : Headers), IsNew init → ∀ ops : List Op,
    let s := ops.foldl apply init
    s.chunked = evalChunked s.fields ∧ s.close = evalClose s.fields

/-- OWS reading, values without LF / FF / CR. -/
theorem C19_flags_partial (init : Headers) (hinit : IsNew init) (ops : List Op) (hops : OpsPlain ops) :
    let s := ops.foldl apply init
    s.chunked = evalChunked s.fields ∧ s.close = evalClose s.fields ∧
    s.teFinalNotChunked = evalTeFinalNotChunked s.fields := by
  intro s
  have hp : PlainFields s.fields := by
    show PlainFields (ops.foldl apply init).fields
    rw [C19_fields init hinit]; exact evalFields_plain hops
  obtain ⟨h1, h2, h3⟩ := C19_flags_ascii init hinit ops
  refine ⟨?_, ?_, ?_⟩
  · rw [h1]; exact (evalFlagBy_plain hp _ _).symm
  · rw [h2]; exact (evalFlagBy_plain hp _ _).symm
  · rw [h3]; exact (evalTeFinal_plain hp).symm

/-- The property as quantified: values are token lists with OWS variants. -/
theorem C19_flags (init : Headers) (hinit : IsNew init) (ops : List Op) (hops : OpsListValued ops) :
    let s := ops.foldl apply init
    s.chunked = evalChunked s.fields ∧ s.close = evalClose s.fields :=
  let ⟨h1, h2, _⟩ := C19_flags_partial init hinit ops (Khttp.OpsListValued.plain hops)
  ⟨h1, h2⟩

/-- witness: `Transfer-Encoding: chunked<FF>` — the code strips the form feed and sets the flag, an
    OWS reading sees the element `chunked<FF>`, which is not `chunked` -/
def ffOps : List Op := [.add (str "transfer-encoding") (str "chunked\x0c")]

theorem C19_flags_full_false : ¬ C19_flags_full := by
  intro h
  have := (h Headers.new (.inl rfl) ffOps).1
  revert this
  decide +kernel

example : (ffOps.foldl apply Headers.new).chunked = true ∧
    evalChunked (ffOps.foldl apply Headers.new).fields = false ∧ ¬ OpsPlain ffOps := by decide +kernel

example : OpsListValued exOps ∧ OpsListValued exOps2 := by decide +kernel
example : (exOps.foldl apply Headers.new).chunked = false ∧ (exOps.foldl apply Headers.new).close = true := by
  decide +kernel
example : (exOps2.foldl apply Headers.new).chunked = true ∧ (exOps2.foldl apply Headers.new).close = false := by
  decide +kernel
example : evalChunked [(str "Transfer-ENCODING", str "gzip ,\tChunked ")] = true ∧
    evalChunked [(str "Transfer-ENCODING", str "gzip chunked")] = false ∧
    evalChunked [(str "Transfer-ENCODINGS", str "chunked")] = false ∧
    evalClose [(str "x", str "close"), (str "CONNECTION", str "keep-alive,, CLOSE")] = true := by decide +kernel

-- ------------------------------------------------------------------ content length

/-- All values, the code's whitespace set: the declared content length is the effect of the last
    call that touched it, the invalid flag says that the declarations in force are not one and the
    same number, and Content-Length is never among the stored fields. -/
theorem C19_content_length_ascii (init : Headers) (hinit : IsNew init) (ops : List Op) :
    let s := ops.foldl apply init
    s.cl = evalClA ops ∧ s.invalidCl = evalInvalidClA ops ∧
    ∀ f ∈ s.fields, ¬ eqIgnoreCase f.1 (str "content-length") = true := by
  intro s
  refine ⟨?_, ?_, ?_⟩
  · have := run_cl init ops
    rw [hinit.fresh.2.1] at this
    exact this
  · exact ((ClOk.of_fresh hinit.fresh).run ops).invalid
  · intro f hf
    have := ((FlagsOk.of_fresh hinit.fresh).run ops).noCl f hf
    simpa [CL_NAME] using this

def C19_content_length_full : Prop :=
  ∀ (init : Headers), IsNew init → ∀ ops : List Op,
    let s := ops.foldl apply init
    s.cl = evalCl ops ∧ s.invalidCl = evalInvalidCl ops ∧
    ∀ f ∈ s.fields, ¬ eqIgnoreCase f.1 (str "content-length") = true

theorem C19_content_length_partial (init : Headers) (hinit : IsNew init) (ops : List Op) (hops : OpsPlain ops) :
    let s := ops.foldl apply init
    s.cl = evalCl ops ∧ s.invalidCl = evalInvalidCl ops ∧
    ∀ f ∈ s.fields, ¬ eqIgnoreCase f.1 (str "content-length") = true := by
  obtain ⟨h1, h2, h3⟩ := C19_content_length_ascii init hinit ops
  refine ⟨?_, ?_, h3⟩
  · rw [h1]; exact (evalClBy_plain hops).symm
  · rw [h2]; exact (evalInvalidClBy_plain hops).symm

theorem C19_content_length (init : Headers) (hinit : IsNew init) (ops : List Op) (hops : OpsListValued ops) :
    let s := ops.foldl apply init
    s.cl = evalCl ops ∧ s.invalidCl = evalInvalidCl ops ∧
    ∀ f ∈ s.fields, ¬ eqIgnoreCase f.1 (str "content-length") = true :=
  C19_content_length_partial init hinit ops (Khttp.OpsListValued.plain hops)

/-- witness: `Content-Length: 5<FF>` is taken as 5 by the code; `5<FF>` is not `OWS 1*DIGIT OWS` -/
def ffClOps : List Op := [.add (str "content-length") (str "5\x0c")]

theorem C19_content_length_full_false : ¬ C19_content_length_full := by
  intro h
  have := (h Headers.new (.inl rfl) ffClOps).1
  revert this
  decide +kernel

/-- what `evalInvalidCl` means, spelled out -/
theorem C19_invalid_meaning (ops : List Op) :
    evalInvalidClA ops = false ↔ clDeclsBy isAsciiWs ops = [] ∨ ∃ k, ∀ d ∈ clDeclsBy isAsciiWs ops, d = some k :=
  declsBad_eq_false_iff _

/-- `has_invalid_framing()` -/
theorem C19_invalid_framing (init : Headers) (hinit : IsNew init) (ops : List Op) :
    let s := ops.foldl apply init
    s.hasInvalidFraming = (evalInvalidClA ops || evalTeFinalNotChunkedA s.fields) := by
  intro s
  unfold Headers.hasInvalidFraming
  rw [(C19_content_length_ascii init hinit ops).2.1, (C19_flags_ascii init hinit ops).2.2]

def exClOps : List Op :=
  [.add (str "Content-Length") (str "7"), .setCl (some 9), .add (str "CONTENT-length") (str "\t12 "),
   .add (str "x") (str "y")]

example : evalCl exOps2 = some 42 ∧ (exOps2.foldl apply Headers.new).cl = some 42 := by decide +kernel
example : evalCl exClOps = some 12 ∧ evalInvalidCl exClOps = true ∧
    (exClOps.foldl apply Headers.new).cl = some 12 ∧ (exClOps.foldl apply Headers.new).invalidCl = true := by
  decide +kernel
example : evalCl (exClOps ++ [.remove (str "Content-length")]) = none ∧
    evalInvalidCl (exClOps ++ [.remove (str "Content-length")]) = false := by decide +kernel
example : evalCl [.add (str "content-length") (str "18446744073709551616")] = none ∧
    evalCl [.add (str "content-length") (str "18446744073709551615")] = some 18446744073709551615 ∧
    evalCl [.add (str "content-length") (str "+5")] = none ∧
    evalCl [.add (str "content-length") (str "5, 5")] = none := by decide +kernel
example : OpsListValued exClOps := by decide +kernel

-- ------------------------------------------------------------------ after parsing a head

/-- the calls the parser makes for the field lines of a head -/
def parseOps (lines : List (Bytes × Bytes)) : List Op := lines.map fun f => .add f.1 (trimStart f.2)

theorem collect_eq (lines : List (Bytes × Bytes)) : Spec.collect lines = (parseOps lines).foldl apply Headers.new := by
  unfold Spec.collect parseOps
  rw [List.foldl_map]
  rfl

/-- the stored fields after parsing: every line that is not a Content-Length, in order, with the
    leading whitespace of the value removed -/
theorem evalFields_parseOps (lines : List (Bytes × Bytes)) :
    evalFields (parseOps lines) =
      (lines.filter fun f => !isClName f.1).map fun f => (f.1, trimStart f.2) := by
  have gen : ∀ (fs : List Field),
      (parseOps lines).foldl stepFields fs =
        fs ++ (lines.filter fun f => !isClName f.1).map fun f => (f.1, trimStart f.2) := by
    induction lines with
    | nil => intro fs; simp [parseOps]
    | cons l lines ih =>
      intro fs
      simp only [parseOps, List.map_cons, List.foldl_cons] at ih ⊢
      rw [ih]
      cases hc : isClName l.1 <;> simp [stepFields, hc]
  simpa [evalFields] using gen []

/-- After parsing a head (all byte strings, the code's whitespace set): the flags equal a fresh
    evaluation of the stored fields, the stored fields are the non-Content-Length lines in order,
    the declared length is that of the last Content-Length line, lookups find the last line. -/
theorem C19_after_parse_ascii (lines : List (Bytes × Bytes)) :
    let s := Spec.collect lines
    s.chunked = evalChunkedA s.fields ∧ s.close = evalCloseA s.fields ∧
    s.fields = ((lines.filter fun f => !isClName f.1).map fun f => (f.1, trimStart f.2)) ∧
    s.cl = evalClA (parseOps lines) ∧ s.invalidCl = evalInvalidClA (parseOps lines) ∧
    s.hasInvalidFraming = (evalInvalidClA (parseOps lines) || evalTeFinalNotChunkedA s.fields) ∧
    ∀ name, s.get name = lookupLast s.fields name := by
  intro s
  have hs : s = (parseOps lines).foldl apply Headers.new := collect_eq lines
  have hnew : IsNew Headers.new := .inl rfl
  obtain ⟨f1, f2, _⟩ := C19_flags_ascii _ hnew (parseOps lines)
  obtain ⟨c1, c2, _⟩ := C19_content_length_ascii _ hnew (parseOps lines)
  have fr := C19_invalid_framing _ hnew (parseOps lines)
  have fl := C19_fields _ hnew (parseOps lines)
  rw [evalFields_parseOps] at fl
  rw [← hs] at f1 f2 c1 c2 fr fl
  exact ⟨f1, f2, fl, c1, c2, fr, fun name => get_eq_lookupLast s name⟩

theorem parseOps_plain {lines : List (Bytes × Bytes)} (h : ∀ f ∈ lines, ∀ b ∈ f.2, isPlainByte b = true) :
    OpsPlain (parseOps lines) := by
  intro op hop b hb
  obtain ⟨f, hf, rfl⟩ := List.mem_map.mp hop
  exact h f hf b (mem_of_mem_dropWhile hb)

/-- After parsing a head whose field values contain no LF / FF / CR (in particular: values that are
    token lists with OWS variants), with the OWS reading. -/
theorem C19_after_parse (lines : List (Bytes × Bytes)) (h : ∀ f ∈ lines, ∀ b ∈ f.2, isPlainByte b = true) :
    let s := Spec.collect lines
    s.chunked = evalChunked s.fields ∧ s.close = evalClose s.fields ∧
    s.cl = evalCl (parseOps lines) ∧ s.invalidCl = evalInvalidCl (parseOps lines) := by
  intro s
  have hs : s = (parseOps lines).foldl apply Headers.new := collect_eq lines
  have hnew : IsNew Headers.new := .inl rfl
  obtain ⟨f1, f2, _⟩ := C19_flags_partial _ hnew (parseOps lines) (parseOps_plain h)
  obtain ⟨c1, c2, _⟩ := C19_content_length_partial _ hnew (parseOps lines) (parseOps_plain h)
  rw [← hs] at f1 f2 c1 c2
  exact ⟨f1, f2, c1, c2⟩

def exLines : List (Bytes × Bytes) :=
  [(str "Host", str " a"), (str "TRANSFER-Encoding", str " gzip"), (str "content-length", str " 3"),
   (str "transfer-encoding", str "\tfoo , Chunked\t"), (str "Connection", str " keep-alive, CLOSE ")]

example : ∀ f ∈ exLines, ∀ b ∈ f.2, isPlainByte b = true := by decide +kernel
example : (Spec.collect exLines).chunked = true ∧ (Spec.collect exLines).close = true ∧
    (Spec.collect exLines).cl = some 3 ∧ (Spec.collect exLines).fields.length = 4 ∧
    (Spec.collect exLines).hasInvalidFraming = false ∧
    (Spec.collect exLines).get (str "HOST") = some (str "a") := by decide +kernel

-- ------------------------------------------------------------------ letter case and OWS do not matter

/-- The fresh evaluation factors through the normal form of the fields (names lower-cased, every
    list element stripped of OWS and lower-cased): field lists that differ only in the letter case
    of names / elements or in OWS around elements give the same answers. -/
theorem C19_ows_case_invariant (fs fs' : List Field) (h : fs.map normField = fs'.map normField) :
    evalChunked fs = evalChunked fs' ∧ evalClose fs = evalClose fs' := by
  refine ⟨?_, ?_⟩
  · unfold evalChunked evalChunkedBy
    rw [evalFlagBy_norm te_name_lower chunked_lower, evalFlagBy_norm te_name_lower chunked_lower, h]
  · unfold evalClose evalCloseBy
    rw [evalFlagBy_norm conn_name_lower close_lower, evalFlagBy_norm conn_name_lower close_lower, h]

/-- the evaluation *is* plain membership on the normal form -/
theorem C19_eval_on_normal_form (fs : List Field) :
    evalChunked fs = evalFlagNorm TE_NAME CHUNKED (fs.map normField) ∧
    evalClose fs = evalFlagNorm CONN_NAME CLOSE (fs.map normField) :=
  ⟨evalFlagBy_norm te_name_lower chunked_lower fs, evalFlagBy_norm conn_name_lower close_lower fs⟩

/-- What has the same normal form: the name in another letter case, and a value rebuilt from elements
    that are pairwise the same up to letter case and surrounding OWS (`normElem_pad`,
    `normElem_case`). -/
theorem C19_normField_eq (n n' : Bytes) (es es' : List Bytes) (hn : n.map toLower = n'.map toLower)
    (hes : es.map normElem = es'.map normElem) (hne : es ≠ [])
    (hc : ∀ e ∈ es, COMMA ∉ e) (hc' : ∀ e ∈ es', COMMA ∉ e) :
    normField (n, joinComma es) = normField (n', joinComma es') := by
  have hne' : es' ≠ [] := by
    intro h; subst h
    cases es with
    | nil => exact hne rfl
    | cons _ _ => simp at hes
  unfold normField
  simp only [hn, splitOn_joinComma hne hc, splitOn_joinComma hne' hc', hes]

/-- padding an element with OWS or changing its letter case keeps its normal form -/
theorem C19_normElem_variants (e e' a c : Bytes) (ha : ∀ b ∈ a, isOws b = true) (hc : ∀ b ∈ c, isOws b = true)
    (he : e.map toLower = e'.map toLower) : normElem (a ++ e ++ c) = normElem e' := by
  rw [normElem_pad e ha hc, normElem_case he]

/-- `joinComma` / splitting at commas are inverse, so `joinComma` reaches every value -/
theorem C19_join_split (v : Bytes) : joinComma (splitOn COMMA v) = v ∧ ∀ e ∈ splitOn COMMA v, COMMA ∉ e :=
  ⟨joinComma_splitOn v, fun _ he => splitOn_elem_no_sep he⟩

/-- the collection's answers, for the property's values, therefore do not see case / OWS either -/
theorem C19_flags_invariant (init init' : Headers) (hi : IsNew init) (hi' : IsNew init') (ops ops' : List Op)
    (h : OpsListValued ops) (h' : OpsListValued ops')
    (hnf : (evalFields ops).map normField = (evalFields ops').map normField) :
    (ops.foldl apply init).chunked = (ops'.foldl apply init').chunked ∧
    (ops.foldl apply init).close = (ops'.foldl apply init').close := by
  obtain ⟨a1, a2⟩ := C19_flags init hi ops h
  obtain ⟨b1, b2⟩ := C19_flags init' hi' ops' h'
  rw [C19_fields init hi] at a1 a2
  rw [C19_fields init' hi'] at b1 b2
  obtain ⟨c1, c2⟩ := C19_ows_case_invariant _ _ hnf
  exact ⟨by rw [a1, b1, c1], by rw [a2, b2, c2]⟩

example : normField (str "Transfer-Encoding", str "gzip , CHUNKED\t") =
    normField (str "transfer-encoding", str "gzip,chunked") := by decide +kernel
example : normField (str "Transfer-Encoding", str "gzip , CHUNKED\t") =
    (str "transfer-encoding", [str "gzip", str "chunked"]) := by decide +kernel
example : normField (str "connection", str "clo se") ≠ normField (str "connection", str "close") := by
  decide +kernel
example : joinComma [str "gzip ", str " CHUNKED\t"] = str "gzip , CHUNKED\t" := by decide +kernel
example : (([.add (str "TE") (str "a"), .add (str "Transfer-Encoding") (str "gzip , CHUNKED\t")] : List Op).foldl
    apply Headers.new).chunked = true := by decide +kernel

-- ------------------------------------------------------------------ the token accessors

/-- `get_transfer_encoding()` / `get_connection_values()` trim only the *start* of each element; the
    flags agree with them once the end is trimmed as well. -/
theorem C19_token_accessors (init : Headers) (hinit : IsNew init) (ops : List Op) :
    let s := ops.foldl apply init
    s.chunked = (s.getTransferEncoding.any fun t => eqIgnoreCase (trimEnd t) CHUNKED) ∧
    s.close = (s.getConnectionValues.any fun t => eqIgnoreCase (trimEnd t) CLOSE) := by
  intro s
  obtain ⟨h1, h2, _⟩ := C19_flags_ascii init hinit ops
  exact ⟨by rw [any_getTransferEncoding]; exact h1, by rw [any_getConnectionValues]; exact h2⟩

/-- without that extra trimming they disagree: `Transfer-Encoding: chunked ` sets the flag, but the
    element returned is `chunked ` (with the space) -/
def C19_token_accessors_exact : Prop :=
  ∀ ops : List Op, let s := ops.foldl apply Headers.new
    s.chunked = (s.getTransferEncoding.any fun t => eqIgnoreCase t CHUNKED)

theorem C19_token_accessors_exact_false : ¬ C19_token_accessors_exact := by
  intro h
  have := h [.add (str "transfer-encoding") (str "chunked ")]
  revert this
  decide +kernel

end Khttp.C19
