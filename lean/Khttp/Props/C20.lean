/-
C20 — "Bodies are streamed with bounded memory.  Receiving a request body and sending a response body from a reader
use an amount of heap memory bounded by a constant (a few fixed-size buffers) regardless of the body's length; only the
request head is buffered, up to its configured limit."

Model: `Khttp/Model/Mem.lean` — two state machines over LENGTHS (no contents) whose state holds every heap buffer of the
streaming paths of src/printer.rs, src/body_reader.rs and of `read_request` in src/server/mod.rs with its current
length and capacity; `heapBytes` = sum of the capacities.  One step = one event (one `read` returning a piece, one
`reserve`, one `write_all`, one flush, ...).  Everything the code does not control is a `Choice` of the environment:
the PIECE SCHEDULE (how many bytes each `read` of the body reader / of the socket returns), the capacity a growing
`Vec`/`String` gets (any value in `[needed, max(8, 2·needed)]`), which std variant runs, when the handler stops
reading, which request comes next.  "Every state reached" = `sendRun cfg inp cs` / `recvRun cfg cs` for EVERY list
`cs` of choices (every prefix of a run is a run).

WHAT IS PROVED vs ASSUMED vs MEASURED (details in the header of the model):
  * proved (below): in every reachable state `heapBytes ≤ K`, `K` a closed expression in the thresholds of the source
    (`Khttp.Gen`), the std constants and the HEAD length — never the body length, the number of chunks, the piece
    schedule; only REQUEST_BUFFER depends on the configuration `max_request_head`, and on nothing else;
  * assumed (`StdCfg` + model header): what std allocates (`Vec` growth within `[needed, max(8, 2·needed)]`,
    `BufWriter::new` = 8 KiB, `BufReader::with_capacity(n)` = n bytes, `io::copy` using the `BufWriter`'s spare capacity
    or an 8 KiB stack buffer, `write!` not allocating (counted as 18 heap bytes anyway), `read_to_end` on `Take`);
    allocator overhead is not modelled;
  * measured (harness, domain MEM, counting allocator; and `scratch-rs` during development): peak live heap ≤ ~140 KiB
    for bodies from 1 KiB to 64 MiB in every direction / framing.  For the calls modelled here the model's peak
    equals the measured peak of the real code to the byte (resp: 8704 / 2089 / 9728 / 17920 …; req: 12288 / 12296 + the
    4096 bytes of REQUEST_BUFFER), except for the ≤ 18 bytes of the size line that the model counts and std keeps on
    the stack.

The bound is per framing (`Ksend cfg cls headLen`):
  streaming (declared length > PROBE_MAX)   head + BufWriter
  chunked                                   head + BufWriter + size line
  auto                                      head + probe prefix (≤ max(128, 2·PROBE_MAX)) + BufWriter + size line
  fastDeclared (declared length ≤ PROBE_MAX) — the documented "Fast" case: the WHOLE body (≤ PROBE_MAX bytes) is
                                            collected: head(+inline copy) + 2·(PROBE_MAX + 32); still no body length.
The 128 KiB chunk buffer of `write_chunked` is a stack array: `stackBytes`, bounded separately (`C20_send_stack`).

The property holds for the code: no counterexample.  (Not covered, by construction of the model: the handler's own
use of the bytes, `BodyReader::vec()/string()` which collect the body on purpose, error paths.)
-/
import Khttp.Lemmas.MemSendInv
import Khttp.Lemmas.MemRecvInv
namespace Khttp.Mem
open Khttp

/-! ## Sending -/

/-- C20, sending: for EVERY body length (`inp.srcLen`), framing, head length and EVERY schedule of pieces / std choices
    `cs`, the state reached holds at most `Ksend cfg class headLen` bytes of heap.  `Ksend` does not take the body
    length (nor `cs`) as an argument. -/
theorem C20_send_bounded (cfg : SendCfg) (hwf : cfg.WF) (inp : SendInput) (cs : List Choice) :
    (sendRun cfg inp cs).heapBytes ≤ Ksend cfg (inp.framing.cls cfg.t) inp.headLen :=
  (sendInv_run cfg hwf inp cs).heap_le

example : SendCfg.gen.WF := by decide

/-- the four cases spelled out (closed forms) -/
theorem C20_send_streaming (cfg : SendCfg) (hwf : cfg.WF) (cl headLen srcLen : Nat) (hcl : cfg.t.probeMax < cl)
    (cs : List Choice) :
    (sendRun cfg ⟨.declared cl, headLen, srcLen⟩ cs).heapBytes
      ≤ max cfg.t.headInitCap (max cfg.std.vecMinCap (2 * headLen)) + cfg.std.bwCap := by
  have h := C20_send_bounded cfg hwf ⟨.declared cl, headLen, srcLen⟩ cs
  have hc : (Framing.declared cl).cls cfg.t = .streaming := by simp [Framing.cls]; omega
  simpa only [hc, Ksend, headCapPlain] using h

theorem C20_send_chunked (cfg : SendCfg) (hwf : cfg.WF) (headLen srcLen : Nat) (cs : List Choice) :
    (sendRun cfg ⟨.chunked, headLen, srcLen⟩ cs).heapBytes
      ≤ max cfg.t.headInitCap (max cfg.std.vecMinCap (2 * headLen)) + cfg.std.bwCap + 18 :=
  C20_send_bounded cfg hwf ⟨.chunked, headLen, srcLen⟩ cs

theorem C20_send_auto (cfg : SendCfg) (hwf : cfg.WF) (headLen srcLen : Nat) (cs : List Choice) :
    (sendRun cfg ⟨.auto, headLen, srcLen⟩ cs).heapBytes
      ≤ max cfg.t.headInitCap (max cfg.std.vecMinCap (2 * (headLen + cfg.t.inlineCopyMax)))
        + max cfg.t.probeInitCap (max cfg.std.vecMinCap (2 * cfg.t.probeMax)) + cfg.std.bwCap + 18 := by
  have h := C20_send_bounded cfg hwf ⟨.auto, headLen, srcLen⟩ cs
  simp only [Framing.cls, Ksend, headCapFast, headCapPlain, collCapB, sizeLineMax] at h
  omega

/-- the documented "Fast" case: the body is at most `PROBE_MAX` bytes and is collected as a whole; the bound depends on
    `PROBE_MAX`, still not on the body -/
theorem C20_send_fast (cfg : SendCfg) (hwf : cfg.WF) (cl headLen srcLen : Nat) (hcl : cl ≤ cfg.t.probeMax)
    (cs : List Choice) :
    (sendRun cfg ⟨.declared cl, headLen, srcLen⟩ cs).heapBytes
      ≤ max cfg.t.headInitCap (max cfg.std.vecMinCap (2 * (headLen + cfg.t.inlineCopyMax)))
        + max cfg.std.vecMinCap (2 * (cfg.t.probeMax + cfg.std.rtProbe)) := by
  have h := C20_send_bounded cfg hwf ⟨.declared cl, headLen, srcLen⟩ cs
  have hc : (Framing.declared cl).cls cfg.t = .fastDeclared := by simp [Framing.cls, hcl]
  simpa only [hc, Ksend, headCapFast, collCapB] using h

theorem Ksend_le_any (cfg : SendCfg) (cls : FClass) (headLen : Nat) : Ksend cfg cls headLen ≤ KsendAny cfg headLen := by
  cases cls <;> simp only [Ksend, KsendAny, headCapFast, headCapPlain, collCapB] <;> omega

/-- "regardless of the body's length": ONE constant per (thresholds, head length) bounds the heap for every framing,
    every declared length, every body length and every schedule -/
theorem C20_send_uniform (cfg : SendCfg) (hwf : cfg.WF) (headLen : Nat) :
    ∃ K, ∀ (framing : Framing) (srcLen : Nat) (cs : List Choice),
      (sendRun cfg ⟨framing, headLen, srcLen⟩ cs).heapBytes ≤ K :=
  ⟨KsendAny cfg headLen, fun framing srcLen cs =>
    Nat.le_trans (C20_send_bounded cfg hwf ⟨framing, headLen, srcLen⟩ cs) (Ksend_le_any _ _ _)⟩

/-- the fixed-size arrays on the stack (the 128 KiB chunk buffer, the copy buffer, the 32-byte probe) -/
theorem C20_send_stack (cfg : SendCfg) (inp : SendInput) (cs : List Choice) :
    (sendRun cfg inp cs).stackBytes cfg ≤ KsendStack cfg :=
  stackBytes_le cfg _

/-! Non-vacuity: runs of the machine with the GENERATED constants that go all the way (`done`), deliver every body
    byte, and reach the bound exactly (streaming) or up to the pessimistic size line (chunked). -/

/-- the environment of the examples: the reader returns up to `k` bytes per `read`, std doubles capacities -/
def demoChoices (steps k : Nat) : List Choice := List.replicate steps { n := k, cap := 1000000, alt := true }

example :   -- declared 100000 > PROBE_MAX, pieces of 3000 bytes: finished, every byte emitted once, nothing left
    let s := sendRun SendCfg.frozen ⟨.declared 100000, 64, 100000⟩ (demoChoices 80 3000)
    s.pc = .done ∧ s.emitBody = 100000 ∧ s.readTotal = 100000 ∧ s.bufferedBody = 0 ∧ s.heapBytes = 0 := by
  decide +kernel

example :   -- the same run after 20 steps: in the middle of the copy, holding exactly the bound
    let s := sendRun SendCfg.frozen ⟨.declared 100000, 64, 100000⟩ (demoChoices 20 3000)
    s.pc = .copy ∧ s.heapBytes = 8704 ∧ Ksend SendCfg.frozen .streaming 64 = 8704 := by
  decide +kernel

example :   -- chunked, 300000 bytes, the reader fills the whole 128 KiB buffer: three chunks
    let s := sendRun SendCfg.frozen ⟨.chunked, 47, 300000⟩ (demoChoices 30 200000)
    s.pc = .done ∧ s.emitBody = 300000 ∧ s.emitTotal = 47 + (7 + 131072 + 2) + (7 + 131072 + 2) + (6 + 37856 + 2) + 5 := by
  decide +kernel

example :   -- auto, 300000 bytes in pieces of 1000: probe (8192), then chunked; peak state holds head + prefix + BufWriter
    let s := sendRun SendCfg.frozen ⟨.auto, 47, 300000⟩ (demoChoices 40 1000)
    s.strat = .auto ∧ s.coll.len = 8192 ∧ s.heapBytes ≤ Ksend SendCfg.frozen .auto 47 ∧ 17000 ≤ s.heapBytes := by
  decide +kernel

example :   -- declared 1024 ≤ PROBE_MAX: the Fast case, body copied behind the head
    let s := sendRun SendCfg.frozen ⟨.declared 1024, 41, 1024⟩ (List.replicate 7 { n := 65536, cap := 1024, alt := true })
    s.pc = .fastEmit ∧ s.heapBytes = 2089 ∧ s.heapBytes ≤ Ksend SendCfg.frozen .fastDeclared 41 := by
  decide +kernel

example :   -- a reader that ends before the declared length: error, bounded all the same
    let s := sendRun SendCfg.frozen ⟨.declared 100000, 64, 5000⟩ (demoChoices 20 3000)
    s.pc = .failed ∧ s.emitBody = 5000 := by
  decide +kernel

/-! ## Nothing accumulates -/

/-- sending: at every moment, body bytes read = body bytes emitted + body bytes sitting in a buffer (+ the bytes thrown
    away on the error path "body shorter than declared"), and the buffered part is bounded by a constant:
    the prefix (≤ PROBE_MAX), one chunk/copy buffer, one `BufWriter`.  Pieces are consumed in order (the model only
    counts), each byte is emitted exactly once. -/
theorem C20_no_accumulation_send (cfg : SendCfg) (hwf : cfg.WF) (inp : SendInput) (cs : List Choice) :
    let s := sendRun cfg inp cs
    s.readTotal = s.emitBody + s.bufferedBody + s.dropped ∧
    s.bufferedBody ≤ cfg.t.probeMax + max cfg.t.chunkBufSize cfg.std.copyBuf + cfg.std.bwCap := by
  have h := sendInv_run cfg hwf inp cs
  refine ⟨?_, h.buffered_le⟩
  have := h.acct
  simp only [SendState.bufferedBody]; omega

/-- only the error path drops bytes -/
theorem C20_dropped_only_on_failure (cfg : SendCfg) (hwf : cfg.WF) (inp : SendInput) (cs : List Choice) :
    (sendRun cfg inp cs).pc = .done → (sendRun cfg inp cs).bufferedBody = 0 →
      (sendRun cfg inp cs).readTotal = (sendRun cfg inp cs).emitBody + (sendRun cfg inp cs).dropped := by
  intro _ hb
  have := (C20_no_accumulation_send cfg hwf inp cs).1
  omega

/-! ## Tie with the functional printer model (`Khttp/Model/Printer.lean`, property C08)

    `hexLen` is by definition the length of the printer model's `{:X}` rendering.  On concrete inputs the number of
    bytes the machine emits equals the length of the wire produced by `Printer.writeResponse` for the same headers,
    body and piece schedule (all four strategies; a general statement is not attempted). -/

/-- (length of the head, length of the whole wire) according to the functional printer model -/
def printerLens (cfg : Printer.Thresholds) (h : Headers) (body : Printer.RSrc) : Option (Nat × Nat) :=
  match Printer.decideBodyStrategy cfg Printer.StdPolicy.real h body with
  | .ok strat =>
    match Printer.buildResponseHead cfg 200 (str "OK") h [] strat,
          Printer.writeResponse cfg Printer.StdPolicy.real 200 (str "OK") h [] body none with
    | .ok head, .ok wire => some (head.length, wire.length)
    | _, _ => none
  | _ => none

/-- PROBE_MAX = 4, INLINE_COPY_MAX = 2, chunk buffer = 3, BufWriter = 5 -/
def tinyCfg : SendCfg :=
  { t := { probeMax := 4, inlineCopyMax := 2, chunkBufSize := 3, headInitCap := 8, probeInitCap := 2, probeStep := 1 },
    std := { vecMinCap := 1, bwCap := 5, copyBuf := 5, rtProbe := 2 } }

def body10 (k : Nat) : Printer.RSrc := { data := str "abcdefghij", pieces := List.replicate 30 k }

example :   -- auto → AutoChunked: prefix chunk of 4, then chunks of 2
    printerLens tinyCfg.t Headers.newNodate (body10 2) = some (47, 82) ∧
    (sendRun tinyCfg ⟨.auto, 47, 10⟩ (demoChoices 100 2)).emitTotal = 82 ∧
    (sendRun tinyCfg ⟨.auto, 47, 10⟩ (demoChoices 100 2)).pc = .done := by decide +kernel

example :   -- declared 10 > PROBE_MAX → Streaming
    printerLens tinyCfg.t (Headers.newNodate.setContentLength (some 10)) (body10 3) = some (39, 49) ∧
    (sendRun tinyCfg ⟨.declared 10, 39, 10⟩ (demoChoices 100 3)).emitTotal = 49 := by decide +kernel

example :   -- caller-requested chunked, pieces of 7 cut to the 3-byte chunk buffer
    printerLens tinyCfg.t Headers.newNodate.setTransferEncodingChunked (body10 7) = some (47, 82) ∧
    (sendRun tinyCfg ⟨.chunked, 47, 10⟩ (demoChoices 100 7)).emitTotal = 82 := by decide +kernel

example :   -- declared 3 ≤ PROBE_MAX → Fast: 3 of the 10 bytes of the reader
    printerLens tinyCfg.t (Headers.newNodate.setContentLength (some 3)) (body10 2) = some (38, 41) ∧
    (sendRun tinyCfg ⟨.declared 3, 38, 10⟩ (demoChoices 100 2)).emitTotal = 41 := by decide +kernel

/-! ## Receiving -/

/-- C20, receiving: a server thread serving ANY sequence of requests (`c.req` of the choices: any head length, any
    declared length, any number and size of chunks, any trailers — size/trailer lines at most `L = cfg.lineMax` bytes),
    with ANY segmentation of the connection and ANY behaviour of the handler (reads through a `callerBuf`-byte buffer,
    may stop early: `drain` takes over) holds at most
    `Krecv = REQUEST_BUFFER + BUF_SIZE + one line (≤ max(8, 2·L)) + callerBuf` bytes of heap. -/
theorem C20_recv_bounded (cfg : RecvCfg) (hwf : cfg.WF) (cs : List RChoice)
    (hc : ∀ c ∈ cs, c.req.LinesLe cfg.lineMax) :
    (recvRun cfg cs).heapBytes ≤ Krecv cfg :=
  (recvInv_run cfg hwf cs hc).heap_le

/-- closed form; with the default `max_request_head = DEFAULT_REQUEST_BUFFER_SIZE` the first summand is exactly
    `max_request_head` -/
theorem C20_recv_bounded_closed (cfg : RecvCfg) (hwf : cfg.WF) (hd : cfg.maxHead = cfg.defaultReqBuf) (cs : List RChoice)
    (hc : ∀ c ∈ cs, c.req.LinesLe cfg.lineMax) :
    (recvRun cfg cs).heapBytes ≤ cfg.maxHead + cfg.bodyBufSize + max cfg.std.vecMinCap (2 * cfg.lineMax) + cfg.callerBuf := by
  have h := C20_recv_bounded cfg hwf cs hc
  simp only [Krecv, reqBufBound, lineCapB, hd, Nat.le_refl, if_true] at h
  omega

/-- the library's own share (without the handler's buffer) -/
theorem C20_recv_lib_bounded (cfg : RecvCfg) (hwf : cfg.WF) (cs : List RChoice)
    (hc : ∀ c ∈ cs, c.req.LinesLe cfg.lineMax) :
    (recvRun cfg cs).libHeapBytes ≤ reqBufBound cfg + cfg.bodyBufSize + lineCapB cfg :=
  (recvInv_run cfg hwf cs hc).libHeap_le

/-- the part allocated per request, i.e. on top of the thread's REQUEST_BUFFER and the handler's own buffer -/
theorem C20_recv_transfer_bounded (cfg : RecvCfg) (hwf : cfg.WF) (cs : List RChoice)
    (hc : ∀ c ∈ cs, c.req.LinesLe cfg.lineMax) :
    (recvRun cfg cs).transferHeapBytes ≤ cfg.bodyBufSize + max cfg.std.vecMinCap (2 * cfg.lineMax) :=
  (recvInv_run cfg hwf cs hc).transferHeap_le

theorem C20_recv_stack (cfg : RecvCfg) (cs : List RChoice) : (recvRun cfg cs).stackBytes cfg ≤ KrecvStack cfg :=
  recvStack_le cfg _

/-- receiving: bytes taken from the connection for the body = bytes handed to the handler + framing bytes consumed +
    bytes waiting in the `BufReader` (≤ BUF_SIZE) (+ what was still in it when it was dropped) -/
theorem C20_no_accumulation_recv (cfg : RecvCfg) (hwf : cfg.WF) (cs : List RChoice)
    (hc : ∀ c ∈ cs, c.req.LinesLe cfg.lineMax) :
    let s := recvRun cfg cs
    s.fetched = s.delivered + s.overhead + s.br.len + s.discarded ∧ s.br.len ≤ cfg.bodyBufSize ∧
    s.line.len ≤ cfg.lineMax := by
  have h := recvInv_run cfg hwf cs hc
  have := h.br_len; have := h.br_cap; have := h.line_len
  exact ⟨h.acct, by omega, by omega⟩

/-- C20, "only the request head is buffered, up to its configured limit":
    (1) once sized, REQUEST_BUFFER has exactly `max_request_head` bytes (`len`), in every state past the resize;
    (2) its capacity is bounded by a function of the configuration alone, and is exactly
        `DEFAULT_REQUEST_BUFFER_SIZE` when `max_request_head` fits in it (by default both are 4096: exactly
        `max_request_head`);
    (3) no step other than that `resize_with` touches it, and that one does nothing once the length is right: the
        buffer is the same for every later request, whatever its head / body;
    (4) every other buffer is bounded by constants of the configuration that do not involve the request at all. -/
theorem C20_head_only_buffered (cfg : RecvCfg) (hwf : cfg.WF) (cs : List RChoice)
    (hc : ∀ c ∈ cs, c.req.LinesLe cfg.lineMax) :
    let s := recvRun cfg cs
    ((s.pc ≠ .idle ∧ s.pc ≠ .resize) → s.reqBuf.len = cfg.maxHead) ∧
    s.reqBuf.cap ≤ reqBufBound cfg ∧
    (cfg.maxHead ≤ cfg.defaultReqBuf → s.reqBuf.cap = cfg.defaultReqBuf) ∧
    (∀ rc : RChoice, s.pc ≠ .resize ∨ s.reqBuf.len = cfg.maxHead → (recvStep cfg s rc).reqBuf = s.reqBuf) ∧
    s.br.cap ≤ cfg.bodyBufSize ∧ s.line.cap ≤ max cfg.std.vecMinCap (2 * cfg.lineMax) ∧ s.callerCap ≤ cfg.callerBuf := by
  have h := recvInv_run cfg hwf cs hc
  refine ⟨?_, h.rb_cap, h.rb_exact, ?_, h.br_cap, h.line_cap, h.caller⟩
  · intro ⟨h1, h2⟩
    have := h.rb_len
    revert this h1 h2
    cases (recvRun cfg cs).pc <;> simp
  · intro rc hh
    rcases hh with hh | hh
    · exact recvStep_reqBuf cfg _ rc hh
    · exact recvStep_reqBuf_sized cfg _ rc hh

/-! Non-vacuity: a thread with the generated constants receives a chunked request of 3 × 70000 data bytes (size lines
    `11170;ext…\r\n` of 40 bytes, two trailers), segmented in pieces of 1460 bytes, read through an 8 KiB buffer. -/

def demoReq : ReqShape :=
  { headLen := 120,
    framing := .chunked [⟨3, 40, 70000⟩, ⟨1, 3, 0⟩] [30, 25],
    wire := 120 + 3 * (40 + 70000 + 2) + 3 + 30 + 25 + 2 }

def demoRChoices (steps : Nat) : List RChoice :=
  List.replicate steps { n := 1460, cap := 0, alt := false, req := demoReq }

example : (RecvCfg.gen 8192 64).WF := by decide
example : ∀ c ∈ demoRChoices 506, c.req.LinesLe (RecvCfg.frozen 8192 64).lineMax := by
  intro c hc; rw [List.eq_of_mem_replicate hc]; decide

example :   -- after 506 steps the request has been served completely and the thread waits for the next one
    let s := recvRun (RecvCfg.frozen 8192 64) (demoRChoices 506)
    s.pc = .idle ∧ s.delivered = 210000 ∧ s.bodyFailed = false ∧ s.reqBuf = ⟨4096, 4096⟩ ∧ s.br.cap = 0 ∧ s.sock = 0 ∧
    s.heapBytes = 4096 := by
  decide +kernel

example :   -- in the middle: REQUEST_BUFFER + BufReader + the handler's buffer are live
    let s := recvRun (RecvCfg.frozen 8192 64) (demoRChoices 300)
    s.heapBytes = 4096 + 4096 + 8192 ∧ s.heapBytes ≤ Krecv (RecvCfg.frozen 8192 64) ∧ 40000 < s.delivered := by
  decide +kernel

/-! ## The numbers -/

/-- the bounds for the constants of the source as of the pinned commit (`Thresholds.frozen`): a few tens of KiB of heap, plus the 128 KiB
    stack array of `write_chunked`; `L` and `callerBuf` are the caller's -/
theorem C20_constants :
    (∀ headLen ≤ 256,
      Ksend SendCfg.frozen .streaming headLen = 8704 ∧          -- 512 + 8192
      Ksend SendCfg.frozen .chunked headLen = 8722 ∧            -- … + 18
      Ksend SendCfg.frozen .auto headLen ≤ 25618 ∧              -- 512 + 16384 + 8192 + 18 (or 2·(headLen+2048) + 16384)
      Ksend SendCfg.frozen .fastDeclared headLen ≤ 21056) ∧     -- 2·(headLen + 2048) + 2·(8192 + 32)
    (∀ headLen, KsendAny SendCfg.frozen headLen = 2 * headLen + 4096 + 16448 + 8192 + 18) ∧
    (∀ headLen ≤ 8196, KsendAny SendCfg.frozen headLen + KsendStack SendCfg.frozen ≤ 200 * 1024) ∧
    KsendStack SendCfg.frozen = 131072 ∧
    KsendBuffered SendCfg.frozen = 8192 + 131072 + 8192 ∧
    (∀ callerBuf L, Krecv (RecvCfg.frozen callerBuf L) = 4096 + 4096 + max 8 (2 * L) + callerBuf) ∧
    Krecv (RecvCfg.frozen 8192 64) = 16512 ∧
    (∀ callerBuf L, reqBufBound (RecvCfg.frozen callerBuf L) = 4096) := by
  refine ⟨?_, ?_, ?_, ?_, ?_, ?_, ?_, ?_⟩
  · intro headLen h
    simp only [Ksend, headCapFast, headCapPlain, collCapB, sizeLineMax, SendCfg.frozen, Printer.Thresholds.frozen]
    omega
  · intro headLen
    simp only [KsendAny, headCapFast, collCapB, sizeLineMax, SendCfg.frozen, Printer.Thresholds.frozen]
    omega
  · intro headLen h
    simp only [KsendAny, KsendStack, headCapFast, collCapB, sizeLineMax, SendCfg.frozen, Printer.Thresholds.frozen] at *
    omega
  · decide
  · decide
  · intro callerBuf L
    simp [Krecv, reqBufBound, lineCapB, RecvCfg.frozen]
  · decide
  · intro callerBuf L
    simp [reqBufBound, RecvCfg.frozen]

/-- C20 for ARBITRARY thresholds: nothing above depends on the particular values 8192 / 2048 / 131072 / 512 / 128 /
    1024 / 4096, nor on the std constants 8 / 8192 / 32 — not even on their being positive; the only requirements are
    that `PROBE_MAX` and the chunk buffer length are `usize` values and that a line limit admits the blank line. -/
theorem C20_parametric
    (probeMax inlineCopyMax chunkBufSize headInitCap probeInitCap probeStep : Nat)
    (vecMinCap bwCap copyBuf rtProbe : Nat)
    (maxHead defaultReqBuf bodyBufSize callerBuf lineMax drainBuf : Nat)
    (h1 : probeMax < 2 ^ 64) (h2 : chunkBufSize < 2 ^ 64) (h3 : 2 ≤ lineMax) :
    let std : StdCfg := { vecMinCap, bwCap, copyBuf, rtProbe }
    let scfg : SendCfg := { t := { probeMax, inlineCopyMax, chunkBufSize, headInitCap, probeInitCap, probeStep }, std }
    let rcfg : RecvCfg := { maxHead, defaultReqBuf, bodyBufSize, callerBuf, lineMax, drainBuf, std }
    (∀ inp cs, (sendRun scfg inp cs).heapBytes ≤ Ksend scfg (inp.framing.cls scfg.t) inp.headLen) ∧
    (∀ inp cs, (sendRun scfg inp cs).heapBytes ≤ KsendAny scfg inp.headLen) ∧
    (∀ inp cs, (sendRun scfg inp cs).stackBytes scfg ≤ KsendStack scfg) ∧
    (∀ inp cs, (sendRun scfg inp cs).bufferedBody ≤ KsendBuffered scfg) ∧
    (∀ cs, (∀ c ∈ cs, c.req.LinesLe lineMax) → (recvRun rcfg cs).heapBytes ≤ Krecv rcfg) ∧
    (∀ cs, (recvRun rcfg cs).stackBytes rcfg ≤ KrecvStack rcfg) := by
  intro std scfg rcfg
  have hs : scfg.WF := ⟨h1, h2⟩
  have hr : rcfg.WF := h3
  exact ⟨fun inp cs => C20_send_bounded scfg hs inp cs,
    fun inp cs => Nat.le_trans (C20_send_bounded scfg hs inp cs) (Ksend_le_any _ _ _),
    fun inp cs => C20_send_stack scfg inp cs,
    fun inp cs => (sendInv_run scfg hs inp cs).buffered_le,
    fun cs hc => C20_recv_bounded rcfg hr cs hc,
    fun cs => C20_recv_stack rcfg cs⟩

example :   -- tiny thresholds: PROBE_MAX = 4, chunk buffer = 3, BufWriter = 5: same theorem, other numbers
    let cfg : SendCfg := { t := { probeMax := 4, inlineCopyMax := 2, chunkBufSize := 3, headInitCap := 8,
                                  probeInitCap := 2, probeStep := 1 },
                           std := { vecMinCap := 1, bwCap := 5, copyBuf := 8, rtProbe := 2 } }
    let s := sendRun cfg ⟨.auto, 10, 20⟩ (demoChoices 70 2)
    cfg.WF ∧ s.pc = .done ∧ s.emitBody = 20 ∧ Ksend cfg .auto 10 = 20 + 8 + 5 + 18 := by
  decide +kernel

end Khttp.Mem
