/-
  Client end to end (src/client.rs `read_response` + `Response::parse` + `BodyReader::from_response`), under C03 / C08:

  whatever the printer renders for a response whose head fits the client's head buffer, sent over a socket under ANY segmentation,
  the client's read loop returns exactly that status, reason and header collection, and the bytes it hands to the body reader
  (buffered rest + what is still in flight) are exactly the encoded body — from which the body reader delivers the body
  (`response_roundtrip`).  This composes the read-loop theorem (`C03_client_cut_independent`: the segmentation does not matter) with
  the printer → parser round trip (`response_head_roundtrip`: the parser accepts the rendered head followed by anything).
-/
import Khttp.Props.C03Loop
import Khttp.Props.RoundTrip
namespace Khttp.ClientExchange
open Khttp Khttp.Spec.Message Khttp.RoundTrip

/-- what the client observes of a response head -/
abbrev View := Nat × Nat × Bytes × UInt8 × Headers × Bytes
def view (x : Response × Bytes) : View := (x.1.off, x.1.code, x.1.reason, x.1.version, x.1.headers, x.2)

theorem maxHead_pos : 0 < Gen.maxResponseHead := by decide

/-- the whole wire in ONE segment: the loop's single `recv` returns a prefix that contains the head -/
theorem one_segment_aux (head body : Bytes) (eof : Bool) (r : Response) (hne : head ≠ [])
    (hfit : head.length ≤ Gen.maxResponseHead) (hparse : ∀ tail, Response.parse (head ++ tail) = .ok r)
    (hoff : r.off = head.length) :
    (clientView (readResponse ⟨[head ++ body], eof⟩)).map view = .ok (view (r, body)) := by
  have hne' : (head ++ body).isEmpty = false := by
    cases hh : head with
    | nil => exact absurd hh hne
    | cons _ _ => simp
  have hmax : (([] : Bytes).length == Gen.maxResponseHead) = false := by decide
  have h0 : ¬ (0 = Gen.maxResponseHead) := by decide
  unfold readResponse
  rw [show Gen.maxResponseHead + 1 = Nat.succ Gen.maxResponseHead from rfl]
  unfold readResponseLoop
  simp only [hmax, Bool.false_eq_true, ↓reduceIte, List.length_nil, Nat.sub_zero, List.nil_append]
  unfold Sock.recv recvSegs
  simp only [hne', Bool.false_eq_true, ↓reduceIte]
  by_cases hle : (head ++ body).length ≤ Gen.maxResponseHead
  · simp only [hle, ↓reduceIte]
    rw [hparse body]
    simp [clientView, view, Sock.pending, Except.map, hoff, h0]
  · simp only [hle, ↓reduceIte]
    have htake : (head ++ body).take Gen.maxResponseHead = head ++ body.take (Gen.maxResponseHead - head.length) := by
      rw [List.take_append, List.take_of_length_le hfit]
    have hdrop : (head ++ body).drop Gen.maxResponseHead = body.drop (Gen.maxResponseHead - head.length) := by
      rw [List.drop_append, List.drop_of_length_le hfit]; simp
    rw [htake, hparse]
    simp [clientView, view, Except.map, Sock.pending, hdrop, hoff, h0]

theorem renderHead_ne_nil (start : Bytes) (fields : List (Bytes × Bytes)) : renderHead start fields ≠ [] := by
  intro h
  have : (renderHead start fields).length = 0 := by rw [h]; rfl
  simp [renderHead, Khttp.Spec.Message.CRLF] at this

theorem one_segment (code : Nat) (reason : Bytes) (fields : List (Bytes × Bytes)) (body : Bytes) (eof : Bool)
    (lo : 100 ≤ code) (hi : code ≤ 999) (hr : reasonOk reason = true) (hf : wfFields fields = true)
    (hfit : (renderHead (statusStart code reason) fields).length ≤ Gen.maxResponseHead) :
    (clientView (readResponse ⟨[renderHead (statusStart code reason) fields ++ body], eof⟩)).map view
      = .ok ((renderHead (statusStart code reason) fields).length, code, reason, 1,
             Spec.collect (fields.map asLine), body) := by
  rw [one_segment_aux _ body eof _ (renderHead_ne_nil _ _) hfit
    (fun tail => response_head_roundtrip code reason fields tail lo hi hr hf) rfl]
  rfl

/-- **Client end to end.**  A rendered response (any three-digit status, reason of HTAB / SP / visible ASCII, well-formed user
    fields none of which names a framing header, optional date, either framing) whose head fits the client's head buffer, arriving
    over ANY segmentation of the byte stream, is read back as exactly that status, reason, HTTP/1.1 and header collection, and the
    body reader is handed exactly the encoded body. -/
theorem client_reads_back (code : Nat) (reason : Bytes) (user : List (Bytes × Bytes)) (date : Option Bytes) (fr : Framing)
    (lo : 100 ≤ code) (hi : code ≤ 999) (hr : reasonOk reason = true) (hu : wfFields user = true)
    (hd : ∀ v, date = some v → noCRLF v = true)
    (hfit : (renderHead (statusStart code reason) (allFields user date fr)).length ≤ Gen.maxResponseHead)
    (s : Sock) (hs : s.pending = renderResponse code reason user date fr) :
    (clientView (readResponse s)).map view
      = .ok ((renderHead (statusStart code reason) (allFields user date fr)).length, code, reason, 1,
             Spec.collect ((allFields user date fr).map asLine), encodeBody fr) := by
  have hwf := wfFields_allFields user date fr hu hd
  have h1 := one_segment code reason (allFields user date fr) (encodeBody fr) s.eof lo hi hr hwf hfit
  have hcut := C03_client_cut_independent s ⟨[renderHead (statusStart code reason) (allFields user date fr) ++ encodeBody fr], s.eof⟩
    (by rw [hs]; simp [Sock.pending, renderResponse, renderMessage]) rfl
  have e : ∀ r : Except ClientReadErr (Response × Bytes), r.map view
      = r.map (fun x => (x.1.off, x.1.code, x.1.reason, x.1.version, x.1.headers, x.2)) := fun _ => rfl
  rw [e, hcut, ← e, h1]

end Khttp.ClientExchange
