/-
  Round trip printer → parser (C08 "decodes to the same status line and user headers", C03 client side, C01/C04 parser):
  what khttp's printer emits for a response, khttp's own response parser accepts, and it reports exactly the status
  code, the reason phrase and the header section that were printed, with the head length = the rendered head.
  This ties Spec.Message (the printer's wire format, Props/C08) to Spec.Head (the parsers' wire format, Props/C02–C04):
  the two specifications describe the same grammar.
-/
import Khttp.Props.C08
import Khttp.Props.C06
import Khttp.Props.C02
import Khttp.Lemmas.Compose
namespace Khttp.RoundTrip
open Khttp
open Khttp.Spec.Message hiding CRLF

/-- a printer field line `name: value CRLF` is the parser-side line `name ":" raw CRLF` with `raw = SP value` -/
def asLine (f : Bytes × Bytes) : Bytes × Bytes := (f.1, SP :: f.2)

theorem fieldLine_eq_renderLine (f : Bytes × Bytes) : fieldLine f = Spec.renderLine (asLine f) := by
  simp [fieldLine, Spec.renderLine, asLine, Spec.CRLF, Khttp.Spec.Message.CRLF]

theorem flatMap_fieldLine (fs : List (Bytes × Bytes)) : fs.flatMap fieldLine = Spec.renderLines (fs.map asLine) := by
  induction fs with
  | nil => rfl
  | cons f fs ih => simp [Spec.renderLines, List.flatMap_cons, fieldLine_eq_renderLine] at ih ⊢; rw [ih]

/-- reason phrases the response parser accepts: HTAB / SP / visible ASCII (a CR/LF-free printable reason) -/
def reasonOk (reason : Bytes) : Bool := reason.all isReasonByte

theorem reasonByte_ne_cr : ∀ c : UInt8, isReasonByte c = true → (c == CR) = false := by
  apply Hdr.forall_uint8; decide +kernel

theorem reasonSpec_complete : ∀ (reason pre rest : Bytes), (∀ b ∈ reason, isReasonByte b = true) →
    reasonSpec pre (reason ++ CR :: LF :: rest) = .ok (pre ++ reason, rest) := by
  intro reason
  induction reason with
  | nil => intro pre rest _; simp [reasonSpec_cons2]
  | cons c t ih =>
    intro pre rest h
    have hc : isReasonByte c = true := h c (by simp)
    cases t with
    | nil =>
      simp only [List.cons_append, List.nil_append]
      rw [reasonSpec_cons2]
      have : (c == CR) = false := reasonByte_ne_cr c hc
      simp only [this, Bool.false_and, hc, Bool.not_true]
      simp [reasonSpec_cons2]
    | cons d t' =>
      simp only [List.cons_append]
      rw [reasonSpec_cons2]
      have : (c == CR) = false := reasonByte_ne_cr c hc
      simp only [this, Bool.false_and, hc, Bool.not_true]
      have := ih (pre ++ [c]) rest (fun b hb => h b (by simp [hb]))
      simpa using this

/-- the status part of a rendered status line is read back exactly -/
theorem parseResponseStatus_render (code : Nat) (reason rest : Bytes) (lo : 100 ≤ code) (hi : code ≤ 999)
    (hr : ∀ b ∈ reason, isReasonByte b = true) :
    parseResponseStatus (decNumeral code ++ [SP] ++ reason ++ CR :: LF :: rest) = .ok (code, reason, rest) := by
  obtain ⟨a, b, c, e, ha, hb, hc, hv⟩ := Printer.decNumeral_three code lo hi
  rw [e]
  simp only [List.cons_append, List.nil_append]
  rcases parseStatusCode_cases (a :: b :: c :: SP :: (reason ++ CR :: LF :: rest)) with ⟨e', he', _⟩ | ⟨d1, d2, d3, r, hb', _, _, _, hcode⟩
  · simp [parseStatusCode, ha, hb, hc] at he'
  · injection hb' with h1 hb'; injection hb' with h2 hb'; injection hb' with h3 hb'
    subst h1 h2 h3 hb'
    rw [parseResponseStatus_of_ok _ _ _ _ _ (hcode _)]
    simp only [statusTail, bne_self_eq_false, Bool.false_eq_true, ↓reduceIte]
    rw [reasonSpec_complete reason [] rest hr]
    simp only [List.nil_append]
    congr 2
    have hv' : ((a.toNat - 48) * 10 + (b.toNat - 48)) * 10 + (c.toNat - 48) = code := by simpa [decVal] using hv
    omega

theorem wfLine_of_wfField (f : Bytes × Bytes) (h : wfField f = true) : WfLineCode (asLine f) := by
  simp only [wfField, isToken, Bool.and_eq_true, bne_iff_ne, ne_eq, List.all_eq_true, noCRLF] at h
  obtain ⟨⟨hne, htok⟩, hv⟩ := h
  refine ⟨hne, fun b hb => by rw [isFieldByte_eq_isTchar]; exact htok b hb, ?_⟩
  simp only [asLine, List.mem_cons, not_or]
  refine ⟨by decide, fun hm => ?_⟩
  have := (hv LF hm).2
  simp at this

/-- **Round trip, head.**  For every three-digit status, every reason phrase of HTAB / SP / visible ASCII and every header
    section of token names and CR/LF-free values, the response parser accepts the rendered head followed by ANY bytes
    (the body, a further message, nothing) and reports exactly the printed status code and reason, HTTP/1.1, the header
    collection obtained by adding the printed fields in order, and a head length equal to the length of the rendering. -/
theorem response_head_roundtrip (code : Nat) (reason : Bytes) (fields : List (Bytes × Bytes)) (tail : Bytes)
    (lo : 100 ≤ code) (hi : code ≤ 999) (hr : reasonOk reason = true) (hf : wfFields fields = true) :
    Response.parse (renderHead (statusStart code reason) fields ++ tail)
      = .ok ⟨1, code, reason, Spec.collect (fields.map asLine), (renderHead (statusStart code reason) fields).length⟩ := by
  have hr' : ∀ b ∈ reason, isReasonByte b = true := by simpa [reasonOk, List.all_eq_true] using hr
  have hf' : ∀ l ∈ fields.map asLine, WfLineCode l := by
    intro l hl
    obtain ⟨f, hfm, rfl⟩ := List.mem_map.1 hl
    exact wfLine_of_wfField f (by simpa [wfFields, List.all_eq_true] using (List.all_eq_true.1 hf) f hfm)
  have hshape : renderHead (statusStart code reason) fields ++ tail
      = HTTP1 ++ (0x31 : UInt8) :: SP :: (decNumeral code ++ [SP] ++ reason ++ CR :: LF ::
          (Spec.renderLines (fields.map asLine) ++ Spec.CRLF ++ tail)) := by
    have e1 : str "HTTP/1.1 " = HTTP1 ++ [(0x31 : UInt8), SP] := by decide +kernel
    simp only [renderHead, statusStart, flatMap_fieldLine, e1, Spec.CRLF, Khttp.Spec.Message.CRLF, List.append_assoc,
      List.cons_append, List.nil_append]
  rw [Response.parse_ok_iff, hshape]
  refine ⟨1, decNumeral code ++ [SP] ++ reason ++ CR :: LF :: (Spec.renderLines (fields.map asLine) ++ Spec.CRLF ++ tail),
    code, reason, Spec.renderLines (fields.map asLine) ++ Spec.CRLF ++ tail, Spec.collect (fields.map asLine), tail,
    ?_, ?_, ?_, ?_, ?_⟩
  · rw [parseVersion_ok_iff]; exact Or.inr ⟨rfl, rfl⟩
  · exact parseResponseStatus_render code reason _ lo hi hr'
  · exact (parseHeaders_ok_iff _ _ _).2 ⟨_, rfl, hf', rfl⟩
  · simp only [List.length_append, List.length_cons]; omega
  · rw [← hshape]; simp

/-! ## The body: what the printer emits after the head is decoded by the body reader the parsed head selects -/

open Khttp.Spec.Chunked (numeral? digitValue?) in
theorem digitValue_hexChar : ∀ d, d < 16 → digitValue? (hexChar d) = some d := by decide +kernel

open Khttp.Spec.Chunked (numeral? digitValue?) in
/-- the fold inside `numeral?` -/
def numFold (acc : Option Nat) (ds : Bytes) : Option Nat :=
  ds.foldl (fun acc b => match acc, digitValue? b with
                  | some a, some v => some (a * 16 + v)
                  | _, _ => none) acc

open Khttp.Spec.Chunked (numeral? digitValue?) in
theorem numFold_hexNumeral (n : Nat) : numFold (some 0) (hexNumeral n) = some n := by
  induction n using Nat.strongRecOn with
  | _ n ih =>
    rw [Printer.hexNumeral_eq]
    split
    · rename_i h
      simp [numFold, digitValue_hexChar n h]
    · rename_i h
      have hlt : n / 16 < n := Nat.div_lt_self (by omega) (by omega)
      have := ih (n / 16) hlt
      unfold numFold at this ⊢
      rw [List.foldl_append, this]
      simp only [List.foldl_cons, List.foldl_nil, digitValue_hexChar (n % 16) (Nat.mod_lt _ (by decide))]
      congr 1; omega

open Khttp.Spec.Chunked (numeral? digitValue?) in
/-- the printer's chunk sizes (upper-case, no leading zeros) are numerals of the C06 chunked grammar -/
theorem numeral_hexNumeral (n : Nat) : numeral? (hexNumeral n) = some n := by
  unfold numeral?
  have hne : (hexNumeral n).isEmpty = false := by
    cases h : hexNumeral n with
    | nil => exact absurd h (Printer.hexNumeral_ne_nil n)
    | cons _ _ => rfl
  rw [hne]
  exact numFold_hexNumeral n

/-- the printer's chunked coding is the C06 grammar's encoding without extensions and trailers -/
theorem encodeChunkedPlain_eq (cs : List Bytes) :
    encodeChunkedPlain cs = Khttp.Spec.Chunked.encodeChunkedWith hexNumeral cs [] [] := by
  have hz : hexNumeral 0 = str "0" := by decide +kernel
  induction cs with
  | nil =>
    simp [encodeChunkedPlain, lastChunk, Khttp.Spec.Chunked.encodeChunkedWith, Khttp.Spec.Chunked.encode,
      Khttp.Spec.Chunked.mkChunks, Khttp.Spec.Chunked.encodeChunks, Khttp.Spec.Chunked.encodeEnd,
      Khttp.Spec.Chunked.sizeLine, Khttp.Spec.Chunked.optExt, Khttp.Spec.Chunked.encodeTrailers, hz,
      Khttp.Spec.Chunked.CRLF, Khttp.Spec.Message.CRLF]
  | cons c cs ih =>
    simp only [encodeChunkedPlain, List.flatMap_cons, List.append_assoc] at ih ⊢
    rw [ih]
    simp [Khttp.Spec.Chunked.encodeChunkedWith, Khttp.Spec.Chunked.encode, Khttp.Spec.Chunked.mkChunks,
      Khttp.Spec.Chunked.encodeChunks, Khttp.Spec.Chunked.encodeChunk, Khttp.Spec.Chunked.sizeLine,
      Khttp.Spec.Chunked.optExt, encodeChunk, Khttp.Spec.Chunked.CRLF, Khttp.Spec.Message.CRLF]

/-! ### The header collection read back from a printed header section -/

theorem names_eq : Khttp.Spec.Message.CONTENT_LENGTH = Headers.CONTENT_LENGTH ∧
    Khttp.Spec.Message.TRANSFER_ENCODING = Headers.TRANSFER_ENCODING := ⟨rfl, rfl⟩

/-- adding a field that is named neither content-length nor transfer-encoding changes neither framing answer -/
theorem add_other (h : Headers) (n v : Bytes) (h1 : eqIgnoreCase n Headers.CONTENT_LENGTH = false)
    (h2 : eqIgnoreCase n Headers.TRANSFER_ENCODING = false) :
    (h.add n v).cl = h.cl ∧ (h.add n v).chunked = h.chunked := by
  unfold Headers.add
  simp only [h1, h2, Bool.false_eq_true, ↓reduceIte]
  split <;> simp

theorem fold_other : ∀ (fs : List (Bytes × Bytes)) (h : Headers), noFramingName fs = true →
    ((fs.map asLine).foldl (fun h f => h.add f.1 (trimStart f.2)) h).cl = h.cl ∧
    ((fs.map asLine).foldl (fun h f => h.add f.1 (trimStart f.2)) h).chunked = h.chunked := by
  intro fs
  induction fs with
  | nil => intro h _; exact ⟨rfl, rfl⟩
  | cons f fs ih =>
    intro h hn
    have hrest : noFramingName fs = true := by
      simp only [noFramingName, List.all_cons, Bool.and_eq_true] at hn ⊢; exact hn.2
    have hf : isFramingField f = false := by
      simp only [noFramingName, List.all_cons, Bool.and_eq_true, Bool.not_eq_true'] at hn; exact hn.1
    simp only [isFramingField, Bool.or_eq_false_iff, isCL, isTE] at hf
    obtain ⟨h1, h2⟩ := hf
    have := ih (h.add f.1 (trimStart (SP :: f.2))) hrest
    obtain ⟨a1, a2⟩ := add_other h f.1 (trimStart (SP :: f.2)) h1 h2
    simp only [List.map_cons, List.foldl_cons, asLine]
    exact ⟨this.1.trans a1, this.2.trans a2⟩

theorem trimStart_sp (v : Bytes) : trimStart (SP :: v) = trimStart v := by
  simp [trimStart, List.dropWhile, isAsciiWs, SP]

theorem digit_not_ws : ∀ b : UInt8, isDigit b = true → isAsciiWs b = false := by
  apply Hdr.forall_uint8; decide +kernel

theorem trimAscii_digits (ds : Bytes) (h : ds.all isDigit = true) : trimAscii ds = ds := by
  have hall : ∀ b ∈ ds, isAsciiWs b = false := fun b hb => digit_not_ws b (List.all_eq_true.1 h b hb)
  have e1 : ∀ l : Bytes, (∀ b ∈ l, isAsciiWs b = false) → l.dropWhile isAsciiWs = l := by
    intro l hl
    cases l with
    | nil => rfl
    | cons a t => simp [List.dropWhile, hl a (by simp)]
  unfold trimAscii trimEnd trimStart
  rw [e1 ds hall, e1 ds.reverse (fun b hb => hall b (List.mem_reverse.1 hb)), List.reverse_reverse]

theorem parseContentLength_decNumeral (n : Nat) (hn : n < 2 ^ 64) :
    Headers.parseContentLength (decNumeral n) = some n := by
  obtain ⟨hv, hd⟩ := Printer.decNumeral_spec n
  unfold Headers.parseContentLength
  simp only [trimAscii_digits _ hd]
  have hne : (decNumeral n).isEmpty = false := by
    cases h : decNumeral n with
    | nil => exact absurd h (Printer.decNumeral_ne_nil n)
    | cons _ _ => rfl
  simp only [hne, hd, Bool.not_true, Bool.or_self, Bool.false_eq_true, ↓reduceIte]
  have : (decNumeral n).foldl (fun a b => a * 10 + (b.toNat - 48)) 0 = n := by simpa [decVal] using hv
  simp [this, hn]

/-- the header collection parsed from a response rendered with a generated content-length field -/
theorem collect_length (user : List (Bytes × Bytes)) (date : Option Bytes) (b : Bytes) (hu : noFramingName user = true)
    (hb : b.length < 2 ^ 64) :
    (Spec.collect ((allFields user date (.length b)).map asLine)).cl = some b.length ∧
    (Spec.collect ((allFields user date (.length b)).map asLine)).chunked = false := by
  have hfn : noFramingName (user ++ dateField date) = true := by
    have hd : ∀ v, isFramingField (str "date", v) = false := by
      intro v; simp only [isFramingField, isCL, isTE]; decide +kernel
    cases date with
    | none => simpa [dateField] using hu
    | some v =>
      simp only [noFramingName, dateField, List.all_append, List.all_cons, List.all_nil, Bool.and_true,
        Bool.and_eq_true, Bool.not_eq_true'] at hu ⊢
      exact ⟨hu, hd v⟩
  unfold Spec.collect allFields
  rw [List.map_append, List.foldl_append]
  obtain ⟨c1, c2⟩ := fold_other (user ++ dateField date) Headers.new hfn
  simp only [List.map_cons, List.map_nil, List.foldl_cons, List.foldl_nil, framingField, clField, asLine, trimStart_sp]
  have hts : trimStart (decNumeral b.length) = decNumeral b.length := by
    have := trimAscii_digits _ (Printer.decNumeral_spec b.length).2
    unfold trimAscii trimEnd at this
    have hall : ∀ x ∈ decNumeral b.length, isAsciiWs x = false :=
      fun x hx => digit_not_ws x (List.all_eq_true.1 (Printer.decNumeral_spec b.length).2 x hx)
    cases h : decNumeral b.length with
    | nil => rfl
    | cons a t => simp [trimStart, List.dropWhile, hall a (by simp [h])]
  rw [hts]
  unfold Headers.add
  have e : eqIgnoreCase Khttp.Spec.Message.CONTENT_LENGTH Headers.CONTENT_LENGTH = true := by decide +kernel
  simp only [e, ↓reduceIte, parseContentLength_decNumeral _ hb]
  exact ⟨trivial, c2⟩

/-- … and with a generated `transfer-encoding: chunked` field -/
theorem collect_chunked (user : List (Bytes × Bytes)) (date : Option Bytes) (cs : List Bytes)
    (_hu : noFramingName user = true) :
    (Spec.collect ((allFields user date (.chunked cs)).map asLine)).chunked = true := by
  unfold Spec.collect allFields
  rw [List.map_append, List.foldl_append]
  simp only [List.map_cons, List.map_nil, List.foldl_cons, List.foldl_nil, framingField, teField, asLine, trimStart_sp]
  have hts : trimStart (str "chunked") = str "chunked" := by decide +kernel
  rw [hts]
  unfold Headers.add
  have e1 : eqIgnoreCase Khttp.Spec.Message.TRANSFER_ENCODING Headers.CONTENT_LENGTH = false := by decide +kernel
  have e2 : eqIgnoreCase Khttp.Spec.Message.TRANSFER_ENCODING Headers.TRANSFER_ENCODING = true := by decide +kernel
  have e3 : Headers.teScan (str "chunked") = (true, true) := by decide +kernel
  simp [e1, e2, e3]

open Khttp.Body in
/-- **Round trip, whole response.**  What `HttpPrinter` renders for a response — any three-digit status, any reason of
    HTAB / SP / visible ASCII, any user fields with token names and CR/LF-free values none of which names a framing header,
    an optional date field, either framing (generated content-length, or chunked with any non-empty chunks) — is read back
    by khttp's own client path exactly: `Response::parse` accepts the bytes and reports that status code, reason, HTTP/1.1
    and the header collection obtained from the printed fields in order; and the body reader that `from_response` selects
    from that collection, fed with the remaining bytes under ANY split between the head buffer and the stream, ANY
    segmentation of the stream and ANY schedule of caller reads, through `Read` and through `BufRead`, delivers exactly the
    body and then end-of-body without setting the failure flag. -/
theorem response_roundtrip (code : Nat) (reason : Bytes) (user : List (Bytes × Bytes)) (date : Option Bytes)
    (fr : Framing) (lo : 100 ≤ code) (hi : code ≤ 999) (hr : reasonOk reason = true) (hu : wfFields user = true)
    (hn : noFramingName user = true) (hd : ∀ v, date = some v → noCRLF v = true) (hw : framingWf fr = true)
    (hsz : match fr with | .length b => b.length < 2 ^ 64 | .chunked cs => ∀ c ∈ cs, c.length < 2 ^ 64) :
    ∃ r, Response.parse (renderResponse code reason user date fr) = .ok r ∧
      r.version = 1 ∧ r.code = code ∧ r.reason = reason ∧
      r.headers = Spec.collect ((allFields user date fr).map asLine) ∧
      r.off = (renderHead (statusStart code reason) (allFields user date fr)).length ∧
      ∀ (lo' stream : Bytes) (segs s1 s2 : List Nat),
        lo' ++ stream = (renderResponse code reason user date fr).drop r.off →
        let rd := BodyReader.fromResponse lo' { data := stream, segs := segs } r.headers.chunked r.headers.cl
        Yields (runRead' rd s1) fr.body .eof false ∧ Yields (runBuf' rd s2) fr.body .eof false := by
  have hwf := wfFields_allFields user date fr hu hd
  have hparse := response_head_roundtrip code reason (allFields user date fr) (encodeBody fr) lo hi hr hwf
  refine ⟨_, hparse, rfl, rfl, rfl, rfl, rfl, ?_⟩
  intro lo' stream segs s1 s2 hsplit
  have hdrop : (renderResponse code reason user date fr).drop
      (renderHead (statusStart code reason) (allFields user date fr)).length = encodeBody fr := by
    simp [renderResponse, renderMessage]
  simp only [hdrop] at hsplit
  cases fr with
  | length b =>
    obtain ⟨hcl, hch⟩ := collect_length user date b hn hsz
    simp only [hcl, hch]
    have e : BodyReader.fromResponse lo' { data := stream, segs := segs } false (some b.length)
        = BodyReader.fromRequest lo' { data := stream, segs := segs } false (some b.length) := by
      simp [BodyReader.fromResponse, BodyReader.fromRequest]
    rw [e]
    exact C06_fixed_exact b [] lo' stream segs s1 s2 (by simpa [encodeBody, Khttp.Spec.Chunked.encodeFixed] using hsplit)
  | chunked cs =>
    have hch := collect_chunked user date cs hn
    simp only [hch]
    have e : BodyReader.fromResponse lo' { data := stream, segs := segs } true
        (Spec.collect ((allFields user date (.chunked cs)).map asLine)).cl
        = BodyReader.newChunked lo' { data := stream, segs := segs } := by
      simp [BodyReader.fromResponse]
    rw [e]
    have hne : ∀ d ∈ cs, d ≠ [] := by
      intro d hdm
      have := List.all_eq_true.1 hw d hdm
      simpa using this
    have := C06_chunked_exact hexNumeral numeral_hexNumeral cs [] [] hne (by simpa [usizeLimit] using hsz)
      (by simp) (by simp) [] lo' stream segs s1 s2
      (by rw [hsplit]; simp [encodeBody, encodeChunkedPlain_eq])
    simpa [Framing.body] using this

/-! ## The other direction: what the client prints for a request, the server's request parser reads back -/

theorem filter_cl_nil : ∀ (fs : List (Bytes × Bytes)), noFramingName fs = true →
    (fs.map asLine).filter (fun f => eqIgnoreCase f.1 (str "content-length")) = [] ∧
    (fs.map asLine).filter (fun f => eqIgnoreCase f.1 (str "transfer-encoding")) = [] := by
  intro fs
  induction fs with
  | nil => intro _; exact ⟨rfl, rfl⟩
  | cons f fs ih =>
    intro hn
    have hrest : noFramingName fs = true := by
      simp only [noFramingName, List.all_cons, Bool.and_eq_true] at hn ⊢; exact hn.2
    have hf : isFramingField f = false := by
      simp only [noFramingName, List.all_cons, Bool.and_eq_true, Bool.not_eq_true'] at hn; exact hn.1
    simp only [isFramingField, Bool.or_eq_false_iff, isCL, isTE] at hf
    obtain ⟨i1, i2⟩ := ih hrest
    have e1 : eqIgnoreCase f.1 (str "content-length") = false := hf.1
    have e2 : eqIgnoreCase f.1 (str "transfer-encoding") = false := hf.2
    simp only [List.map_cons, asLine, List.filter_cons, e1, e2, Bool.false_eq_true, ↓reduceIte]
    exact ⟨i1, i2⟩

theorem digit_not_ows : ∀ b : UInt8, isDigit b = true → Spec.isOws b = false := by
  apply Hdr.forall_uint8; decide +kernel

theorem trimOws_sp_digits (ds : Bytes) (h : ds.all isDigit = true) : Spec.trimOws (SP :: ds) = ds := by
  have hall : ∀ b ∈ ds, Spec.isOws b = false := fun b hb => digit_not_ows b (List.all_eq_true.1 h b hb)
  have e1 : ∀ l : Bytes, (∀ b ∈ l, Spec.isOws b = false) → l.dropWhile Spec.isOws = l := by
    intro l hl
    cases l with
    | nil => rfl
    | cons a t => simp [List.dropWhile, hl a (by simp)]
  have hsp : Spec.isOws SP = true := by decide
  unfold Spec.trimOws
  simp only [List.dropWhile, hsp, e1 ds hall]
  rw [e1 ds.reverse (fun b hb => hall b (List.mem_reverse.1 hb)), List.reverse_reverse]

/-- the header section the printer generates is valid request framing in the sense of RFC 9112 §6.3 (`Spec.framingOk`) -/
theorem framingOk_printed (user : List (Bytes × Bytes)) (date : Option Bytes) (fr : Framing)
    (hn : noFramingName user = true) (hsz : ∀ b, fr = .length b → b.length < 2 ^ 64) :
    Spec.framingOk ((allFields user date fr).map asLine) = true := by
  have hfn : noFramingName (user ++ dateField date) = true := by
    have hd : ∀ v, isFramingField (str "date", v) = false := by
      intro v; simp only [isFramingField, isCL, isTE]; decide +kernel
    cases date with
    | none => simpa [dateField] using hn
    | some v =>
      simp only [noFramingName, dateField, List.all_append, List.all_cons, List.all_nil, Bool.and_true,
        Bool.and_eq_true, Bool.not_eq_true'] at hn ⊢
      exact ⟨hn, hd v⟩
  obtain ⟨f1, f2⟩ := filter_cl_nil (user ++ dateField date) hfn
  unfold Spec.framingOk Spec.clValues Spec.finalCodingChunked Spec.teLines allFields
  rw [List.map_append, List.filter_append, List.filter_append, f1, f2]
  cases fr with
  | length b =>
    have hb := hsz b rfl
    obtain ⟨hv, hd⟩ := Printer.decNumeral_spec b.length
    have c1 : eqIgnoreCase Khttp.Spec.Message.CONTENT_LENGTH (str "content-length") = true := by decide +kernel
    have c2 : eqIgnoreCase Khttp.Spec.Message.CONTENT_LENGTH (str "transfer-encoding") = false := by decide +kernel
    simp only [List.map_cons, List.map_nil, framingField, clField, asLine, List.filter_cons, List.filter_nil, c1, c2,
      ↓reduceIte, List.nil_append, Bool.false_eq_true, List.getLast?_nil, Bool.and_true, trimOws_sp_digits _ hd,
      List.all_cons, List.all_nil, hd]
    have hne : (decNumeral b.length != []) = true := by
      simpa using Printer.decNumeral_ne_nil b.length
    have hdec : Spec.decimal (decNumeral b.length) = b.length := by simpa [Spec.decimal, decVal] using hv
    simp [hne, hdec, hb]
  | chunked cs =>
    have c1 : eqIgnoreCase Khttp.Spec.Message.TRANSFER_ENCODING (str "content-length") = false := by decide +kernel
    have c2 : eqIgnoreCase Khttp.Spec.Message.TRANSFER_ENCODING (str "transfer-encoding") = true := by decide +kernel
    simp only [List.map_cons, List.map_nil, framingField, teField, asLine, List.filter_cons, List.filter_nil, c1, c2,
      ↓reduceIte, List.nil_append, Bool.false_eq_true, List.all_nil, Bool.true_and]
    decide +kernel

open Khttp.Body in
/-- **Round trip, request.**  What `HttpPrinter::write_request` renders — an alphabetic method, a target of one of the four
    forms, user fields with token names and field-value bytes none of which names a framing header, optional date, either
    framing — the server's `Request::parse` accepts, reporting that method, that target with its path / query split,
    HTTP/1.1, the header collection of the printed fields and a head length equal to the rendered head; and the body reader
    `from_request` selects from that collection delivers exactly the body under any split, segmentation and read schedule,
    through `Read` and `BufRead`. -/
theorem request_roundtrip (m : Bytes) (t : Spec.Target) (user : List (Bytes × Bytes)) (date : Option Bytes) (fr : Framing)
    (hm : m ≠ [] ∧ m.all isAlpha = true) (ht : t.Wf = true)
    (hu : ∀ f ∈ allFields user date fr, Spec.WfRfcLine (asLine f) = true) (hn : noFramingName user = true)
    (hw : framingWf fr = true)
    (hsz : match fr with | .length b => b.length < 2 ^ 64 | .chunked cs => ∀ c ∈ cs, c.length < 2 ^ 64) :
    ∃ r, Request.parse (renderRequest m t.bytes user date fr) = .ok r ∧
      r.method = Spec.methodOf m ∧ r.uri.full = t.bytes ∧ r.uri.path = .ok t.path ∧ r.uri.query = .ok t.query ∧
      r.version = 1 ∧ r.headers = Spec.collect ((allFields user date fr).map asLine) ∧
      r.off = (renderHead (requestStart m t.bytes) (allFields user date fr)).length ∧
      ∀ (lo' stream : Bytes) (segs s1 s2 : List Nat),
        lo' ++ stream = (renderRequest m t.bytes user date fr).drop r.off →
        let rd := BodyReader.fromRequest lo' { data := stream, segs := segs } r.headers.chunked r.headers.cl
        Yields (runRead' rd s1) fr.body .eof false ∧ Yields (runBuf' rd s2) fr.body .eof false := by
  let h : Spec.RfcHead := ⟨m, t, 0x31, (allFields user date fr).map asLine⟩
  have hfr : Spec.framingOk ((allFields user date fr).map asLine) = true :=
    framingOk_printed user date fr hn (by intro b hb; subst hb; exact hsz)
  have hwf : h.Wf = true := by
    simp only [Spec.RfcHead.Wf, Bool.and_eq_true, bne_iff_ne, ne_eq, h]
    refine ⟨⟨⟨⟨⟨hm.1, hm.2⟩, ht⟩, by decide⟩, ?_⟩, hfr⟩
    rw [List.all_eq_true]
    intro l hl
    obtain ⟨f, hfm, rfl⟩ := List.mem_map.1 hl
    exact hu f hfm
  have hrender : Spec.render h.toHead = renderHead (requestStart m t.bytes) (allFields user date fr) := by
    have e1 : str "HTTP/1.1" = str "HTTP/1." ++ [(0x31 : UInt8)] := by decide +kernel
    simp only [Spec.render, Spec.requestLine, Spec.RfcHead.toHead, renderHead, requestStart, flatMap_fieldLine, e1,
      Spec.CRLF, Khttp.Spec.Message.CRLF, List.append_assoc, h]
  obtain ⟨r, hp, hoff, hmeth, hfull, hpath, hquery, hver, hhdr⟩ := C02_accepts_exactly h hwf (encodeBody fr)
  have hwire : renderRequest m t.bytes user date fr = Spec.render h.toHead ++ encodeBody fr := by
    rw [hrender]; simp [renderRequest, renderMessage]
  have hv1 : r.version = 1 := by
    have : r.version.toNat + 48 = 49 := hver
    have : r.version.toNat = 1 := by omega
    exact UInt8.toNat_inj.1 (by simpa using this)
  refine ⟨r, by rw [hwire]; exact hp, hmeth, hfull, hpath, hquery, hv1, hhdr, by rw [hoff, hrender], ?_⟩
  intro lo' stream segs s1 s2 hsplit
  have hdrop : (renderRequest m t.bytes user date fr).drop r.off = encodeBody fr := by
    rw [hwire, hoff]; simp
  rw [hdrop] at hsplit
  rw [hhdr]
  cases fr with
  | length b =>
    obtain ⟨hcl, hch⟩ := collect_length user date b hn hsz
    simp only [h, hcl, hch]
    exact C06_fixed_exact b [] lo' stream segs s1 s2 (by simpa [encodeBody, Khttp.Spec.Chunked.encodeFixed] using hsplit)
  | chunked cs =>
    have hch := collect_chunked user date cs hn
    simp only [h, hch]
    have e : BodyReader.fromRequest lo' { data := stream, segs := segs } true
        (Spec.collect ((allFields user date (.chunked cs)).map asLine)).cl
        = BodyReader.newChunked lo' { data := stream, segs := segs } := by
      simp [BodyReader.fromRequest]
    rw [e]
    have hne : ∀ d ∈ cs, d ≠ [] := by
      intro d hdm
      have := List.all_eq_true.1 hw d hdm
      simpa using this
    have := C06_chunked_exact hexNumeral numeral_hexNumeral cs [] [] hne (by simpa [usizeLimit] using hsz)
      (by simp) (by simp) [] lo' stream segs s1 s2
      (by rw [hsplit]; simp [encodeBody, encodeChunkedPlain_eq])
    simpa [Framing.body] using this

/-! ## Non-vacuity: concrete messages satisfying the hypotheses -/

/-- a chunked response with a user field and a date -/
example : reasonOk (str "NOT FOUND") = true ∧ wfFields [(str "x-a", str "1 2")] = true ∧
    noFramingName [(str "x-a", str "1 2")] = true ∧ framingWf (.chunked [str "abc", str "de"]) = true ∧
    noCRLF (str "Thu, 01 Jan 1970 00:00:00 GMT") = true := by decide +kernel

/-- … and what the theorem says about it, evaluated: the parser reads back code, reason and the header collection -/
example : (match Response.parse (renderResponse 404 (str "NOT FOUND") [(str "x-a", str "1 2")]
      (some (str "Thu, 01 Jan 1970 00:00:00 GMT")) (.chunked [str "abc", str "de"])) with
    | .ok r => (r.code, r.reason == str "NOT FOUND", r.headers.chunked, r.headers.cl, r.headers.fields.length)
    | _ => (0, false, false, none, 0)) = (404, true, true, none, 3) := by decide +kernel

/-- an absolute-form POST with a fixed-length body -/
example : (Spec.Target.absolute (str "http") (str "h:80") (str "/a/b") (some (str "x=1"))).Wf = true ∧
    (∀ f ∈ allFields [(str "Host", str "h")] none (.length (str "hello")), Spec.WfRfcLine (asLine f) = true) ∧
    noFramingName [(str "Host", str "h")] = true := by decide +kernel

/-- the theorem instantiated on that request (the SWAR scanners of the request parser do not reduce under `decide`, so the
    instance is obtained from the theorem rather than by evaluation) -/
example : ∃ r, Request.parse (renderRequest (str "POST") (Spec.Target.absolute (str "http") (str "h:80") (str "/a/b")
      (some (str "x=1"))).bytes [(str "Host", str "h")] none (.length (str "hello"))) = .ok r ∧
    r.method = .post ∧ r.version = 1 := by
  obtain ⟨r, hp, hm, _, _, _, hv, _⟩ := request_roundtrip (str "POST")
    (Spec.Target.absolute (str "http") (str "h:80") (str "/a/b") (some (str "x=1"))) [(str "Host", str "h")] none
    (.length (str "hello")) (by decide +kernel) (by decide +kernel) (by decide +kernel) (by decide +kernel)
    (by decide +kernel) (by decide +kernel)
  exact ⟨r, hp, by rw [hm]; decide +kernel, hv⟩

end Khttp.RoundTrip
