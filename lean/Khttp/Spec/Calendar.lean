/-
  Independent specification of the proleptic Gregorian calendar and of the IMF-fixdate `Date:` header line
  (RFC 9110 §5.6.7), written without reference to the algorithm in `/repo/src/date.rs`:
  day numbers are defined by *plain summation* of year lengths and month lengths.
  No Mathlib.
-/
import Khttp.Model.Basic

namespace Khttp.Spec.Calendar
open Khttp

/-- Gregorian leap-year rule. -/
def isLeap (y : Nat) : Bool := (y % 4 == 0 && y % 100 != 0) || y % 400 == 0

def daysInYear (y : Nat) : Nat := if isLeap y then 366 else 365

/-- length of month `m` (1 = January … 12 = December); `leap` says whether the year is a leap year -/
def monthLen (leap : Bool) : Nat → Nat
  | 1 => 31 | 2 => if leap then 29 else 28 | 3 => 31 | 4 => 30 | 5 => 31 | 6 => 30
  | 7 => 31 | 8 => 31 | 9 => 30 | 10 => 31 | 11 => 30 | 12 => 31
  | _ => 0

def daysInMonth (y m : Nat) : Nat := monthLen (isLeap y) m

/-- `y-m-d` is a date of the proleptic Gregorian calendar -/
def validDate (y m d : Nat) : Prop := 1 ≤ m ∧ m ≤ 12 ∧ 1 ≤ d ∧ d ≤ daysInMonth y m

instance (y m d : Nat) : Decidable (validDate y m d) := by unfold validDate; infer_instance

/-- number of days in the years `0 … y-1`, i.e. from 0000-01-01 to `y`-01-01 (sum of the year lengths) -/
def daysFromY0 : Nat → Nat
  | 0 => 0
  | y + 1 => daysFromY0 y + daysInYear y

/-- days from 1970-01-01 to `y`-01-01 (negative before 1970) -/
def daysBeforeYear (y : Nat) : Int := (daysFromY0 y : Int) - (daysFromY0 1970 : Int)

/-- number of days in the months `1 … m-1` of a (leap / common) year (sum of the month lengths) -/
def daysBeforeMonthL (leap : Bool) : Nat → Nat
  | 0 => 0
  | m + 1 => daysBeforeMonthL leap m + monthLen leap m

def daysBeforeMonth (y m : Nat) : Nat := daysBeforeMonthL (isLeap y) m

/-- day number of `y-m-d`, counted from 1970-01-01 = 0 -/
def civilToDays (y m d : Nat) : Int :=
  daysBeforeYear y + (daysBeforeMonth y m : Int) + ((d : Int) - 1)

/-- weekday of day number `n`: 0 = Sunday … 6 = Saturday (1970-01-01, day 0, was a Thursday) -/
def weekday (n : Int) : Nat := ((n + 4) % 7).toNat

/-- ASCII text as bytes -/
def ascii (cs : List Char) : Bytes := cs.map Char.toUInt8

def wdayName : Nat → Bytes
  | 0 => ascii ['S','u','n'] | 1 => ascii ['M','o','n'] | 2 => ascii ['T','u','e']
  | 3 => ascii ['W','e','d'] | 4 => ascii ['T','h','u'] | 5 => ascii ['F','r','i']
  | 6 => ascii ['S','a','t'] | _ => []

def monName : Nat → Bytes
  | 1 => ascii ['J','a','n'] | 2 => ascii ['F','e','b'] | 3 => ascii ['M','a','r']
  | 4 => ascii ['A','p','r'] | 5 => ascii ['M','a','y'] | 6 => ascii ['J','u','n']
  | 7 => ascii ['J','u','l'] | 8 => ascii ['A','u','g'] | 9 => ascii ['S','e','p']
  | 10 => ascii ['O','c','t'] | 11 => ascii ['N','o','v'] | 12 => ascii ['D','e','c']
  | _ => []

/-- ASCII digit of `k` (`k < 10`) -/
def digit (k : Nat) : UInt8 := UInt8.ofNat (48 + k)

/-- `n` in decimal, exactly `w` digits, zero padded (the digit of weight `10^i` is `n / 10^i % 10`) -/
def dec : (w : Nat) → (n : Nat) → Bytes
  | 0, _ => []
  | w + 1, n => dec w (n / 10) ++ [digit (n % 10)]

/-- `date: <Day>, DD Mon YYYY HH:MM:SS GMT\r\n` -/
def fixdateLine (wd y m d hh mm ss : Nat) : Bytes :=
  ascii ['d','a','t','e',':',' '] ++ wdayName wd ++ ascii [',',' '] ++ dec 2 d ++ ascii [' '] ++ monName m
    ++ ascii [' '] ++ dec 4 y ++ ascii [' '] ++ dec 2 hh ++ ascii [':'] ++ dec 2 mm ++ ascii [':'] ++ dec 2 ss
    ++ ascii [' ','G','M','T','\r','\n']

/-- `text` is the IMF-fixdate `date:` line of the UTC second `secs` (seconds since 1970-01-01T00:00:00Z):
    the calendar date is the valid date whose day number is `secs / 86400` (unique: `civilToDays_injective`
    in `Props/C18.lean`), the time of day is the base-60 expansion of `secs % 86400`. -/
def IsFixdate (secs : Int) (text : Bytes) : Prop :=
  ∃ y m d hh mm ss : Nat,
    validDate y m d ∧ civilToDays y m d = secs / 86400 ∧
    (hh * 3600 + mm * 60 + ss : Int) = secs % 86400 ∧ mm < 60 ∧ ss < 60 ∧
    text = fixdateLine (weekday (secs / 86400)) y m d hh mm ss

end Khttp.Spec.Calendar
