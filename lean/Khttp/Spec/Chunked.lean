/-
  Specification of the two body encodings of HTTP/1.1 (RFC 9112 §6, §7.1) — the trusted definition of "a valid
  encoding of a payload" used by property C06.  Independent of the reader's algorithm.

    chunked-body = *chunk last-chunk trailer-section CRLF
    chunk        = chunk-size [ chunk-ext ] CRLF chunk-data CRLF        (chunk-size = 1*HEXDIG, value > 0)
    last-chunk   = 1*"0" [ chunk-ext ] CRLF
    trailer-section = *( field-line CRLF )

  The fixed-length encoding of a payload is the payload itself.
  No Mathlib.
-/
import Khttp.Model.Basic
namespace Khttp.Spec.Chunked
open Khttp

def CRLF : Bytes := [CR, LF]
def SEMI : UInt8 := 0x3b

def lowerDigits : Bytes := str "0123456789abcdef"
def upperDigits : Bytes := str "0123456789ABCDEF"

/-- value of one HEXDIG (either case), `none` for any other byte -/
def digitValue? (b : UInt8) : Option Nat :=
  let i := lowerDigits.idxOf b
  if i < 16 then some i
  else
    let j := upperDigits.idxOf b
    if j < 16 then some j else none

/-- value of a non-empty string of HEXDIGs (most significant digit first, leading zeros allowed);
`none` for the empty string and for strings containing any other byte -/
def numeral? (ds : Bytes) : Option Nat :=
  if ds.isEmpty then none
  else ds.foldl (fun acc b => match acc, digitValue? b with
                  | some a, some v => some (a * 16 + v)
                  | _, _ => none) (some 0)

/-- one chunk as sent -/
structure Chunk where
  /-- the chunk-size field -/
  size : Bytes
  /-- the text after `;` on the size line (may itself contain further `;`), if there is a chunk extension -/
  ext : Option Bytes
  data : Bytes
  deriving Repr, DecidableEq

/-- text allowed inside a chunk extension or a trailer line: ASCII without LF
(a superset of what RFC 9112 allows; in particular every `name: value` field line qualifies) -/
def lineText (t : Bytes) : Bool := t.all fun b => b < 0x80 && b != LF

def extOk : Option Bytes → Bool
  | none => true
  | some e => lineText e

/-- a data chunk: non-empty data, the size field denotes the data length -/
def Chunk.Valid (c : Chunk) : Prop :=
  c.data ≠ [] ∧ numeral? c.size = some c.data.length ∧ extOk c.ext = true

/-- a trailer line (without its CRLF): non-empty ASCII text without LF -/
def trailerOk (t : Bytes) : Bool := !t.isEmpty && lineText t

def sizeLine (size : Bytes) (ext : Option Bytes) : Bytes :=
  size ++ (match ext with | none => [] | some e => SEMI :: e) ++ CRLF

def encodeChunk (c : Chunk) : Bytes := sizeLine c.size c.ext ++ c.data ++ CRLF

def encodeChunks (cs : List Chunk) : Bytes := (cs.map encodeChunk).flatten

def encodeTrailers (ts : List Bytes) : Bytes := (ts.map fun t => t ++ CRLF).flatten

/-- the part after the last data chunk: last-chunk, trailer section, final CRLF -/
def encodeEnd (lastSize : Bytes) (lastExt : Option Bytes) (trailers : List Bytes) : Bytes :=
  sizeLine lastSize lastExt ++ encodeTrailers trailers ++ CRLF

/-- the general form of a chunked body -/
def encode (cs : List Chunk) (lastSize : Bytes) (lastExt : Option Bytes) (trailers : List Bytes) : Bytes :=
  encodeChunks cs ++ encodeEnd lastSize lastExt trailers

/-- validity of the general form -/
structure Valid (cs : List Chunk) (lastSize : Bytes) (lastExt : Option Bytes) (trailers : List Bytes) : Prop where
  chunks : ∀ c ∈ cs, c.Valid
  last : numeral? lastSize = some 0
  lastExt : extOk lastExt = true
  trailers : ∀ t ∈ trailers, trailerOk t = true

/-- the payload carried by a chunked body -/
def payload (cs : List Chunk) : Bytes := (cs.map (·.data)).flatten

/-! ### The simple interface: payload chunks, extensions, trailers, and a rendering of sizes -/

/-- little-endian digits of `n` (empty for 0); `fuel ≥ n` suffices -/
def digitsRev (alphabet : Bytes) : Nat → Nat → Bytes
  | 0, _ => []
  | fuel + 1, n => if n = 0 then [] else alphabet.getD (n % 16) 0x30 :: digitsRev alphabet fuel (n / 16)

/-- canonical hexadecimal numeral without leading zeros -/
def render (alphabet : Bytes) (n : Nat) : Bytes :=
  if n = 0 then [alphabet.getD 0 0x30] else (digitsRev alphabet n n).reverse

def hexLower : Nat → Bytes := render lowerDigits
def hexUpper : Nat → Bytes := render upperDigits

/-- an empty extension text means "no extension" -/
def optExt : Option Bytes → Option Bytes
  | some e => if e.isEmpty then none else some e
  | none => none

/-- chunk `i` carries extension `exts[i]` (none when `exts` is too short or `exts[i]` is empty) -/
def mkChunks (hexOf : Nat → Bytes) : List Bytes → List Bytes → List Chunk
  | [], _ => []
  | d :: ds, exts => { size := hexOf d.length, ext := optExt exts.head?, data := d } :: mkChunks hexOf ds exts.tail

/-- `chunks` (each non-empty) sent with sizes rendered by `hexOf`; `exts[chunks.length]` is the extension of the
last-chunk line; `trailers` are the trailer lines without CRLF -/
def encodeChunkedWith (hexOf : Nat → Bytes) (chunks exts trailers : List Bytes) : Bytes :=
  encode (mkChunks hexOf chunks exts) (hexOf 0) (optExt (exts.drop chunks.length).head?) trailers

def encodeChunked (chunks exts trailers : List Bytes) : Bytes := encodeChunkedWith hexLower chunks exts trailers

/-- the fixed-length encoding -/
def encodeFixed (payload : Bytes) : Bytes := payload

end Khttp.Spec.Chunked
