/-
  Vocabulary for C05 / C09: names for the pieces of one request's handling that the theorems talk about
  (user code is a parameter of the model, these only apply it).
-/
import Khttp.Model.Conn
namespace Khttp
open Khttp.Body Khttp.Router

/-- what the pre-routing hook decides for a parsed request (no hook configured: proceed) -/
def hookOf (cfg : Cfg) (req : Request) : HookOut :=
  match cfg.hook with
  | some h => h req
  | none => .proceed

/-- the body reader khttp builds for a parsed request: `buf` = the bytes buffered while reading the head,
    `s1` = the socket after the head was read -/
def bodyOf (ok : ReadOk) (s1 : Sock) : BodyReader :=
  BodyReader.fromRequest (ok.buf.drop ok.req.off) s1.toSrc ok.req.headers.chunked ok.req.headers.cl

/-- routing + the call of the user's handler (or of the fallback handler) with the body reader -/
def handlerCall (cfg : Cfg) (req : Request) (body : BodyReader) : HandlerOut :=
  let path := match req.uri.path with
    | .ok p => p
    | _ => []
  let m := (build cfg.routes).matchRoute req.method path
  (match m.1 with
   | some i => cfg.handler i
   | none => cfg.fallback) req m.2 body

/-- all handlers of the configuration use the body reader only through its public interface -/
def Cfg.HandlersUseApi (cfg : Cfg) : Prop :=
  (∀ i, (cfg.handler i).UsesBodyViaApi) ∧ cfg.fallback.UsesBodyViaApi

/-- `cs` is a run of `handle_one_request` calls on a connection that starts with socket `s`: each call starts on
    the socket the previous one left, and every call but the last returned keep-alive without blocking -/
def IsCallRun (cfg : Cfg) : Sock → List OneOut → Prop
  | _, [] => False
  | s, [o] => o = handleOne cfg s
  | s, o :: o' :: rest => o = handleOne cfg s ∧ o.keep = true ∧ o.hang = false ∧ IsCallRun cfg o.sock (o' :: rest)

end Khttp
