/-
  SPEC: RFC 9112 §6.3 — how long is the body of a REQUEST, read off its field lines (independent of the code).
-/
import Khttp.Spec.Head
namespace Khttp.Spec

inductive Framing where
  | chunked             -- Transfer-Encoding present, final coding chunked: chunked body (overrides any Content-Length)
  | fixed (n : Nat)     -- no Transfer-Encoding; every Content-Length value is the same valid number n
  | empty               -- neither field: no body
  | invalid             -- the message cannot be framed: must be rejected with 400 and the connection closed
  deriving Repr, DecidableEq

/-- `framingOk` (Khttp/Spec/Head.lean): every Content-Length value is the same `1*DIGIT` number < 2^64 and a
    Transfer-Encoding, if present, ends in `chunked`. -/
def framingOf (fs : List (Bytes × Bytes)) : Framing :=
  if !framingOk fs then .invalid
  else if !(teLines fs).isEmpty then .chunked
  else match clValues fs with
    | [] => .empty
    | d :: _ => .fixed (decimal d)

end Khttp.Spec
