/-
  SPEC (independent of the code): what a request head *is* on the wire, and what a parser must
  report for it.  `render` is the only definition of the wire format used by the C02/C03/C04
  theorems; `WfStrict` is the well-formedness that C04 demands of every accepted head;
  `WfRfc` is the (stronger) RFC 9112 / RFC 3986 grammar that C02 demands be accepted.
-/
import Khttp.Model.Basic
import Khttp.Model.Headers
import Khttp.Model.Method
namespace Khttp.Spec
open Khttp

structure Head where
  method : Bytes
  target : Bytes
  /-- the minor version digit as it appears on the wire: `'0'` or `'1'` -/
  minor : UInt8
  /-- field lines: (name, raw text between ':' and CRLF) -/
  fields : List (Bytes × Bytes)
  deriving Repr, DecidableEq

def CRLF : Bytes := [CR, LF]

def renderLine (f : Bytes × Bytes) : Bytes := f.1 ++ [COLON] ++ f.2 ++ CRLF

def renderLines (fs : List (Bytes × Bytes)) : Bytes := fs.flatMap renderLine

def requestLine (h : Head) : Bytes :=
  h.method ++ [SP] ++ h.target ++ [SP] ++ str "HTTP/1." ++ [h.minor] ++ CRLF

/-- the wire form: `method SP target SP HTTP/1.x CRLF *(name ":" raw CRLF) CRLF` -/
def render (h : Head) : Bytes := requestLine h ++ renderLines h.fields ++ CRLF

/-- RFC 9110 `tchar` (written out here, *not* taken from the code's table) -/
def isTchar (b : UInt8) : Bool :=
  isAlpha b || isDigit b ||
  b == 0x21 || b == 0x23 || b == 0x24 || b == 0x25 || b == 0x26 || b == 0x27 || b == 0x2a ||
  b == 0x2b || b == 0x2d || b == 0x2e || b == 0x5e || b == 0x5f || b == 0x60 || b == 0x7c || b == 0x7e

/-- visible ASCII: no whitespace, no control byte, no byte ≥ 0x80 -/
def isVchar (b : UInt8) : Bool := 0x21 ≤ b && b ≤ 0x7e

def WfLine (f : Bytes × Bytes) : Prop :=
  f.1 ≠ [] ∧ (∀ b ∈ f.1, isTchar b = true) ∧ LF ∉ f.2

/-- C04: what every *accepted* head must satisfy -/
def WfStrict (h : Head) : Prop :=
  h.method ≠ [] ∧ (∀ b ∈ h.method, isAlpha b = true) ∧
  h.target ≠ [] ∧ (∀ b ∈ h.target, isVchar b = true) ∧
  (h.minor = 0x30 ∨ h.minor = 0x31) ∧
  ∀ f ∈ h.fields, WfLine f

/-- what the parser must hand to the header collection: every line, in order, leading
    whitespace removed from the value (the collection itself is the subject of C19) -/
def collect (fs : List (Bytes × Bytes)) : Headers :=
  fs.foldl (fun h f => h.add f.1 (trimStart f.2)) Headers.new

/-- the request method a token denotes (the eight registered names, otherwise an extension method) -/
def methodOf (mb : Bytes) : Method :=
  if mb = str "GET" then .get else if mb = str "POST" then .post
  else if mb = str "HEAD" then .head else if mb = str "PUT" then .put
  else if mb = str "PATCH" then .patch else if mb = str "DELETE" then .delete
  else if mb = str "OPTIONS" then .options else if mb = str "TRACE" then .trace
  else .custom mb

-- ------------------------------------------------------------------ RFC 3986 / RFC 9112 §3.2 targets

def isUnreserved (b : UInt8) : Bool := isAlpha b || isDigit b || b == 0x2d || b == 0x2e || b == 0x5f || b == 0x7e
def isSubDelim (b : UInt8) : Bool :=
  b == 0x21 || b == 0x24 || b == 0x26 || b == 0x27 || b == 0x28 || b == 0x29 || b == 0x2a ||
  b == 0x2b || b == 0x2c || b == 0x3b || b == 0x3d
/-- `pchar`, with `%` standing for pct-encoded (a superset: any `%` is admitted) -/
def isPchar (b : UInt8) : Bool := isUnreserved b || isSubDelim b || b == 0x25 || b == 0x3a || b == 0x40
/-- bytes of `path-abempty` / `absolute-path`: pchar or '/' -/
def isPathByte (b : UInt8) : Bool := isPchar b || b == SLASH
/-- bytes of `query`: pchar, '/' or '?' -/
def isQueryByte (b : UInt8) : Bool := isPchar b || b == SLASH || b == QMARK
/-- bytes of `authority` (userinfo, host incl. IP-literal brackets, port): no '/', '?', '#' -/
def isAuthorityByte (b : UInt8) : Bool :=
  isUnreserved b || isSubDelim b || b == 0x25 || b == 0x3a || b == 0x40 || b == 0x5b || b == 0x5d
def isSchemeByte (b : UInt8) : Bool := isAlpha b || isDigit b || b == 0x2b || b == 0x2d || b == 0x2e

/-- The four request-target forms, decomposed.  `query = none` means no `?`. -/
inductive Target where
  /-- origin-form: `absolute-path [ "?" query ]`; `path` starts with '/' -/
  | origin (path : Bytes) (query : Option Bytes)
  /-- absolute-form (http-style): `scheme "://" authority path-abempty [ "?" query ]` -/
  | absolute (scheme authority path : Bytes) (query : Option Bytes)
  /-- authority-form: `host ":" port` (CONNECT) -/
  | authority (a : Bytes)
  /-- asterisk-form -/
  | asterisk
  deriving Repr, DecidableEq

def queryBytes : Option Bytes → Bytes
  | none => []
  | some q => QMARK :: q

def Target.bytes : Target → Bytes
  | .origin p q => p ++ queryBytes q
  | .absolute s a p q => s ++ str "://" ++ a ++ p ++ queryBytes q
  | .authority a => a
  | .asterisk => [STAR]

def wfQuery : Option Bytes → Bool
  | none => true
  | some q => q.all isQueryByte

def Target.Wf : Target → Bool
  | .origin p q => p.head? == some SLASH && p.all isPathByte && wfQuery q
  | .absolute s a p q =>
      (match s with | [] => false | c :: cs => isAlpha c && cs.all isSchemeByte) &&
      a != [] && a.all isAuthorityByte &&
      (p == [] || p.head? == some SLASH) && p.all isPathByte && wfQuery q
  | .authority a => a != [] && a.all isAuthorityByte && a.head? != some STAR
  | .asterisk => true

/-- the path the parser must report -/
def Target.path : Target → Bytes
  | .origin p _ => p
  | .absolute _ _ p _ => p
  | .authority _ => []
  | .asterisk => [STAR]

/-- the query the parser must report -/
def Target.query : Target → Option Bytes
  | .origin _ q => q
  | .absolute _ _ _ q => q
  | .authority _ => none
  | .asterisk => none

/-- RFC 9110 field-value bytes: VCHAR, obs-text, SP, HTAB (so: no CR, LF, NUL, other controls) -/
def isFieldValueByte (b : UInt8) : Bool := b == SP || b == HT || (0x21 ≤ b && b != 0x7f)

def WfRfcLine (f : Bytes × Bytes) : Bool :=
  f.1 != [] && f.1.all isTchar && f.2.all isFieldValueByte

def isOws (b : UInt8) : Bool := b == SP || b == HT
def trimOws (v : Bytes) : Bytes := ((v.dropWhile isOws).reverse.dropWhile isOws).reverse

/-- the decimal number a `1*DIGIT` string denotes -/
def decimal (d : Bytes) : Nat := d.foldl (fun a b => a * 10 + (b.toNat - 48)) 0

/-- RFC 9112 §6.3 validity of the framing fields of a request: every Content-Length value is the
    same `1*DIGIT` number below 2^64; a Transfer-Encoding, if present, has `chunked` as its final
    coding (last non-empty list element of the last Transfer-Encoding line). -/
def clValues (fs : List (Bytes × Bytes)) : List Bytes :=
  (fs.filter fun f => eqIgnoreCase f.1 (str "content-length")).map fun f => trimOws f.2
def teLines (fs : List (Bytes × Bytes)) : List Bytes :=
  (fs.filter fun f => eqIgnoreCase f.1 (str "transfer-encoding")).map (·.2)
def listElems (v : Bytes) : List Bytes := ((splitOn COMMA v).map trimOws).filter (· != [])
def finalCodingChunked (fs : List (Bytes × Bytes)) : Bool :=
  match (teLines fs).getLast? with
  | none => true
  | some v => match (listElems v).getLast? with
    | none => false
    | some t => eqIgnoreCase t (str "chunked")
def framingOk (fs : List (Bytes × Bytes)) : Bool :=
  (clValues fs).all (fun d => d != [] && d.all isDigit && decimal d < 2 ^ 64) &&
  (match clValues fs with | [] => true | d :: ds => ds.all (fun e => decimal e == decimal d)) &&
  finalCodingChunked fs

/-- C02: a head derivable from the RFC grammar (alphabetic method) -/
structure RfcHead where
  method : Bytes
  target : Target
  minor : UInt8
  fields : List (Bytes × Bytes)
  deriving Repr

def RfcHead.toHead (h : RfcHead) : Head := ⟨h.method, h.target.bytes, h.minor, h.fields⟩

def RfcHead.Wf (h : RfcHead) : Bool :=
  h.method != [] && h.method.all isAlpha && h.target.Wf &&
  (h.minor == 0x30 || h.minor == 0x31) && h.fields.all WfRfcLine && framingOk h.fields

end Khttp.Spec
