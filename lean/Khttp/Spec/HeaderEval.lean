/-
  SPEC for C19 (independent of the code's incremental bookkeeping): what the answers of a header
  collection *mean*, evaluated afresh

    * from the list of stored fields       (`evalChunked`, `evalClose`, `lookupLast`, `lookupAll`,
                                            `evalTeFinalNotChunked`),
    * from the sequence of calls made      (`evalFields`, `evalCl`, `evalInvalidCl`).

  A field value is read as a comma-separated list; every element is stripped of surrounding
  whitespace and compared ignoring ASCII letter case.  "Whitespace" is a parameter `ws`:
  `isOws` (SP / HTAB, RFC 9110 §5.6.3) is what the property talks about, `isAsciiWs`
  (HT LF FF CR SP) is what the code strips.  The un-suffixed names use OWS, the names ending in
  `A` use the ASCII set.
-/
import Khttp.Model.Basic
import Khttp.Model.Headers
import Khttp.Spec.Head
namespace Khttp.Spec
open Khttp

abbrev Field := Bytes × Bytes

def CL_NAME : Bytes := str "content-length"
def TE_NAME : Bytes := str "transfer-encoding"
def CONN_NAME : Bytes := str "connection"
def CHUNKED : Bytes := str "chunked"
def CLOSE : Bytes := str "close"

-- ------------------------------------------------------------------ list-valued fields

/-- strip the bytes satisfying `ws` from both ends -/
def trimBy (ws : UInt8 → Bool) (v : Bytes) : Bytes := ((v.dropWhile ws).reverse.dropWhile ws).reverse

/-- the elements of a comma-separated list value, each stripped of surrounding whitespace -/
def elemsBy (ws : UInt8 → Bool) (v : Bytes) : List Bytes := (splitOn COMMA v).map (trimBy ws)

/-- the value has a list element equal to `tok`, ignoring letter case -/
def hasTokenBy (ws : UInt8 → Bool) (tok v : Bytes) : Bool := (elemsBy ws v).any fun e => eqIgnoreCase e tok

/-- some field called `name` (ignoring case) has a list element `tok` (ignoring case) -/
def evalFlagBy (ws : UInt8 → Bool) (name tok : Bytes) (fs : List Field) : Bool :=
  fs.any fun f => eqIgnoreCase f.1 name && hasTokenBy ws tok f.2

/-- "transfer-encoding includes chunked" -/
def evalChunkedBy (ws : UInt8 → Bool) (fs : List Field) : Bool := evalFlagBy ws TE_NAME CHUNKED fs
/-- "connection includes close" -/
def evalCloseBy (ws : UInt8 → Bool) (fs : List Field) : Bool := evalFlagBy ws CONN_NAME CLOSE fs

def evalChunked (fs : List Field) : Bool := evalChunkedBy isOws fs
def evalClose (fs : List Field) : Bool := evalCloseBy isOws fs
def evalChunkedA (fs : List Field) : Bool := evalChunkedBy isAsciiWs fs
def evalCloseA (fs : List Field) : Bool := evalCloseBy isAsciiWs fs

/-- a Transfer-Encoding field is present and the final coding (last non-empty list element of the
    last Transfer-Encoding line) is not `chunked` -/
def evalTeFinalNotChunkedBy (ws : UInt8 → Bool) (fs : List Field) : Bool :=
  match (fs.filter fun f => eqIgnoreCase f.1 TE_NAME).getLast? with
  | none => false
  | some f =>
    match ((elemsBy ws f.2).filter (· != [])).getLast? with
    | none => true
    | some t => !eqIgnoreCase t CHUNKED

def evalTeFinalNotChunked (fs : List Field) : Bool := evalTeFinalNotChunkedBy isOws fs
def evalTeFinalNotChunkedA (fs : List Field) : Bool := evalTeFinalNotChunkedBy isAsciiWs fs

-- ------------------------------------------------------------------ lookups

/-- all fields called `name` (ignoring case), in stored order -/
def lookupAll (fs : List Field) (name : Bytes) : List Field := fs.filter fun f => eqIgnoreCase f.1 name

/-- the value of the last field called `name` (ignoring case) -/
def lookupLast (fs : List Field) (name : Bytes) : Option Bytes := ((lookupAll fs name).getLast?).map (·.2)

-- ------------------------------------------------------------------ meaning of a call sequence

def isClName (n : Bytes) : Bool := eqIgnoreCase n CL_NAME

/-- the number a Content-Length value declares: `OWS 1*DIGIT OWS`, below 2^64 -/
def parseClBy (ws : UInt8 → Bool) (v : Bytes) : Option Nat :=
  let d := trimBy ws v
  if d != [] && d.all isDigit && decimal d < 2 ^ 64 then some (decimal d) else none

/-- list semantics of one call on the stored fields (Content-Length is never a stored field) -/
def stepFields (fs : List Field) : HdrOp → List Field
  | .add n v => if isClName n then fs else fs ++ [(n, v)]
  | .remove n => fs.filter fun f => !eqIgnoreCase f.1 n
  | .replace n v =>
    let fs' := fs.filter fun f => !eqIgnoreCase f.1 n
    if isClName n then fs' else fs' ++ [(n, v)]
  | .setCl _ => fs
  | .setTeChunked => fs ++ [(TE_NAME, CHUNKED)]
  | .setConnClose => fs ++ [(CONN_NAME, CLOSE)]

def evalFields (ops : List HdrOp) : List Field := ops.foldl stepFields []

/-- what a call does to the declared content length: `none` = nothing, `some x` = it becomes `x` -/
def clEffectBy (ws : UInt8 → Bool) : HdrOp → Option (Option Nat)
  | .add n v => if isClName n then some (parseClBy ws v) else none
  | .replace n v => if isClName n then some (parseClBy ws v) else none
  | .remove n => if isClName n then some none else none
  | .setCl x => some x
  | .setTeChunked => none
  | .setConnClose => none

/-- the declared content length: the effect of the last call that affects it -/
def evalClBy (ws : UInt8 → Bool) (ops : List HdrOp) : Option Nat :=
  ((ops.filterMap (clEffectBy ws)).getLast?).getD none

/-- the content-length declarations in force, most recent first: `remove`, `replace` and
    `set_content_length` discard the earlier ones, `add` keeps them -/
def stepClDecls (ws : UInt8 → Bool) (ds : List (Option Nat)) : HdrOp → List (Option Nat)
  | .add n v => if isClName n then parseClBy ws v :: ds else ds
  | .replace n v => if isClName n then [parseClBy ws v] else ds
  | .remove n => if isClName n then [] else ds
  | .setCl none => []
  | .setCl (some k) => [some k]
  | .setTeChunked => ds
  | .setConnClose => ds

def clDeclsBy (ws : UInt8 → Bool) (ops : List HdrOp) : List (Option Nat) := ops.foldl (stepClDecls ws) []

/-- the most recent declaration is not a number, or an earlier one still in force differs from it
    (equivalently, see `declsBad_eq_false_iff`: the declarations in force are not all the same number) -/
def declsBad : List (Option Nat) → Bool
  | [] => false
  | p :: older => p.isNone || older.any (· != p)

def evalInvalidClBy (ws : UInt8 → Bool) (ops : List HdrOp) : Bool := declsBad (clDeclsBy ws ops)

def evalCl (ops : List HdrOp) : Option Nat := evalClBy isOws ops
def evalInvalidCl (ops : List HdrOp) : Bool := evalInvalidClBy isOws ops
def evalClA (ops : List HdrOp) : Option Nat := evalClBy isAsciiWs ops
def evalInvalidClA (ops : List HdrOp) : Bool := evalInvalidClBy isAsciiWs ops

-- ------------------------------------------------------------------ the property's quantifier

/-- bytes of "token lists with OWS variants": tchar, SP, HTAB, comma -/
def isListByte (b : UInt8) : Bool := isTchar b || isOws b || b == COMMA

/-- bytes on which OWS and ASCII whitespace agree: everything except LF, FF, CR -/
def isPlainByte (b : UInt8) : Bool := !(b == 0x0a || b == 0x0c || b == 0x0d)

def opValue : HdrOp → Bytes
  | .add _ v => v
  | .replace _ v => v
  | _ => []

/-- all values passed in are token lists with OWS variants -/
def OpsListValued (ops : List HdrOp) : Prop := ∀ op ∈ ops, ∀ b ∈ opValue op, isListByte b = true
/-- no value passed in contains LF, FF or CR (weaker than `OpsListValued`) -/
def OpsPlain (ops : List HdrOp) : Prop := ∀ op ∈ ops, ∀ b ∈ opValue op, isPlainByte b = true

instance (ops : List HdrOp) : Decidable (OpsListValued ops) := by unfold OpsListValued; infer_instance
instance (ops : List HdrOp) : Decidable (OpsPlain ops) := by unfold OpsPlain; infer_instance

-- ------------------------------------------------------------------ normal form (case / OWS invariance)

/-- a list element up to surrounding OWS and letter case -/
def normElem (e : Bytes) : Bytes := (trimBy isOws e).map toLower

/-- a field up to letter case of the name and of the list elements and OWS around the elements -/
def normField (f : Field) : Bytes × List Bytes := (f.1.map toLower, (splitOn COMMA f.2).map normElem)

/-- the field value whose comma-separated elements are `es` (inverse of splitting at commas) -/
def joinComma : List Bytes → Bytes
  | [] => []
  | [e] => e
  | e :: e' :: rest => e ++ COMMA :: joinComma (e' :: rest)

/-- the flag evaluation on normal forms: plain equality, no case folding or trimming left to do -/
def evalFlagNorm (name tok : Bytes) (nfs : List (Bytes × List Bytes)) : Bool :=
  nfs.any fun nf => nf.1 == name && nf.2.contains tok

end Khttp.Spec
