/-
  SPEC vocabulary for C16 / C17: which incoming connections reach the setup hook, what the events of one
  connection must look like, and "a log of one of the three serve modes".
-/
import Khttp.Model.Serve
namespace Khttp

/-- number of incoming connections that are accepted (reach the setup hook): every connection up to and
    including the first one for which the setup hook says StopAccepting -/
def acceptedCount : List Incoming → Nat
  | [] => 0
  | i :: rest => if i.decision = .stopAccepting then 1 else 1 + acceptedCount rest

/-- `log` is the log of `serve`, `serve_threaded` or `serve_epoll` for these incoming connections -/
def IsServeLog (cfg : Cfg) (ins : List Incoming) (log : List HookEv) : Prop :=
  log = serveLog cfg ins ∨ log = serveThreadedLog cfg ins ∨ log = serveEpollLog cfg ins

def HookEv.isSetup : HookEv → Bool | .setup _ => true | _ => false
def HookEv.isPre : HookEv → Bool | .pre _ => true | _ => false
def HookEv.isTeardown : HookEv → Bool | .teardown _ _ => true | _ => false

/-- what the teardown hook does at the end of `handle_connection`: called once with the I/O result when the
    connection handling returned, not (yet) called while the server is still waiting for the client -/
def teardownEvents (c : Nat) (o : ConnOut) : List HookEv :=
  match o.fin with
  | .closed => [.teardown c (!o.failed)]
  | .hang => []

end Khttp
