/-
  SPEC (independent of the printer's algorithm): what a complete HTTP/1.1 message *is* on the wire
  (RFC 9112 §2.1, §4, §5, §6, §7.1), and an independent reference DECODER for it.

    message   = start-line CRLF *( field-name ":" OWS field-value OWS CRLF ) CRLF body
    body      = exactly Content-Length bytes                    (framing `length`)
              | *( HEX-size CRLF data CRLF ) "0" CRLF CRLF      (framing `chunked`: no extensions, no trailers)

  `renderMessage` is the only definition of the wire format used by the C08 theorems; `decodeResponse` /
  `decodeRequest` are what "decodes to" means.  The decoder succeeds only if the header section contains EXACTLY
  ONE framing field (a `content-length` holding `1*DIGIT`, or a `transfer-encoding` whose final coding is
  `chunked`), so `decode… = some (…, rest)` says: one self-delimiting message followed by `rest`.
  No Mathlib; linked into `kmodel`.
-/
import Khttp.Model.Basic
namespace Khttp.Spec.Message
open Khttp

def CRLF : Bytes := [CR, LF]

-- ------------------------------------------------------------------------------------------------ numerals

/-- base-`b` digits of `n`, most significant first (`fuel` > number of digits; `digits` supplies `n + 1`) -/
def digitsAux (b : Nat) : Nat → Nat → List Nat
  | 0, _ => []
  | fuel + 1, n => if n < b then [n] else digitsAux b fuel (n / b) ++ [n % b]

/-- the base-`b` numeral of `n` without leading zeros (`[0]` for 0) -/
def digits (b n : Nat) : List Nat := digitsAux b (n + 1) n

def decChar (d : Nat) : UInt8 := UInt8.ofNat (48 + d)
/-- `0-9A-F` -/
def hexChar (d : Nat) : UInt8 := if d < 10 then UInt8.ofNat (48 + d) else UInt8.ofNat (55 + d)

/-- decimal numeral, e.g. `decNumeral 120 = "120"` -/
def decNumeral (n : Nat) : Bytes := (digits 10 n).map decChar
/-- UPPER-CASE hexadecimal numeral, e.g. `hexNumeral 255 = "FF"` -/
def hexNumeral (n : Nat) : Bytes := (digits 16 n).map hexChar

-- ------------------------------------------------------------------------------------------------ rendering

inductive Framing where
  /-- `content-length: <decimal of body.length>`, then the body verbatim -/
  | length (body : Bytes)
  /-- `transfer-encoding: chunked`, then one chunk per element and the last-chunk -/
  | chunked (chunks : List Bytes)
  deriving Repr, DecidableEq

def Framing.body : Framing → Bytes
  | .length b => b
  | .chunked cs => cs.flatten

/-- a chunk of size 0 would be the last-chunk -/
def Framing.Wf : Framing → Prop
  | .length _ => True
  | .chunked cs => ∀ c ∈ cs, c ≠ []

def encodeChunk (c : Bytes) : Bytes := hexNumeral c.length ++ CRLF ++ c ++ CRLF
def lastChunk : Bytes := str "0" ++ CRLF ++ CRLF

/-- chunked coding with upper-case hex sizes, without chunk extensions and without trailer fields -/
def encodeChunkedPlain (chunks : List Bytes) : Bytes := chunks.flatMap encodeChunk ++ lastChunk

def encodeBody : Framing → Bytes
  | .length b => b
  | .chunked cs => encodeChunkedPlain cs

def CONTENT_LENGTH : Bytes := str "content-length"
def TRANSFER_ENCODING : Bytes := str "transfer-encoding"

/-- `content-length: <decimal n>` -/
def clField (n : Nat) : Bytes × Bytes := (CONTENT_LENGTH, decNumeral n)
/-- `transfer-encoding: chunked` -/
def teField : Bytes × Bytes := (TRANSFER_ENCODING, str "chunked")

/-- the framing header field announcing `fr` -/
def framingField : Framing → Bytes × Bytes
  | .length b => clField b.length
  | .chunked _ => teField

/-- `name ": " value CRLF` -/
def fieldLine (f : Bytes × Bytes) : Bytes := f.1 ++ [COLON, SP] ++ f.2 ++ CRLF

/-- start-line and header section, up to and including the empty line -/
def renderHead (start : Bytes) (fields : List (Bytes × Bytes)) : Bytes :=
  start ++ CRLF ++ fields.flatMap fieldLine ++ CRLF

/-- a whole message; `fields` is the complete header section in order (including the framing field) -/
def renderMessage (start : Bytes) (fields : List (Bytes × Bytes)) (fr : Framing) : Bytes :=
  renderHead start fields ++ encodeBody fr

/-- `HTTP/1.1 SP 3DIGIT SP reason-phrase` -/
def statusStart (code : Nat) (reason : Bytes) : Bytes := str "HTTP/1.1 " ++ decNumeral code ++ [SP] ++ reason
/-- `method SP request-target SP HTTP/1.1` -/
def requestStart (method uri : Bytes) : Bytes := method ++ [SP] ++ uri ++ [SP] ++ str "HTTP/1.1"

/-- `date` is the field VALUE (an IMF-fixdate) -/
def dateField : Option Bytes → List (Bytes × Bytes)
  | none => []
  | some v => [(str "date", v)]

/-- the fields of a message whose framing field is generated: user fields in order, date, framing field -/
def allFields (user : List (Bytes × Bytes)) (date : Option Bytes) (fr : Framing) : List (Bytes × Bytes) :=
  user ++ dateField date ++ [framingField fr]

/-- response: status line, the user's fields in order, the date field, exactly one generated framing field,
    empty line, body -/
def renderResponse (code : Nat) (reason : Bytes) (user : List (Bytes × Bytes)) (date : Option Bytes)
    (fr : Framing) : Bytes :=
  renderMessage (statusStart code reason) (allFields user date fr) fr

def renderRequest (method uri : Bytes) (user : List (Bytes × Bytes)) (date : Option Bytes) (fr : Framing) : Bytes :=
  renderMessage (requestStart method uri) (allFields user date fr) fr

-- ------------------------------------------------------------------------------------------------ well-formedness

/-- RFC 9110 `tchar` -/
def isTchar (b : UInt8) : Bool :=
  isAlpha b || isDigit b ||
  b == 0x21 || b == 0x23 || b == 0x24 || b == 0x25 || b == 0x26 || b == 0x27 || b == 0x2a ||
  b == 0x2b || b == 0x2d || b == 0x2e || b == 0x5e || b == 0x5f || b == 0x60 || b == 0x7c || b == 0x7e

def noCRLF (bs : Bytes) : Bool := bs.all fun b => b != CR && b != LF
def isToken (bs : Bytes) : Bool := bs != [] && bs.all isTchar

/-- field name is a token, field value has no CR and no LF -/
def wfField (f : Bytes × Bytes) : Bool := isToken f.1 && noCRLF f.2
def wfFields (fs : List (Bytes × Bytes)) : Bool := fs.all wfField

def isCL (f : Bytes × Bytes) : Bool := eqIgnoreCase f.1 CONTENT_LENGTH
def isTE (f : Bytes × Bytes) : Bool := eqIgnoreCase f.1 TRANSFER_ENCODING
def isFramingField (f : Bytes × Bytes) : Bool := isCL f || isTE f
/-- no field is named content-length or transfer-encoding (any case) -/
def noFramingName (fs : List (Bytes × Bytes)) : Bool := fs.all fun f => !isFramingField f

-- ------------------------------------------------------------------------------------------------ decoding

def isOws (b : UInt8) : Bool := b == SP || b == HT
def trimOws (v : Bytes) : Bytes := ((v.dropWhile isOws).reverse.dropWhile isOws).reverse

/-- split at the first CRLF: (line, what follows the CRLF) -/
def splitCRLF : Bytes → Option (Bytes × Bytes)
  | [] => none
  | [_] => none
  | a :: b :: t =>
    if a == CR && b == LF then some ([], t)
    else (splitCRLF (b :: t)).map fun (l, r) => (a :: l, r)

/-- `field-name ":" OWS field-value OWS`; the value is returned without the optional whitespace -/
def parseFieldLine (line : Bytes) : Option (Bytes × Bytes) :=
  let name := line.takeWhile (· != COLON)
  match line.dropWhile (· != COLON) with
  | [] => none
  | _ :: v => if isToken name then some (name, trimOws v) else none

/-- field lines up to the empty line -/
def parseFields : Nat → Bytes → Option (List (Bytes × Bytes) × Bytes)
  | 0, _ => none
  | fuel + 1, bs =>
    match splitCRLF bs with
    | none => none
    | some ([], rest) => some ([], rest)
    | some (line, rest) =>
      match parseFieldLine line with
      | none => none
      | some f => (parseFields fuel rest).map fun (fs, r) => (f :: fs, r)

def decVal (ds : Bytes) : Nat := ds.foldl (fun a b => a * 10 + (b.toNat - 48)) 0
/-- `1*DIGIT` -/
def parseDec (ds : Bytes) : Option Nat := if ds != [] && ds.all isDigit then some (decVal ds) else none

def isHexDigit (b : UInt8) : Bool := isDigit b || (0x41 ≤ b && b ≤ 0x46) || (0x61 ≤ b && b ≤ 0x66)
def hexDigitVal (b : UInt8) : Nat :=
  if isDigit b then b.toNat - 48 else if 0x41 ≤ b && b ≤ 0x46 then b.toNat - 55 else b.toNat - 87
def hexVal (ds : Bytes) : Nat := ds.foldl (fun a b => a * 16 + hexDigitVal b) 0

/-- chunked body: `*(1*HEXDIG CRLF data CRLF) 1*"0" CRLF CRLF` → (decoded body, what follows) -/
def decodeChunked : Nat → Bytes → Option (Bytes × Bytes)
  | 0, _ => none
  | fuel + 1, bs =>
    let hx := bs.takeWhile isHexDigit
    if hx == [] then none
    else match bs.dropWhile isHexDigit with
      | c :: l :: rest =>
        if c == CR && l == LF then
          let n := hexVal hx
          if n == 0 then
            match rest with
            | c2 :: l2 :: r => if c2 == CR && l2 == LF then some ([], r) else none
            | _ => none
          else if n ≤ rest.length then
            match rest.drop n with
            | c2 :: l2 :: r =>
              if c2 == CR && l2 == LF then (decodeChunked fuel r).map fun (b, r') => (rest.take n ++ b, r')
              else none
            | _ => none
          else none
        else none
      | _ => none

/-- is `chunked` the final transfer coding of this field value (last element of the comma-separated list)? -/
def lastCodingChunked (v : Bytes) : Bool :=
  match ((splitOn COMMA v).map trimOws).getLast? with
  | some t => eqIgnoreCase t (str "chunked")
  | none => false

/-- the message body according to the header section: requires EXACTLY ONE framing field -/
def decodeBody (fields : List (Bytes × Bytes)) (bs : Bytes) : Option (Bytes × Bytes) :=
  match fields.filter isFramingField with
  | [f] =>
    if isCL f then
      match parseDec f.2 with
      | some n => if n ≤ bs.length then some (bs.take n, bs.drop n) else none
      | none => none
    else if lastCodingChunked f.2 then decodeChunked (bs.length + 1) bs
    else none
  | _ => none

/-- start-line, header section, body: (start-line, fields incl. the framing field, body, rest) -/
def decodeMessage (bs : Bytes) : Option (Bytes × List (Bytes × Bytes) × Bytes × Bytes) :=
  match splitCRLF bs with
  | none => none
  | some (start, rest) =>
    match parseFields (rest.length + 1) rest with
    | none => none
    | some (fields, rest) =>
      match decodeBody fields rest with
      | none => none
      | some (body, rest) => some (start, fields, body, rest)

/-- `HTTP/1.1 SP 3DIGIT SP reason` → (code, reason) -/
def parseStatusStart (line : Bytes) : Option (Nat × Bytes) :=
  if (str "HTTP/1.1 ").isPrefixOf line then
    match line.drop 9 with
    | a :: b :: c :: s :: reason =>
      if isDigit a && isDigit b && isDigit c && s == SP then some (decVal [a, b, c], reason) else none
    | _ => none
  else none

/-- `method SP target SP HTTP/1.1` → (method, target) -/
def parseRequestStart (line : Bytes) : Option (Bytes × Bytes) :=
  let m := line.takeWhile (· != SP)
  match line.dropWhile (· != SP) with
  | [] => none
  | _ :: r =>
    let u := r.takeWhile (· != SP)
    match r.dropWhile (· != SP) with
    | [] => none
    | _ :: v => if v == str "HTTP/1.1" && isToken m && u != [] then some (m, u) else none

/-- reference decoder for a response: (code, reason, header fields incl. framing field, body, rest) -/
def decodeResponse (bs : Bytes) : Option (Nat × Bytes × List (Bytes × Bytes) × Bytes × Bytes) :=
  match decodeMessage bs with
  | none => none
  | some (start, fields, body, rest) =>
    match parseStatusStart start with
    | none => none
    | some (code, reason) => some (code, reason, fields, body, rest)

/-- reference decoder for a request: (method, target, header fields incl. framing field, body, rest) -/
def decodeRequest (bs : Bytes) : Option (Bytes × Bytes × List (Bytes × Bytes) × Bytes × Bytes) :=
  match decodeMessage bs with
  | none => none
  | some (start, fields, body, rest) =>
    match parseRequestStart start with
    | none => none
    | some (m, u) => some (m, u, fields, body, rest)

/-- how the decoder reports field values -/
def trimValues (fs : List (Bytes × Bytes)) : List (Bytes × Bytes) := fs.map fun f => (f.1, trimOws f.2)

/-- the header section `fields` announces the framing `fr` unambiguously: exactly one field is named
    content-length / transfer-encoding, and it is a content-length with the decimal body length, resp. a
    transfer-encoding whose final coding is chunked -/
def framingOk (fields : List (Bytes × Bytes)) (fr : Framing) : Bool :=
  match (trimValues fields).filter isFramingField, fr with
  | [f], .length b => isCL f && f.2 == decNumeral b.length
  | [f], .chunked _ => !isCL f && lastCodingChunked f.2
  | _, _ => false

def framingWf : Framing → Bool
  | .length _ => true
  | .chunked cs => cs.all (· != [])

end Khttp.Spec.Message
