/-
  Specification of route dispatch (C11) and route parameters (C12), independent of the algorithm
  in src/router.rs.

  A route string and a request path are both read as: drop ONE leading '/', split at every '/'
  (so "" and "/" are the single empty segment, "a//b" has an empty middle segment, "a/" ends with an
  empty segment).  Pattern segments:  `*` = star, `**` = dstar, `:name` = param name, anything else is
  a literal.
-/
import Khttp.Model.Basic
import Khttp.Model.Method
namespace Khttp.Spec.Route
open Khttp

inductive Seg where
  | lit (s : Bytes)
  | param (name : Bytes)
  | star
  | dstar
  deriving Repr, DecidableEq

/-- segments of a route string / request path -/
def pathSegs (p : Bytes) : List Bytes :=
  match p with
  | 0x2f :: rest => splitOn SLASH rest
  | _ => splitOn SLASH p

def parseSeg (s : Bytes) : Seg :=
  match s with
  | [0x2a] => .star
  | [0x2a, 0x2a] => .dstar
  | 0x3a :: name => .param name
  | _ => .lit s

def parsePattern (route : Bytes) : List Seg := (pathSegs route).map parseSeg

/-- literal = equal segment, `:name` and `*` = any ONE segment, `**` as LAST segment = any remaining
    segments (including none).  A `**` that is not last matches nothing (excluded by `WfPattern`). -/
def segMatches : List Seg → List Bytes → Bool
  | [], xs => xs.isEmpty
  | .dstar :: ps, _ => ps.isEmpty
  | .lit s :: ps, x :: xs => s == x && segMatches ps xs
  | .param _ :: ps, _ :: xs => segMatches ps xs
  | .star :: ps, _ :: xs => segMatches ps xs
  | _ :: _, [] => false

/-- `**` occurs only as the last segment -/
def wfPattern : List Seg → Bool
  | [] => true
  | [_] => true
  | s :: rest => s != .dstar && wfPattern rest

abbrev WfPattern (p : List Seg) : Prop := wfPattern p = true

/-- every registered route string has `**` only as its last segment -/
abbrev WfTable (regs : List (Method × Bytes)) : Prop := ∀ r ∈ regs, WfPattern (parsePattern r.2)

def Seg.isLit : Seg → Bool
  | .lit _ => true
  | _ => false

/-- precedence of a segment kind: literal > :param > * > ** -/
def Seg.prec : Seg → Nat
  | .lit _ => 3 | .param _ => 2 | .star => 1 | .dstar => 0

/-- number of leading literal segments -/
def leadingLits (p : List Seg) : Nat := (p.takeWhile Seg.isLit).length

def lastPrec (p : List Seg) : Nat :=
  match p.getLast? with
  | some s => s.prec
  | none => 0

/-- (length of the leading run of literal segments, precedence of the final segment) -/
def rank (p : List Seg) : Nat × Nat := (leadingLits p, lastPrec p)

/-- lexicographic order on ranks -/
def rankLe (a b : Nat × Nat) : Bool := a.1 < b.1 || (a.1 == b.1 && a.2 ≤ b.2)

/-- same segment up to the name of a parameter -/
def Seg.equiv : Seg → Seg → Bool
  | .lit a, .lit b => a == b
  | .param _, .param _ => true
  | .star, .star => true
  | .dstar, .dstar => true
  | _, _ => false

def patEquiv : List Seg → List Seg → Bool
  | [], [] => true
  | a :: as, b :: bs => a.equiv b && patEquiv as bs
  | _, _ => false

structure Entry where
  id : Nat
  method : Method
  pat : List Seg
  deriving Repr, DecidableEq

/-- registration `i` of the list, parsed -/
def entries (regs : List (Method × Bytes)) : List Entry :=
  regs.zipIdx.map fun r => { id := r.2, method := r.1.1, pat := parsePattern r.1.2 }

/-- registering `e` removes every earlier equivalent entry of the same method and appends `e` -/
def register (tbl : List Entry) (e : Entry) : List Entry :=
  tbl.filter (fun o => !(decide (o.method = e.method) && patEquiv o.pat e.pat)) ++ [e]

def effectiveTable (regs : List (Method × Bytes)) : List Entry :=
  (entries regs).foldl register []

/-- entries of method `m` matching the path segments, in effective order -/
def candidates (regs : List (Method × Bytes)) (m : Method) (segs : List Bytes) : List Entry :=
  (effectiveTable regs).filter fun e => decide (e.method = m) && segMatches e.pat segs

/-- first entry whose rank is maximal -/
def firstMax (c : List Entry) : Option Entry :=
  c.find? fun e => c.all fun o => rankLe (rank o.pat) (rank e.pat)

/-- `none` = fallback -/
def select (regs : List (Method × Bytes)) (m : Method) (path : Bytes) : Option Nat :=
  let c := candidates regs m (pathSegs path)
  match c.find? (fun e => e.pat.all Seg.isLit) with
  | some e => some e.id                      -- all-literal pattern that matches = equal to the whole path
  | none => (firstMax c).map (·.id)

/-- names of `:name` segments with the corresponding path segments, in pattern order -/
def bindParams : List Seg → List Bytes → List (Bytes × Bytes)
  | .param n :: ps, x :: xs => (n, x) :: bindParams ps xs
  | .lit _ :: ps, _ :: xs => bindParams ps xs
  | .star :: ps, _ :: xs => bindParams ps xs
  | _, _ => []

/-- names of the `:name` segments of a pattern, in order -/
def paramNames (pat : List Seg) : List Bytes :=
  pat.filterMap fun s => match s with | .param n => some n | _ => none

/-- pattern of registration `id` -/
def patternOf (regs : List (Method × Bytes)) (id : Nat) : List Seg :=
  match regs[id]? with
  | some r => parsePattern r.2
  | none => []

end Khttp.Spec.Route
