/- kmodel: answers one case line per input line from the Lean *model* (same protocol as harness/kimpl). -/
import Khttp.Driver.Parse
import Khttp.Driver.Hdr
import Khttp.Driver.Pool
import Khttp.Driver.Date
import Khttp.Driver.Route
import Khttp.Driver.Print
import Khttp.Driver.Epoll
import Khttp.Driver.Loop
import Khttp.Driver.Body
import Khttp.Driver.Conn
import Khttp.Driver.Mem
import Khttp.Driver.Accept
import Khttp.Model.Status
open Khttp Khttp.Driver

def answer (line : String) : String :=
  let line := line.trimAscii.toString
  match line.splitOn " " with
  | dom :: rest =>
    let arg := " ".intercalate rest
    match dom with
    | "REQ" => reqLine arg
    | "RESP" => respLine arg
    | "HDR" => hdrLine arg
    | "DATE" => dateLine arg
    | "ROUTE" => routeLine arg
    | "PRINT" => printLine arg
    | "EPOLLTRACE" => epollTraceLine arg
    | "CLI" => cliLine arg
    | "RDREQ" => rdreqLine arg
    | "BODY" => bodyLine arg
    | "CONN" => connLine arg
    | "MEMMODEL" => memLine arg
    | "ACCEPT" => acceptLine arg
    | "DATECACHE" => dateCacheLine arg
    | "POOLTRACE" => poolTraceLine arg
    | "STATUS" =>
      let st := Status.of (natOf arg.trimAscii.toString)
      s!"S {st.1} {hex st.2}"
    | _ => "BAD-DOMAIN"
  | [] => "BAD-DOMAIN"

partial def loop (h : IO.FS.Stream) (out : IO.FS.Stream) : IO Unit := do
  let line ← h.getLine
  if line.isEmpty then return ()
  let t := line.trimAscii.toString
  if t.isEmpty || t.startsWith "#" then loop h out
  else
    out.putStrLn (answer t)
    loop h out

def main : IO Unit := do
  let out ← IO.getStdout
  loop (← IO.getStdin) out
  out.flush
