#!/bin/bash
# Runs the repository's pinned test suite with the verification guard OFF and prints pass/fail counts.
cd /repo || exit 2
out=$(CARGO_NET_OFFLINE=true cargo test --workspace --no-fail-fast --offline 2>&1)
rc=$?
passed=$(echo "$out" | grep -E '^test result' | sed -E 's/.* ([0-9]+) passed.*/\1/' | paste -sd+ | bc)
failed=$(echo "$out" | grep -E '^test result' | sed -E 's/.* ([0-9]+) failed.*/\1/' | paste -sd+ | bc)
echo "baseline: passed=$passed failed=$failed rc=$rc"
if [ "$rc" != 0 ] || [ "$passed" != 87 ]; then echo "$out" | grep -E 'FAILED|panicked|error' | head -20; exit 1; fi
exit 0
