#!/usr/bin/env python3
"""Orchestrator of the khttp verification checks (DESIGN.md §4).

  tools/check.py --setup                      build everything once (MANIFEST.setup_cmd)
  tools/check.py Cxx [--tier quick|thorough]  run one property's check, write evidence/Cxx.json
  tools/check.py Cxx --replay FILE            re-run a recorded failing case

Per property, in order:
  1. translators: regenerate lean/Khttp/Gen/*.lean from /repo's working tree
  2. lake build of the property's theorem modules (+ kmodel)           -> proof obligations
  3. audit: #print axioms of every property theorem, forbidden-token scan
  4. cargo build of the harness against /repo's working tree (guard on)
  5. correspondence: same case lines through kimpl (real code) and kmodel (Lean model); diff
  6. oracle: the property's independent spec evaluated on what the real code answered
  7. known findings; evidence file; verdict
Exit 0 = held on everything explored; exit 1 + "VIOLATION property=<id> replay=<path>" otherwise.
"""
import argparse, hashlib, json, os, re, subprocess, sys, time, traceback
from concurrent.futures import ThreadPoolExecutor

ROOT = os.path.normpath(os.path.join(os.path.dirname(os.path.abspath(__file__)), ".."))
LEAN = os.path.join(ROOT, "lean")
HARNESS = os.path.join(ROOT, "harness")
KMODEL = os.path.join(LEAN, ".lake", "build", "bin", "kmodel")
KIMPL = os.path.join(HARNESS, "target", "release", "kimpl")
EVID = os.path.join(ROOT, "evidence")
REPLAY = os.path.join(ROOT, "replay")
KNOWN = os.path.join(ROOT, "known_findings.txt")
sys.path.insert(0, os.path.join(ROOT, "tools"))

ALLOWED_AXIOMS = {"propext", "Classical.choice", "Quot.sound"}
# no bv_decide / native_decide anywhere: the SWAR lane lemmas are kernel-checked (Lemmas/SwarKernel.lean)
FORBIDDEN = re.compile(r"\b(sorry|admit|native_decide|bv_decide|implemented_by)\b|^\s*axiom\s|\bunsafe\s|maxHeartbeats\s+0")
NCPU = os.cpu_count() or 4


def sh(cmd, cwd=None, timeout=None, env=None, inp=None):
    e = dict(os.environ)
    e["CARGO_NET_OFFLINE"] = "true"
    if env:
        e.update(env)
    p = subprocess.run(cmd, cwd=cwd, shell=isinstance(cmd, str), stdout=subprocess.PIPE, stderr=subprocess.STDOUT,
                       timeout=timeout, env=e, input=inp)
    return p.returncode, p.stdout.decode("utf-8", "replace") if isinstance(p.stdout, bytes) else p.stdout


# ----------------------------------------------------------------------------------------------- build steps

TRANSLATOR_NOTES = []


def run_translators():
    """returns list of broken obligations (strings)"""
    broken = []
    rc, out = sh([sys.executable, os.path.join(ROOT, "tools", "gen_consts.py")])
    if rc != 0:
        broken.append("Gen.Consts: " + out.strip().splitlines()[-1] if out.strip() else "Gen.Consts")
    # a group of constants the extractor could not re-read (renamed / hoisted / refactored definition) keeps its last
    # extracted values: for them the model is tied to the code by the correspondence run of this check alone
    TRANSLATOR_NOTES[:] = ["translator: constants group not re-extracted, last values kept, tie = correspondence run: " + l.split("STALE", 1)[1].strip()
                           for l in out.splitlines() if l.startswith("gen_consts: STALE")]
    sk = os.path.join(ROOT, "tools", "extract_skeleton.py")
    if os.path.exists(sk):
        rc, out = sh([sys.executable, sk])
        if rc != 0:
            broken.append("Gen.Skeleton: " + (out.strip().splitlines()[-1] if out.strip() else "extraction failed"))
    return broken


def lake_build(targets):
    rc, out = sh(["lake", "build"] + targets, cwd=LEAN, timeout=3600)
    return rc == 0, out


def first_lean_error(out):
    for l in out.splitlines():
        if l.startswith("error:") or " error: " in l:
            return l.strip()[:300]
    return out.strip().splitlines()[-1][:300] if out.strip() else "lake build failed"


def theorem_names(module):
    path = os.path.join(LEAN, module.replace(".", "/") + ".lean")
    names = []
    ns = []
    if not os.path.exists(path):
        return names
    for line in open(path, encoding="utf-8"):
        m = re.match(r"^namespace\s+(\S+)", line)
        if m:
            ns.append(m.group(1)); continue
        m = re.match(r"^end\s+(\S+)", line)
        if m and ns and ns[-1].split(".")[-1] == m.group(1).split(".")[-1]:
            ns.pop(); continue
        # private helper lemmas are skipped: whatever they depend on shows up in the public theorems' axiom lists
        m = re.match(r"^(?:protected\s+)?theorem\s+([^\s:({\[]+)", line)
        if m:
            names.append(".".join(ns + [m.group(1)]))
    return names


def strip_lean_comments(src):
    out = []
    i, n, depth = 0, len(src), 0
    while i < n:
        if src.startswith("/-", i):
            depth += 1; i += 2
        elif depth and src.startswith("-/", i):
            depth -= 1; i += 2
        elif depth:
            i += 1
        elif src.startswith("--", i):
            j = src.find("\n", i)
            i = n if j < 0 else j
        elif src[i] == '"':
            j = i + 1
            while j < n and src[j] != '"':
                j += 2 if src[j] == "\\" else 1
            i = j + 1
        else:
            out.append(src[i]); i += 1
    return "".join(out)


def scan_forbidden():
    bad = []
    for dirpath, _, files in os.walk(os.path.join(LEAN, "Khttp")):
        for f in files:
            if not f.endswith(".lean"):
                continue
            p = os.path.join(dirpath, f)
            txt = strip_lean_comments(open(p, encoding="utf-8").read())
            for ln, line in enumerate(txt.splitlines(), 1):
                if FORBIDDEN.search(line):
                    bad.append(f"{os.path.relpath(p, LEAN)}:{ln}: {line.strip()[:80]}")
    txt = strip_lean_comments(open(os.path.join(LEAN, "Main.lean"), encoding="utf-8").read())
    if FORBIDDEN.search(txt):
        bad.append("Main.lean: forbidden token")
    return bad


def audit(pid, modules):
    """#print axioms for every theorem of the property's modules. returns (theorems, axioms_by_thm, problems)"""
    names = []
    for m in modules:
        names += theorem_names(m)
    if not names:
        return [], {}, ["no theorems found in " + ",".join(modules)]
    os.makedirs(os.path.join(LEAN, ".lake"), exist_ok=True)
    f = os.path.join(LEAN, ".lake", f"audit_{pid}.lean")
    with open(f, "w") as fh:
        for m in modules:
            fh.write(f"import {m}\n")
        for nme in names:
            fh.write(f"#print axioms {nme}\n")
    rc, out = sh(["lake", "env", "lean", f], cwd=LEAN, timeout=1800)
    axioms = {}
    problems = []
    flat = re.sub(r"\n\s+", " ", out)
    for m in re.finditer(r"'(\S+)' depends on axioms: \[([^\]]*)\]", flat):
        axioms[m.group(1)] = [a.strip() for a in m.group(2).split(",") if a.strip()]
    for m in re.finditer(r"'(\S+)' does not depend on any axioms", flat):
        axioms[m.group(1)] = []
    for nme in names:
        if nme not in axioms:
            problems.append(f"audit: no axiom report for {nme}")
            continue
        for a in axioms[nme]:
            if a not in ALLOWED_AXIOMS:
                problems.append(f"audit: {nme} depends on disallowed axiom {a}")
    if rc != 0 and not problems:
        problems.append("audit: lean exited with an error: " + first_lean_error(out))
    return names, axioms, problems


def cargo_build():
    rc, out = sh(["cargo", "build", "--release", "--offline"], cwd=HARNESS, timeout=3600)
    return rc == 0, out


# ----------------------------------------------------------------------------------------------- running cases

def _run_bin(binpath, lines, env=None):
    data = ("\n".join(lines) + "\n").encode()
    e = dict(os.environ)
    if env:
        e.update(env)
    p = subprocess.run([binpath], input=data, stdout=subprocess.PIPE, stderr=subprocess.PIPE, env=e)
    out = p.stdout.decode("utf-8", "replace").splitlines()
    return p.returncode, out, p.stderr.decode("utf-8", "replace")


def run_sharded(binpath, lines, shards=None, env=None):
    """Run `lines` through a line-protocol binary; returns list of answers (same length) — a crashed
    shard yields 'CRASH' for the lines it did not answer."""
    if not lines:
        return []
    if shards is None:
        shards = 1 if len(lines) < 4000 else min(NCPU, max(1, len(lines) // 2000))
    size = (len(lines) + shards - 1) // shards
    chunks = [lines[i:i + size] for i in range(0, len(lines), size)]
    res = [None] * len(chunks)

    def work(k):
        rc, out, err = _run_bin(binpath, chunks[k], env)
        if len(out) < len(chunks[k]):
            out = out + ["CRASH rc=%d %s" % (rc, err.strip().replace("\n", " ")[:120])] * (len(chunks[k]) - len(out))
        res[k] = out[:len(chunks[k])]

    with ThreadPoolExecutor(max_workers=len(chunks)) as ex:
        list(ex.map(work, range(len(chunks))))
    return [x for c in res for x in c]


# ----------------------------------------------------------------------------------------------- findings file

def load_known():
    known, fixed = [], []
    if os.path.exists(KNOWN):
        for line in open(KNOWN, encoding="utf-8"):
            line = line.strip()
            if not line or line.startswith("#"):
                continue
            kind, _, rest = line.partition(":")
            toks = rest.strip().split()
            d = {"text": rest.strip()}
            for t in toks:
                if "=" in t:
                    k, v = t.split("=", 1)
                    if k in ("property", "id", "class", "witness"):
                        d[k] = v
            (known if kind == "known" else fixed).append(d)
    return known, fixed


# ----------------------------------------------------------------------------------------------- result plumbing

class Outcome:
    def __init__(self, pid, tier, seed):
        self.pid, self.tier, self.seed = pid, tier, seed
        self.t0 = time.time()
        self.broken = []          # broken proof / translator / correspondence obligations (strings)
        self.violations = []      # dicts: case, impl, model, why
        self.known_hits = []      # strings
        self.evaluations = 0
        self.nontrivial = set()
        self.samples = []
        self.dist = {}
        self.theorems = []
        self.axioms = {}
        self.obligations = 0
        self.discharged = 0
        self.notes = []
        self.mismatches = []      # model vs impl disagreements (dicts)
        self.extra = {}

    def count(self, key, n=1):
        self.dist[key] = self.dist.get(key, 0) + n


def write_replay(pid, payload):
    os.makedirs(REPLAY, exist_ok=True)
    h = hashlib.sha1(json.dumps(payload, sort_keys=True).encode()).hexdigest()[:12]
    path = os.path.join(REPLAY, f"{pid}-{h}.json")
    payload = dict(payload)
    payload["property"] = pid
    payload["replay_cmd"] = f"python3 tools/check.py {pid} --replay {path}"
    with open(path, "w") as f:
        json.dump(payload, f, indent=1)
    return path


def write_evidence(o, spec):
    os.makedirs(EVID, exist_ok=True)
    trusted = [
        "Lean 4.33 kernel (lake build; thorough tier: leanchecker)",
        "axioms per theorem as printed by #print axioms: " + json.dumps({k.split(".")[-1]: v for k, v in o.axioms.items()}, sort_keys=True)[:3000],
        "hand-written Lean model tied to /repo by: generated constants (tools/gen_consts.py), extracted synchronisation skeleton (tools/extract_skeleton.py, where applicable), differential correspondence runs (harness/kimpl vs lean/kmodel)",
        "unverified glue: tools/check.py, generators (incl. the libFuzzer-guided one, tools/fuzzgen.py: input generation only, no verdict), harness crate, kmodel line parser",
        "modelled not verified: Rust std (slices, str, BufReader, Take, io::copy, mpsc, Mutex, thread), memchr, libc, Linux kernel, allocator, rustc; 64-bit little-endian",
    ] + spec.get("trusted", [])
    ev = {
        "property_id": o.pid,
        "tier": o.tier,
        "seed": o.seed,
        "level": "proof",
        "coverage": {
            "obligations": o.obligations,
            "discharged": o.discharged,
            "checker_cmd": "cd lean && lake build " + " ".join(spec.get("lean", []) + [m for m in spec.get("soft_lean", []) if not any(d.startswith(m.split(".")[-1]) for d in getattr(o, "soft_differs", []))]) + " && lake env lean .lake/audit_%s.lean  (#print axioms)" % o.pid,
            "trusted_base": trusted,
            "theorems": [t.split(".")[-1] for t in o.theorems],
            "evaluations": o.evaluations,
            "distinct_nontrivial": len(o.nontrivial),
            "rule": spec.get("rule", ""),
            "samples": o.samples[:8] if o.samples else ["(no correspondence cases in this run)"],
            "input_distribution": o.dist,
            "model_vs_impl_disagreements": len(o.mismatches),
            "broken_obligations": o.broken,
            "soft_skeletons_differing": getattr(o, "soft_differs", []),
            "known_findings_replayed": o.known_hits,
            "explanation": spec.get("explanation", ""),
        },
        "assumptions": spec.get("assumptions", []),
        "wall_s": round(time.time() - o.t0, 2),
        "violations": len(o.violations) + (1 if o.broken and not o.violations else 0),
    }
    ev["coverage"].update(o.extra)
    with open(os.path.join(EVID, f"{o.pid}.json"), "w") as f:
        json.dump(ev, f, indent=1)


# ----------------------------------------------------------------------------------------------- main driver

def load_props():
    import props  # tools/props/__init__.py registers every property
    return props.REGISTRY


def do_setup():
    t0 = time.time()
    br = run_translators()
    if br:
        print("setup: translator problems:", br)
    ok, out = lake_build(["Khttp", "kmodel"])
    if not ok:
        print(out[-3000:])
        print("setup: lake build FAILED")
        return 1
    # every property's theorem modules (so that a check run only re-checks what a change of /repo invalidates)
    try:
        REG = load_props()
        mods = sorted({m for sp in REG.values() for m in sp.get("lean", []) + sp.get("soft_lean", [])})
        ok2, out2 = lake_build(mods)
        if not ok2:
            print("setup: some property modules do not build:", first_lean_error(out2))
    except Exception as e:
        print("setup: property modules not pre-built:", repr(e)[:200])
    ok, out = cargo_build()
    if not ok:
        print(out[-3000:])
        print("setup: cargo build FAILED")
        return 1
    try:
        import fuzzgen
        okf, msg = fuzzgen.build()
        print("setup: fuzz targets:", msg)
    except Exception as e:  # the guided generator is optional search support
        print("setup: fuzz targets not built:", repr(e)[:200])
    print("setup ok in %.1fs" % (time.time() - t0))
    return 0


def run_property(pid, tier, seed, replay=None):
    REG = load_props()
    if pid not in REG:
        print(f"unknown property {pid}")
        return 2
    spec = REG[pid]
    o = Outcome(pid, tier, seed)

    # 1 translators
    o.broken += run_translators()
    o.notes += TRANSLATOR_NOTES
    # 2 proofs
    modules = spec.get("lean", [])
    ok, out = lake_build(modules + ["kmodel"])
    if not ok:
        o.broken.append("lake build: " + first_lean_error(out))
        # kmodel may be stale/broken; try to build it alone so that the search can still use the model
        lake_build(["kmodel"])
    # 2b change detectors (soft obligations, DESIGN.md §17): control skeletons of sequential code whose behaviour the correspondence run
    #    observes completely (server/mod.rs request handling, ResponseHandle, BodyReader).  A skeleton that no longer matches — a
    #    re-shaped but equivalent body does that as well as a changed one — is not reported by itself: the model stays tied to the
    #    code by the correspondence, which is then run with the thorough budget.
    soft_differs = []
    for m in spec.get("soft_lean", []):
        okm, outm = lake_build([m]) if ok else (False, "not built: the property's theorem modules do not build")
        if okm:
            modules = modules + [m]
        else:
            soft_differs.append(m.split(".")[-1] + ": " + first_lean_error(outm))
    o.soft_differs = soft_differs
    # 3 audit
    names = []
    for m in modules:
        names += theorem_names(m)
    o.theorems = names
    o.obligations = len(names) + len(spec.get("gen_obligations", []))
    if ok:
        names2, axioms, problems = audit(pid, modules)
        o.axioms = axioms
        o.broken += problems
        bad = scan_forbidden()
        o.broken += ["forbidden: " + b for b in bad]
        o.discharged = o.obligations if not problems and not bad and not o.broken else max(0, o.obligations - len(o.broken))
        # thorough tier: independent re-check of the compiled property modules with leanchecker
        if tier == "thorough" and ok:
            for m in modules:
                rc, outl = sh(["lake", "env", "leanchecker", m], cwd=LEAN, timeout=3600)
                if rc != 0:
                    o.broken.append("leanchecker %s: %s" % (m, (outl.strip().splitlines() or ["failed"])[-1][:200]))
                else:
                    o.notes.append("leanchecker %s: ok" % m)
    # 4 harness
    okc, outc = cargo_build()
    if not okc:
        errs = [l for l in outc.splitlines() if l.startswith("error")]
        o.broken.append("harness does not build against /repo: " + (errs[0][:200] if errs else "cargo build failed"))

    runner = spec["run"]
    ctx = {"kimpl": KIMPL, "kmodel": KMODEL, "root": ROOT, "have_impl": okc, "have_model": os.path.exists(KMODEL)}
    if replay:
        payload = json.load(open(replay))
        if payload.get("kind") == "broken-obligation":
            print("replay: this file names broken obligations, not a failing input:")
            for b in payload.get("broken", []):
                print("  -", b)
            fd = payload.get("first_disagreement") or {}
            payload = {"case": fd.get("case"), "impl": fd.get("impl")} if fd.get("case") else {}
        try:
            if spec.get("replay_with_oracle"):
                runner(o, ctx, tier, seed, replay=payload)
            elif payload.get("case") and okc:
                # generic replay: run the recorded case(s) again through the real code and the model and report whether the
                # recorded failing answer is reproduced
                cases = payload.get("cases") or [payload["case"]]
                impl = run_sharded(KIMPL, cases)
                model = run_sharded(KMODEL, cases) if os.path.exists(KMODEL) else ["-"] * len(cases)
                for c_, a_, m_ in zip(cases, impl, model):
                    print("case :", c_[:400]); print("impl :", a_[:400]); print("model:", m_[:400])
                o.evaluations += len(cases)
                rec = (payload.get("impl") or "")[:150]
                if rec and impl[-1][:150] == rec:
                    o.violations.append({"case": payload["case"], "impl": impl[-1][:400], "why": "replay reproduces the recorded failing answer: " + str(payload.get("why", ""))[:200]})
                else:
                    o.notes.append("replay: the recorded failing answer is NOT reproduced on the current tree")
        except Exception:
            traceback.print_exc()
            o.broken.append("replay crashed")
    elif okc:
        try:
            runner(o, ctx, tier, seed)
        except Exception as e:
            traceback.print_exc()
            o.broken.append("check machinery error: %r" % (e,))
        # a broken proof/correspondence with no concrete failing input yet: search harder (DESIGN.md §4)
        if soft_differs and not o.broken and not o.mismatches:
            o.notes.append("control skeleton differs from the one the model mirrors (%s): the tie rests on the correspondence run, repeated with the thorough budget" % "; ".join(soft_differs)[:400])
        if (o.broken or o.mismatches or soft_differs) and not o.violations and tier == "quick" and spec.get("search", True):
            o.notes.append("obligation broken / skeleton changed -> search with thorough budget")
            try:
                runner(o, ctx, "search", seed)
            except Exception:
                traceback.print_exc()

    # model-vs-impl disagreements are broken correspondence obligations
    for mm in o.mismatches[:3]:
        o.broken.append("correspondence: model and implementation disagree on " + str(mm.get("case", ""))[:160])

    # 7 known findings
    known, fixed = load_known()
    for k in known:
        if k.get("property") == pid:
            chk = spec.get("known_check")
            still = chk(o, ctx, k) if chk and okc else True
            if still:
                print(f"KNOWN-FINDING: {k['text']}")
                o.known_hits.append(k.get("id", "?"))
            else:
                o.notes.append(f"known finding {k.get('id')} no longer reproduces (remove it from known_findings.txt)")

    if not replay:
        write_evidence(o, spec)

    for n in o.notes:
        print("note:", n)
    if o.violations:
        v = o.violations[0]
        path = write_replay(pid, {"kind": "violation", "seed": seed, "tier": tier, **v})
        print(f"{pid}: {len(o.violations)} violating case(s); first: {v.get('why')}")
        print(f"VIOLATION property={pid} replay={path}")
        return 1
    if o.broken:
        payload = {"kind": "broken-obligation", "seed": seed, "tier": tier, "broken": o.broken,
                   "first_disagreement": o.mismatches[0] if o.mismatches else None,
                   "note": "no input on which the implementation violates the property's spec was found; the named theorem / generated obligation / correspondence no longer checks, so the property is no longer shown to hold"}
        path = write_replay(pid, payload)
        for b in o.broken[:6]:
            print(f"{pid}: broken obligation: {b}")
        print(f"VIOLATION property={pid} replay={path} no-failing-input-found")
        return 1
    print(f"{pid}: ok  theorems={len(o.theorems)} cases={o.evaluations} nontrivial={len(o.nontrivial)} wall={time.time()-o.t0:.1f}s")
    return 0


def main():
    ap = argparse.ArgumentParser()
    ap.add_argument("pid", nargs="?")
    ap.add_argument("--setup", action="store_true")
    ap.add_argument("--tier", default=os.environ.get("VERIF_TIER", "quick"))
    ap.add_argument("--replay")
    a = ap.parse_args()
    if a.setup:
        sys.exit(do_setup())
    if not a.pid:
        ap.error("property id required")
    seed = int(os.environ.get("VERIF_SEED", "1") or "1")
    tier = a.tier if a.tier in ("quick", "thorough") else "quick"
    sys.exit(run_property(a.pid, tier, seed, a.replay))


if __name__ == "__main__":
    main()
