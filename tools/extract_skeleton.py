#!/usr/bin/env python3
"""Translator part 2: extract the ordered synchronisation skeleton of src/threadpool.rs and
src/server/epoll.rs from /repo's current sources into lean/Khttp/Gen/Skeleton.lean.

Differential testing cannot see an `Ordering::Release` turned `Relaxed`, a CAS turned `store`, or
`job.run()` moved inside the lock scope; the skeleton can.  Per function, the source text (comments and
cfg(khttp_verif) hook statements removed) is scanned for protocol actions (lock, recv, run, atomic
operations with their orderings, epoll_ctl, frees …) and for the braces that enclose them; brace pairs
that enclose no action are pruned, so formatting, renaming of unrelated locals or added logging do not
change the result, while re-ordering, re-scoping, weakening or deleting an action does.
A kernel-checked obligation (`decide`) compares the result with the skeleton the model abstracts.
"""
import os, re, sys
sys.path.insert(0, os.path.dirname(os.path.abspath(__file__)))
from gen_consts import strip_comments, fn_body, ExtractError

REPO = os.environ.get("KHTTP_REPO", "/repo")
OUT = os.path.normpath(os.path.join(os.path.dirname(os.path.abspath(__file__)), "..", "lean", "Khttp", "Gen", "Skeleton.lean"))


def strip_hooks(src: str) -> str:
    """remove `#[cfg(khttp_verif)]` and the item/statement it applies to"""
    out = []
    i = 0
    pat = re.compile(r"#\[cfg\(khttp_verif\)\]")
    while True:
        m = pat.search(src, i)
        if not m:
            out.append(src[i:]); break
        out.append(src[i:m.start()])
        j = m.end()
        depth = 0
        opened = False
        while j < len(src):
            c = src[j]
            if c == '"':
                j += 1
                while src[j] != '"':
                    j += 2 if src[j] == "\\" else 1
            elif c in "({[":
                depth += 1
                if c == "{": opened = True
            elif c in ")}]":
                depth -= 1
                if depth == 0 and c == "}" and opened:
                    # a block-like statement / item ends here unless followed by `else` or `;`
                    k = j + 1
                    while k < len(src) and src[k] in " \t\r\n": k += 1
                    if src.startswith("else", k):
                        j = k + 3
                    else:
                        if k < len(src) and src[k] == ";": j = k
                        j += 1
                        break
                if depth < 0:
                    break
            elif c == ";" and depth == 0:
                j += 1
                break
            j += 1
        i = j
    return "".join(out)


def skeleton(body: str, patterns):
    toks = []
    i = 0
    comp = [(re.compile(p), f) for p, f in patterns]
    while i < len(body):
        c = body[i]
        if c == '"':
            i += 1
            while body[i] != '"':
                i += 2 if body[i] == "\\" else 1
            i += 1
            continue
        if c in "{}":
            toks.append(c); i += 1; continue
        hit = None
        for rx, f in comp:
            m = rx.match(body, i)
            if m:
                hit = (m, f); break
        if hit:
            m, f = hit
            toks.append(f(m) if callable(f) else f)
            i = m.end()
        else:
            i += 1
    # prune brace pairs that enclose nothing
    changed = True
    while changed:
        changed = False
        out = []
        for t in toks:
            if t == "}" and out and out[-1] == "{":
                out.pop(); changed = True
            else:
                out.append(t)
        toks = out
    return toks


def all_fns(src):
    """name -> body text of every `fn name(...) {...}` in the file"""
    out = {}
    for m in re.finditer(r"\bfn\s+(\w+)\b[^{;]*\{", src):
        name = m.group(1)
        i = m.end(); depth = 1
        while depth and i < len(src):
            if src[i] == '"':
                j = i + 1
                while src[j] != '"':
                    j += 2 if src[j] == "\\" else 1
                i = j + 1; continue
            if src[i] == "{": depth += 1
            if src[i] == "}": depth -= 1
            i += 1
        out.setdefault(name, src[m.end():i - 1])
    return out


def inline_helpers(body, fns, keep, depth=0):
    """Replace every call of a helper function defined in the same file (`name(…)`, `self.name(…)`, `Type::name(…)`) by the helper's
    body in braces, recursively: extracting a few statements into a private function, or inlining one, does not change the
    actions the code performs nor their order.  `keep`: names that are analysed on their own or that are actions themselves."""
    if depth > 3:
        return body
    out, i = [], 0
    rx = re.compile(r"\b(\w+)\s*\(")
    while True:
        m = rx.search(body, i)
        if not m:
            out.append(body[i:]); break
        name = m.group(1)
        pre = body[max(0, m.start() - 3):m.start()]
        if name in fns and name not in keep and not re.search(r"fn\s+$", body[max(0, m.start() - 8):m.start()]) and not pre.endswith("!"):
            # skip the argument list
            j = m.end(); d = 1
            while d and j < len(body):
                if body[j] == '"':
                    k = j + 1
                    while body[k] != '"':
                        k += 2 if body[k] == "\\" else 1
                    j = k + 1; continue
                if body[j] in "([{": d += 1
                if body[j] in ")]}": d -= 1
                j += 1
            args = body[m.end():j - 1]
            out.append(body[i:m.start()])
            out.append(" { " + args + " ; " + inline_helpers(fns[name], fns, keep | {name}, depth + 1) + " } ")
            i = j
        else:
            out.append(body[i:m.end()]); i = m.end()
    return "".join(out)


def resolve_consts(src):
    """`const NAME: T = RHS;` with an RHS made of EPOLL* flags: substitute NAME by (RHS) at its uses (a named event mask is the mask)"""
    for m in list(re.finditer(r"\bconst\s+(\w+)\s*:\s*[\w:]+\s*=\s*([^;]*EPOLL[^;]*);", src)):
        name, rhs = m.group(1), m.group(2).strip()
        head, tail = src[:m.end()], src[m.end():]
        src = head + re.sub(r"\b" + name + r"\b", "(" + rhs + ")", tail)
    return src


STRUCTURE = {"{", "}", "return", "continue"}


def flat(toks):
    """canonical form of an epoll skeleton: the actions in program order.  Braces and `return` / `continue` are not part of it, so
    `if let … { …; return }` / `match`, early `continue` / nested `if`, a block moved into a helper function or back, a narrower
    `unsafe` block … give the same list; a missing, added, re-ordered or weakened action does not."""
    return [t for t in toks if t not in STRUCTURE]


def pool_canon(toks):
    """Canonical form of a pool skeleton: what matters is WHICH actions happen while the receiver lock is held and in which order
    the actions follow each other — not whether the branch on the received message is a `match`, an `if let` or a `let … else`.
    The closing brace of the block in which `lock` occurs becomes `unlock` (the guard is dropped there); every other brace and
    the keywords `match` / `break` are dropped."""
    out, depth, lock_depth = [], 0, None
    for t in toks:
        if t == "{":
            depth += 1
        elif t == "}":
            if lock_depth is not None and depth == lock_depth:
                out.append("unlock"); lock_depth = None
            depth -= 1
        elif t in ("match", "break"):
            continue
        else:
            if t == "lock":
                lock_depth = depth
            out.append(t)
    if lock_depth is not None:
        out.append("unlock@end")
    return out


POOL_PATTERNS = [
    (r"\.lock\(\)", "lock"),
    (r"\.recv\(\)", "recv"),
    (r"\.run\(\)", "run"),
    (r"\bbreak\b", "break"),
    (r"\bloop\b", "loop"),
    (r"\bmatch\b", "match"),
    (r"drop\(\s*self\.sender\.take\(\)\s*\)", "drop_sender"),
    (r"self\.sender\s*=\s*None", "drop_sender"),
    (r"self\.sender\.take\(\)\s*;", "drop_sender"),
    (r"\.join\(\)", "join"),
    (r"\.send\(", "send"),
    (r"thread::spawn", "spawn"),
    (r"\bfor\b", "for"),
]

EPOLL_PATTERNS = [
    (r"handle_one_request\(", "handle_one_request"),
    (r"\.in_flight\s*\.store\(\s*(\w+)\s*,\s*Ordering::(\w+)\s*\)", lambda m: f"store in_flight {m.group(1)} {m.group(2)}"),
    (r"\.closed\s*\.store\(\s*(\w+)\s*,\s*Ordering::(\w+)\s*\)", lambda m: f"store closed {m.group(1)} {m.group(2)}"),
    (r"\.closed\s*\.load\(\s*Ordering::(\w+)\s*\)", lambda m: f"load closed {m.group(1)}"),
    (r"\.in_flight\s*\.compare_exchange\(\s*(\w+)\s*,\s*(\w+)\s*,\s*Ordering::(\w+)\s*,\s*Ordering::(\w+)\s*\)", lambda m: f"cas in_flight {m.group(1)} {m.group(2)} {m.group(3)} {m.group(4)}"),
    (r"events:\s*\(*\s*([A-Z_| ]+?)\s*\)\s*as u32", lambda m: "events " + m.group(1).replace(" ", "")),
    (r"epoll_ctl\([^;]*?EPOLL_CTL_DEL", "epoll_ctl DEL"),
    (r"epoll_ctl\([^;]*?EPOLL_CTL_ADD", "epoll_ctl ADD"),
    (r"epoll_wait\(", "epoll_wait"),
    (r"Box::from_raw\(\s*(?:\w+\s*\.\s*)*stream_ptr\s*\)", "take stream"),
    (r"Box::from_raw\(\s*stream_ptr\s*\)", "take stream"),
    (r"Box::from_raw\(\s*[\w.]+ as \*mut Handle\s*\)", "free handle"),
    (r"Box::from_raw\(\s*ptr as \*mut Handle\s*\)", "free handle"),
    (r"Box::from_raw\(\s*\w*handle\w*\s*\)", "free handle"),        # an already typed `*mut Handle` (helper parameter)
    (r"Box::into_raw\(\s*Box::new\(\s*\w+\s*\)\s*\)", "box stream"),
    (r"Box::into_raw\(\s*\w+\s*\)", "box handle"),
    (r"connection_teardown_hook", "teardown"),
    (r"connection_setup_hook", "setup"),
    (r"drop\(\s*\w*stream\w*\s*\)", "drop stream"),
    (r"\.dead\s*\.lock\(\)\s*\.unwrap\(\)\s*\.push\(", "reaper push"),
    (r"\.wake\(\)", "reaper wake"),
    (r"\.free_dead\(\)", "free_dead"),
    (r"\.drain_wake\(\)", "drain_wake"),
    (r"\.execute\(", "execute"),
    (r"\.accept\(\)", "accept"),
    (r"\breturn\b", "return"),
    (r"\bcontinue\b", "continue"),
    (r"std::mem::take\(", "take dead list"),
]


NOT_STEPS = {"{", "}", "return", "continue", "setup", "drop stream", "accept", "epoll_wait", "drain_wake", "take dead list", "events EPOLLIN|EPOLLRDHUP"}


def merge_take_teardown(toks):
    out = []
    for t in toks:
        if t == "teardown" and out and out[-1] == "take stream":
            out[-1] = "take stream + teardown"
        else:
            out.append(t)
    return out


def site_actions(job, serve):
    """label every synchronisation action with its code site (job / job.keep / job.close / loop.event /
    loop.batch_end / accept / accept.fail), event branch before accept branch (the model's order)"""
    out = []
    j = merge_take_teardown([t for t in job if t not in NOT_STEPS])
    for t in j:
        site = "job" if t == "handle_one_request" else "job.keep" if t.startswith("store in_flight") else "job.close"
        out.append(f"{site}: {t}")
    sv = merge_take_teardown([t for t in serve if t not in NOT_STEPS])
    ev_start = next((i for i, t in enumerate(sv) if t.startswith("load closed")), len(sv))
    acc, ev = sv[:ev_start], sv[ev_start:]
    for t in ev:
        out.append(("loop.batch_end: " if t == "free_dead" else "loop.event: ") + t)
    seen_add = False
    for t in acc:
        out.append(("accept.fail: " if seen_add else "accept: ") + t)
        if t == "epoll_ctl ADD":
            seen_add = True
    return out


SERVER_PATTERNS = [
    (r"read_request\(", "read_request"),
    (r"Status::BAD_REQUEST", "400"),
    (r"Status::of\(431\)", "431"),
    (r"Headers::close\(\)", "close-headers"),
    (r"config\.pre_routing_hook", "hook?"),
    (r"\(hook\)\(", "call hook"),
    (r"PreRoutingAction::Proceed", "Proceed"),
    (r"PreRoutingAction::Drop", "Drop"),
    (r"request\.headers\.is_connection_close\(\)", "request close?"),
    (r"ctx\.headers\.is_connection_close\(\)", "request close?"),
    (r"!response\.keep_alive", "not response keep-alive"),
    (r"response\.keep_alive", "response keep-alive"),
    (r"BodyReader::from_request\(", "from_request"),
    (r"\.on_failure\(&body_failed\)", "on_failure"),
    (r"\bdrop\(", "drop"),
    (r"body_failed\.load\(", "body failed?"),
    (r"!body_failed\.load\(", "not body failed?"),
    (r"\.match_route\(", "match_route"),
    (r"\(matched_route\.route\)\(ctx, response\)\?", "call handler ?"),
    (r"client_requested_close", "client_requested_close"),
    (r"return Ok\(false\)", "return close"),
    (r"return Ok\(", "return"),
    (r"Ok\(false\)", "close"),
    (r"handle_one_request\(", "handle_one_request"),
    (r"handle_connection\(", "handle_connection"),
    (r"connection_teardown_hook", "teardown"),
    (r"connection_setup_hook", "setup"),
    (r"ConnectionSetupAction::Proceed", "Proceed"),
    (r"ConnectionSetupAction::Drop", "Drop"),
    (r"ConnectionSetupAction::StopAccepting", "StopAccepting"),
    (r"listener\.accept\(\)", "accept"),
    (r"pool\.execute\(", "execute"),
    (r"thread::spawn\(", "spawn"),
    (r"\bcontinue\b", "continue"),
    (r"\bbreak\b", "break"),
    (r"\bloop\b", "loop"),
    (r"!keep_alive", "not keep_alive"),
    (r"return Ok\(\(\)\)", "return"),
]


HANDLE_PATTERNS = [
    (r"keep_alive:\s*true", "keep_alive: true"),
    (r"keep_alive:\s*false", "keep_alive: false"),
    (r"headers\.is_connection_close\(\)", "close?"),
    (r"self\.keep_alive\s*=\s*false", "keep_alive = false"),
    (r"self\.keep_alive\s*=\s*true", "keep_alive = true"),
    (r"HttpPrinter::write_response_bytes\(", "print bytes"),
    (r"HttpPrinter::write_response_empty\(", "print empty"),
    (r"HttpPrinter::write_response\(", "print reader"),
    (r"HttpPrinter::write_100_continue\(", "print 100"),
    (r"HttpPrinter::write_417_expectation_failed\(", "print 417"),
    (r"self\.send0\(", "-> send0"),
    (r"self\.sendr\(", "-> sendr"),
    (r"self\.send\(", "-> send"),
    (r"\breturn\b", "return"),
    (r"\?", "?"),
]
HANDLE_METHODS = ["new", "ok", "send", "ok0", "send0", "okr", "sendr", "send_100_continue", "send_417_expectation_failed"]

BODY_PATTERNS = [
    (r"res\.is_err\(\)", "err?"),
    (r"flag\.store\(\s*true", "flag = true"),
    (r"Some\(flag\)\s*=\s*(?:self\.1|flag)", "flag set?"),
    (r"matches!\(\s*self\.0\s*,\s*BodyEncoding::Eof\(_\)\s*\|\s*BodyEncoding::Empty\(_\)\s*\)", "eof|empty?"),
    (r"self\.read\(&mut buf\)", "read"),
    (r"Ok\(0\)\s*=>\s*break", "Ok(0) => break"),
    (r"Ok\(_\)\s*=>\s*continue", "Ok(_) => continue"),
    (r"Err\(_\)\s*=>\s*break", "Err(_) => break"),
    (r"Ok\(\s*\w+\s*\)\s*if\b[^=]*=>", "Ok(n) if .. =>"),
    (r"Err\(\s*\w+\s*\)\s*if\b[^=]*=>", "Err(e) if .. =>"),
    (r"self\.note\(res\)", "note"),
    (r"self\.drain\(\)", "drain"),
    (r"headers\.is_transfer_encoding_chunked\(\)", "chunked?"),
    (r"headers\.get_content_length\(\)", "cl?"),
    (r"content_len\s*>\s*0", "cl > 0?"),
    (r"Self::new_chunked\(", "new_chunked"),
    (r"Self::new_fixed\(", "new_fixed"),
    (r"Self::new_empty\(", "new_empty"),
    (r"Self::new_eof\(", "new_eof"),
    (r"\bloop\b", "loop"),
    (r"\bmatch\b", "match"),
    (r"\breturn\b", "return"),
    (r"\bbreak\b", "break"),
    (r"\bcontinue\b", "continue"),
    (r"r\.read\(buf\)|c\.read\(buf\)", "inner read"),
    (r"r\.fill_buf\(\)|c\.fill_buf\(\)", "inner fill_buf"),
]


def impl_block(src, header_rx, what):
    m = re.search(header_rx, src)
    if not m:
        raise ExtractError(what)
    i = m.end(); depth = 1
    while depth and i < len(src):
        if src[i] == '"':
            j = i + 1
            while src[j] != '"':
                j += 2 if src[j] == "\\" else 1
            i = j + 1; continue
        if src[i] == "{": depth += 1
        if src[i] == "}": depth -= 1
        i += 1
    return src[m.end():i - 1]


def lean_assoc(name, pairs):
    return (f"def {name} : List (String × List String) := [" +
            ", ".join('("' + k + '", [' + ", ".join('"' + t.replace('"', "'") + '"' for t in v) + "])" for k, v in pairs) + "]")


def lean_list(name, toks):
    return f"def {name} : List String := [" + ", ".join('"' + t.replace('"', "'") + '"' for t in toks) + "]"


def soft(f, *a):
    """extraction of a SOFT skeleton group (server/mod.rs request handling, ResponseHandle, BodyReader — DESIGN.md §17.3): a function
    that was renamed, split or moved makes the group unreadable, which is a difference like any other, not a translator failure"""
    try:
        return f(*a)
    except (ExtractError, IndexError, AttributeError):
        return ["<function not found>"]


def main():
    tp = strip_hooks(strip_comments(open(os.path.join(REPO, "src/threadpool.rs")).read()))
    ep = strip_hooks(strip_comments(open(os.path.join(REPO, "src/server/epoll.rs")).read()))
    L = ["/- GENERATED by tools/extract_skeleton.py from /repo sources — do not edit. -/", "namespace Khttp.Gen\n"]
    # Worker::new is `fn new<J: Task>(receiver...` ; ThreadPool::new is `pub fn new(size`
    m = re.search(r"impl Worker\s*\{", tp)
    if not m:
        raise ExtractError("impl Worker")
    # helper functions of the same file are inlined at their call sites (a worker loop moved into a struct with `next_job()` /
    # `run()`, a `close_channel()` helper …): what counts is which actions happen under the lock and in which order
    pfns = all_fns(tp)
    pkeep = {"new", "execute", "drop"}
    L.append(lean_list("poolWorker", pool_canon(skeleton(inline_helpers(fn_body(tp[m.end():], "new"), pfns, pkeep), POOL_PATTERNS))))
    L.append(lean_list("poolExecute", pool_canon(skeleton(inline_helpers(fn_body(tp, "execute"), pfns, pkeep), POOL_PATTERNS))))
    L.append(lean_list("poolDrop", pool_canon(skeleton(inline_helpers(fn_body(tp, "drop"), pfns, pkeep), POOL_PATTERNS))))
    m = re.search(r"impl Task for EpollJob\s*\{", ep)
    if not m:
        raise ExtractError("impl Task for EpollJob")
    # helper functions of the same file are inlined at their call sites and named event masks are resolved before the actions are
    # read off; the lists are in canonical (flat) form
    ep = resolve_consts(ep)
    fns = all_fns(ep)
    keep = {"run", "serve_epoll", "free_dead", "drain_wake", "wake", "create_listener", "create_wake_fd", "new", "drop", "execute"}
    job = flat(skeleton(inline_helpers(fn_body(ep[m.end():], "run"), fns, keep), EPOLL_PATTERNS))
    serve = flat(skeleton(inline_helpers(fn_body(ep, "serve_epoll"), fns, keep), EPOLL_PATTERNS))
    L.append(lean_list("epollJobRun", job))
    L.append(lean_list("epollServe", serve))
    L.append(lean_list("epollFreeDead", flat(skeleton(inline_helpers(fn_body(ep, "free_dead"), fns, keep), EPOLL_PATTERNS))))
    # the same actions, labelled by code site, in the order in which the model lists its annotated steps
    L.append(lean_list("epollActions", site_actions(job, serve)))
    sv = strip_hooks(strip_comments(open(os.path.join(REPO, "src/server/mod.rs")).read()))
    sk = lambda src, fn, pats: soft(lambda: skeleton(fn_body(src, fn), pats))
    blk = lambda src, rx, what: soft(lambda: impl_block(src, rx, what))
    L.append(lean_list("serverHandleOne", sk(sv, "handle_one_request", SERVER_PATTERNS)))
    L.append(lean_list("serverHandleConnection", sk(sv, "handle_connection", SERVER_PATTERNS)))
    L.append(lean_list("serverServe", sk(sv, "serve", SERVER_PATTERNS)))
    L.append(lean_list("serverServeThreaded", sk(sv, "serve_threaded", SERVER_PATTERNS)))
    # ResponseHandle: every sending method records the close token before it prints; ok* delegate to send*
    rh = blk(sv, r"impl<'s>\s*ResponseHandle<'s>\s*\{", "impl ResponseHandle")
    rh = rh if isinstance(rh, str) else ""
    L.append(lean_assoc("handleSkeleton", [(mth, sk(rh, mth, HANDLE_PATTERNS)) for mth in HANDLE_METHODS]))
    # body_reader.rs: reader selection, failure flag, drop-drain
    br = strip_hooks(strip_comments(open(os.path.join(REPO, "src/body_reader.rs")).read()))
    rd = blk(br, r"impl<R: Read>\s*Read for BodyReader<'_, R>\s*\{", "impl Read for BodyReader")
    bf = blk(br, r"impl<R: Read>\s*BufRead for BodyReader<'_, R>\s*\{", "impl BufRead for BodyReader")
    dr = blk(br, r"impl<R: Read>\s*Drop for BodyReader<'_, R>\s*\{", "impl Drop for BodyReader")
    rd, bf, dr = (x if isinstance(x, str) else "" for x in (rd, bf, dr))
    L.append(lean_assoc("bodySkeleton", [
        ("from_request", sk(br, "from_request", BODY_PATTERNS)),
        ("from_response", sk(br, "from_response", BODY_PATTERNS)),
        ("note", sk(br, "note", BODY_PATTERNS)),
        ("drain", sk(br, "drain", BODY_PATTERNS)),
        ("read", sk(rd, "read", BODY_PATTERNS)),
        ("fill_buf", sk(bf, "fill_buf", BODY_PATTERNS)),
        ("drop", sk(dr, "drop", BODY_PATTERNS)),
    ]))
    L.append("\nend Khttp.Gen\n")
    text = "\n".join(L)
    old = open(OUT).read() if os.path.exists(OUT) else None
    if old != text:
        with open(OUT, "w") as f:
            f.write(text)
        print("extract_skeleton: wrote", OUT)
    else:
        print("extract_skeleton: unchanged")


if __name__ == "__main__":
    try:
        main()
    except ExtractError as e:
        print("extract_skeleton: EXTRACTION FAILED:", e)
        sys.exit(3)
