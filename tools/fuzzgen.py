#!/usr/bin/env python3
"""Coverage- and behaviour-guided case generation (libFuzzer) for the correspondence / oracle runs.

The generators in tools/gen are written by hand from the grammar; what they never produce, no run sees (DESIGN.md §13, §15: every
seeded change that was missed was missed for want of an input class).  This module adds a generator that is driven by the REAL code:

  * /verif/fuzz/fuzz_targets/<t>.rs  libFuzzer targets over khttp's public API (req, resp, hdr, body, route), built with coverage
    instrumentation of /repo's working tree.  Besides code edges, each target reports BEHAVIOUR FEATURES (shape of the input x what
    the code answered: verdict, decoded length, flags, numeral width …) through libFuzzer's extra-counter section, so an input that
    makes the code answer in a way not seen before is kept even if it reaches no new edge.
  * /verif/fuzz/corpus/<t>.hex       the committed corpus (one hex line per input) grown that way on the unchanged tree.
  * lines(t, seconds)                 unpacks the corpus, fuzzes the CURRENT tree for `seconds` (new edges introduced by a change are
    what libFuzzer looks for first), and returns every corpus input and every newly kept input as case lines of the kimpl / kmodel
    protocol (decoder shared with the targets: harness/src/fuzzdec.rs, `kimpl FUZZLINE`).

The fuzzer has no oracle and decides nothing: its inputs go through the same model-vs-implementation diff and the same independent
oracles as every other case.  It is search support for the tie, never a stand-in for a theorem.

  tools/fuzzgen.py build                 build the targets (setup)
  tools/fuzzgen.py grow <t> <seconds>    extend and minimise the committed corpus of target t (run on the unchanged tree only)
"""
import hashlib, os, shutil, subprocess, sys, time

ROOT = os.path.normpath(os.path.join(os.path.dirname(os.path.abspath(__file__)), ".."))
FUZZ = os.path.join(ROOT, "fuzz")
BIN = os.path.join(FUZZ, "target", "x86_64-unknown-linux-gnu", "release")
WORK = os.path.join(FUZZ, "work")
KIMPL = os.path.join(ROOT, "harness", "target", "release", "kimpl")
TARGETS = {"req": 320, "resp": 320, "hdr": 220, "body": 260, "route": 200, "print": 160}   # -max_len
NCPU = os.cpu_count() or 4


def sh(cmd, cwd=None, timeout=None, inp=None):
    e = dict(os.environ); e["CARGO_NET_OFFLINE"] = "true"
    p = subprocess.run(cmd, cwd=cwd, stdout=subprocess.PIPE, stderr=subprocess.STDOUT, timeout=timeout, env=e, input=inp)
    return p.returncode, p.stdout.decode("utf-8", "replace")


def build():
    """(ok, message) — rebuilds khttp with sanitizer coverage from /repo's working tree (a few seconds when only khttp changed)"""
    if not os.path.isdir(FUZZ):
        return False, "no fuzz crate"
    lock = os.path.join(FUZZ, "Cargo.lock")
    if not os.path.exists(lock) and os.path.exists("/repo/Cargo.lock"):
        shutil.copy("/repo/Cargo.lock", lock)
    rc, out = sh(["cargo", "+nightly", "fuzz", "build", "--fuzz-dir", FUZZ], cwd=FUZZ, timeout=1800)
    if rc != 0:
        tail = [l for l in out.splitlines() if l.startswith("error")][:2] or out.strip().splitlines()[-2:]
        return False, "; ".join(tail)[:300]
    return True, "ok"


def corpus(t):
    p = os.path.join(FUZZ, "corpus", t + ".hex")
    if not os.path.exists(p):
        return []
    return [l.strip() for l in open(p) if l.strip() and not l.startswith("#")]


def unpack(t, d):
    os.makedirs(d, exist_ok=True)
    for h in corpus(t):
        b = b"" if h == "e" else bytes.fromhex(h)
        with open(os.path.join(d, hashlib.sha1(b).hexdigest()), "wb") as f:
            f.write(b)


def fuzz(t, seeds_dir, new_dir, seconds, forks=None, seed=1):
    os.makedirs(new_dir, exist_ok=True)
    exe = os.path.join(BIN, t)
    forks = forks or max(2, min(NCPU - 2, 12))
    art = os.path.join(new_dir, "..", "artifacts") + os.sep
    os.makedirs(art, exist_ok=True)
    cmd = [exe, new_dir, seeds_dir, "-max_len=%d" % TARGETS[t], "-max_total_time=%d" % seconds, "-fork=%d" % forks, "-ignore_crashes=1", "-ignore_timeouts=1", "-ignore_ooms=1",
           "-timeout=5", "-rss_limit_mb=2048", "-seed=%d" % (seed + 1), "-artifact_prefix=" + art, "-print_final_stats=0", "-verbosity=0"]
    try:
        rc, out = sh(cmd, cwd=new_dir, timeout=seconds + 60)
    except subprocess.TimeoutExpired:
        rc, out = 124, "timeout"
    return rc, out, art


def to_lines(t, blobs):
    if t == "req":
        return ["REQ " + (b.hex() or "e") for b in blobs]
    if t == "resp":
        return ["RESP " + (b.hex() or "e") for b in blobs]
    inp = "".join("FUZZLINE %s %s\n" % (t, b.hex() or "e") for b in blobs).encode()
    rc, out = sh([KIMPL], inp=inp, timeout=600)
    ls = out.splitlines()
    return ls if len(ls) == len(blobs) else []


def read_dir(d):
    out = []
    if os.path.isdir(d):
        for f in sorted(os.listdir(d)):
            p = os.path.join(d, f)
            if os.path.isfile(p):
                out.append(open(p, "rb").read())
    return out


def src_digest():
    h = hashlib.sha1()
    for base, _, files in sorted(os.walk("/repo/src")):
        for f in sorted(files):
            p = os.path.join(base, f)
            h.update(p.encode()); h.update(open(p, "rb").read())
    return h.hexdigest()[:16]


def lines(t, seconds, seed=0):
    """returns (case lines of the committed corpus, case lines of the inputs libFuzzer kept in this run, note)"""
    if t not in TARGETS or not os.path.exists(os.path.join(BIN, t)):
        return [], [], "fuzz target %s not built" % t
    tag = "%s-%s-%d-%d" % (t, src_digest(), seconds, seed)
    w = os.path.join(WORK, tag)
    done = os.path.join(w, "DONE")
    note = "libFuzzer %ds on /repo's tree" % seconds
    os.makedirs(WORK, exist_ok=True)
    import fcntl
    lockf = open(os.path.join(WORK, t + ".lock"), "w")
    fcntl.flock(lockf, fcntl.LOCK_EX)        # checks running side by side share one run per target instead of trampling on it
    try:
        return _lines_locked(t, seconds, w, done, note, seed)
    finally:
        fcntl.flock(lockf, fcntl.LOCK_UN); lockf.close()


def _lines_locked(t, seconds, w, done, note, seed=1):
    if not os.path.exists(done):
        # one run per (target, source tree, budget, seed): the properties that share a domain reuse it
        shutil.rmtree(w, ignore_errors=True)
        for old in (os.listdir(WORK) if os.path.isdir(WORK) else []):
            if old.startswith(t + "-") and os.path.isdir(os.path.join(WORK, old)):
                shutil.rmtree(os.path.join(WORK, old), ignore_errors=True)
        seeds, new = os.path.join(w, "seeds"), os.path.join(w, "new")
        unpack(t, seeds)
        rc, out, art = fuzz(t, seeds, new, seconds, seed=seed)
        crashes = read_dir(art)
        # inputs on which the target itself crashed (a panic / abort in the code under test) are cases too
        for i, b in enumerate(crashes):
            open(os.path.join(new, "crash-%d" % i), "wb").write(b)
        open(done, "w").write("rc=%d\n" % rc)
    else:
        note += " (shared run)"
    base = [bytes.fromhex(h) if h != "e" else b"" for h in corpus(t)]
    fresh = read_dir(os.path.join(w, "new"))
    return to_lines(t, base), to_lines(t, fresh), note + ": corpus %d, newly kept %d" % (len(base), len(fresh))


def grow(t, seconds):
    w = os.path.join(WORK, "grow-" + t)
    shutil.rmtree(w, ignore_errors=True)
    seeds, new, merged = os.path.join(w, "seeds"), os.path.join(w, "new"), os.path.join(w, "merged")
    unpack(t, seeds)
    if not os.listdir(seeds):
        open(os.path.join(seeds, "empty"), "wb").write(b"")
    rc, out, art = fuzz(t, seeds, new, seconds)
    os.makedirs(merged, exist_ok=True)
    rc, out = sh([os.path.join(BIN, t), "-merge=1", "-max_len=%d" % TARGETS[t], merged, seeds, new], cwd=w, timeout=3600)
    blobs = sorted(set(read_dir(merged)), key=lambda b: (len(b), b))
    os.makedirs(os.path.join(FUZZ, "corpus"), exist_ok=True)
    with open(os.path.join(FUZZ, "corpus", t + ".hex"), "w") as f:
        f.write("# corpus of fuzz target %s: one input per line (hex), grown by tools/fuzzgen.py grow on the unchanged tree, minimised with -merge=1\n" % t)
        for b in blobs:
            f.write((b.hex() or "e") + "\n")
    shutil.rmtree(w, ignore_errors=True)
    print("corpus %s: %d inputs" % (t, len(blobs)))


if __name__ == "__main__":
    if sys.argv[1] == "build":
        ok, msg = build()
        print("fuzz build:", msg)
        sys.exit(0 if ok else 1)
    if sys.argv[1] == "grow":
        ok, msg = build()
        if not ok:
            print(msg); sys.exit(1)
        grow(sys.argv[2], int(sys.argv[3]))
