"""Generator for the BODY domain. Each case carries what the C06 statement demands."""
from .common import *


def enc_chunked(chunks, r, exts=True, trailers=True):
    """returns (bytes, end_of_last_chunk_line_offset)"""
    out = b""
    for c in chunks:
        size = (b"%x" % len(c)) if r.random() < 0.5 else (b"%X" % len(c))
        if r.random() < 0.25:
            size = b"0" * r.choice([1, 2]) + size
        ext = (b";" + r.choice([b"a=b", b"ext", b"q=\"x\""])) if exts and r.random() < 0.3 else b""
        out += size + ext + b"\r\n" + c + b"\r\n"
    out += b"0" + ((b";" + b"last") if exts and r.random() < 0.2 else b"") + b"\r\n"
    last_line_end = len(out)
    if trailers and r.random() < 0.4:
        for _ in range(r.choice([1, 2])):
            out += r.choice([b"X-Trailer: yes", b"Expires: never", b"a:b"]) + b"\r\n"
    out += b"\r\n"
    return out, last_line_end


def rbytes(r, n):
    return bytes(r.choice(b"abcdefghijklmnopqrstuvwxyz0123456789\r\n;: ") for _ in range(n))


def sched(r):
    x = r.random()
    if x < 0.25: return "-"
    if x < 0.45: return "1"
    if x < 0.6: return str(r.choice([2, 3, 7, 4095, 4096, 4097, 8192]))
    return ",".join(str(r.choice([1, 2, 3, 5, 16, 100, 1024, 4096, 5000])) for _ in range(r.randrange(1, 6)))


def cases(seed, tier):
    """yield (line, expect) with expect = dict(kind='exact'|'trunc'|'malformed', payload, ...)"""
    r = rng_for(seed, "body")
    n = 2500 if tier == "quick" else 120000
    for _ in range(n):
        plen = r.choice([0, 1, 2, 3, 5, 8, 17, 100, 4095, 4096, 4097, 9000]) if r.random() < 0.8 else r.randrange(0, 40)
        payload = rbytes(r, plen)
        api = r.choice(["read", "read", "buf", "buf", "drain"])
        kindsel = r.random()
        extra = rbytes(r, r.choice([0, 0, 3, 50]))
        if kindsel < 0.35:
            # fixed
            enc = payload
            kind = "fixed:%d" % len(payload)
            mode = r.choice(["exact", "exact", "trunc"]) if payload else "exact"
            if mode == "trunc":
                cut = r.randrange(0, len(enc))
                total = enc[:cut]
                exp = {"kind": "trunc-fixed", "payload": payload, "cut": cut}
            else:
                total = enc + extra
                exp = {"kind": "exact", "payload": payload, "enc_len": len(enc), "fixed": True}
        else:
            chunks = []
            i = 0
            while i < len(payload):
                k = r.choice([1, 2, 3, 5, 16, 255, 256, 4096, len(payload) - i])
                k = max(1, min(k, len(payload) - i))
                chunks.append(payload[i:i + k]); i += k
            enc, lle = enc_chunked(chunks, r)
            kind = "chunked"
            mode = r.choice(["exact", "exact", "exact", "trunc", "trunc", "corrupt"])
            if mode == "exact":
                total = enc + extra
                exp = {"kind": "exact", "payload": payload, "enc_len": len(enc), "fixed": False}
            elif mode == "trunc":
                cut = r.randrange(0, len(enc))
                total = enc[:cut]
                exp = {"kind": "trunc-chunked", "payload": payload, "cut": cut, "clean_from": lle}
            else:
                # single-byte framing corruption: a size digit -> non-hex, or the CR/LF after chunk data
                total = None
                if chunks and r.random() < 0.5:
                    # corrupt CRLF after the data of chunk j
                    j = r.randrange(len(chunks))
                    pos = 0
                    off = 0
                    for idx, c in enumerate(chunks):
                        line_end = enc.index(b"\r\n", off) + 2
                        data_end = line_end + len(c)
                        if idx == j:
                            pos = data_end + r.choice([0, 1])
                            break
                        off = data_end + 2
                    b = bytearray(enc)
                    b[pos] = r.choice(b"Xx0 ")
                    total = bytes(b) + extra
                    exp = {"kind": "malformed", "payload": payload, "delivered_max": sum(len(c) for c in chunks[:j + 1])}
                elif r.random() < 0.3:
                    # the size line of chunk j (or of the last-chunk) is replaced by a numeral of 2^64 or more whose low 64 bits
                    # are the right size: more hex digits than a usize holds is malformed, never reduced modulo 2^64
                    j = r.randrange(len(chunks) + 1)
                    off = 0
                    for idx in range(j):
                        line_end = enc.index(b"\r\n", off) + 2
                        off = line_end + len(chunks[idx]) + 2
                    eol = enc.index(b"\r\n", off)
                    semi = enc.find(b";", off, eol)
                    size_end = semi if semi >= 0 else eol
                    n_ = len(chunks[j]) if j < len(chunks) else 0
                    big = (b"%x" % ((r.choice([1, 1, 0xf, 0x123]) << 64) + n_))
                    total = enc[:off] + big + enc[size_end:] + extra
                    exp = {"kind": "malformed", "payload": payload, "delivered_max": sum(len(c) for c in chunks[:j])}
                else:
                    j = r.randrange(len(chunks) + 1)
                    off = 0
                    for idx in range(j):
                        line_end = enc.index(b"\r\n", off) + 2
                        off = line_end + len(chunks[idx]) + 2
                    b = bytearray(enc)
                    b[off] = r.choice(b"zg+-x ")
                    total = bytes(b) + extra
                    exp = {"kind": "malformed", "payload": payload, "delivered_max": sum(len(c) for c in chunks[:j])}
        split = r.choice([0, len(total), r.randrange(0, len(total) + 1)]) if total else 0
        lo, st = total[:split], total[split:]
        sx = r.random()
        segs = "-" if sx < 0.3 else "1" if sx < 0.5 else ",".join(str(r.choice([1, 2, 3, 7, 100, 4095, 4096, 4097])) for _ in range(r.randrange(1, 8)))
        line = "BODY kind=%s lo=%s st=%s segs=%s api=%s sched=%s" % (kind, hx(lo), hx(st), segs, api, sched(r))
        exp["api"] = api
        yield line, exp
