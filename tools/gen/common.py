"""Shared helpers for case generators. All randomness comes from one random.Random(seed)."""
import random

def hx(b: bytes) -> str:
    return b.hex() if b else "e"

BOUNDARY_SIZES = [0, 1, 2, 3, 6, 7, 8, 9, 15, 16, 17, 23, 24, 25, 31, 32, 33]
NASTY = [0x00, 0x09, 0x0a, 0x0c, 0x0d, 0x20, 0x21, 0x22, 0x23, 0x25, 0x2a, 0x2c, 0x2f, 0x3a, 0x3b, 0x3c, 0x3e, 0x3f,
         0x40, 0x5b, 0x5c, 0x5d, 0x5e, 0x60, 0x7b, 0x7c, 0x7d, 0x7e, 0x7f, 0x80, 0x81, 0xa0, 0xc3, 0xe9, 0xfe, 0xff]

def rng_for(seed: int, tag: str) -> random.Random:
    return random.Random(f"{seed}:{tag}")


def cl_numeral_grid():
    """Content-Length values around the edges of `1*DIGIT`: (i) valid numerals of every width 1..48 (leading zeros are legal and the
    grammar sets no length limit) for values from 0 to u64::MAX; (ii) numerals of boundary lengths (1..25: below, at and above the
    8-byte block sizes of a word-at-a-time digit scan and the 19/20-digit range of u64) in which ONE position holds a byte next to
    the digit range ('/' ':' ';' '<' '=' '>' '?' '@'), a hex letter, a sign, a separator, OWS or obs-text; (iii) the 2^64 edge with
    and without zero padding.  Returns a list of byte strings; validity is decided by each oracle itself."""
    out = []
    for v in (0, 5, 13, 4294967296, 2 ** 63, 2 ** 64 - 1):
        s = str(v).encode()
        for w in range(len(s), 49):
            out.append(s.rjust(w, b"0"))
    near = b"/:;<=>?@aAfF\xb5+-., \t"
    for L in (1, 2, 3, 7, 8, 9, 10, 15, 16, 17, 19, 20, 23, 24, 25):
        base = (b"0" * L + b"42")[-L:]
        for pos in range(L):
            for c in near:
                out.append(base[:pos] + bytes([c]) + base[pos + 1:])
    for s in (b"18446744073709551615", b"18446744073709551616", b"18446744073709551620", b"28446744073709551615", b"99999999999999999999",
              b"100000000000000000000", b"18446744073709551615000"):
        for w in (len(s), len(s) + 1, 24, 32, 40):
            if w >= len(s):
                out.append(s.rjust(w, b"0"))
    seen, uniq = set(), []
    for x in out:
        if x not in seen:
            seen.add(x); uniq.append(x)
    return uniq
