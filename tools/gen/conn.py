"""Generator for the CONN domain: request sequences on one keep-alive connection, with handler behaviours chosen by
the request (see harness/src/dom_conn.rs), close-token spellings, hook outcomes, framing variants and segmentations.
Each generated history carries the transcript the SPEC demands (independent of the code and of the Lean model)."""
from .common import *

CLOSE_SPELLINGS = [b"close", b"Close", b"CLOSE", b"keep-alive, close", b"close ,x", b"\tclose\t", b"close ", b"x,close", b"keep-alive,\tClose ,y"]
NOCLOSE_SPELLINGS = [b"keep-alive", b"closed", b"close2", b"xclose", b"clo se", b"upgrade, keep-alive"]


def chunked(body: bytes, r, exts=False, trailers=False):
    out = b""
    i = 0
    while i < len(body):
        n = r.choice([1, 2, 3, 5, 16, len(body) - i])
        n = max(1, min(n, len(body) - i))
        size = (b"%x" % n) if r.random() < 0.5 else (b"%X" % n)
        if r.random() < 0.2:
            size = b"0" + size
        out += size + (b";ext=1" if exts and r.random() < 0.5 else b"") + b"\r\n" + body[i:i + n] + b"\r\n"
        i += n
    out += b"0" + (b";last" if exts and r.random() < 0.3 else b"") + b"\r\n"
    if trailers and r.random() < 0.5:
        for _ in range(r.choice([1, 1, 1, 2, 3])):
            out += r.choice([b"X-Trailer: yes", b"X-Sum: abc", b"t:", b"Expires: never \t", b"x-long: " + b"v" * 70]) + b"\r\n"
    return out + b"\r\n"


class Req:
    """one request + what the spec says must happen"""
    def __init__(self, r, kind=None, last=False):
        self.kind = kind or r.choice(["echo", "echo", "noread", "readk", "early", "swallow", "p", "notfound", "close", "err", "errint", "errclose", "hookdrop", "hookdropclose", "bigr", "reqclose", "reqnoclose",
                                      "closeempty", "closer", "hookdropclosesend", "silent", "errkind",
                                      "gecho", "cont", "crlfpre", "hookstrip", "bigchunk", "closerep"])
        k = self.kind
        self.body = b""
        self.framing = None
        hdrs = []
        method, path = b"GET", b"/nope"
        has_body = k in ("echo", "noread", "readk", "early", "swallow", "gecho", "cont", "bigchunk") or (k in ("hookdrop", "hookdropclose", "hookdropclosesend", "notfound", "reqclose") and r.random() < 0.5)
        if has_body:
            self.body = rstr_body(r)
            self.framing = r.choice(["fixed", "fixed", "chunked"])
        self.readk = 0
        if k == "echo": method, path = b"POST", b"/echo"
        elif k == "gecho": method, path = r.choice([b"GET", b"PUT", b"DELETE"]), b"/gecho"     # a body on GET / PUT / DELETE
        elif k == "cont":
            method, path = b"POST", b"/continue"
            hdrs.append((b"Expect", b"100-continue"))
        elif k == "crlfpre":
            path = b"/p/1/2"       # the request line is preceded by an empty line: not `method SP target SP version`
        elif k == "hookstrip":
            # close token in the FIRST of two Connection fields; a pre-routing hook then removes an unrelated field
            path = b"/p/7/8"
            hdrs += [(b"Connection", r.choice([b"close", b"Close", b"x, close"])), (b"x-internal-auth", b"1"), (b"Connection", b"keep-alive"), (b"x-hook", b"strip")]
        elif k == "bigchunk":
            method, path = b"POST", b"/echo"
        elif k == "noread": method, path = b"POST", b"/noread"
        elif k == "readk":
            self.readk = r.randrange(0, len(self.body) + 2)
            method, path = b"POST", b"/read/%d" % self.readk
        elif k == "early": method, path = b"POST", b"/early"
        elif k == "swallow": method, path = b"POST", b"/swallow"
        elif k == "p":
            self.a, self.b = r.choice([b"1", b"abc", b"x%20y"]), r.choice([b"2", b"zz"])
            path = b"/p/" + self.a + b"/" + self.b
        elif k == "close": path = b"/close"
        elif k == "err": path = b"/err"
        elif k == "errint": path = b"/errint"
        elif k == "errkind": path = b"/errkind/" + r.choice([b"brokenpipe", b"reset", b"aborted", b"eof", b"wouldblock", b"interrupted", b"timedout", b"invaliddata", b"other"])
        elif k == "silent": path = b"/silent"
        elif k == "errclose":
            path = b"/err"
            hdrs.append((b"Connection", b"close"))
        elif k == "bigr":
            self.n = r.choice([0, 1, 100, 2047, 2048, 8191, 8192, 8193, 20000])
            path = b"/bigr/%d" % self.n
        elif k == "closeempty":
            path = b"/closeempty/" + r.choice([b"ok", b"send", b"send0", b"okr", b"sendr"])
        elif k == "closerep":
            self.how = r.choice([b"toclose", b"tokeep", b"twice", b"readd"])
            path = b"/closerep/" + self.how
        elif k == "closer":
            self.n = r.choice([0, 1, 100, 2048, 8191, 8192, 20000])
            path = b"/closer/%d" % self.n
        elif k in ("hookdrop", "hookdropclose", "hookdropclosesend"):
            method, path = (b"POST", b"/echo") if has_body else (b"GET", b"/p/1/2")
            hdrs.append((b"x-hook", {"hookdrop": b"drop", "hookdropclose": b"dropclose", "hookdropclosesend": b"dropclosesend"}[k]))
        elif k == "reqclose":
            method, path = (b"POST", b"/echo") if has_body else (b"GET", b"/p/7/8")
            self.spelling = r.choice(CLOSE_SPELLINGS)
            for part in ([self.spelling] if r.random() < 0.7 else [b"keep-alive", self.spelling]):
                hdrs.append((r.choice([b"Connection", b"connection", b"CONNECTION"]), part))
        elif k == "reqnoclose":
            method, path = b"GET", b"/p/5/6"
            hdrs.append((b"Connection", r.choice(NOCLOSE_SPELLINGS)))
        elif k == "notfound" and has_body:
            method = b"POST"
        elif k == "notfound" and r.random() < 0.5:
            # an extension method nobody registered a route for (no table at all for it): the fallback, with an empty parameter set
            method = r.choice([b"PROPFIND", b"MKCOL", b"REPORT", b"purge", b"CONNECT"])
        if has_body:
            if self.framing == "fixed":
                hdrs.append((b"Content-Length", b"%d" % len(self.body)))
                self.wire_body = self.body
            else:
                hdrs.append((b"Transfer-Encoding", r.choice([b"chunked", b"Chunked", b"gzip, chunked"])))
                if r.random() < 0.15:
                    hdrs.append((b"Content-Length", b"%d" % (len(self.body) + 3)))  # chunked overrides it
                self.wire_body = chunked(self.body, r, exts=True, trailers=True)
        else:
            self.wire_body = b""
        if k == "bigchunk":
            # a chunk size of 2^64 and more (17+ hex digits) is not a size the reader can represent: malformed, never wrapped
            self.framing = "chunked"
            hdrs = [(b"Transfer-Encoding", b"chunked")]
            self.wire_body = r.choice([b"10000000000000005", b"10000000000000000", b"f0000000000000005", b"100000000000000000005"]) + b"\r\nhello\r\n0\r\n\r\n"
        if k != "hookstrip":
            r.shuffle(hdrs)
        # HTTP/1.0 requests are handled like HTTP/1.1 ones: the connection persists unless one of the listed reasons to close applies
        ver = b"HTTP/1.0" if r.random() < 0.12 else b"HTTP/1.1"
        if ver == b"HTTP/1.0" and r.random() < 0.3:
            hdrs.append((b"Connection", b"keep-alive"))
        self.head = (b"\r\n" if k == "crlfpre" else b"") + method + b" " + path + b" " + ver + b"\r\n" + b"".join(k_ + b": " + v + b"\r\n" for k_, v in hdrs) + b"\r\n"
        self.has_body = has_body

    # ---- what the spec demands -------------------------------------------------
    def expected(self):
        """(status, close_header, body) or None when no response is sent (handler error); closes_after"""
        k = self.kind
        if k in ("echo", "gecho"): return (200, 0, self.body), False
        if k == "cont": return "cont", False
        if k == "crlfpre": return (400, 1, b""), True
        if k == "hookstrip": return (200, 0, b"7,8"), True
        if k == "bigchunk": return None, True
        if k == "noread": return (200, 0, b"noread"), False
        if k == "readk": return (200, 0, self.body[:self.readk]), False
        if k == "early": return (200, 0, b"early"), False
        if k == "swallow": return (200, 0, b"%d" % len(self.body)), False
        if k == "p": return (200, 0, self.a + b"," + self.b), False
        if k == "notfound": return (404, 0, b""), False
        if k == "close": return (200, 1, b"bye"), True
        if k in ("err", "errint", "errclose", "errkind"): return None, True
        if k == "silent": return "silent", False
        if k == "bigr": return (200, 0, b"x" * self.n), False
        if k == "hookdrop": return (405, 0, b""), False
        if k in ("hookdropclose", "hookdropclosesend"): return (405, 1, b""), True
        if k == "closeempty": return (200, 1, b""), True
        if k == "closerep":
            c_ = self.how in (b"toclose", b"readd")      # what a fresh evaluation of the edited header set says
            return (200, 1 if c_ else 0, b"rep"), c_
        if k == "closer": return (200, 1, b"x" * self.n), True
        if k == "reqclose":
            return ((200, 0, self.body) if self.has_body else (200, 0, b"7,8")), True
        if k == "reqnoclose": return (200, 0, b"5,6"), False
        raise AssertionError(k)


def rstr_body(r):
    n = r.choice([1, 2, 5, 10, 17, 100, 1000, 4095, 4096, 4097, 9000])
    return bytes(r.choice(b"abcdefghij0123456789\r\n: ") for _ in range(n))


def split_points(r, data, mode):
    if mode == "whole" or len(data) < 2:
        return [data]
    if mode == "bytes":
        return [data[i:i + 1] for i in range(len(data))]
    k = r.choice([2, 2, 3, 5])
    if mode == "struct":
        # cuts next to the line ends of the framing (size lines, chunk-data CRLFs, last chunk, trailer lines, final empty line):
        # every position that touches a CR or an LF, preferring the tail of the body (last chunk + trailer section), and often
        # two neighbouring line ends at once (`...X-Sum: abc | CRLF | CRLF`)
        near = sorted({q_ for i, b in enumerate(data) if b in (13, 10) for q_ in (i, i + 1) if 0 < q_ < len(data)})
        tail = [q_ for q_ in near if q_ >= len(data) - 48]
        cuts = set()
        for _ in range(r.choice([1, 2, 2, 3, 4])):
            pool = tail if (tail and r.random() < 0.7) else near
            if not pool:
                break
            c = r.choice(pool)
            cuts.add(c)
            if r.random() < 0.6:
                cuts.update(x for x in (c + 2, c - 2) if x in near and r.random() < 0.7)
        cuts = sorted(cuts) or [r.randrange(1, len(data))]
        out, p = [], 0
        for c in cuts + [len(data)]:
            out.append(data[p:c]); p = c
        return [x for x in out if x]
    cuts = sorted(set(r.randrange(1, len(data)) for _ in range(k - 1)))
    out, p = [], 0
    for c in cuts + [len(data)]:
        out.append(data[p:c]); p = c
    return [x for x in out if x]


def history(r, max_reqs=4, kinds=None):
    """returns (script string, expected transcript list, meta)"""
    n = r.choice([1, 1, 2, 2, 3, max_reqs])
    reqs = [Req(r, kind=(r.choice(kinds) if kinds else None)) for _ in range(n)]
    steps, exp = [], []
    carry = b""  # bytes of the previous request's body still to be sent together with the next head
    closed = False
    early_chunked = False
    ec_idx = None
    for i, q in enumerate(reqs):
        if closed:
            break
        head_mode = r.choice(["whole", "whole", "split", "split", "bytes"] if len(q.head) < 120 else ["whole", "split"])
        body_mode = r.choice(["with_head", "with_head", "later", "split", "after_response"])
        can_defer = q.kind in ("noread", "early", "hookdrop", "hookdropclose", "hookdropclosesend", "notfound") or (q.kind == "readk" and q.readk == 0)
        if body_mode == "after_response" and not (can_defer and len(q.wire_body) >= 2):
            body_mode = "later"
        first = carry + q.head
        carry = b""
        if carry_in := (len(first) > len(q.head)):
            pass
        if not q.wire_body:
            segs = split_points(r, first, head_mode)
        elif body_mode == "with_head":
            segs = split_points(r, first + q.wire_body, "whole" if head_mode == "whole" else "split")
        elif body_mode == "later":
            segs = split_points(r, first, head_mode) + [q.wire_body]
        elif body_mode == "split":
            segs = split_points(r, first, head_mode) + split_points(r, q.wire_body, "struct" if (q.framing == "chunked" and r.random() < 0.6) else "split")
        else:  # part of the body now, the rest together with the next request after the response was seen
            cut = r.randrange(1, len(q.wire_body))
            segs = split_points(r, first, head_mode)
            if r.random() < 0.5:
                segs[-1] = segs[-1] + q.wire_body[:cut]
            else:
                segs.append(q.wire_body[:cut])
            carry = q.wire_body[cut:]
            if q.framing == "chunked" and ec_idx is None:
                early_chunked = True
                ec_idx = i
        for sgm in segs:
            steps.append("s:" + hx(sgm))
        e, closes = q.expected()
        if e == "silent":
            # nothing is sent for this request and the connection stays open: a lock-step client cannot go on, so it
            # half-closes and must see the end of the connection with no byte before it
            steps.append("c"); steps.append("e"); exp.append("EOF")
            closed = True
            break
        if e == "cont":
            steps += ["r", "r"]
            exp += ["R100:0:e", "R200:0:" + hx(q.body)]
            continue
        if e is None:
            exp.append("EOF")
            steps.append("r")
            closed = True
            break
        steps.append("r")
        exp.append("R%d:%d:%s" % (e[0], e[1], hx(e[2])))
        if closes:
            closed = True
    if carry and not closed:
        steps.append("s:" + hx(carry))
    if closed:
        steps.append("e"); exp.append("EOF")
    else:
        if r.random() < 0.6:
            steps.append("c"); steps.append("e"); exp.append("EOF")
        else:
            steps.append("e"); exp.append("OPEN")
    meta = {"kinds": [q.kind for q in reqs], "early_chunked": early_chunked, "ec_idx": ec_idx, "carry_lost": bool(carry) and closed}
    return ",".join(steps), exp, meta


def stall_cases(r, n):
    """Read time-outs on the accepted socket (set as a connection set-up hook would): the client stalls in the middle of a
    request body for longer than the time-out.  Whatever the handler does with the failed read, the server no longer knows
    where the next request starts, so the connection must be closed after (at most) this request's response; the bytes
    sent afterwards — the rest of the body and a further request — must not be answered.
    returns [(line, expected transcript, meta)]"""
    out = []
    for _ in range(n):
        kind = r.choice(["swallow", "echo", "noread", "readk0", "hookdrop", "notfound"])
        body = bytes(r.choice(b"abcdefghij0123456789") for _ in range(r.choice([6, 20, 300])))
        cut = r.randrange(1, len(body))
        chunked_ = r.random() < 0.4
        if chunked_:
            wire = b"%x\r\n" % len(body) + body + b"\r\n0\r\n\r\n"
            cutw = len(b"%x\r\n" % len(body)) + cut
            fr = [(b"Transfer-Encoding", b"chunked")]
        else:
            wire, cutw, fr = body, cut, [(b"Content-Length", b"%d" % len(body))]
        path = {"swallow": b"/swallow", "echo": b"/echo", "noread": b"/noread", "readk0": b"/read/0", "hookdrop": b"/echo", "notfound": b"/nothing"}[kind]
        hdrs = fr + ([(b"x-hook", b"drop")] if kind == "hookdrop" else [])
        head = b"POST " + path + b" HTTP/1.1\r\n" + b"".join(k + b": " + v + b"\r\n" for k, v in hdrs) + b"\r\n"
        first = head + wire[:cutw] if r.random() < 0.5 else None
        steps = ["s:" + hx(first)] if first else ["s:" + hx(head), "s:" + hx(wire[:cutw])]
        steps += ["w:700", "s:" + hx(wire[cutw:] + b"GET /p/1/2 HTTP/1.1\r\n\r\n"), "r", "e"]
        resp = {"swallow": "R200:0:" + hx(b"0"), "echo": None, "noread": "R200:0:" + hx(b"noread"), "readk0": "R200:0:e", "hookdrop": "R405:0:e", "notfound": "R404:0:e"}[kind]
        exp = ([resp] if resp else []) + ["EOF"] + ([] if resp else ["EOF"])
        out.append(("CONN max=4096 rto=250 script=" + ",".join(steps), exp, {"kinds": ["stall-" + kind], "early_chunked": False, "ec_idx": None}))
    return out


def chunk_tail_cases(r, budget):
    """Chunked request bodies whose END (last chunk, trailer section, final empty line) is cut at every pair of positions that
    touch a CR or an LF: `0 CRLF | X-Sum: abc | CRLF | CRLF`, `…abc CR | LF CRLF`, … — each part is its own segment, sent only when
    the server has taken the previous one.  The request is followed by a probe request: its answer shows whether the server
    found the byte after the body.  returns [(line, expected transcript, meta)]"""
    out = []
    probe = b"GET /p/1/2 HTTP/1.1\r\n\r\n"
    tails = [b"0\r\n\r\n", b"0\r\nX-Sum: abc\r\n\r\n", b"0;last\r\nA: b\r\nC:\r\n\r\n", b"000\r\nx-long: " + b"v" * 40 + b"\r\n\r\n"]
    for tail in tails:
        for route, ans in ((b"/echo", b"hello"), (b"/noread", b"noread"), (b"/nothing-here", None)):
            head = b"POST " + route + b" HTTP/1.1\r\nTransfer-Encoding: chunked\r\n\r\n"
            pre = b"5\r\nhello\r\n"
            near = sorted({q for i, b in enumerate(tail) if b in (13, 10) for q in (i, i + 1) if 0 < q < len(tail)})
            pairs = [(a,) for a in near] + [(a, b) for a in near for b in near if a < b]
            if len(pairs) > budget:
                pairs = r.sample(pairs, budget)
            for cs in pairs:
                parts, p_ = [], 0
                for c in list(cs) + [len(tail)]:
                    parts.append(tail[p_:c]); p_ = c
                first = head + pre + parts[0] if r.random() < 0.5 else None
                steps = ["s:" + hx(first)] if first else ["s:" + hx(head + pre), "s:" + hx(parts[0])]
                steps += ["s:" + hx(x) for x in parts[1:] if x]
                steps += ["r", "s:" + hx(probe), "r", "e"]
                exp = [("R200:0:" + hx(ans)) if ans is not None else "R404:0:e", "R200:0:" + hx(b"1,2"), "OPEN"]
                # /echo reads the whole body before it answers: the probe is sent after the body has been consumed.  The two routes
                # that answer WITHOUT reading leave the end of the body to the drop-drain, which may still be running when the
                # client, having read the response, sends the probe: last body bytes + probe can become readable together —
                # the recorded finding K07 (chunked read-ahead); those cases belong to that class (seen once on a loaded machine)
                early = ans != b"hello"
                out.append(("CONN max=4096 script=" + ",".join(steps), exp, {"kinds": ["chunktail"], "early_chunked": early, "ec_idx": 0 if early else None}))
    return out
