"""Generator for the HDR domain: operation sequences over the public Headers API."""
import itertools
from .common import *

NAMES = [b"content-length", b"Content-Length", b"transfer-encoding", b"Transfer-Encoding", b"TRANSFER-ENCODING",
         b"connection", b"Connection", b"x-foo", b"X-Foo", b"host",
         # names that differ in ONE bit that is not a letter-case bit ('^' 0x5e / '~' 0x7e, '@' / '`', '[' / '{', '_' / DEL)
         b"x-sig^1", b"x-sig~1", b"X-SIG~1", b"a@b", b"a`b", b"k[0]", b"k{0}", b"x_y", b"x\x7fy"]
SMALL_NAMES = [b"Content-Length", b"transfer-encoding", b"Connection", b"x-foo", b"content-length", b"CONNECTION"]
VALUES = [b"chunked", b" CHUNKED\t", b"gzip, chunked", b"chunked , gzip", b"close", b"keep-alive,\tClose ", b"5", b" 42 ",
          b"", b"gzip", b"x", b"closed", b"chunked,", b",close", b"5, 5", b"007",
          # 1*DIGIT has no length limit: zero-padded numerals of 20, 21 and 40 digits, and u64::MAX with a leading zero
          b"00000000000000000042", b"000000000000000000007", b"0" * 38 + b"13", b"018446744073709551615"]
SMALL_VALUES = [b"chunked", b"gzip , Chunked ", b"chunked, gzip", b"close", b"keep-alive", b"5", b" 6\t", b"x"]
BAD_VALUES = [b"+5", b"abc", b"18446744073709551615", b"18446744073709551616", b"5\x0c", b"chunked\x0c", b"\xff", b"clo se",
              b"chunked\r", b"\nclose", b"1" * 25, b"-1", b"5 5", b"0x10"]
PLAIN = set(b"!#$%&'*+-.^_`|~ABCDEFGHIJKLMNOPQRSTUVWXYZabcdefghijklmnopqrstuvwxyz0123456789 \t,")


def op_str(op):
    k = op[0]
    if k in ("add", "rep"):
        return f"{k}:{hx(op[1])}:{hx(op[2])}"
    if k == "rm":
        return f"rm:{hx(op[1])}"
    if k == "scl":
        return "scl:" + ("-" if op[1] is None else str(op[1]))
    return k


def line(ops, gets, nodate=False):
    o = ";".join((["nodate"] if nodate else []) + [op_str(x) for x in ops]) or "-"
    g = ";".join(hx(x) for x in gets) or "-"
    return f"HDR {o} | {g}"


def alphabet(names, values):
    ops = []
    for n in names:
        for v in values:
            ops.append(("add", n, v))
            ops.append(("rep", n, v))
        ops.append(("rm", n))
    ops += [("scl", None), ("scl", 7), ("scl", 0), ("ste",), ("scc",)]
    return ops


def in_quantifier(ops):
    for op in ops:
        if op[0] in ("add", "rep") and any(c not in PLAIN for c in op[2]):
            return False
    return True


GETS = [b"content-length", b"TRANSFER-encoding", b"connection", b"X-FOO", b"host", b"nope", b"X-Sig^1", b"x-sig~1", b"A`B", b"K[0]", b"X_Y"]


def cases(seed, tier):
    """yield (ops, gets, nodate)"""
    r = rng_for(seed, "hdr")
    small = alphabet(SMALL_NAMES, SMALL_VALUES)
    depth = 2 if tier == "quick" else 3
    for d in range(0, depth + 1):
        for combo in itertools.product(small, repeat=d):
            yield list(combo), GETS[:4], False
    for v in cl_numeral_grid():
        if all(c in PLAIN for c in v):
            ops = [(r.choice(["add", "rep"]), r.choice([b"content-length", b"Content-Length"]), v)]
            if r.random() < 0.3:
                ops.insert(0, ("add", b"Content-Length", b"7"))
            yield ops, GETS[:4], False
    big = alphabet(NAMES, VALUES)
    bad = alphabet(NAMES[:6], BAD_VALUES)
    n = 6000 if tier == "quick" else 200000
    for _ in range(n):
        k = r.choice([1, 2, 3, 4, 5, 8, 13, 30])
        pool = big if r.random() < 0.8 else big + bad
        ops = [r.choice(pool) for _ in range(k)]
        yield ops, r.sample(GETS, 4), r.random() < 0.2


def parse_line(line):
    """inverse of `line`: 'HDR <ops> | <gets>' -> (ops, gets) or None"""
    try:
        body = line.split(" ", 1)[1]
        o, g = body.split("|")
        ops = []
        for tok in o.strip().split(";"):
            tok = tok.strip()
            if tok in ("-", "", "nodate"):
                continue
            p = tok.split(":")
            if p[0] in ("add", "rep"):
                ops.append((p[0], unhx(p[1]), unhx(p[2])))
            elif p[0] == "rm":
                ops.append(("rm", unhx(p[1])))
            elif p[0] == "scl":
                ops.append(("scl", None if p[1] == "-" else int(p[1])))
            elif p[0] in ("ste", "scc"):
                ops.append((p[0],))
            else:
                return None
        gets = [unhx(x.strip()) for x in g.strip().split(";") if x.strip() not in ("-", "")]
        return ops, gets
    except Exception:
        return None


def unhx(s):
    return b"" if s in ("e", "") else bytes.fromhex(s)
