"""Generators for the REQ / RESP domains (Request::parse, Response::parse).

Two streams (DESIGN.md §3.3): (i) structured, mostly well-formed heads built from the grammar with
boundary-dense component lengths so every byte position falls into every SWAR lane and into the
scalar tail; (ii) malformed: single/double byte substitutions/insertions/deletions with nasty bytes
and all 256 values, every prefix, plus unconstrained random strings.
"""
from .common import *

METHODS = [b"GET", b"POST", b"HEAD", b"PUT", b"PATCH", b"DELETE", b"OPTIONS", b"TRACE", b"PURGE", b"X", b"get", b"MKCOL", b"CONNECT",
           # neighbours of the built-in names: proper prefixes and extensions (fast paths compare fixed-length prefixes)
           b"GETX", b"GE", b"G", b"POSTX", b"POSTPONE", b"POS", b"PO", b"HEADX", b"HEA", b"PUTT", b"PU", b"PATCHY", b"PATC",
           b"DELETED", b"DELET", b"OPTIONSX", b"OPTION", b"TRACER", b"TRAC", b"Get", b"Post", b"gET"]
PCHAR = b"abcdefghijklmnopqrstuvwxyzABCDEFGHIJKLMNOPQRSTUVWXYZ0123456789-._~!$&'()*+,;=:@%"
QCHAR = PCHAR + b"/?"
HOSTCH = b"abcdefghijklmnopqrstuvwxyz0123456789.-"
TCHAR = b"!#$%&'*+-.^_`|~ABCDEFGHIJKLMNOPQRSTUVWXYZabcdefghijklmnopqrstuvwxyz0123456789"
VCH = bytes(range(0x21, 0x7f))

def rstr(r, alphabet, n):
    return bytes(r.choice(alphabet) for _ in range(n))

def rlen(r):
    return r.choice(BOUNDARY_SIZES) if r.random() < 0.7 else r.randrange(0, 70)

def gen_path(r):
    segs = r.randrange(0, 5)
    p = b""
    for _ in range(segs):
        p += b"/" + rstr(r, PCHAR, rlen(r) % 20)
    return p or b"/"

def gen_target(r):
    form = r.choice(["origin", "origin", "origin", "absolute", "absolute-nopath", "authority", "asterisk"])
    q = (b"?" + rstr(r, QCHAR, rlen(r))) if r.random() < 0.5 else b""
    if form == "origin":
        return form, gen_path(r) + q
    host = rstr(r, HOSTCH, 1 + rlen(r) % 30)
    port = (b":" + str(r.randrange(1, 65536)).encode()) if r.random() < 0.5 else b""
    if form == "absolute":
        return form, r.choice([b"http", b"https", b"ws"]) + b"://" + host + port + gen_path(r) + q
    if form == "absolute-nopath":
        return form, r.choice([b"http", b"https"]) + b"://" + host + port + q
    if form == "authority":
        return form, host + (port or b":443")
    return form, b"*"

FRAMING = [
    [], [], [], [],
    [(b"Content-Length", b"0")], [(b"content-length", b"5")], [(b"Content-Length", b" 12 ")], [(b"CONTENT-LENGTH", b"18446744073709551615")],
    [(b"Content-Length", b"18446744073709551616")], [(b"Content-Length", b"+5")], [(b"Content-Length", b"abc")], [(b"Content-Length", b"5, 5")],
    [(b"Content-Length", b"5"), (b"Content-Length", b"5")], [(b"Content-Length", b"5"), (b"Content-Length", b"6")], [(b"Content-Length", b"")],
    [(b"Content-Length", b"\xff")], [(b"Content-Length", b"5"), (b"Content-Length", b"\xff")],
    [(b"Transfer-Encoding", b"chunked")], [(b"transfer-encoding", b"CHUNKED")], [(b"Transfer-Encoding", b" chunked\t")],
    [(b"Transfer-Encoding", b"gzip, chunked")], [(b"Transfer-Encoding", b"chunked, gzip")], [(b"Transfer-Encoding", b"gzip")],
    [(b"Transfer-Encoding", b"gzip"), (b"Transfer-Encoding", b"chunked")], [(b"Transfer-Encoding", b"chunked"), (b"Transfer-Encoding", b"gzip")],
    [(b"Transfer-Encoding", b"chunked ,")], [(b"Transfer-Encoding", b"")], [(b"Transfer-Encoding", b"chunked"), (b"Content-Length", b"5")],
    [(b"Content-Length", b"5"), (b"Transfer-Encoding", b"xchunked")],
    [(b"Connection", b"close")], [(b"connection", b"keep-alive, Close ")], [(b"Connection", b"closed")], [(b"Connection", b"\tclose\t,x")],
]

def gen_fields(r):
    n = r.choice([0, 0, 1, 1, 2, 3, 5, 9, 17])
    fs = []
    for _ in range(n):
        name = rstr(r, TCHAR, 1 + rlen(r) % 24)
        ows1 = rstr(r, b" \t", r.choice([0, 0, 1, 1, 2, 5]))
        val = rstr(r, VCH + b"  \t", rlen(r))
        if r.random() < 0.1:
            val += bytes([r.choice([0x80, 0xff, 0xe9, 0x0c, 0x0d, 0x00])]) + rstr(r, VCH, 3)
        ows2 = rstr(r, b" \t", r.choice([0, 0, 0, 1, 3]))
        fs.append((name, ows1 + val + ows2))
    if r.random() < 0.5:
        fr = r.choice(FRAMING)
        pos = r.randrange(0, len(fs) + 1)
        fs[pos:pos] = [(k, (b" " if r.random() < 0.7 else b"") + v) for k, v in fr]
    return fs

def render_req(method, target, minor, fields):
    out = method + b" " + target + b" HTTP/1." + minor + b"\r\n"
    for k, v in fields:
        out += k + b":" + v + b"\r\n"
    return out + b"\r\n"

def gen_wf_request(r):
    m = r.choice(METHODS) if r.random() < 0.8 else rstr(r, b"ABCDEFGHIJKLMNOPQRSTUVWXYZabcdefghijklmnopqrstuvwxyz", 1 + rlen(r) % 12)
    form, t = gen_target(r)
    minor = r.choice([b"1", b"1", b"1", b"0"])
    fs = gen_fields(r)
    tail = rstr(r, bytes(range(256)), r.choice([0, 0, 0, 1, 5, 40]))
    return render_req(m, t, minor, fs) + tail

def mutate(r, b: bytes) -> bytes:
    if not b:
        return bytes([r.randrange(256)])
    k = r.choice([1, 1, 1, 2])
    ba = bytearray(b)
    for _ in range(k):
        op = r.randrange(4)
        pos = r.randrange(len(ba) + (1 if op == 1 else 0)) if ba else 0
        byte = r.choice(NASTY) if r.random() < 0.7 else r.randrange(256)
        if op == 0 and ba:
            ba[pos] = byte
        elif op == 1:
            ba.insert(pos, byte)
        elif op == 2 and ba:
            del ba[pos]
        elif ba:
            # swap in a fragment
            frag = r.choice([b"\r\n", b"\n", b"\r", b" ", b"://", b"?", b"/", b":", b"HTTP/1.1", b"\r\n\r\n", b"*"])
            ba[pos:pos] = frag
    return bytes(ba)

def sweep_positions(base: bytes, values):
    """every position of base x each value (substitution)"""
    for i in range(len(base)):
        for v in values:
            if base[i] != v:
                yield base[:i] + bytes([v]) + base[i + 1:]

# bases whose target region is padded so a chosen byte falls in every lane of a block and in the tail
def lane_bases():
    out = []
    for pad in range(0, 18):
        out.append(b"GET /" + b"a" * pad + b"?" + b"b" * pad + b" HTTP/1.1\r\nHost: x\r\n\r\n")
        out.append(b"GET http://h" + b"o" * pad + b"/p" + b"a" * pad + b" HTTP/1.1\r\n\r\n")
        out.append(b"CONNECT ex" + b"a" * pad + b":443 HTTP/1.1\r\n\r\n")
        out.append(b"GET http://h" + b"o" * pad + b"?q=" + b"b" * pad + b" HTTP/1.0\r\n\r\n")
    out.append(b"OPTIONS * HTTP/1.1\r\n\r\n")
    return out

CORPUS_REQ = [
    b"GET /\x80\xff HTTP/1.1\r\n\r\n", b"GET /a\r\nb HTTP/1.1\r\n\r\n", b"GET /a\x00b HTTP/1.1\r\n\r\n",
    b"GET /?a\"b HTTP/1.1\r\n\r\n", b"GET /?a\"b HT", b"GET /?aaaaaaaaaaaaaaaa\x80 HTTP/1.1\r\n\r\n",
    b"GET a/b://c HTTP/1.1\r\n\r\n", b"OPTIONS * HTTP/1.1\r\n\r\n", b"OPTIONS *HTTP/1.1\r\n\r\n", b"OPTIONS *",
    b"GET http://h?x=/y HTTP/1.1\r\n\r\n", b"CONNECT exam", b"GET http://exam", b" / HTTP/1.1\r\n\r\n",
    b"GET / HTTP/1.1XY\r\n\r\n", b"GET / HTTP/1.1\n\n\r\n\r\n", b"GET / HTTP/1.1\r",
    b"GET / HTTP/1.1\r\nTransfer-Encoding: chunked\nX: y\r\n\r\n", b"GET / HTTP/1.1\r\n: v\r\n\r\n",
    b"GET /hello\r\nheader: value\r\n\r\n", b"GET /a://b HTTP/1.1\r\n\r\n", b"GET http://a://b/c HTTP/1.1\r\n\r\n",
    b"POST / HTTP/1.1\r\nContent-Length: +5\r\n\r\n", b"POST / HTTP/1.1\r\nContent-Length: 5\r\nContent-Length: 6\r\n\r\n",
    b"POST / HTTP/1.1\r\nTransfer-Encoding: gzip\r\n\r\n", b"POST / HTTP/1.1\r\nTransfer-Encoding: chunked, gzip\r\n\r\n",
    b"POST / HTTP/1.1\r\nConnection: close \r\n\r\n", b"GET / HTTP/1.1\r\nA:b\r\n\r\n", b"GET / HTTP/1.1\r\nA: \r\n\r\n",
    b"GET /x?y?z HTTP/1.1\r\n\r\n", b"GET //x HTTP/1.1\r\n\r\n", b"GET ? HTTP/1.1\r\n\r\n", b"GET :// HTTP/1.1\r\n\r\n",
    b"GET http:// HTTP/1.1\r\n\r\n", b"GET h:///x HTTP/1.1\r\n\r\n", b"GET a?b/c HTTP/1.1\r\n\r\n", b"GET a?b://c HTTP/1.1\r\n\r\n",
]
CORPUS_RESP = [
    b"HTTP/1.1", b"HTTP/1.1 2", b"HTTP/1.1 200 O", b"HTTP/1.1X200 OK\r\n\r\n", b"HTTP/1.1 200 OK\r\n\r\n",
    b"HTTP/1.1 204 \r\n\r\n", b"HTTP/1.1 200 Ol\xc3\xa9\r\n\r\n", b"HTTP/1.0 404 Not Found\r\nA: b\r\n\r\nbody",
    b"HTTP/1.1 200 OK\r", b"HTTP/1.1 200\r\n\r\n", b"HTTP/1.1 2000 OK\r\n\r\n", b"HTTP/1.1 200 OK\r\nfoo\n\r\n",
]

def gen_wf_response(r):
    code = r.choice([b"200", b"204", b"404", b"100", b"999", b"000", b"301"])
    reason = rstr(r, VCH + b"  \t", rlen(r) % 40)
    minor = r.choice([b"1", b"1", b"0"])
    out = b"HTTP/1." + minor + b" " + code + b" " + reason + b"\r\n"
    for k, v in gen_fields(r):
        out += k + b":" + v + b"\r\n"
    return out + b"\r\n" + rstr(r, bytes(range(256)), r.choice([0, 0, 3, 30]))

def cases(seed: int, tier: str, want=("REQ", "RESP"), focus=None):
    """yield (domain, bytes). `focus` (optional bytes) concentrates mutations around a given input."""
    r = rng_for(seed, "parse")
    n = 4000 if tier == "quick" else 150000
    if "REQ" in want:
        for c in CORPUS_REQ:
            yield "REQ", c
            for k in range(len(c)):
                yield "REQ", c[:k]
        bases = lane_bases()
        sweep_vals = NASTY if tier == "quick" else list(range(256))
        rot = bases if tier != "quick" else r.sample(bases, 10)
        for b in rot:
            end = b.index(b"\r\n")
            for m in sweep_positions(b[:end + 2], sweep_vals):
                yield "REQ", m + b[end + 2:]
        for _ in range(n):
            w = gen_wf_request(r)
            yield "REQ", w
            x = r.random()
            if x < 0.5:
                yield "REQ", mutate(r, w)
            if x < 0.25:
                yield "REQ", w[: r.randrange(len(w) + 1)]
        for _ in range(n // 4):
            yield "REQ", rstr(r, bytes(range(256)), r.randrange(0, 40))
            yield "REQ", rstr(r, b"GET POST/ HTTP1.:\r\n?*ax", r.randrange(0, 40))
        # Content-Length numerals at the edges of 1*DIGIT (gen/common.py): wide zero-padded values, near-digit bytes, the 2^64 edge
        for v in cl_numeral_grid():
            yield "REQ", b"POST /u HTTP/1.1\r\nHost: a\r\n" + r.choice([b"Content-Length", b"content-length"]) + b": " + v + b"\r\n\r\n"
        # every prefix of a rotating subset of well-formed heads
        for _ in range(20 if tier == "quick" else 400):
            w = gen_wf_request(r)
            for k in range(len(w) + 1):
                yield "REQ", w[:k]
        if focus is not None:
            for _ in range(20000):
                yield "REQ", mutate(r, focus)
    if "RESP" in want:
        for c in CORPUS_RESP:
            yield "RESP", c
            for k in range(len(c)):
                yield "RESP", c[:k]
        for _ in range(n // 2):
            w = gen_wf_response(r)
            yield "RESP", w
            if r.random() < 0.5:
                yield "RESP", mutate(r, w)
        for _ in range(10 if tier == "quick" else 200):
            w = gen_wf_response(r)
            for k in range(len(w) + 1):
                yield "RESP", w[:k]
        base = b"HTTP/1.1 200 OK go\r\nA: b\r\n\r\n"
        for m in sweep_positions(base, NASTY if tier == "quick" else list(range(256))):
            yield "RESP", m
        for _ in range(n // 8):
            yield "RESP", rstr(r, bytes(range(256)), r.randrange(0, 30))
            yield "RESP", rstr(r, b"HTTP/1.0 2\r\n:a", r.randrange(0, 30))


def long_target_cases(seed: int, tier: str):
    """very long targets (the parser has no length limit of its own; a server configured with a large head limit hands them
    in): every index the target carries must survive offsets beyond 2^16 (and 2^16 boundaries inside path and query).
    Run through the real code only (the list-based model is quadratic on inputs of this size)."""
    r = rng_for(seed, "parse-long")
    out = []
    sizes = ([(65500, 80, 10), (10, 65530, 20), (65600, 5, 0), (70000, 70000, 70000)] if tier == "quick"
             else [(65500 + d, 80, 10) for d in range(0, 60, 7)] + [(10, 65520 + d, 20) for d in range(0, 40, 5)] + [(65600, 5, 0), (70000, 70000, 70000), (131070, 10, 3)])
    for host_len, path_len, q_len in sizes:
        host = rstr(r, b"abcdefghij.-0123456789", host_len)
        path = b"/" + rstr(r, b"abcdefghij/_-", path_len)
        q = (b"?" + rstr(r, b"abc=&123", q_len)) if q_len else b""
        for tgt, m_ in ((b"http://" + host + path + q, b"GET"), (path + q, b"GET"), (host + b":443", b"CONNECT")):
            out.append(m_ + b" " + tgt + b" HTTP/1.1\r\nHost: x\r\n\r\n")
    return out
