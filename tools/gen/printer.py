"""Generator for the PRINT domain (HttpPrinter entry points and write_request)."""
from .common import *

TCH = b"abcdefghijklmnopqrstuvwxyzABCDEFGHIJKLMNOPQRSTUVWXYZ0123456789-_.!#$%&'*+^`|~"
VAL = bytes(range(0x21, 0x7f)) + b"  \t"
STD = {200: b"OK", 201: b"CREATED", 204: b"NO CONTENT", 404: b"NOT FOUND", 500: b"INTERNAL SERVER ERROR", 100: b"CONTINUE", 418: b"I'M A TEAPOT"}


def rstr(r, alpha, n):
    return bytes(r.choice(alpha) for _ in range(n))


def gen_case(r, tier, sizes):
    entry = r.choice(["bytes", "bytes", "reader", "reader", "reader", "empty", "request"])
    code = r.choice([200, 200, 201, 204, 404, 500, 100, 999, 418]) if r.random() < 0.6 else r.randrange(100, 1000)
    x = r.random()
    reason = STD.get(code, b"") if x < 0.5 else (b"" if x < 0.6 else rstr(r, VAL, r.randrange(1, 20)).strip() or b"Fine")
    if code == 200 and r.random() < 0.3:
        reason = r.choice([b"OK", b"Fine", b"ok", b""])
    user = []
    for _ in range(r.choice([0, 0, 1, 2, 4])):
        user.append((rstr(r, TCH, r.randrange(1, 12)), rstr(r, VAL, r.randrange(0, 24)).strip()))
    if r.random() < 0.06:
        user.append((r.choice([b"transfer-encoding", b"Transfer-Encoding"]), r.choice([b"gzip", b"identity"])))  # known class
    n = r.choice(sizes)
    if entry == "empty":
        n = 0
    decl = r.choice(["none", "none", "chunked", "cl=", "cl=", "cl-", "cl+", "cl0"]) if entry in ("reader", "request") else r.choice(["none", "none", "chunked", "cl=", "cl=", "cl-", "cl+", "cl0"])
    ops = ["add:%s:%s" % (hx(k), hx(v)) for k, v in user]
    cl = None
    if decl == "chunked":
        ops.insert(r.randrange(len(ops) + 1), "ste" if r.random() < 0.7 else "add:%s:%s" % (hx(b"Transfer-Encoding"), hx(r.choice([b"chunked", b"gzip, chunked", b"chunked,", b"gzip, chunked , ", b",Chunked", b"chunked ,,", b"\tchunked\t"]))))
    elif decl.startswith("cl"):
        cl = {"cl=": n, "cl-": max(0, n - r.choice([1, 2, 100])), "cl+": n + r.choice([1, 5, 1000]), "cl0": 0}[decl]
        ops.insert(r.randrange(len(ops) + 1), "scl:%d" % cl)
    # framing state set and then taken back / replaced, under any spelling of the field name: the printer decides from the
    # collection's cached answers but prints the stored lines, so both must follow the removal
    if r.random() < 0.22:
        spell = lambda nm: bytes(c ^ 0x20 if (65 <= c <= 90 or 97 <= c <= 122) and r.random() < 0.5 else c for c in nm)
        k = r.random()
        if k < 0.25:
            ops.append("ste" if r.random() < 0.6 else "add:%s:%s" % (hx(spell(b"transfer-encoding")), hx(b"chunked")))
            ops.append("rm:" + hx(spell(b"transfer-encoding")))
        elif k < 0.45:
            ops.append("scl:%d" % r.choice([0, 3, n, n + 7]))
            ops.append("rm:" + hx(spell(b"content-length")))
        elif k < 0.6:
            ops.append("add:%s:%s" % (hx(spell(b"content-length")), hx(b"%d" % r.choice([0, 3, n + 7]))))
            ops.append("rm:" + hx(spell(b"Content-Length")))
        elif k < 0.75:
            ops.append("ste")
            ops.append("rep:%s:%s" % (hx(spell(b"transfer-encoding")), hx(r.choice([b"chunked", b"gzip, chunked", b"chunked, ", b"gzip,chunked,"]))))
        elif k < 0.9:
            ops.append("scc")
            ops.append("rm:" + hx(spell(b"connection")))
        else:
            ops.append("add:%s:%s" % (hx(b"x-a"), hx(b"1")))
            ops.append("rep:%s:%s" % (hx(spell(b"x-a")), hx(b"2")))
    if r.random() < 0.15:
        ops.append("scc")
    nodate = r.random() < 0.7
    pieces = "-"
    if entry in ("reader", "request"):
        k = r.choice([0, 1, 3, 10])
        pieces = ",".join(str(r.choice([1, 2, 7, 127, 128, 129, 1023, 1024, 1025, 4096, 70000])) for _ in range(k)) or "-"
    byte = r.choice(b"xyz0")
    body_tok = ("bodyrep=%02x*%d" % (byte, n)) if n > 64 or r.random() < 0.5 else "body=" + hx(rstr(r, bytes(range(256)), n))
    line = "PRINT entry=%s code=%d reason=%s nodate=%d hdr=%s %s pieces=%s" % (entry, code, hx(reason), 1 if nodate else 0, ";".join(ops) or "-", body_tok, pieces)
    # messages written earlier on the same thread to a peer that went away after k bytes: nothing of them may show up here
    if r.random() < 0.3:
        line += " pre=" + ",".join("%s:%d" % (r.choice(["empty", "empty", "bytes", "reader", "request", "cont"]), r.choice([0, 1, 9, 17, 30, 45, 60, 200, 100000]))
                                   for _ in range(r.choice([1, 1, 2])))
    if entry == "request":
        line += " method=%s uri=%s" % (r.choice(["GET", "POST", "PURGE"]), hx(r.choice([b"/", b"/api/v1?x=1", b"*"])))
    return line


def body_of(line):
    for w in line.split():
        if w.startswith("body="):
            return b"" if w[5:] == "e" else bytes.fromhex(w[5:])
        if w.startswith("bodyrep="):
            b, n = w[8:].split("*")
            return bytes.fromhex(b) * int(n)
    return b""


def cases(seed, tier):
    r = rng_for(seed, "print")
    sizes_q = [0, 1, 2, 5, 100, 2047, 2048, 2049, 8191, 8192, 8193, 9000]
    sizes_t = sizes_q + [4096, 16384, 131071, 131072, 131073, 262145]
    sizes = sizes_q if tier == "quick" else sizes_t
    out = [gen_case(r, tier, sizes) for _ in range(1500 if tier == "quick" else 40000)]
    return out
