"""Generator for the ROUTE domain: route tables x paths."""
import itertools
from .common import *

METHODS = ["GET", "GET", "GET", "POST", "HEAD", "PUT", "PATCH", "DELETE", "OPTIONS", "TRACE", "PURGE", "get", "MKCOL", "purge", "Purge", "mkcol"]
LITS = [b"a", b"b", b"users", b"api", b"v1", b"", b"x.y", b"**x", b"*x", b"a:b"]
PNAMES = [b"id", b"x", b"name", b"", b"id"]


def gen_seg(r, allow_dstar=False):
    x = r.random()
    if x < 0.45:
        return r.choice(LITS[:6] if r.random() < 0.9 else LITS)
    if x < 0.75:
        return b":" + r.choice(PNAMES)
    if x < 0.9 or not allow_dstar:
        return b"*"
    return b"**"


def gen_pattern(r):
    n = r.choice([0, 1, 1, 2, 2, 3, 4, 6])
    segs = [gen_seg(r) for _ in range(n)]
    if r.random() < 0.25:
        segs.append(b"**")
    lead = b"/" if r.random() < 0.85 else b""
    return lead + b"/".join(segs)


def gen_path_for(r, pat):
    """a path that often matches `pat`"""
    segs = pat.lstrip(b"/").split(b"/") if pat.lstrip(b"/") or pat else [b""]
    out = []
    for s in segs:
        if s == b"**":
            out += [r.choice(LITS[:5]) for _ in range(r.choice([0, 0, 1, 2, 3]))]
            break
        if s == b"*" or s.startswith(b":"):
            out.append(r.choice([b"42", b"a", b"users", b"", b"x%20y"]))
        else:
            out.append(s if r.random() < 0.9 else r.choice(LITS[:5]))
    if r.random() < 0.15:
        out.append(r.choice([b"", b"extra"]))
    if r.random() < 0.1 and out:
        out.pop()
    return (b"/" if r.random() < 0.9 else b"") + b"/".join(out)


def rand_path(r):
    return b"/" + b"/".join(r.choice(LITS[:6] + [b"42"]) for _ in range(r.choice([0, 1, 2, 3, 4])))


def line(regs, queries):
    rs = ";".join(f"{m}:{hx(p)}" for m, p in regs) or "-"
    qs = ";".join(f"{m}:{hx(p)}" for m, p in queries)
    return f"ROUTE {rs} | {qs}"


def cases(seed, tier):
    """yield (regs, queries)"""
    r = rng_for(seed, "route")
    # exhaustive small tables over a 3-symbol segment alphabet
    alpha = [b"a", b":p", b"*", b"**"]
    pats = []
    for n in (1, 2):
        for combo in itertools.product(alpha, repeat=n):
            if b"**" in combo[:-1]:
                continue
            pats.append(b"/" + b"/".join(combo))
    paths = [b"/", b"/a", b"/b", b"/a/a", b"/a/b", b"/b/a", b"/a/a/a", b"/a/", b"//a", b"a", b""]
    ks = (2,) if tier == "quick" else (2, 3)
    for k in ks:
        combos = itertools.product(pats, repeat=k)
        for i, tbl in enumerate(combos):
            if tier == "quick" and i % 3:
                continue
            yield [("GET", p) for p in tbl], [("GET", q) for q in paths]
    # literal-heavy buckets with many re-registrations (sorting / de-duplication of the literal table only shows with > 20 entries)
    for _ in range(60 if tier == "quick" else 3000):
        k = r.choice([21, 25, 33, 48, 64, 100])
        m = r.choice(["GET", "GET", "POST", "PURGE"])
        names = [b"/" + b"/".join(r.choice(LITS[:5]) for _ in range(r.choice([1, 2, 3]))) for _ in range(r.choice([4, 8, 16, 30]))]
        regs = [(m if r.random() < 0.9 else r.choice(METHODS), r.choice(names) if r.random() < 0.9 else gen_pattern(r)) for _ in range(k)]
        qs = [(m, r.choice(names)) for _ in range(10)] + [(m, rand_path(r)) for _ in range(2)]
        yield regs, qs
    # pattern-heavy buckets: many overlapping patterns of EQUAL rank under one method (ties are broken by registration order;
    # any re-ordering of the pattern table only shows with more than 20 entries)
    segalpha = [b"a", b"b", b":p", b":q", b"*"]
    allpats = [b"/" + b"/".join(c) for n_ in (2, 3) for c in itertools.product(segalpha, repeat=n_)]
    allpats += [p_ + b"/**" for p_ in allpats[:40]]
    for _ in range(25 if tier == "quick" else 1500):
        m = r.choice(["GET", "POST", "PURGE"])
        tbl = r.sample(allpats, r.choice([22, 30, 45, 80, 150]))
        regs = [(m, p_) for p_ in tbl]
        qs = [(m, b"/" + b"/".join(r.choice([b"a", b"b", b"zz"]) for _ in range(r.choice([2, 3, 3, 4])))) for _ in range(12)]
        yield regs, qs
    # long literal paths (64 bytes and more) next to a catch-all, and alone under a custom method
    for _ in range(6 if tier == "quick" else 200):
        lens = [8, 31, 32, 33, 62, 63, 64, 65, 66, 100, 127, 128, 129, 200, 255, 256, 300]
        lits = [b"/" + (b"seg%d-" % L) + b"x" * max(0, L - len(b"seg%d-" % L)) for L in lens]
        m = r.choice(["GET", "PURGE"])
        regs = [(m, l_) for l_ in lits] + ([(m, b"/**")] if r.random() < 0.5 else []) + [(m, b"/:p")]
        r.shuffle(regs)
        qs = [(m, l_) for l_ in lits] + [(m, lits[3] + b"y")]
        yield regs, qs
    # deep paths and patterns (15 to 20 segments): one segment per `:name` / `*`, nothing joined, nothing cut off
    for _ in range(8 if tier == "quick" else 300):
        regs, qs = [], []
        for depth in (15, 16, 17, 18, 20):
            lits = [b"s%d" % i for i in range(depth)]
            base = b"/" + b"/".join(lits)
            for last in (b":id", b"*", b"**", lits[-1]):
                regs.append(("GET", b"/" + b"/".join(lits[:-1] + [last])))
            qs += [("GET", base), ("GET", base + b"/extra"), ("GET", base + b"/extra/more"), ("GET", b"/" + b"/".join(lits[:-1])),
                   ("GET", b"/" + b"/".join(lits[:-1] + [b"other"]))]
        r.shuffle(regs)
        yield regs, qs
    # many parameters per pattern (1 to 9 `:name` segments) with sibling candidates that bind as many and are rejected only at their
    # LAST segment, or match with a lower rank: whatever holds the bindings (inline slots, spill-over storage, a scratch set that is
    # swapped with the best one) must end up with exactly the winner's
    for _ in range(12 if tier == "quick" else 400):
        regs, qs = [], []
        m = r.choice(["GET", "POST", "PURGE"])
        for npar in (1, 2, 3, 4, 5, 6, 8, 9):
            names = [b":p%d" % i for i in range(npar)]
            alt = [b":q%d" % i for i in range(npar)]
            pre = b"/n%d" % npar
            regs.append((m, pre + b"/" + b"/".join(alt) + b"/zz"))            # binds npar values, rejected at the last segment
            regs.append((m, pre + b"/" + b"/".join(alt[:-1] + [b"*"])))         # matches with npar-1 bindings, lower rank than …
            regs.append((m, pre + b"/" + b"/".join(names)))                     # … the all-parameter pattern
            regs.append((m, pre + b"/" + b"/".join(alt) + b"/**"))             # longer candidate
            vals = [bytes([97 + i]) * (1 + i % 3) for i in range(npar)]
            qs += [(m, pre + b"/" + b"/".join(vals)), (m, pre + b"/" + b"/".join(vals) + b"/zz"), (m, pre + b"/" + b"/".join(vals) + b"/yy"),
                   (m, pre + b"/" + b"/".join(vals[:-1]))]
        if r.random() < 0.7:
            r.shuffle(regs)
        yield regs, qs
    # the same table under custom methods that differ only in letter case: separate methods
    for _ in range(6 if tier == "quick" else 200):
        pats = [gen_pattern(r) for _ in range(4)]
        ms = ["PURGE", "purge", "Purge"]
        regs = [(r.choice(ms), p_) for p_ in pats for _ in range(2)]
        qs = [(m_, gen_path_for(r, p_)) for p_ in pats for m_ in ms]
        yield regs, qs
    n = 1500 if tier == "quick" else 60000
    for _ in range(n):
        k = r.choice([0, 1, 2, 3, 5, 8, 13, 40])
        regs = []
        for _ in range(k):
            m = r.choice(METHODS)
            p = gen_pattern(r) if not regs or r.random() < 0.8 else r.choice(regs)[1]
            if r.random() < 0.1 and regs:  # equivalent pattern with other param names
                p = b"/".join((b":other" if s.startswith(b":") else s) for s in r.choice(regs)[1].split(b"/"))
            regs.append((m, p))
        qs = []
        for _ in range(8):
            if regs and r.random() < 0.8:
                m, p = r.choice(regs)
                qs.append((m if r.random() < 0.85 else r.choice(METHODS), gen_path_for(r, p)))
            else:
                qs.append((r.choice(METHODS), rand_path(r)))
        yield regs, qs
