#!/usr/bin/env python3
"""Translator part 1: regenerate lean/Khttp/Gen/Consts.lean from /repo's current sources.

Every constant the Lean model and theorems depend on is read from the Rust text (comments
stripped with a small tokenizer that understands string / byte-string / char literals), never
copied by hand.  The file is rewritten only when its content changes, so lake re-checks the
dependent theorems exactly when the source changed.  If a definition cannot be found the
script exits 3 and names it: the obligation Gen.<name> is then reported as no longer checked.
"""
import os, re, sys, ast, operator

REPO = os.environ.get("KHTTP_REPO", "/repo")
OUT = os.path.join(os.path.dirname(os.path.abspath(__file__)), "..", "lean", "Khttp", "Gen", "Consts.lean")


class ExtractError(Exception):
    pass


def strip_comments(src: str) -> str:
    out = []
    i, n = 0, len(src)
    while i < n:
        c = src[i]
        if src.startswith("//", i):
            j = src.find("\n", i)
            i = n if j < 0 else j
        elif src.startswith("/*", i):
            depth, i = 1, i + 2
            while i < n and depth:
                if src.startswith("/*", i):
                    depth += 1; i += 2
                elif src.startswith("*/", i):
                    depth -= 1; i += 2
                else:
                    i += 1
        elif c == '"':
            j = i + 1
            while j < n and src[j] != '"':
                j += 2 if src[j] == "\\" else 1
            out.append(src[i:j + 1]); i = j + 1
        elif c == "'" and re.match(r"'(\\.|[^\\'])'", src[i:i + 4]):
            m = re.match(r"'(\\.|[^\\'])'", src[i:i + 4])
            out.append(m.group(0)); i += len(m.group(0))
        else:
            out.append(c); i += 1
    return "".join(out)


def read(rel):
    with open(os.path.join(REPO, rel), encoding="utf-8") as f:
        return strip_comments(f.read())


def unescape_bytes(lit: str) -> bytes:
    """Rust (byte) string literal body -> bytes"""
    out = bytearray()
    i = 0
    while i < len(lit):
        c = lit[i]
        if c == "\\":
            d = lit[i + 1]
            if d == "n": out.append(10); i += 2
            elif d == "r": out.append(13); i += 2
            elif d == "t": out.append(9); i += 2
            elif d == "0": out.append(0); i += 2
            elif d == "\\": out.append(92); i += 2
            elif d == "'": out.append(39); i += 2
            elif d == '"': out.append(34); i += 2
            elif d == "x": out.append(int(lit[i + 2:i + 4], 16)); i += 4
            else: raise ExtractError("escape \\" + d)
        else:
            out.extend(c.encode("utf-8")); i += 1
    return bytes(out)


_OPS = {ast.Add: operator.add, ast.Sub: operator.sub, ast.Mult: operator.mul, ast.FloorDiv: operator.floordiv}


def arith(expr: str, lookup=None) -> int:
    # a bare identifier (a constant hoisted out of the expression) is resolved through `lookup` (source text to search)
    mid = re.fullmatch(r"\s*([A-Za-z_]\w*)\s*", expr)
    if mid and lookup is not None:
        return const_int(lookup, mid.group(1))
    expr = re.sub(r"\b(\d[\d_]*)(u8|u16|u32|u64|usize|i32|i64)?\b", lambda m: m.group(1).replace("_", ""), expr)
    expr = re.sub(r"\bas\s+\w+", "", expr)
    m = re.fullmatch(r"\s*b'(\\.|[^\\'])'\s*", expr)
    if m:
        return unescape_bytes(m.group(1))[0]
    if re.fullmatch(r"\s*0x[0-9a-fA-F]+\s*", expr):
        return int(expr, 16)
    node = ast.parse(expr.strip().replace("/", "//"), mode="eval").body

    def ev(n):
        if isinstance(n, ast.Constant) and isinstance(n.value, int): return n.value
        if isinstance(n, ast.BinOp) and type(n.op) in _OPS: return _OPS[type(n.op)](ev(n.left), ev(n.right))
        raise ExtractError("expr " + expr)
    return ev(node)


def need(m, what):
    if not m:
        raise ExtractError(what)
    return m


def fn_body(src, name):
    m = need(re.search(r"fn\s+" + re.escape(name) + r"\b[^{]*\{", src), "fn " + name)
    i = m.end(); depth = 1
    while depth and i < len(src):
        if src[i] == '"':
            j = i + 1
            while src[j] != '"':
                j += 2 if src[j] == "\\" else 1
            i = j + 1; continue
        if src[i] == "{": depth += 1
        if src[i] == "}": depth -= 1
        i += 1
    return src[m.end():i - 1]


def const_int(src, name, what=None):
    m = need(re.search(r"\b(?:const|static)\s+" + name + r"\s*:\s*[\w:]+\s*=\s*([^;]+);", src), what or name)
    return arith(m.group(1))


def const_bytes(src, name):
    m = need(re.search(r"\bconst\s+" + name + r"\s*:[^=]+=\s*\*?b\"((?:\\.|[^\"\\])*)\"\s*;", src), name)
    return unescape_bytes(m.group(1))


def lean_bytes(b: bytes) -> str:
    return "[" + ", ".join(str(x) for x in b) + "]"


LAST = os.path.join(os.path.dirname(os.path.abspath(__file__)), "consts_last.json")


def _enc(v):
    if isinstance(v, bytes): return {"__b": v.hex()}
    if isinstance(v, (list, tuple)): return [_enc(x) for x in v]
    if isinstance(v, dict): return {"__d": {k: _enc(x) for k, x in v.items()}}
    return v


def _dec(v):
    if isinstance(v, dict) and "__b" in v: return bytes.fromhex(v["__b"])
    if isinstance(v, dict) and "__d" in v: return {k: _dec(x) for k, x in v["__d"].items()}
    if isinstance(v, list): return [_dec(x) for x in v]
    return v


def main():
    import json
    d = {}
    stale = []
    last = _dec(json.load(open(LAST))) if os.path.exists(LAST) else {}
    last = {k: v for k, v in (last.items() if isinstance(last, dict) else [])}

    def group(name, keys, fn):
        """extract one group of constants; if the source no longer has the shape the extractor knows (a constant renamed,
        hoisted, an expression refactored) the group keeps its LAST extracted values (tools/consts_last.json) and is reported
        as stale: for those constants the model is then tied to the code by the correspondence run alone."""
        try:
            fn()
        except (ExtractError, KeyError, ValueError, SyntaxError, IndexError, AttributeError, TypeError) as e:
            if not all(k in last for k in keys):
                raise ExtractError("%s (%s) and no earlier value to fall back on" % (name, e))
            for k in keys:
                d[k] = last[k]
            stale.append("%s: %s" % (name, e))
    req = read("src/parser/request.rs")
    pm = read("src/parser/mod.rs")
    simd = read("src/parser/simd.rs")
    pr = read("src/printer.rs")
    br = read("src/body_reader.rs")
    bld = read("src/server/builder.rs")
    srv = read("src/server/mod.rs")
    cli = read("src/client.rs")
    date = read("src/date.rs")
    st = read("src/http/status.rs")
    rt = read("src/router.rs")
    meth = read("src/http/method.rs")

    def valid_lit(src, fn):
        body = fn_body(src, fn)
        m = need(re.search(r"let\s+valid\s*=\s*b\"((?:\\.|[^\"\\])*)\"", body), fn + ".valid")
        return unescape_bytes(m.group(1))
    def _g_byte_tables():
        d["uriValidBytes"] = valid_lit(req, "make_uri_byte_mask")
        d["fieldValidBytes"] = valid_lit(pm, "make_header_field_byte_mask")
    group("byte_tables", ['uriValidBytes', 'fieldValidBytes'], _g_byte_tables)

    # SWAR constants, per scanner
    def uniforms(fn):
        body = fn_body(simd, fn)
        res = {}
        consts = dict(re.findall(r"const\s+(\w+)\s*:\s*u8\s*=\s*([^;]+);", body))
        for name, arg in re.findall(r"const\s+(\w+)\s*:\s*usize\s*=\s*uniform_block\(([^)]*)\)", body):
            arg = arg.strip()
            res[name] = arith(consts[arg]) if arg in consts else arith(arg)
        return res
    def _g_swar():
        up = uniforms("swar_match_path_vectored")
        uu = uniforms("swar_match_uri_vectored")
        for k in ("ONE", "M128", "QQ", "BM", "DEL"):
            if k not in up: raise ExtractError("path scanner const " + k)
        for k in ("ONE", "M128", "BM", "DEL"):
            if k not in uu: raise ExtractError("uri scanner const " + k)
        d["swarPath"] = up; d["swarUri"] = uu
        need(re.search(r"const\s+BLOCK_SIZE\s*:\s*usize\s*=\s*core::mem::size_of::<usize>\(\)", simd), "BLOCK_SIZE")
        vis = fn_body(simd, "is_visible_ascii")
        m = need(re.search(r"b\s*>\s*(0x[0-9a-fA-F]+)\s*&&\s*b\s*<\s*(0x[0-9a-fA-F]+)", vis), "is_visible_ascii")
        d["visLo"], d["visHi"] = int(m.group(1), 16), int(m.group(2), 16)
    group("swar", ['swarPath', 'swarUri', 'visLo', 'visHi'], _g_swar)

    # method table
    def _g_methods():
        body = fn_body(req, "parse_method")
        arms = re.findall(r'b"([A-Z]+)"\s*=>\s*Method::(\w+)', body)
        pre = re.findall(r'strip_prefix\(b"([A-Z]+) "\)', body)
        d["methodArms"] = arms; d["methodFast"] = pre
        d["methodStrs"] = re.findall(r'Method::(\w+)\s*=>\s*"([A-Z]+)"', fn_body(meth, "as_str"))
    group("methods", ['methodArms', 'methodFast', 'methodStrs'], _g_methods)

    # printer
    def _g_printer_sizes():
        d["probeMax"] = const_int(pr, "PROBE_MAX")
        d["inlineCopyMax"] = const_int(pr, "INLINE_COPY_MAX")
        d["headInitCap"] = const_int(pr, "RESPONSE_HEAD_BUF_INIT_CAP")
        m = need(re.search(r"\[MaybeUninit<u8>;\s*([^\]]+)\]", fn_body(pr, "write_chunked")), "write_chunked buffer")
        d["chunkBufSize"] = arith(m.group(1), pr)
    group("printer_sizes", ['probeMax', 'inlineCopyMax', 'headInitCap', 'chunkBufSize'], _g_printer_sizes)
    def _g_buffer_sizes():
        d["bodyBufSize"] = const_int(br, "BUF_SIZE")
        d["defaultMaxHead"] = const_int(bld, "DEFAULT_MAX_REQUEST_HEAD")
        d["defaultReqBuf"] = const_int(srv, "DEFAULT_REQUEST_BUFFER_SIZE")
        d["maxResponseHead"] = const_int(cli, "MAX_RESPONSE_HEAD")
    def _g_probe():
        pb = fn_body(pr, "probe_body")
        m1 = need(re.search(r"Vec::with_capacity\(([^)]+)\)", pb), "probe_body initial capacity")
        m2 = need(re.search(r"\.min\(([^)]+)\)\s*;\s*\w+\.reserve\(", pb), "probe_body growth step")
        d["probeInitCap"] = arith(m1.group(1), pr + "\n" + pb)
        d["probeStep"] = arith(m2.group(1), pr + "\n" + pb)
    group("probe_sizes", ["probeInitCap", "probeStep"], _g_probe)
    group("buffer_sizes", ['bodyBufSize', 'defaultMaxHead', 'defaultReqBuf', 'maxResponseHead'], _g_buffer_sizes)

    # date
    # the constants are looked up in the function first and then anywhere in the file (hoisting them to module level is harmless)
    def _g_date():
        fb = fn_body(date, "format_http_date") + "\n" + date
        d["leapoch"] = const_int(fb, "LEAPOCH")
        d["daysPer400Y"] = const_int(fb, "DAYS_PER_400Y")
        d["daysPer100Y"] = const_int(fb, "DAYS_PER_100Y")
        d["daysPer4Y"] = const_int(fb, "DAYS_PER_4Y")
        d["secsPerDay"] = const_int(fb, "SECS_PER_DAY")
        d["secsPerHour"] = const_int(fb, "SECS_PER_HOUR")
        d["secsPerMin"] = const_int(fb, "SECS_PER_MIN")
        m = need(re.search(r"const\s+MONTHS\s*:[^=]+=\s*\[([^\]]+)\]", fb), "MONTHS")
        d["months"] = [int(x) for x in m.group(1).replace(" ", "").split(",") if x]
        d["wdayStrs"] = const_bytes(fb, "WDAY_STRS")
        d["monStrs"] = const_bytes(fb, "MON_STRS")
        d["headerTemplate"] = const_bytes(date, "HEADER_TEMPLATE")
    group("date", ['leapoch', 'daysPer400Y', 'daysPer100Y', 'daysPer4Y', 'secsPerDay', 'secsPerHour', 'secsPerMin', 'months', 'wdayStrs', 'monStrs', 'headerTemplate'], _g_date)

    # statuses
    def _g_statuses():
        d["statuses"] = [(int(c), unescape_bytes(r)) for c, r in re.findall(r"(\d{3})\s*=>\s*\w+\s*,\s*\"((?:\\.|[^\"\\])*)\"\s*;", st)]
        if len(d["statuses"]) < 10: raise ExtractError("define_statuses!")
    group("statuses", ['statuses'], _g_statuses)

    # router precedence
    def _g_precedence():
        m = need(re.search(r"enum\s+Precedence\s*\{([^}]*)\}", rt), "enum Precedence")
        d["precedence"] = [(n, int(v)) for n, v in re.findall(r"(\w+)\s*=\s*(\d+)", m.group(1))]
    group("precedence", ['precedence'], _g_precedence)

    L = []
    L.append("/- GENERATED by tools/gen_consts.py from /repo sources — do not edit. -/")
    L.append("namespace Khttp.Gen\n")
    L.append(f"def uriValidBytes : List UInt8 := {lean_bytes(d['uriValidBytes'])}")
    L.append(f"def fieldValidBytes : List UInt8 := {lean_bytes(d['fieldValidBytes'])}")
    for tag, u in (("Path", d["swarPath"]), ("Uri", d["swarUri"])):
        for k in sorted(u):
            L.append(f"def swar{tag}{k} : UInt8 := {u[k]}")
    L.append(f"def visLo : UInt8 := {d['visLo']}")
    L.append(f"def visHi : UInt8 := {d['visHi']}")
    L.append("def blockSize : Nat := 8")
    L.append("def methodArms : List (List UInt8 × String) := [" + ", ".join(f"({lean_bytes(a.encode())}, \"{b}\")" for a, b in d["methodArms"]) + "]")
    L.append("def methodFast : List (List UInt8) := [" + ", ".join(lean_bytes(a.encode()) for a in d["methodFast"]) + "]")
    L.append("def methodStrs : List (String × List UInt8) := [" + ", ".join(f"(\"{a}\", {lean_bytes(b.encode())})" for a, b in d["methodStrs"]) + "]")
    for k in ("probeMax", "inlineCopyMax", "headInitCap", "chunkBufSize", "probeInitCap", "probeStep", "bodyBufSize", "defaultMaxHead", "defaultReqBuf", "maxResponseHead"):
        L.append(f"def {k} : Nat := {d[k]}")
    for k in ("leapoch", "daysPer400Y", "daysPer100Y", "daysPer4Y", "secsPerDay", "secsPerHour", "secsPerMin"):
        L.append(f"def {k} : Int := {d[k]}")
    L.append("def months : List Int := [" + ", ".join(str(x) for x in d["months"]) + "]")
    L.append(f"def wdayStrs : List UInt8 := {lean_bytes(d['wdayStrs'])}")
    L.append(f"def monStrs : List UInt8 := {lean_bytes(d['monStrs'])}")
    L.append(f"def headerTemplate : List UInt8 := {lean_bytes(d['headerTemplate'])}")
    L.append("def statuses : List (Nat × List UInt8) := [" + ", ".join(f"({c}, {lean_bytes(r)})" for c, r in d["statuses"]) + "]")
    L.append("def precedence : List (String × Nat) := [" + ", ".join(f"(\"{n}\", {v})" for n, v in d["precedence"]) + "]")
    L.append("\nend Khttp.Gen\n")
    text = "\n".join(L)
    if not stale:
        # remember what was extracted from a source the extractor fully understood
        enc = json.dumps(_enc(d), sort_keys=True)
        if not os.path.exists(LAST) or open(LAST).read() != enc:
            if os.environ.get("KHTTP_UPDATE_CONSTS_LAST") == "1" or not os.path.exists(LAST):
                open(LAST, "w").write(enc)
    for s_ in stale:
        print("gen_consts: STALE", s_)
    out = os.path.normpath(OUT)
    old = open(out).read() if os.path.exists(out) else None
    if old != text:
        os.makedirs(os.path.dirname(out), exist_ok=True)
        with open(out, "w") as f:
            f.write(text)
        print("gen_consts: wrote", out)
    else:
        print("gen_consts: unchanged")


if __name__ == "__main__":
    try:
        main()
    except ExtractError as e:
        print("gen_consts: EXTRACTION FAILED:", e)
        sys.exit(3)
