#!/usr/bin/env python3
"""Regenerates MANIFEST.json from the property registry (tools/props) — run after adding a property check."""
import json, os, sys, subprocess
ROOT = os.path.normpath(os.path.join(os.path.dirname(os.path.abspath(__file__)), ".."))
sys.path.insert(0, os.path.join(ROOT, "tools"))
import props

ALL = [json.loads(l) for l in open(os.path.join(ROOT, "properties.jsonl"))]
hook_commits = []
try:
    out = subprocess.run(["git", "-C", "/repo", "log", "--format=%H %s"], stdout=subprocess.PIPE).stdout.decode()
    hook_commits = [l.split()[0] for l in out.splitlines() if " verif-hook:" in l or l.split(" ", 1)[1].startswith("verif-hook")]
except Exception:
    pass

checks, na = [], []
for p in ALL:
    pid = p["id"]
    spec = props.REGISTRY.get(pid)
    if not spec or spec.get("unclaimed"):
        na.append({"property_id": pid, "reason": (spec or {}).get("unclaimed", "check not built yet (work in progress)")})
        continue
    checks.append({
        "property_id": pid,
        "quick_cmd": f"python3 tools/check.py {pid} --tier quick",
        "thorough_cmd": f"python3 tools/check.py {pid} --tier thorough",
        "evidence_file": f"/verif/evidence/{pid}.json",
        "replay_cmd_template": f"python3 tools/check.py {pid} --replay {{path}}",
        "engine": "lean4-proof+correspondence",
        "level_claimed": {
            "category": "proof",
            "text": spec.get("level_text") or ("Lean 4 theorems over a model of the code, for all inputs/sequences without bounds (kernel-checked, axioms audited), "
                     "tied to /repo on every run by generated constants, extracted skeletons (canonical form for what no run observes; change detectors elsewhere) and a differential correspondence run of the real code against the model's executable definitions "
                     "(hand-written generators + coverage- and behaviour-guided corpora), "
                     "plus an independent oracle on the real code's answers. " + spec.get("explanation", "")),
            "design_ref": spec.get("design_ref", "DESIGN.md §6 " + pid),
        },
        "level_note": "; ".join(spec.get("assumptions", [])) or "see DESIGN.md §8 (trusted base)",
        "technique": spec.get("technique", "machine-checked proof (Lean 4) over a model + model/implementation correspondence check"),
    })

m = {
    "version": 1,
    "setup_cmd": "python3 tools/check.py --setup",
    "hooks": {
        "guard": "--cfg khttp_verif",
        "enable": "harness/.cargo/config.toml sets build.rustflags = [\"--cfg\", \"khttp_verif\"]; the harness crate compiles /repo as a path dependency with that flag",
        "baseline_off_cmd": "tools/baseline.sh",
        "source_commits": hook_commits,
        "add_only": True,
    },
    "engines": [
        {"name": "lean4-proof+correspondence", "path": "tools/check.py",
         "serves_properties": [c["property_id"] for c in checks],
         "kind_free_text": "Lean 4 model + theorems (lean/), Rust harness running the real code (harness/), translators (tools/gen_consts.py, tools/extract_skeleton.py), guided case generation (tools/fuzzgen.py, fuzz/: libFuzzer corpora, search support only), orchestrator tools/check.py"}
    ],
    "checks": checks,
    "notes": "See DESIGN.md. known_findings.txt lists recorded findings and fixed defects.",
    "not_applicable": na,
}
json.dump(m, open(os.path.join(ROOT, "MANIFEST.json"), "w"), indent=1)
print("claimed:", [c["property_id"] for c in checks], "unclaimed:", [x["property_id"] for x in na])
