#!/usr/bin/env python3
import os, subprocess, sys, json, shutil
ids = sys.argv[1:] or ["C%02d" % i for i in range(1, 21)]
res = {}
ev = "/verif/evidence"
saved = {f: open(os.path.join(ev, f), "rb").read() for f in os.listdir(ev) if f.endswith(".json")}
for pid in ids:
    for x in tuple(os.environ.get("VARIANTS", "R S").split()):
        p = f"/tmp/harmless/{pid}/{x}/patch.diff"
        if not os.path.exists(p):
            continue
        rc = subprocess.run(f"git -C /repo apply {p}", shell=True).returncode
        if rc != 0:
            res[f"{pid}-{x}"] = "patch does not apply"; continue
        try:
            pr = subprocess.run(f"python3 tools/check.py {pid} --tier quick", shell=True, cwd="/verif", stdout=subprocess.PIPE, stderr=subprocess.STDOUT)
            out = pr.stdout.decode("utf-8", "replace")
            lines = [l[:260] for l in out.splitlines() if l.startswith("VIOLATION") or "broken obligation" in l or "violating" in l]
            res[f"{pid}-{x}"] = {"rc": pr.returncode, "lines": lines[:4]}
            print(pid, x, pr.returncode, lines[:3], flush=True)
        finally:
            subprocess.run("git -C /repo checkout -- .", shell=True)
for f, b in saved.items():
    open(os.path.join(ev, f), "wb").write(b)
subprocess.run("python3 tools/gen_consts.py; python3 tools/extract_skeleton.py", shell=True, cwd="/verif", stdout=subprocess.DEVNULL)
json.dump(res, open("/root/q/harmless_results.json", "w"), indent=1)
