#!/bin/bash
# usage: process.sh C11 C12 ...   confirm K,L then evaluate against the quick check
cd /verif
for id in "$@"; do
  for x in ${VARIANTS:-K L}; do
    [ -f /tmp/seeded/$id/$x/patch.diff ] || { echo "$id-$x: no patch"; continue; }
    python3 tools/seeded.py confirm $id $x > /root/q/confirm-$id-$x.log 2>&1
    if grep -q '"confirmed": true' /root/q/confirm-$id-$x.log; then
      python3 tools/seeded.py eval $id-$x > /root/q/eval-$id-$x.log 2>&1
      echo "$id-$x confirmed; eval: $(head -c 300 /root/q/eval-$id-$x.log | tr '\n' ' ')"
    else
      echo "$id-$x NOT confirmed: $(grep -E 'demo_|tests_with' /root/q/confirm-$id-$x.log | tr '\n' ' ')"
    fi
  done
done
git -C /repo status --short | head -3
