"""Registry of per-property check specifications (see tools/check.py)."""
REGISTRY = {}


def register(pid, **spec):
    REGISTRY[pid] = spec


from . import common  # noqa: E402,F401
from . import parser  # noqa: E402,F401
import importlib, os  # noqa: E402

for _m in ("date", "headers", "router", "body", "printer", "pool", "conn", "epoll", "serve", "mem"):
    if os.path.exists(os.path.join(os.path.dirname(__file__), _m + ".py")):
        importlib.import_module("." + _m, __name__)
