"""C06: body reader (BODY domain)."""
from . import register
from .common import *
from gen import body as G
import check as C


def parse_ans(a):
    p = a.split()
    if len(p) < 5 or p[0] != "DATA":
        return None
    return {"data": unhex(p[1]), "end": p[2], "pulled": int(p[3].split("=")[1]), "fail": p[4].split("=")[1]}


def oracle(exp, a):
    r = parse_ans(a)
    if r is None:
        return "body reader scenario failed: " + a[:50]
    if r["end"] not in ("END", "ERR"):
        return "outcome " + r["end"]
    if exp["api"] == "drain":
        if exp["kind"] == "exact" and r["end"] != "END":
            return "discarding a valid body reported a failure"
        if exp["kind"] in ("malformed", "trunc-fixed") and r["end"] != "ERR":
            return "discarding a malformed/truncated body did not set the failure flag"
        if exp["kind"] == "trunc-chunked" and exp["cut"] < exp["clean_from"] and r["end"] != "ERR":
            return "discarding a truncated chunked body did not set the failure flag"
        if exp["kind"] == "exact" and exp.get("fixed") and r["pulled"] > max(0, exp["enc_len"]):
            return "fixed-length reader pulled bytes past the end of the body"
        return None
    if exp["kind"] == "exact":
        if r["data"] != exp["payload"] or r["end"] != "END":
            return "valid encoding: delivered %d bytes (%s), expected the %d-byte payload then end-of-body" % (len(r["data"]), r["end"], len(exp["payload"]))
        return None
    if exp["kind"] == "trunc-fixed":
        if r["end"] == "END":
            return "fixed body cut at %d of %d bytes ended cleanly" % (exp["cut"], len(exp["payload"]))
        if not exp["payload"].startswith(r["data"]):
            return "truncated fixed body: delivered bytes are not a prefix of the payload"
        return None
    if exp["kind"] == "trunc-chunked":
        if not exp["payload"].startswith(r["data"]):
            return "truncated chunked body: delivered bytes are not a prefix of the payload"
        if r["end"] == "END" and r["data"] != exp["payload"]:
            return "chunked encoding cut at byte %d ended cleanly with a short body (%d of %d bytes)" % (exp["cut"], len(r["data"]), len(exp["payload"]))
        if r["end"] == "END" and exp["cut"] < exp["clean_from"]:
            return "chunked encoding cut at byte %d (before the end of the last-chunk line) ended cleanly" % exp["cut"]
        return None
    if exp["kind"] == "malformed":
        if r["end"] != "ERR":
            return "malformed chunk framing was not reported as an error"
        if not exp["payload"].startswith(r["data"]) or len(r["data"]) > exp["delivered_max"]:
            return "malformed chunk framing: delivered bytes are not a prefix of the payload up to the corruption"
        return None
    return None


HEXD = set(b"0123456789abcdefABCDEF")
TEXT = set(range(0x20, 0x7f)) | {9}


def ref_chunked(total: bytes):
    """Strict reference reading of a chunked encoding, written from the C06 statement.  Returns
       ("valid", payload) | ("trunc", payload_so_far, after_last_chunk_line) | ("malformed", payload_so_far) | ("unclear",)
    `unclear`: outside what the statement pins down (non-ASCII extension / trailer bytes, bare LF …) - only the model is compared."""
    pos, payload = 0, b""
    while True:
        eol = total.find(b"\r\n", pos)
        line = total[pos:] if eol < 0 else total[pos:eol]
        # a bare LF or a stray CR inside a framing line: whether that terminates the line is not pinned down by the statement
        core = line[:-1] if (eol < 0 and line.endswith(b"\r")) else line
        if b"\n" in core or b"\r" in core:
            return ("unclear",)
        semi = line.find(b";")
        sizef = line if semi < 0 else line[:semi]
        ext = b"" if semi < 0 else line[semi:]
        if eol < 0:
            # the size line is not terminated: cut short unless what is there can no longer become a size line
            body_ = sizef[:-1] if (semi < 0 and sizef.endswith(b"\r")) else sizef
            if any(c not in HEXD for c in body_):
                return ("malformed", payload) if body_ and body_[0] not in HEXD else ("unclear",)
            if any(c not in TEXT and c != 13 for c in ext):
                return ("unclear",)
            return ("trunc", payload, False)
        if not sizef or any(c not in HEXD for c in sizef):
            return ("malformed", payload)
        if any(c not in TEXT for c in ext):
            return ("unclear",)
        size = int(sizef, 16)
        pos = eol + 2
        if size >= 2 ** 64:
            return ("malformed", payload)
        if size == 0:
            while True:
                eol = total.find(b"\r\n", pos)
                if eol < 0:
                    return ("trunc", payload, True) if all(c in TEXT or c == 13 for c in total[pos:]) else ("unclear",)
                if eol == pos:
                    return ("valid", payload)
                if any(c not in TEXT for c in total[pos:eol]):
                    return ("unclear",)      # (includes a bare LF / stray CR inside a trailer line)
                pos = eol + 2
        rest = total[pos:]
        if len(rest) < size:
            return ("trunc", payload + rest, False)
        data = rest[:size]
        after = rest[size:size + 2]
        if after == b"\r\n":
            payload += data
            pos += size + 2
            continue
        if b"\r\n".startswith(after):
            return ("trunc", payload + data, False)
        return ("malformed", payload + data)


def oracle_fuzz(case, a):
    """the C06 statement applied to an arbitrary stream: decided only where the strict reference reading is clear"""
    _, d = kv("X " + case.split(" ", 1)[1])
    r = parse_ans(a)
    if r is None:
        return "body reader scenario failed: " + a[:50]
    total = unhex(d["lo"]) + unhex(d["st"])
    api = d["api"]
    if d["kind"].startswith("fixed:"):
        n = int(d["kind"][6:])
        cls = ("valid", total[:n]) if len(total) >= n else ("trunc", total, False)
    elif d["kind"] == "chunked":
        cls = ref_chunked(total)
    else:
        return None
    if cls[0] == "unclear":
        return None
    if cls[0] == "valid":
        if r["end"] != "END":
            return "a valid encoding was reported as an error"
        if api != "drain" and r["data"] != cls[1]:
            return "valid encoding: delivered %d bytes, expected the %d-byte payload" % (len(r["data"]), len(cls[1]))
        return None
    if api != "drain" and not cls[1].startswith(r["data"]):
        return "cut short / malformed encoding: delivered bytes are not a prefix of the payload"
    if cls[0] == "malformed" and r["end"] != "ERR":
        return "malformed chunk framing was not reported as an error"
    if cls[0] == "trunc" and r["end"] != "ERR" and not (cls[2] and (api == "drain" or r["data"] == cls[1])):
        return "an encoding cut short ended cleanly"
    return None


def run(o, ctx, tier, seed, replay=None):
    t = "thorough" if tier in ("thorough", "search") else "quick"
    if replay is not None:
        diff_run(o, ctx, [replay["case"]])
        return
    exps, lines = [], []
    for line, exp in G.cases(seed, t):
        lines.append(line); exps.append(exp)
    impl, model = diff_run(o, ctx, lines, nontrivial=lambda c, a: True,
                           tags=lambda c, a: c.split()[1].split(":")[0] + ":" + c.split()[5] + ":" + (a.split()[2] if len(a.split()) > 2 else "?"))
    for c, a, e in zip(lines, impl, exps):
        o.count("expect=" + e["kind"])
        why = oracle(e, a)
        if why and len(o.violations) < 40:
            o.violations.append({"case": c, "impl": a[:200], "why": why})


    # streams kept by the coverage- and behaviour-guided generator: model comparison + the statement where the strict reading is clear
    fz = fuzz_cases(o, ctx, "body", tier, seed)
    fimpl, _ = diff_run(o, ctx, fz, nontrivial=lambda c, a: True, tags=lambda c, a: "fuzz:" + c.split()[1].split(":")[0] + ":" + (a.split()[2] if len(a.split()) > 2 else "?"))
    for c, a in zip(fz, fimpl):
        why = oracle_fuzz(c, a)
        if why and len(o.violations) < 40:
            o.violations.append({"case": c, "impl": a[:200], "why": why + " (guided-generator stream)"})

    # transient errors: raw read number k fails once with Interrupted and the caller simply calls again. Nothing may change:
    # same bytes, same outcome, same number of bytes pulled as in the undisturbed run — i.e. as the (error-free) model says
    # (the failure flag is set by the interrupted call and is not compared; `drain` gives up at an error by design)
    r = G.rng_for(seed, "body-eintr")
    pick = [i for i, l in enumerate(lines) if " api=drain" not in l]
    pick = r.sample(pick, min(len(pick), 600 if t == "quick" else 20000))
    el, base = [], []
    for i in pick:
        for k in sorted(set([0, 1, 2, r.randrange(0, 12)])):
            el.append(lines[i] + " eintr=%d" % k); base.append(i)
    eimpl = C.run_sharded(ctx["kimpl"], el)
    proj = lambda a: " ".join(a.split()[:4])
    def same(a, b):
        pa, pb = a.split(), b.split()
        if len(pa) < 4 or len(pb) < 4:
            return False
        if pb[2] == "END":
            return pa[:4] == pb[:4]
        # a failing body (truncated / malformed): the error must still be reported; HOW MANY of the payload bytes were handed out
        # before it depends on where the calls end (bytes copied in the failing call are not reported) — a prefix either way
        da, db = unhex(pa[1]), unhex(pb[1])
        return pa[2] == pb[2] and (da.startswith(db) or db.startswith(da))
    for c, a, i in zip(el, eimpl, base):
        o.evaluations += 1
        o.count("eintr")
        if not same(a, impl[i]) and len(o.violations) < 40:
            o.violations.append({"case": c, "cases": [lines[i], c], "impl": a[:200], "expected": impl[i][:200],
                                 "why": "an interrupted read that was retried changed the result: %s instead of %s" % (proj(a)[:80], proj(impl[i])[:80])})
        if ctx.get("have_model") and not same(a, model[i]) and len(o.mismatches) < 20:
            o.mismatches.append({"case": c, "impl": a[:200], "model": model[i][:200]})


register("C06", lean=["Khttp.Props.C06", "Khttp.Props.C06Contract"], soft_lean=["Khttp.Props.C07BodySkeleton"], run=run,
         rule="BODY cases: payload lengths {0,1,2,3,5,8,17,100,4095,4096,4097,9000,random} x {fixed, chunked with random chunkings, mixed-case / zero-padded sizes, extensions, trailers} x "
              "{valid + trailing bytes, every kind of truncation point, single-byte corruption of a size digit or of the CRLF after chunk data} x random leftover|stream split x stream segmentations "
              "{all, 1-byte, random} x caller schedules {1, 2, 7, 1024, 4096, 8192, random} x {Read, BufRead, drop-drain}. distinct_nontrivial = all distinct case lines.",
         assumptions=["std BufReader / Take / read_line / read_exact semantics as modelled (trusted)", "the raw stream returns no I/O error other than EOF", "caller buffers of size >= 1"],
         explanation="Theorems (Props/C06), each for every leftover|stream split, every segmentation of the stream and every caller schedule, through Read and BufRead: fixed and chunked bodies (any hex numerals, "
                     "extensions, trailers) deliver exactly the payload then end-of-body; the fixed reader never pulls a byte past the body (Take) and never touches the end of the stream; every proper prefix of a valid "
                     "encoding ends in an error or has delivered the full payload (clean end only after the complete last-chunk line); a non-hex size field or a missing CRLF after chunk data is an error after a prefix of the payload; "
                     "fuel adequacy; failure flag set exactly on error. Oracle: independent Python expectation per case (payload / truncation / corruption class).")
