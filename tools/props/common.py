"""Shared machinery for property runners: differential run of case lines through kimpl and kmodel."""
import sys, os
sys.path.insert(0, os.path.dirname(os.path.dirname(os.path.abspath(__file__))))
import check as C


def unhex(s):
    return b"" if s in ("e", "") else bytes.fromhex(s)


def hx(b):
    return b.hex() if b else "e"


def kv(line):
    """'OK a=1 b=2' -> ('OK', {'a':'1','b':'2'})"""
    parts = line.split()
    d = {}
    for p in parts[1:]:
        if "=" in p:
            k, v = p.split("=", 1)
            d[k] = v
    return (parts[0] if parts else ""), d


def diff_run(o, ctx, lines, oracle=None, nontrivial=None, canon=None, tags=None, keep_samples=6, impl_env=None):
    """Run `lines` through both binaries.  For every case:
       - canon(impl) != canon(model)      -> o.mismatches (correspondence obligation broken)
       - oracle(case, impl, model) -> str  -> o.violations (the real code violates the property's spec)
    Returns (impl_answers, model_answers)."""
    if not lines:
        return [], []
    impl = C.run_sharded(ctx["kimpl"], lines, env=impl_env) if ctx.get("have_impl") else ["NOIMPL"] * len(lines)
    model = C.run_sharded(ctx["kmodel"], lines) if ctx.get("have_model") else ["NOMODEL"] * len(lines)
    canon = canon or (lambda s: s)
    order_check(o, ctx, lines, impl)
    for i, (c, a, m) in enumerate(zip(lines, impl, model)):
        o.evaluations += 1
        if tags:
            o.count(tags(c, a))
        if nontrivial is None or nontrivial(c, a):
            o.nontrivial.add(c)
        if len(o.samples) < keep_samples and (i % max(1, len(lines) // keep_samples) == 0):
            o.samples.append({"case": c[:300], "impl": a[:300], "model": m[:300]})
        if ctx.get("have_model") and canon(a) != canon(m):
            if len(o.mismatches) < 50:
                o.mismatches.append({"case": c, "impl": a, "model": m})
        if oracle:
            why = oracle(c, a, m)
            if why and len(o.violations) < 50:
                o.violations.append({"case": c, "impl": a, "model": m, "why": why})
    return impl, model


PURE_DOMAINS = ("REQ ", "RESP ", "HDR ", "PRINT ", "BODY ", "ROUTE ", "DATE ", "STATUS ")


def order_check(o, ctx, lines, impl):
    """State carried over between calls (a thread-local scratch buffer, a cache, a grow-only vector) shows as an answer that depends on
    what ran before on the same thread.  The cases of the stateless domains were answered in generation order, split over several
    processes; a sample of them is answered again by ONE process in reverse order, and every answer must be the same."""
    if not ctx.get("have_impl"):
        return
    idx = [i for i, l in enumerate(lines) if l.startswith(PURE_DOMAINS)]
    if len(idx) < 2:
        return
    import random
    r = random.Random(len(lines) * 7919 + o.seed)
    sample = idx if len(idx) <= 1500 else r.sample(idx, 1500)
    sample.sort(reverse=True)
    again = C.run_sharded(ctx["kimpl"], [lines[i] for i in sample], shards=1)
    bad = 0
    for i, a in zip(sample, again):
        if a != impl[i]:
            bad += 1
            if len(o.violations) < 50:
                o.violations.append({"case": lines[i], "impl": a[:300], "why": "the answer depends on what ran before on the same thread: %s when the cases run in generation order, %s when a sample runs in reverse order in one process" % (impl[i][:80], a[:80])})
    o.extra["order_independence_rechecked"] = o.extra.get("order_independence_rechecked", 0) + len(sample)


def shrink_bytes(data: bytes, still_fails, budget=300):
    """delta-debugging on a byte string: remove chunks while `still_fails(bytes)` holds"""
    n = 2
    cur = data
    steps = 0
    while len(cur) >= 2 and steps < budget:
        size = max(1, len(cur) // n)
        removed = False
        for i in range(0, len(cur), size):
            cand = cur[:i] + cur[i + size:]
            steps += 1
            if cand != cur and still_fails(cand):
                cur = cand
                n = max(n - 1, 2)
                removed = True
                break
            if steps >= budget:
                break
        if not removed:
            if size == 1:
                break
            n = min(n * 2, len(cur))
    return cur


_FUZZ_BUILT = {}


def fuzz_cases(o, ctx, target, tier, seed):
    """case lines from the coverage- and behaviour-guided generator (tools/fuzzgen.py): the committed corpus of that target plus
    whatever libFuzzer keeps when it is run on /repo's CURRENT tree for a few seconds.  Never decides anything: the lines go through
    the same diff and oracles as all others.  A target that cannot be built or run contributes nothing (noted in the evidence)."""
    import fuzzgen
    if "ok" not in _FUZZ_BUILT:
        try:
            _FUZZ_BUILT["ok"], _FUZZ_BUILT["msg"] = fuzzgen.build()
        except Exception as e:  # noqa
            _FUZZ_BUILT["ok"], _FUZZ_BUILT["msg"] = False, repr(e)[:200]
    notes = o.extra.setdefault("fuzz_guided_generation", {})
    if not _FUZZ_BUILT["ok"]:
        notes[target] = "not run: " + _FUZZ_BUILT["msg"]
        return []
    secs = 90 if tier == "thorough" else 25 if tier == "search" else 6
    try:
        base, fresh, note = fuzzgen.lines(target, secs, seed)
    except Exception as e:  # noqa
        notes[target] = "not run: " + repr(e)[:200]
        return []
    notes[target] = note
    return base + fresh
