"""C07 / C09 / C10 / C05 (connection level): CONN domain against the real Server::handle."""
from . import register
from .common import *
from gen import conn as G
from gen.common import rng_for
import check as C


def transcript(ans):
    # "T <items> maxrecv=.. srv=.."
    parts = ans.split()
    if len(parts) < 2 or parts[0] != "T":
        return None, {}
    _, d = kv("X " + " ".join(parts[2:]))
    return ([] if parts[1] == "-" else parts[1].split(",")), d


def run_histories(o, ctx, tier, seed, tag, n_quick, n_thorough, flt=None, max_head=4096):
    t = "thorough" if tier in ("thorough", "search") else "quick"
    r = rng_for(seed, "conn-" + tag)
    n = n_quick if t == "quick" else n_thorough
    lines, exps, metas = [], [], []
    tries = 0
    while len(lines) < n and tries < n * 20:
        tries += 1
        script, exp, meta = G.history(r)
        if flt and not flt(meta):
            continue
        lines.append(f"CONN max={max_head} script={script}")
        exps.append(exp); metas.append(meta)
    impl = C.run_sharded(ctx["kimpl"], lines, shards=min(C.NCPU, 16))
    model = C.run_sharded(ctx["kmodel"], lines) if ctx.get("have_model") and ctx.get("conn_model") else None
    known_hit = 0
    for i, (c, a, e, m) in enumerate(zip(lines, impl, exps, metas)):
        o.evaluations += 1
        got, d = transcript(a)
        o.count("reqs=%d" % len(m["kinds"]))
        for k in m["kinds"]:
            o.count("kind=" + k)
        if len(m["kinds"]) >= 2 or any(k in ("reqclose", "close", "hookdrop", "hookdropclose", "err") for k in m["kinds"]):
            o.nontrivial.add(c)
        if len(o.samples) < 5 and i % 37 == 0:
            o.samples.append({"case": c[:400], "impl": a[:300], "expected": ",".join(e)[:300]})
        if model is not None and model[i].split()[:2] != a.split()[:2] and len(o.mismatches) < 30:
            o.mismatches.append({"case": c, "impl": a, "model": model[i]})
        if got is None:
            o.violations.append({"case": c, "impl": a[:200], "why": "connection scenario crashed: " + a[:60]}); continue
        if got != e:
            # class chunked_body_early_arrival (known finding K07-chunked-readahead): the rest of an unread CHUNKED body travelled
            # together with later bytes; everything up to and including that request's own response must still be right
            if m["early_chunked"] and got[:m["ec_idx"] + 1] == e[:m["ec_idx"] + 1]:
                known_hit += 1
                continue
            if len(o.violations) < 30:
                k = next((j for j in range(min(len(got), len(e))) if got[j] != e[j]), min(len(got), len(e)))
                o.violations.append({"case": c, "impl": a[:400], "expected": ",".join(e)[:400],
                                     "why": f"transcript differs from the specification at item {k}: got {got[k] if k < len(got) else 'nothing'}, expected {e[k] if k < len(e) else 'nothing'} (request kinds {m['kinds']})"})
    o.extra["known_class_chunked_early_arrival_cases"] = known_hit
    return known_hit


def run_c07(o, ctx, tier, seed, replay=None):
    if replay is not None:
        impl = C.run_sharded(ctx["kimpl"], [replay["case"]])
        got, _ = transcript(impl[0])
        o.evaluations += 1
        if "expected" in replay and ",".join(got or []) != replay["expected"]:
            o.violations.append({"case": replay["case"], "impl": impl[0], "expected": replay["expected"], "why": "replayed transcript still differs"})
        return
    run_histories(o, ctx, tier, seed, "c07", 400, 12000)


def known_c07(o, ctx, k):
    """replay the witness of K07-chunked-readahead: still a hang?"""
    wit = "POST /noread HTTP/1.1\r\nTransfer-Encoding: chunked\r\n\r\n5\r\n01234"
    rest = "\r\n0\r\n\r\nGET /p/a/b HTTP/1.1\r\n\r\n"
    line = "CONN max=4096 script=s:%s,r,s:%s,r,c,e" % (wit.encode().hex(), rest.encode().hex())
    impl = C.run_sharded(ctx["kimpl"], [line])
    got, _ = transcript(impl[0])
    return got is not None and "HANG" in got


register("C07", unclaimed="connection model (Lean) being built", lean=[], run=run_c07, known_check=known_c07,
         rule="CONN histories: 1-4 requests per connection over 15 handler behaviours (read all / k bytes / nothing, respond before reading, swallow errors, hook Drop, close tokens, errors, reader responses) "
              "x fixed/chunked bodies (extensions, trailers, Content-Length overridden by chunked) x head/body segmentations incl. 1-byte segments and 'rest of body together with the next request after the response'. "
              "distinct_nontrivial = distinct histories with >= 2 requests or a closing outcome.",
         assumptions=["lock-step client (sends request i+1 only after response i; the rest of an unread body may travel with the next head)"],
         explanation="(under construction)")
