"""C07 / C09 / C10 / C05 (connection level): CONN domain against the real Server::handle."""
from . import register
from .common import *
from gen import conn as G
from gen.common import rng_for
import check as C


def transcript(ans):
    # "T <items> maxrecv=.. srv=.."
    parts = ans.split()
    if len(parts) < 2 or parts[0] != "T":
        return None, {}
    _, d = kv("X " + " ".join(parts[2:]))
    return ([] if parts[1] == "-" else parts[1].split(",")), d


def run_histories(o, ctx, tier, seed, tag, n_quick, n_thorough, flt=None, max_head=4096, stalls=0):
    t = "thorough" if tier in ("thorough", "search") else "quick"
    r = rng_for(seed, "conn-" + tag)
    n = n_quick if t == "quick" else n_thorough
    if tier == "search":
        n = max(n_quick, n_thorough // 4)      # the search after a changed skeleton / broken obligation: a quarter of the thorough budget
    lines, exps, metas = [], [], []
    tries = 0
    while len(lines) < n and tries < n * 20:
        tries += 1
        script, exp, meta = G.history(r)
        if flt and not flt(meta):
            continue
        lines.append(f"CONN max={max_head} script={script}")
        exps.append(exp); metas.append(meta)
    # read time-outs: the client stalls inside a body (no model counterpart: the model has no clock)
    for line, exp, meta in G.stall_cases(r, stalls if t == "quick" else stalls * 4):
        lines.append(line); exps.append(exp); metas.append(meta)
    if tag == "c07":
        for line, exp, meta in G.chunk_tail_cases(r, 45 if t == "quick" else 400):
            lines.append(line); exps.append(exp); metas.append(meta)
    impl = C.run_sharded(ctx["kimpl"], lines, shards=min(C.NCPU, 16))
    # the Lean model of handle_connection replays the same script (each socket read sees at most the segment in flight)
    model = C.run_sharded(ctx["kmodel"], [l if " rto=" not in l else "#" for l in lines]) if ctx.get("have_model") else None
    if model is not None:
        # '#' lines are skipped by kmodel: re-align
        it = iter(model)
        model = [None if " rto=" in l else next(it, "CRASH") for l in lines]
    known_hit = 0
    for i, (c, a, e, m) in enumerate(zip(lines, impl, exps, metas)):
        o.evaluations += 1
        got, d = transcript(a)
        o.count("reqs=%d" % len(m["kinds"]))
        for k in m["kinds"]:
            o.count("kind=" + k)
        if len(m["kinds"]) >= 2 or any(k in ("reqclose", "close", "hookdrop", "hookdropclose", "hookdropclosesend", "closeempty", "closerep", "closer", "err", "errint", "errclose", "errkind", "silent", "crlfpre", "hookstrip", "bigchunk") or k.startswith("stall") for k in m["kinds"]):
            o.nontrivial.add(c)
        if len(o.samples) < 5 and i % 37 == 0:
            o.samples.append({"case": c[:400], "impl": a[:300], "expected": ",".join(e)[:300]})
        if model is not None and model[i] is not None and model[i].split()[:2] != a.split()[:2] and len(o.mismatches) < 30:
            o.mismatches.append({"case": c, "impl": a, "model": model[i]})
        if got is None:
            o.violations.append({"case": c, "impl": a[:200], "why": "connection scenario crashed: " + a[:60]}); continue
        if got != e:
            # class chunked_body_early_arrival (known finding K07-chunked-readahead): the rest of an unread CHUNKED body travelled
            # together with later bytes; everything up to and including that request's own response must still be right
            if m["early_chunked"] and got[:m["ec_idx"] + 1] == e[:m["ec_idx"] + 1]:
                known_hit += 1
                continue
            if len(o.violations) < 30:
                k = next((j for j in range(min(len(got), len(e))) if got[j] != e[j]), min(len(got), len(e)))
                o.violations.append({"case": c, "impl": a[:400], "expected": ",".join(e)[:400],
                                     "why": f"transcript differs from the specification at item {k}: got {got[k] if k < len(got) else 'nothing'}, expected {e[k] if k < len(e) else 'nothing'} (request kinds {m['kinds']})"})
    o.extra["known_class_chunked_early_arrival_cases"] = known_hit
    return known_hit


STD_METHODS = {b"GET", b"POST", b"HEAD", b"PUT", b"PATCH", b"DELETE", b"OPTIONS", b"TRACE", b"CONNECT"}


def corpus_sweep(o, ctx, tier, seed, n_quick=2500, n_thorough=40000):
    """Every request the guided generator knows, played as a whole connection: the request bytes in one segment, then the client's
    half-close; what comes back (responses, end of connection) is compared with the Lean model of handle_connection.  The
    corpus holds thousands of distinct request lines and header sections (all target forms, methods, versions, framing fields,
    lengths …), so a special case for SOME request anywhere between the parser and the handler call — which none of the scripted
    histories uses — shows up as a model/implementation disagreement."""
    t = "thorough" if tier in ("thorough", "search") else "quick"
    r = rng_for(seed, "conn-sweep")
    fl = [l for l in fuzz_cases(o, ctx, "req", tier, seed) if l.startswith("REQ ")]
    if not fl or not ctx.get("have_model"):
        return
    ans = C.run_sharded(ctx["kimpl"], fl)
    acc = [l for l, a in zip(fl, ans) if a.startswith("OK")]
    rej = [l for l, a in zip(fl, ans) if not a.startswith("OK")]
    n = n_quick if t == "quick" else n_thorough
    # stratified by (method, target form, version): a few of every shape first, the rest at random
    strata = {}
    for l, a in zip(fl, ans):
        if a.startswith("OK"):
            _, d_ = kv(a)
            tt = unhex(d_.get("t", "e"))
            form = "ast" if tt == b"*" else "abs" if b"://" in tt else "org" if tt.startswith(b"/") else "auth"
            mm = unhex(d_.get("m", "e"))
            strata.setdefault((mm if mm in STD_METHODS else b"custom", form, d_.get("v")), []).append(l)
    first = [l for ls_ in strata.values() for l in ls_[:3]]
    pick = first + r.sample(acc, min(len(acc), max(0, n * 4 // 5 - len(first)))) + r.sample(rej, min(len(rej), n // 5))
    lines = ["CONN max=4096 script=s:%s,c,r,r,e" % l.split()[1] for l in pick if l.split()[1] != "e"]
    impl = C.run_sharded(ctx["kimpl"], lines, shards=min(C.NCPU, 16))
    model = C.run_sharded(ctx["kmodel"], lines)
    for c, a, m in zip(lines, impl, model):
        o.evaluations += 1
        o.count("sweep:" + (a.split()[1].split(",")[0].split(":")[0] if len(a.split()) > 1 else "?"))
        if a.split()[:2] != m.split()[:2] and len(o.mismatches) < 30:
            o.mismatches.append({"case": c, "impl": a[:300], "model": m[:300]})
    o.extra["corpus_sweep_connections"] = len(lines)


def run_faults(o, ctx, tier, seed, n_quick, n_thorough):
    """A socket read of the server fails at an exact point (injected through the interposed recv: EINTR, EAGAIN as after a
    read time-out, ECONNRESET) — once per run, at every read position of each history.  Whatever the failed read was for
    (head, body, discarding an unread body), the server either carries on correctly or closes the connection: every response
    the client sees is the specified one, in order, and after the first deviation there is nothing but EOF.  In particular
    no bytes of a body are ever answered as if they were a request."""
    t = "thorough" if tier in ("thorough", "search") else "quick"
    r = rng_for(seed, "conn-faults")
    n = n_quick if t == "quick" else n_thorough
    base = []
    while len(base) < n:
        script, exp, meta = G.history(r, max_reqs=3)
        if meta["early_chunked"] or not any(k in ("echo", "noread", "readk", "early", "swallow", "hookdrop", "notfound", "reqclose") for k in meta["kinds"]):
            continue
        base.append(("CONN max=4096 script=" + script, exp, meta))
    # corpus: witness of F36 (fixed): chunk data split between the head segment and a later one, the later read interrupted once
    hd = b"POST /echo HTTP/1.1\r\nTransfer-Encoding: chunked\r\n\r\n"
    base.insert(0, ("CONN max=4096 script=s:%s,s:%s,r,c,e" % (hx(hd + b"8\r\nhel"), hx(b"loabc\r\n0\r\n\r\n")),
                    ["R200:0:" + hx(b"helloabc"), "EOF"], {"kinds": ["echo"], "early_chunked": False, "ec_idx": None}))
    first = C.run_sharded(ctx["kimpl"], [b[0] for b in base], shards=min(C.NCPU, 16))
    lines, exps = [], []
    for (line, exp, meta), a in zip(base, first):
        got, d = transcript(a)
        if got != exp:
            continue   # reported by the plain histories
        nrecv = int(d.get("recvs", "0"))
        ks = range(nrecv) if nrecv <= 12 else sorted(set(r.randrange(nrecv) for _ in range(12)))
        for k in ks:
            for kind in (("EINTR", "EAGAIN", "ECONNRESET") if t != "quick" else (r.choice(["EINTR", "EAGAIN"]), "ECONNRESET")):
                lines.append(line.replace("CONN max=4096 ", "CONN max=4096 fail=%d:%s " % (k, kind)))
                exps.append((exp, meta))
    impl = C.run_sharded(ctx["kimpl"], lines, shards=min(C.NCPU, 16))
    for c, a, (exp, meta) in zip(lines, impl, exps):
        o.evaluations += 1
        o.count("fault:" + c.split("fail=")[1].split()[0].split(":")[1])
        o.nontrivial.add(c)
        got, _ = transcript(a)
        if got is None:
            o.violations.append({"case": c, "impl": a[:200], "why": "connection scenario crashed: " + a[:60]}); continue
        j = next((i for i in range(min(len(got), len(exp))) if got[i] != exp[i]), min(len(got), len(exp)))
        rest = got[j:]
        # the /swallow handler answers with the length of what it could read and ignores the error (README idiom
        # unwrap_or_default): "0" is that handler's specified answer to a failed read; the connection must close after it
        if rest and j < len(meta["kinds"]) and meta["kinds"][j] == "swallow" and rest[0] == "R200:0:30":
            rest = rest[1:]
        if any(x != "EOF" for x in rest) and len(o.violations) < 30:
            o.violations.append({"case": c, "impl": a[:400], "expected": ",".join(exp)[:400],
                                 "why": "after a failed socket read the server neither carried on correctly nor closed: item %d is %s (specified: %s, or end of connection) (request kinds %s)"
                                        % (j, rest[0][:40], exp[j][:40] if j < len(exp) else "nothing", meta["kinds"])})
    o.extra["read_fault_cases"] = len(lines)


def run_halfclose(o, ctx):
    """a client that half-closes right after its last request (FIN readable together with the request, also while an earlier
    request is still being handled) is still owed every response — in epoll mode as in the others"""
    p1 = b"GET /p/1/2 HTTP/1.1\r\n\r\n"
    r200 = "R200:0:" + hx(b"1,2")
    po = b"POST /echo HTTP/1.1\r\nContent-Length: 3\r\n\r\nabc"
    plans = [("P:S:%s,r,e/S:e" % hx(p1), [r200 + ",EOF", "EOF"]),
             ("P:s:%s,r,S:%s,r,e/S:e" % (hx(p1), hx(p1)), [r200 + "," + r200 + ",EOF", "EOF"]),
             ("P:s:%s,r,S:%s,r,e/P:S:%s,r,e/S:e" % (hx(po), hx(p1), hx(po)), ["R200:0:" + hx(b"abc") + "," + r200 + ",EOF", "R200:0:" + hx(b"abc") + ",EOF", "EOF"])]
    lines = ["SERVE mode=%s threads=%d plan=%s" % (m, th, pl) for pl, _ in plans for m in ("epoll", "serve") for th in (1, 2)]
    wants = [w for _, w in plans for m in ("epoll", "serve") for th in (1, 2)]
    # a connection waiting in the pool's queue is no reason to close a kept-alive one that neither side asked to close (pool and
    # thread-per-connection modes; in epoll mode with one worker the same plan runs into the recorded finding K14)
    over = ("P:s:%s,r,|,s:%s,r,s:%s,r,c,e/P:s:%s,|,r,c,e/S:e" % (hx(p1), hx(p1), hx(p1), hx(p1)), [",".join([r200] * 3 + ["EOF"]), r200 + ",EOF", "EOF"])
    for m, th in (("serve", 1), ("serve", 2), ("threaded", 1)):
        lines.append("SERVE mode=%s threads=%d plan=%s" % (m, th, over[0])); wants.append(over[1])
    def tr_of(a):
        p = a.split()
        return p[1].split("/") if len(p) >= 2 and p[0] == "V" else None

    def settle(ls, answers, ok):
        """SERVE scenarios run many servers side by side on ports picked a moment earlier and have deadlines: a line that deviates is
        run once more, alone; only a deviation that shows again counts"""
        for i, (l, a) in enumerate(zip(ls, answers)):
            if not ok(i, a):
                answers[i] = C.run_sharded(ctx["kimpl"], [l], shards=1)[0]
                o.extra["scenarios_rerun_alone_after_a_deviation"] = o.extra.get("scenarios_rerun_alone_after_a_deviation", 0) + 1
        return answers

    impl = C.run_sharded(ctx["kimpl"], lines, shards=min(C.NCPU, len(lines)))
    impl = settle(lines, impl, lambda i, a: tr_of(a) == wants[i])
    for c, a, w in zip(lines, impl, wants):
        o.evaluations += 1
        p = a.split()
        got = p[1].split("/") if len(p) >= 2 and p[0] == "V" else None
        if got != w and len(o.violations) < 30:
            o.violations.append({"case": c, "impl": a[:300], "expected": "/".join(w), "why": "%s: transcript %s, specification %s" % ("a kept-alive connection while another waits for a worker" if c.endswith(over[0]) else "request sent together with the client's half-close", a[:80], "/".join(w)[:80])})
    # a handler error of ANY kind ends the connection, in epoll mode as in the others (nothing further is read)
    kinds = ["wouldblock", "interrupted", "timedout", "brokenpipe", "reset", "other", "eof", "invaliddata", "aborted"]
    klines = ["SERVE mode=%s threads=2 plan=P:s:%s,r,s:%s,r,e/S:e" % (m, hx(b"GET /errkind/%s HTTP/1.1\r\n\r\n" % k.encode()), hx(p1)) for k in kinds for m in ("epoll", "threaded")]
    kimpl_ = settle(klines, C.run_sharded(ctx["kimpl"], klines, shards=min(C.NCPU, len(klines))), lambda i, a: (tr_of(a) or [None])[0] == "EOF,EOF,EOF")
    for c, a in zip(klines, kimpl_):
        o.evaluations += 1
        pz = a.split()
        got = pz[1].split("/")[0] if len(pz) >= 2 and pz[0] == "V" else None
        if got != "EOF,EOF,EOF" and len(o.violations) < 30:
            o.violations.append({"case": c, "impl": a[:300], "expected": "EOF,EOF,EOF",
                                 "why": "a handler error did not end the connection: transcript %s (no response and end of connection expected; the request sent afterwards must not be answered)" % (got or a[:60])})
    # the second request and the FIN arrive while the first request's (slow) handler is still running
    slow = b"GET /slow/25 HTTP/1.1\r\n\r\n"
    elines = ["EPOLL w=%d failadd=- plan=o0,s0:%s,y0,s0:%s,h0,r0,r0,r0,z" % (w, hx(slow), hx(p1)) for w in (1, 2, 2)]
    want = ["R200:0:" + hx(b"slow"), r200, "EOF"]
    for c, a in zip(elines, C.run_sharded(ctx["kimpl"], elines, shards=len(elines))):
        o.evaluations += 1
        m = [w_ for w_ in a.split() if w_.startswith("tr=")]
        got = m[0][3:].split("/")[0].split(",") if m else None
        if got != want and len(o.violations) < 30:
            o.violations.append({"case": c, "impl": a[:300], "expected": ",".join(want),
                                 "why": "epoll mode: next request and half-close arrive while the previous request is being handled: answers %s, specification %s" % (",".join(got or ["-"])[:80], ",".join(want))})


def run_c07(o, ctx, tier, seed, replay=None):
    if replay is not None:
        impl = C.run_sharded(ctx["kimpl"], [replay["case"]])
        got, _ = transcript(impl[0])
        o.evaluations += 1
        if "expected" in replay and ",".join(got or []) != replay["expected"]:
            o.violations.append({"case": replay["case"], "impl": impl[0], "expected": replay["expected"], "why": "replayed transcript still differs"})
        return
    run_histories(o, ctx, tier, seed, "c07", 400, 12000, stalls=10)
    run_faults(o, ctx, tier, seed, 40, 600)
    corpus_sweep(o, ctx, tier, seed)
    # the same property in epoll mode (one-request jobs re-armed by readiness): keep-alive plans incl. "next request arrives
    # while the previous one is still being handled"
    from . import epoll as E
    sub = C.Outcome("C07", tier, seed)
    E.run("C14")(sub, ctx, "quick", seed)
    o.evaluations += sub.evaluations
    o.extra["epoll_mode_plans"] = sub.evaluations
    for v in sub.violations:
        v["why"] = "epoll mode: " + v["why"]
        o.violations.append(v)
    run_halfclose(o, ctx)


def known_c07(o, ctx, k):
    """replay the witness of K07-chunked-readahead: still a hang?"""
    wit = "POST /noread HTTP/1.1\r\nTransfer-Encoding: chunked\r\n\r\n5\r\n01234"
    rest = "\r\n0\r\n\r\nGET /p/a/b HTTP/1.1\r\n\r\n"
    line = "CONN max=4096 script=s:%s,r,s:%s,r,c,e" % (wit.encode().hex(), rest.encode().hex())
    impl = C.run_sharded(ctx["kimpl"], [line])
    got, _ = transcript(impl[0])
    return got is not None and "HANG" in got


def run_c09(o, ctx, tier, seed, replay=None):
    if replay is not None:
        return run_c07(o, ctx, tier, seed, replay)
    closing = {"closerep", "reqclose", "reqnoclose", "close", "err", "errint", "errclose", "errkind", "silent", "crlfpre", "hookstrip", "bigchunk", "hookdrop", "hookdropclose", "hookdropclosesend", "closeempty", "closer"}
    run_histories(o, ctx, tier, seed, "c09", 300, 10000, flt=lambda m: bool(closing & set(m["kinds"])), stalls=4)
    corpus_sweep(o, ctx, tier, seed, 1500, 20000)
    # epoll mode decides persist / close through EpollJob::run: the same signals, plus the peer's half-close
    run_halfclose(o, ctx)


register("C07", lean=["Khttp.Props.C07", "Khttp.Props.C14Skeleton"], soft_lean=["Khttp.Props.C07Skeleton", "Khttp.Props.C07BodySkeleton"], run=run_c07, known_check=known_c07,
         rule="CONN histories: 1-4 requests per connection over 15 handler behaviours (read all / k bytes / nothing, respond before reading, swallow errors, hook Drop, close tokens, errors, reader responses) "
              "x fixed/chunked bodies (extensions, trailers, Content-Length overridden by chunked) x head/body segmentations incl. 1-byte segments and 'rest of body together with the next request after the response'. "
              "distinct_nontrivial = distinct histories with >= 2 requests or a closing outcome.",
         assumptions=["lock-step client (sends request i+1 only after response i; the rest of an unread body may travel with the next head)"],
         explanation="Theorems (Props/C07) on the model of handle_one_request / handle_connection, for handlers that use the body reader only through Read/BufRead (any mix of read / fill_buf / consume): "
                     "after the drop-drain exactly the fixed-length body has been consumed whatever the handler did (fixed_ops_drain), so the next request is parsed from the byte after the body (C07_fixed_boundary, "
                     "C07_no_body_boundary, hook-Drop variant); one response per request in order for sequences of fixed/no-body requests; truncated or malformed bodies close the connection (C07_unknown_position_closes); "
                     "chunked bodies: at least the encoding is consumed and parsing never resumes inside the body; the full chunked statement is refuted by the read-ahead witness (known finding K07). "
                     "Tie: control skeleton of server/mod.rs (decide) + CONN correspondence. Oracle: specified transcript per history on the real Server::handle; plus keep-alive plans in epoll mode.")


# ------------------------------------------------------------------------------------------------ C10
def c10_cases(seed, tier):
    """(max, segments, expected first item, head_len)"""
    r = rng_for(seed, "c10")
    out = []
    maxes = list(range(0, 65)) if tier != "quick" else [0, 1, 2, 15, 16, 17, 18, 19, 20, 26, 30, 31, 32, 33, 40, 63, 64]
    maxes += [100, 4096, 16384]
    for N in maxes:
        for delta in (-2, -1, 0, 1, 2, 40):
            L = N + delta
            kind = r.choice(["p", "echo"])
            if kind == "p":
                base = b"GET /p//b HTTP/1.1\r\n\r\n"          # 24 bytes with empty first parameter
                if L < len(base) + 1:
                    continue
                a = b"a" * (L - len(base))
                head = b"GET /p/" + a + b"/b HTTP/1.1\r\n\r\n"
                body, exp_ok = b"", "R200:0:" + hx(a + b",b")
            else:
                base = b"POST /echo HTTP/1.1\r\nContent-Length: 3\r\nX: \r\n\r\n"
                if L < len(base):
                    continue
                head = b"POST /echo HTTP/1.1\r\nContent-Length: 3\r\nX: " + b"v" * (L - len(base)) + b"\r\n\r\n"
                body, exp_ok = b"xyz", "R200:0:" + hx(b"xyz")
            assert len(head) == L
            exp = exp_ok if L <= N else "R431:1:e"
            for mode in ("whole", "split", "bytes" if L < 90 else "split", "with_body"):
                data = head + (body if mode == "with_body" or True else b"")
                if mode == "whole" or mode == "with_body":
                    segs = [data]
                elif mode == "bytes":
                    segs = [data[i:i + 1] for i in range(len(data))]
                else:
                    cuts = sorted(set(r.randrange(1, len(data)) for _ in range(r.choice([1, 2, 4]))))
                    segs, p = [], 0
                    for c in cuts + [len(data)]:
                        segs.append(data[p:c]); p = c
                out.append((N, segs, exp, L))
        # a malformed head inside the first N bytes -> 400 whatever follows
        if N >= 8:
            bad = b"GET /\x01 HTTP/1.1\r\n\r\n" + b"x" * N
            out.append((N, [bad], "R400:1:e", len(bad)))
            out.append((N, [bad[:6], bad[6:]], "R400:1:e", len(bad)))
    return out


def run_c10(o, ctx, tier, seed, replay=None):
    t = "thorough" if tier in ("thorough", "search") else "quick"
    if replay is not None:
        cases = [(replay["max"], [unhex(x) for x in replay["segs"]], replay["expected"], 0)]
    else:
        cases = c10_cases(seed, t)
    # half of the cases run on a thread that has just served a connection of a server with a LARGER head limit
    if replay is None:
        c10_modes(o, ctx, t, seed)
    lines = ["CONN max=%d%s script=%s,r,e" % (N, " warm=%d" % (4096 if N < 4096 else 65536) if k % 2 else "", ",".join("s:" + hx(s_) for s_ in segs)) for k, (N, segs, _, _) in enumerate(cases)]
    mlines = ["RDREQ max=%d segs=%s close=0" % (N, ",".join(hx(s_) for s_ in segs)) for N, segs, _, _ in cases]
    impl = C.run_sharded(ctx["kimpl"], lines, shards=min(C.NCPU, 16))
    model = C.run_sharded(ctx["kmodel"], mlines) if ctx.get("have_model") else None
    for i, ((N, segs, exp, L), c, a) in enumerate(zip(cases, lines, impl)):
        o.evaluations += 1
        got, d = transcript(a)
        o.count("max<=64" if N <= 64 else "max=%d" % N)
        o.count("head-max=%+d" % (L - N) if abs(L - N) <= 2 else "head-max=far")
        if abs(L - N) <= 2:
            o.nontrivial.add(c)
        if len(o.samples) < 5 and i % 97 == 0:
            o.samples.append({"case": c[:300], "impl": a[:120], "expected_first": exp[:80]})
        why = None
        if got is None or not got:
            why = "scenario crashed: " + a[:60]
        elif got[0] != exp:
            why = "limit N=%d, head of %d bytes: got %s, expected %s" % (N, L, got[0][:40], exp[:40])
        elif exp.startswith(("R431", "R400")) and got[1:2] != ["EOF"]:
            why = "connection not closed after %s" % exp[:4]
        elif int(d.get("maxrecv", "0")) > N:
            why = "a socket read asked for %s bytes although the head limit is %d" % (d.get("maxrecv"), N)
        if why and len(o.violations) < 30:
            o.violations.append({"case": c, "max": N, "segs": [hx(s_) for s_ in segs], "expected": exp, "impl": a[:300], "why": why})
        if model is not None and got:
            m = model[i]
            mv = m.split()[0:2]
            verdict = "ok" if got[0].startswith("R") and not got[0].startswith(("R431", "R400")) else "tooLarge" if got[0].startswith("R431") else "invalid" if got[0].startswith("R400") else got[0]
            mverdict = "ok" if mv[0] == "OK" else mv[1] if len(mv) > 1 else "?"
            _, md = kv("X " + m)
            if verdict != mverdict or (int(md.get("maxrecv", "0")) != int(d.get("maxrecv", "0")) and verdict != "ok"):
                if len(o.mismatches) < 20:
                    o.mismatches.append({"case": c, "impl": a[:200], "model": m})


def c10_modes(o, ctx, t, seed):
    """the configured limit is enforced by whichever code path reads the head: the three serve modes with non-default limits
    (below and above the default), heads of N-1, N (accepted) and N+1, N+300 (431 + close) bytes, whole and cut at N"""
    r = rng_for(seed, "c10-modes")
    lines, wants = [], []
    for N in ([256, 6000] if t == "quick" else [64, 256, 1000, 4095, 4097, 6000, 9001]):
        for L in (N - 1, N, N + 1, N + 300):
            base = b"GET /p/1/2 HTTP/1.1\r\nx-pad: "
            tail = b"\r\n\r\n"
            if L < len(base) + len(tail) + 1:
                continue
            head = base + b"a" * (L - len(base) - len(tail)) + tail
            want = ("R200:0:" + hx(b"1,2") + ",EOF") if L <= N else "R431:1:e,EOF"
            for mode in ("serve", "threaded", "epoll"):
                cut = r.choice([0, min(N, len(head) - 1)])
                segs = [head] if cut == 0 else [head[:cut], head[cut:]]
                script = ",".join("s:" + hx(x) for x in segs) + (",r,c,e" if L <= N else ",r,e")
                lines.append("SERVE mode=%s threads=2 maxhead=%d plan=P:%s/S:e" % (mode, N, script))
                wants.append((want, N, L, mode))
    impl = C.run_sharded(ctx["kimpl"], lines, shards=min(C.NCPU, 12))
    for c, a, (want, N, L, mode) in zip(lines, impl, wants):
        o.evaluations += 1
        o.count("mode=%s,head-max=%+d" % (mode, L - N))
        pz = a.split()
        got = pz[1].split("/")[0] if len(pz) >= 2 and pz[0] == "V" else None
        if got != want and len(o.violations) < 30:
            o.violations.append({"case": c, "impl": a[:300], "expected": want,
                                 "why": "mode %s, limit N=%d, head of %d bytes: got %s, expected %s" % (mode, N, L, (got or a[:40])[:60], want[:60])})


register("C10", lean=["Khttp.Props.C10"], run=run_c10,
         rule="CONN cases with max_request_head_size N in {0..64 (thorough: all; quick: 17 values), 100, 4096, 16384} x head lengths N-2..N+2 and N+40 x {GET with parameters, POST with body bytes in the same segment} "
              "x segmentations {one segment, random cuts, one byte per segment}; malformed heads inside the first N bytes. The interposed recv records the largest length requested on the server socket. "
              "distinct_nontrivial = distinct cases whose head length is within 2 of the limit.",
         assumptions=["a gated client: a recv sees at most the current segment (model Sock)", "TcpStream::read = recv(fd, buf, len) (observed through an interposed recv symbol)"],
         explanation="Theorems on the read_request loop model: every recv asks for exactly max - filled (< max buffered), success keeps buffered ++ in-flight = sent, a head of at most max bytes is accepted under every segmentation "
                     "whatever follows, a head not complete within max bytes gives 431, malformed within max gives 400, otherwise wait/EOF. Oracle: first response + close + largest recv length on the real server.")


# ------------------------------------------------------------------------------------------------ C05 (connection level)
CL_VARIANTS = [[], [b"5"], [b" 5 "], [b"05"], [b"+5"], [b"abc"], [b"5, 5"], [b"5", b"5"], [b"5", b"6"], [b"18446744073709551616"], [b""], [b"5 5"], [b"-5"], [b"0x5"],
               # zero, and multi-line orders in which only the LAST line (or the last two) look fine
               [b"0"], [b"0", b"0"], [b"abc", b"5"], [b"+5", b"5"], [b"5, 5", b"5"], [b"18446744073709551616", b"5"], [b"5", b"abc"], [b"5", b"6", b"6"], [b"6", b"5", b"5"],
               [b"5", b"abc", b"5"], [b"5", b"5", b"6"], [b"0", b"5"], [b"5", b"0"],
               # numerals wider than a machine word: 1*DIGIT has no length limit; bytes next to the digit range inside an 8-byte block
               [b"0" * 20 + b"5"], [b"0" * 47 + b"5"], [b"00000005"], [b"0000000:"], [b"000000<4"], [b"0000000000000005", b"5"], [b"00000=05"]]
TE_VARIANTS = [[], [b"chunked"], [b"CHUNKED"], [b" chunked\t"], [b"gzip, chunked"], [b"gzip ,\tChunked "], [b"chunked, gzip"], [b"gzip"],
               [b"gzip", b"chunked"], [b"chunked", b"gzip"], [b"chunked,"], [b""], [b"xchunked"], [b"chunked", b"chunked"]]
OWS = b" \t"


def rfc_framing(cls, tes):
    """RFC 9112 section 6.3 for a request; returns ('chunked',) | ('fixed', n) | ('empty',) | ('invalid',)"""
    if tes:
        toks = [t.strip(OWS) for v in tes for t in v.split(b",")]
        toks = [t for t in toks if t]
        if toks and toks[-1].lower() == b"chunked":
            # a Content-Length next to Transfer-Encoding is overridden — but an INVALID Content-Length still makes the message invalid
            for v in cls:
                d = v.strip(OWS)
                if not (d.isdigit() and d.isascii() and int(d) < 2 ** 64):
                    return ("invalid",)
            if len(set(int(v.strip(OWS)) for v in cls)) > 1:
                return ("invalid",)
            return ("chunked",)
        return ("invalid",)
    if cls:
        vals = []
        for v in cls:
            d = v.strip(OWS)
            if not (d.isdigit() and d.isascii() and int(d) < 2 ** 64):
                return ("invalid",)
            vals.append(int(d))
        if len(set(vals)) > 1:
            return ("invalid",)
        return ("fixed", vals[0])
    return ("empty",)


def c05_cases(seed, tier):
    r = rng_for(seed, "c05")
    out = []
    probe = b"GET /p/1/2 HTTP/1.1\r\n\r\n"
    payload = b"hello"
    for cls in CL_VARIANTS:
        for tes in TE_VARIANTS:
            orders = [0, 1] if (cls and tes) else [0]
            for order in orders:
                if tier == "quick" and r.random() < 0.45:
                    continue
                fields = [(r.choice([b"Content-Length", b"content-length", b"CONTENT-LENGTH"]), v) for v in cls]
                tf = [(r.choice([b"Transfer-Encoding", b"transfer-encoding"]), v) for v in tes]
                fields = fields + tf if order == 0 else tf + fields
                if r.random() < 0.5:
                    fields.insert(r.randrange(len(fields) + 1), (b"Host", b"x"))
                # the framing fields decide, not the method: the same cells on GET / PUT / DELETE (route /gecho)
                mline = b"POST /echo" if r.random() < 0.6 else r.choice([b"GET", b"PUT", b"DELETE"]) + b" /gecho"
                head = mline + b" HTTP/1.1\r\n" + b"".join(k + b":" + (b" " if r.random() < 0.8 else b"") + v + b"\r\n" for k, v in fields) + b"\r\n"
                fr = rfc_framing(cls, tes)
                if fr[0] == "chunked":
                    body = b"5\r\nhello\r\n0\r\n\r\n"; exp = ["R200:0:" + hx(payload), "R200:0:" + hx(b"1,2")]
                elif fr[0] == "fixed":
                    body = (payload * 4)[:fr[1]] if fr[1] <= 20 else b""
                    if fr[1] > 20:
                        continue
                    exp = ["R200:0:" + hx(body), "R200:0:" + hx(b"1,2")]
                elif fr[0] == "empty":
                    body = b""; exp = ["R200:0:e", "R200:0:" + hx(b"1,2")]
                else:
                    body = b"hello"; exp = ["R400:1:e", "EOF"]
                for mode in ("same", "later"):
                    if mode == "same":
                        script = "s:%s,r,s:%s,r" % (hx(head + body), hx(probe))
                    else:
                        script = "s:%s,%sr,s:%s,r" % (hx(head), ("s:%s," % hx(body)) if body else "", hx(probe))
                    out.append(("CONN max=4096 script=" + script, exp, fr[0], fields))
                # the same framing when the handler does NOT read the body (or reads only its first bytes) and the body arrives in
                # pieces, some with the head and some later: the next request still starts right after the body the framing denotes
                if fr[0] in ("chunked", "fixed") and len(body) >= 2 and (tier != "quick" or r.random() < 0.6):
                    route, ans = r.choice([(b"/noread", b"noread"), (b"/read/1", body[:1] if fr[0] == "fixed" else b"h"), (b"/nothing-here", None)])
                    head2 = b"POST " + route + b" " + head.split(b" ", 2)[2]
                    cut = r.randrange(1, len(body))
                    cut2 = r.randrange(cut, len(body))
                    pieces = [body[:cut], body[cut:cut2], body[cut2:]]
                    first = "s:%s" % hx(head2 + pieces[0]) if r.random() < 0.6 else "s:%s,s:%s" % (hx(head2), hx(pieces[0]))
                    script = first + "".join(",s:%s" % hx(p_) for p_ in pieces[1:] if p_) + ",r,s:%s,r" % hx(probe)
                    exp2 = [("R200:0:" + hx(ans)) if ans is not None else "R404:0:e", "R200:0:" + hx(b"1,2")]
                    out.append(("CONN max=4096 script=" + script, exp2, fr[0] + "-unread", fields))
                # invalid framing is rejected BEFORE any user code runs: also when a pre-routing hook would answer the request itself
                # (Drop, with or without closing) the answer is 400 + close and nothing after the head is interpreted
                if fr[0] == "invalid" and (tier != "quick" or r.random() < 0.5):
                    hk = r.choice([b"drop", b"drop", b"dropclose"])
                    head4 = head.replace(b"\r\n", b"\r\nx-hook: " + hk + b"\r\n", 1)
                    script = ("s:%s,r,s:%s,r" % (hx(head4 + body), hx(probe))) if r.random() < 0.5 else ("s:%s,s:%s,r,s:%s,r" % (hx(head4), hx(body), hx(probe)))
                    out.append(("CONN max=4096 script=" + script, ["R400:1:e", "EOF"], "invalid-hook" + hk.decode(), fields))
                # … and when a pre-routing hook answers in the handler's place (Drop): the body the framing denotes is still skipped
                if fr[0] in ("chunked", "fixed") and len(body) >= 2 and (tier != "quick" or r.random() < 0.5):
                    head3 = head.replace(b"\r\n", b"\r\nx-hook: drop\r\n", 1)
                    cut = r.randrange(0, len(body))
                    first = "s:%s" % hx(head3 + body[:cut]) if cut and r.random() < 0.5 else ("s:%s" % hx(head3) + (",s:%s" % hx(body[:cut]) if cut else ""))
                    script = first + ",r,s:%s,s:%s,r" % (hx(body[cut:]), hx(probe))
                    out.append(("CONN max=4096 script=" + script, ["R405:0:e", "R200:0:" + hx(b"1,2")], fr[0] + "-hookdrop", fields))
                    # … also when the request says `Expect: 100-continue` and the client sends the body anyway, later
                    if r.random() < 0.5:
                        head5 = head3.replace(b"\r\n", b"\r\n" + r.choice([b"Expect", b"expect", b"EXPECT"]) + b": 100-continue\r\n", 1)
                        script5 = "s:%s,r,s:%s,s:%s,r" % (hx(head5), hx(body), hx(probe))
                        out.append(("CONN max=4096 script=" + script5, ["R405:0:e", "R200:0:" + hx(b"1,2")], fr[0] + "-hookdrop-expect", fields))
    return out


def hdr_framing_lines(seed, tier):
    """op sequences that only add framing fields: the collection's verdict (cl, chunked, invalid) vs the RFC table"""
    import itertools
    from gen import hdr as H
    vals_cl = [b"5", b"0", b" 5 ", b"abc", b"+5", b"6", b"5, 5", b"18446744073709551616"]
    vals_te = [b"chunked", b"gzip", b"gzip, Chunked ", b"chunked, gzip", b"chunked,"]
    alpha = [("add", b"Content-Length", v) for v in vals_cl] + [("add", b"transfer-encoding", v) for v in vals_te]
    out = []
    depth = 2 if tier == "quick" else 3
    for d in range(1, depth + 1):
        for combo in itertools.product(alpha, repeat=d):
            out.append((list(combo), H.line(list(combo), [])))
    # the numeral grid (gen/common.py): every value alone, after a plain equal / different length, and under chunked
    from gen.common import cl_numeral_grid
    r = rng_for(seed, "c05-grid")
    for v in cl_numeral_grid():
        name = r.choice([b"Content-Length", b"content-length"])
        val = v if r.random() < 0.5 else r.choice([b" ", b"\t", b"  "]) + v + r.choice([b"", b" ", b"\t"])
        combos = [[("add", name, val)]]
        x = r.random()
        if x < 0.15:
            combos.append([("add", b"Content-Length", b"42"), ("add", name, val)])
        elif x < 0.3:
            combos.append([("add", name, val), ("add", b"content-length", b"5")])
        elif x < 0.4:
            combos.append([("add", b"Transfer-Encoding", b"chunked"), ("add", name, val)])
        for combo in combos:
            out.append((combo, H.line(combo, [])))
    return out


def run_c05(o, ctx, tier, seed, replay=None):
    t = "thorough" if tier in ("thorough", "search") else "quick"
    cases = c05_cases(seed, t)
    if replay is None:
        hl = hdr_framing_lines(seed, t)
        # op sequences kept by the behaviour-guided generator that consist of added framing fields only
        from gen import hdr as H_
        for fl in fuzz_cases(o, ctx, "hdr", tier, seed):
            pl = H_.parse_line(fl)
            if pl and pl[0] and all(op[0] == "add" and op[1].lower() in (b"content-length", b"transfer-encoding", b"host", b"x-foo") for op in pl[0]) \
                    and all(all(c == 9 or 32 <= c <= 126 or c >= 128 for c in op[2]) for op in pl[0]):   # RFC field-value bytes only
                hl.append((pl[0], fl))
        impl_h, model_h = diff_run(o, ctx, [l for _, l in hl], nontrivial=lambda c, a: c.count(";") >= 1, tags=lambda c, a: "hdr-framing")
        for (ops, line), a in zip(hl, impl_h):
            cls = [v for k, n, v in ops if n.lower() == b"content-length"]
            tes = [v for k, n, v in ops if n.lower() == b"transfer-encoding"]
            fr = rfc_framing(cls, tes)
            _, d = kv("X " + a)
            got_inv = d.get("inv") == "1"
            why = None
            if (fr[0] == "invalid") != got_inv:
                why = "Content-Length %s / Transfer-Encoding %s: RFC 9112 6.3 says %s but has_invalid_framing() = %s" % (cls, tes, fr[0], got_inv)
            elif fr[0] == "fixed" and not (d.get("cl") == str(fr[1]) and d.get("ch") == "0"):
                why = "fixed length %d expected, collection says cl=%s chunked=%s" % (fr[1], d.get("cl"), d.get("ch"))
            elif fr[0] == "chunked" and d.get("ch") != "1":
                why = "chunked expected, collection says chunked=%s" % d.get("ch")
            if why and len(o.violations) < 30:
                o.violations.append({"case": line, "impl": a, "why": why})
    if replay is not None:
        cases = [(replay["case"], replay["expected"].split(","), "?", [])]
    else:
        # a body that stalls for longer than the socket's read time-out: the server no longer knows where the next request
        # begins, whatever the framing, so nothing sent afterwards is answered
        for line, exp, meta in G.stall_cases(rng_for(seed, "c05-stall"), 6 if t == "quick" else 60):
            cases.append((line, exp, "stall", [(b"x", b"y"), (b"x", b"y")]))
    lines = [c[0] for c in cases]
    impl = C.run_sharded(ctx["kimpl"], lines, shards=min(C.NCPU, 16))
    model = None
    if ctx.get("have_model"):
        # (time-outs have no model counterpart: the model has no clock)
        it = iter(C.run_sharded(ctx["kmodel"], [l for l in lines if " rto=" not in l]))
        model = [a_ if " rto=" in l else next(it, "CRASH") for l, a_ in zip(lines, impl)]
    for i, ((c, exp, kind, fields), a) in enumerate(zip(cases, impl)):
        o.evaluations += 1
        o.count("rfc=" + kind)
        if len(fields) >= 2:
            o.nontrivial.add(c)
        got, d = transcript(a)
        if len(o.samples) < 5 and i % 41 == 0:
            o.samples.append({"case": c[:300], "impl": a[:160], "expected": ",".join(exp)})
        if model is not None and model[i].split()[:2] != a.split()[:2] and len(o.mismatches) < 20:
            o.mismatches.append({"case": c, "impl": a[:200], "model": model[i][:200]})
        if got is None:
            o.violations.append({"case": c, "impl": a[:200], "why": "scenario crashed"}); continue
        if got != exp and len(o.violations) < 30:
            o.violations.append({"case": c, "impl": a[:300], "expected": ",".join(exp),
                                 "why": "framing fields %s (RFC 9112 6.3: %s): got %s, expected %s" % ([(k.decode(), v.decode("latin1")) for k, v in fields], kind, ",".join(got)[:80], ",".join(exp)[:80])})


CONN_RULE = ("CONN histories (see C07) restricted to those containing a close-relevant request: Connection: close in 9 spellings/placements (case, comma lists, OWS incl. HTAB, repeated fields) and 6 look-alikes that are NOT close, "
             "handler response with connection: close, handler errors (Other and Interrupted), pre-routing Drop with/without close; observed: is the next request answered or is the connection at EOF. "
             "distinct_nontrivial = distinct histories with >= 2 requests or a closing outcome.")
register("C09", lean=["Khttp.Props.C09", "Khttp.Props.C09Handle", "Khttp.Props.C14Skeleton"], soft_lean=["Khttp.Props.C07Skeleton", "Khttp.Props.C09HandleSkeleton"], run=run_c09, rule=CONN_RULE,
         assumptions=["lock-step client", "user handlers and hooks are parameters of the model (Cfg); handlers use the body reader through its public API"],
         explanation="Theorems (Props/C09): exact characterisation of the keep-alive decision of handle_one_request (handler path, hook-Drop path, rejected heads 400/431 with close, peer EOF), the close flag of an accepted request = "
                     "'some Connection field has a comma-separated element equal to close ignoring case and surrounding whitespace' (via C04 + C19), handle_connection stops at the first closing call and reads nothing afterwards, "
                     "fuel adequacy. Tie: control skeleton of handle_one_request / handle_connection (decide) + CONN correspondence. Oracle: is the next request answered or is the connection at EOF, per history.")
register("C05", lean=["Khttp.Props.C05", "Khttp.Props.C05Numeral"], soft_lean=["Khttp.Props.C07BodySkeleton"], run=run_c05,
         rule="CONN cases: the full product {14 Content-Length variants (absent, valid, OWS-padded, zero-padded, signed, non-numeric, list-valued, duplicated equal/different, overflow, empty, hex)} x {14 Transfer-Encoding variants "
              "(absent, chunked, CHUNKED, OWS-padded, gzip+chunked, chunked+gzip, gzip, split over lines both ways, trailing comma, empty, xchunked, repeated)} x field order x {body in the same / a later segment}, each followed by a probe request "
              "whose answer reveals where the server looked for the next request (quick: a random 55% of the cells). distinct_nontrivial = distinct cells with at least two framing fields.",
         assumptions=["field values restricted to RFC field-value bytes", "HTTP/1.1 requests"],
         explanation="Theorems (Props/C05): the header collection's framing verdict and the body reader chosen by from_request agree with the RFC 9112 6.3 evaluation framingOf of the field lines (C05_decision both directions, "
                     "C05_reader_choice: chunked wins over Content-Length); heads with invalid framing are never accepted and end in 400 + close with no body byte read, for every segmentation (C05_invalid_framing_400); "
                     "OWS / case invariance. Props/C05Numeral: every zero-padded spelling of n < 2^64 with any number of leading zeros is read as n (no width limit), any non-digit byte anywhere in the trimmed value and any value >= 2^64 (padded or not) is rejected. "
                     "Tie: CONN + HDR correspondence incl. the Content-Length numeral grid (every width 1..48, near-digit bytes at every position of lengths 1..25, the 2^64 edge) and the guided-generation corpus of header operations. Oracle: independent Python RFC table, probe request reveals the position of the next request.")
