"""C18: Date header (DATE / DATECACHE domains)."""
import calendar, datetime
from . import register
from .common import *
from gen.common import rng_for

END = 253402300800
WD = ["Mon", "Tue", "Wed", "Thu", "Fri", "Sat", "Sun"]
MON = ["Jan", "Feb", "Mar", "Apr", "May", "Jun", "Jul", "Aug", "Sep", "Oct", "Nov", "Dec"]
EPOCH = datetime.datetime(1970, 1, 1)


def ref_line(secs):
    """independent reference: python's proleptic Gregorian calendar"""
    d = EPOCH + datetime.timedelta(seconds=secs)
    return ("date: %s, %02d %s %04d %02d:%02d:%02d GMT\r\n" % (WD[d.weekday()], d.day, MON[d.month - 1], d.year, d.hour, d.minute, d.second)).encode()


def gen_secs(seed, tier):
    r = rng_for(seed, "date")
    out = [END - k for k in (2, 59, 60, 61, 3599, 3600, 3601, 43200, 86399, 86400, 86401)] + [0, 1, 59, 60, 86399, 86400, 951782400, 951868799, 951868800, END - 1, END - 86400, 4102444800 - 1, 4102444800, 1790683106]
    # every month start/end of every year
    years = range(1970, 10000) if tier != "quick" else list(range(1970, 2110)) + list(range(2390, 2410)) + list(range(9990, 10000)) + [r.randrange(1970, 10000) for _ in range(300)]
    for y in years:
        for m in range(1, 13):
            first = calendar.timegm((y, m, 1, 0, 0, 0))
            for s in (first - 1, first, first + 86399):
                if 0 <= s < END:
                    out.append(s)
    n = 20000 if tier == "quick" else 400000
    for _ in range(n):
        day = r.randrange(0, END // 86400)
        out.append(day * 86400 + r.choice([0, 1, 59, 60, 3599, 3600, 86399, r.randrange(86400)]))
    if tier != "quick":
        # every day boundary of a rotating decade window + all days of leap-century neighbourhoods
        for y0 in (1970, 2000, 2096, 2396, 9990):
            s = calendar.timegm((y0, 1, 1, 0, 0, 0))
            for dd in range(0, 3660):
                if s + dd * 86400 < END:
                    out.append(s + dd * 86400 + r.randrange(86400))
    return out


def run(o, ctx, tier, seed, replay=None):
    if replay is not None:
        diff_run(o, ctx, [replay["case"]], oracle=oracle)
        return
    t = "thorough" if tier in ("thorough", "search") else "quick"
    lines = ["DATE %d" % s for s in gen_secs(seed, t)]
    diff_run(o, ctx, lines, oracle=oracle, nontrivial=lambda c, a: True, tags=lambda c, a: "date:century=%d" % (int(c.split()[1]) // 3155760000))
    r = rng_for(seed, "datecache")
    cl = []
    for _ in range(300 if t == "quick" else 5000):
        base = r.randrange(0, END - 100)
        seq, cur = [], base
        for _ in range(r.choice([1, 2, 3, 5, 9])):
            # small steps, steps back, and gaps of a day and more (a worker thread idle for long, a stepped clock) whose
            # second-of-day moves forward, backward or not at all
            cur += r.choice([0, 0, 0, 1, 1, 2, -1, 5, 86400, 86401, 86399, 90000, 172800 + r.randrange(86400), 31 * 86400 + r.randrange(3600),
                             366 * 86400 + r.randrange(86400), 36525 * 86400 + 7, -86400 + 3, -90000, r.randrange(0, 10 ** 9)])
            cur = min(max(cur, 0), END - 1)
            seq.append(cur)
        cl.append("DATECACHE " + ",".join(map(str, seq)))
    # readings that walk ACROSS a unit boundary (minute, hour, day; month / year / leap-day starts): the cache holds the last second
    # before the boundary and the next reading is exactly the boundary second, one after it, or a whole unit later; also from above
    import calendar
    for _ in range(250 if t == "quick" else 6000):
        unit = r.choice([60, 3600, 86400, 86400, 86400])
        if r.random() < 0.3:
            y = r.randrange(1970, 10000); mth = r.choice([1, 2, 3, 3, 12, r.randrange(1, 13)])
            anchor = calendar.timegm((y, mth, 1, 0, 0, 0))
        else:
            anchor = r.randrange(1, END // unit) * unit
        walk = r.choice([[-2, -1, 0, 1], [-1, 0], [-1, 0, 0, 1], [-1, 1], [0, -1, 0], [-unit, 0], [-unit - 1, 0, 1], [-1, unit], [-1, unit - 1, unit],
                         [-3, -1, 0, unit, unit + 1], [1, 0, -1], [-1, 0, unit - 1, unit], [-unit, -1, 0, 2 * unit]])
        seq = [min(max(anchor + d, 0), END - 1) for d in walk]
        cl.append("DATECACHE " + ",".join(map(str, seq)))
    diff_run(o, ctx, cl, oracle=oracle, nontrivial=lambda c, a: "," in c, tags=lambda c, a: "cache:len=%d" % (c.count(",") + 1))
    # (run_lag — Date vs. the clock at the first WRITE — is not part of the check: the unchanged printer already builds the head,
    #  Date included, before it reads a body that needs no probe (declared length > 8 KiB, explicit chunked), so a slow source
    #  delays the bytes, not the reading; the property is about the per-thread cache, see DESIGN.md §17.10)


def run_lag(o, ctx, t, seed):
    """the Date a response carries is read when the message is about to go out: a body source that takes s seconds before it hands
    over its first bytes (the printer probes the body before it writes the head) must not make the Date lag by those s seconds"""
    r = rng_for(seed, "date-lag")
    lines = []
    for entry in ("reader", "request"):
        for n in (10, 5000, 20000):
            for decl in ("-", "scl:%d" % n, "ste"):
                for bump in ((3, 40) if t == "quick" else (2, 3, 40, 86400)):
                    lines.append("PRINT entry=%s code=200 reason=4f4b nodate=0 hdr=%s bodyrep=78*%d pieces=%s bump=%d%s"
                                 % (entry, decl, n, r.choice(["-", "100", "4096,1"]), bump, " method=POST uri=2f75" if entry == "request" else ""))
    for c, a in zip(lines, C.run_sharded(ctx["kimpl"], lines, shards=4)):
        o.evaluations += 1
        o.count("date-lag:" + a.split()[0])
        p_ = a.split()
        why = None
        if len(p_) != 3 or p_[0] != "LAG":
            why = "printing a reader body from a slow source failed: " + a[:40]
        else:
            fw, wire = int(p_[1]), unhex(p_[2])
            i = wire.lower().find(b"date: ")
            got = wire[i:wire.find(b"\r\n", i) + 2] if i >= 0 else b""
            if got not in (ref_line(fw), ref_line(fw - 1)):
                why = "Date header %r although the clock read %d when the first byte was written (the header lags by more than a second)" % (got, fw)
        if why and len(o.violations) < 50:
            o.violations.append({"case": c, "impl": a[:200], "why": why})


def oracle(case, impl, model):
    dom, arg = case.split()[:2]
    if impl in ("PANIC", "BAD-ARG") or impl.startswith("CRASH"):
        return "date formatting failed: " + impl[:30]
    if dom == "DATE":
        if unhex(impl) != ref_line(int(arg)):
            return "not the IMF-fixdate of that second: got %r want %r" % (unhex(impl), ref_line(int(arg)))
    else:
        rs = [int(x) for x in arg.split(",")]
        outs = impl.split(",")
        if len(outs) != len(rs):
            return "wrong number of results"
        for r_, o_ in zip(rs, outs):
            if unhex(o_) != ref_line(r_):
                return "cached Date header %r is not the second %d read by that call" % (unhex(o_), r_)
    return None


register("C18", lean=["Khttp.Props.C18"], run=run,
         rule="DATE cases: fixed boundary instants; first/last second of every month of every year 1970-9999 (thorough; quick: 1970-2109, 2390-2409, 9990-9999 and 300 random years); "
              "20k (quick) / 400k (thorough) random days x seconds {0,1,59,60,3599,3600,86399,random}; DATECACHE: 300/5000 scripted clock-reading sequences + 250/6000 walks across minute / hour / day / month / year boundaries (equal, +1, +2, backwards, gaps of one day and more with the second-of-day moving either way, month/year/century gaps) "
              "through an interposed clock_gettime on a fresh thread. distinct_nontrivial = all distinct case lines (every instant is a distinct calendar computation).",
         assumptions=["0 <= secs < 253402300800 (years 1970..9999)", "the kernel's CLOCK_REALTIME_COARSE lags the wall clock by at most one tick: outside the model",
                      "i64 arithmetic modelled on unbounded Int (no intermediate exceeds i64 for any i64 input: stated in the model)"],
         explanation="Theorems: C18_civil (fields are a valid date whose day number is secs/86400, weekday, h:m:s), civilToDays_injective, C18_text (exact 37-byte text = spec line; no cast truncates, no slice panics), "
                     "C18_cache (every call returns the line of the reading made in that call). Oracle: Python datetime proleptic Gregorian calendar.")
