"""C14 / C15: epoll mode (EPOLL domain: real serve_epoll under concurrent clients; trace conformance against the
Lean transition system; resource census)."""
import re
from . import register
from .common import *
from gen.common import rng_for
import check as C

REQ = {
    "p": (b"GET /p/1/2 HTTP/1.1\r\n\r\n", "R200:0:" + hx(b"1,2"), False),
    "slow": (b"GET /slow/25 HTTP/1.1\r\n\r\n", "R200:0:" + hx(b"slow"), False),
    "echo": (b"POST /echo HTTP/1.1\r\nContent-Length: 3\r\n\r\nabc", "R200:0:" + hx(b"abc"), False),
    "nf": (b"GET /nope HTTP/1.1\r\n\r\n", "R404:0:e", False),
    "close": (b"GET /close HTTP/1.1\r\n\r\n", "R200:1:" + hx(b"bye"), True),
    "err": (b"GET /err HTTP/1.1\r\n\r\n", "EOF", True),
    "bad": (b"GET /\x01 HTTP/1.1\r\n\r\n", "R400:1:e", True),
    "reqclose": (b"GET /p/1/2 HTTP/1.1\r\nConnection: close\r\n\r\n", "R200:0:" + hx(b"1,2"), True),
}


def gen_plan(r, tier):
    k = r.choice([1, 2, 2, 3, 3])
    workers = r.choice([1, 2, 2, 4])
    failadd = [i for i in range(k) if r.random() < 0.08]
    seqs = []
    for i in range(k):
        n = r.choice([1, 2, 2, 3])
        kinds = [r.choice(["p", "p", "slow", "echo", "nf"]) for _ in range(n)]
        if r.random() < 0.5:
            kinds[-1] = r.choice(["close", "err", "bad", "reqclose"])
        seqs.append(kinds)
    # interleave: per connection a queue of (send, read) pairs in lock-step
    steps = ["o%d" % i for i in range(k)]
    exp = [[] for _ in range(k)]
    queues = []
    for i, kinds in enumerate(seqs):
        q = []
        for kd in kinds:
            q.append(("s", kd)); q.append(("r", kd))
        queues.append(q)
    ended = [False] * k
    while any(queues):
        i = r.choice([j for j in range(k) if queues[j]])
        op, kd = queues[i].pop(0)
        data, resp, closes = REQ[kd]
        if op == "s":
            steps.append("s%d:%s" % (i, hx(data)))
            if r.random() < 0.3:
                steps.append("w")
            # the next request of the same connection arrives while the slow handler is still running (a readiness event
            # for an in-flight connection): sent in its own segment after a pause, before the first response is read
            if kd == "slow" and i not in failadd and len(queues[i]) >= 3 and queues[i][1][0] == "s" and r.random() < 0.5:
                nxt = queues[i].pop(1)
                steps.append("y%d" % i)   # the slow handler of this request is running (its head has been read): no pipelining
                steps.append("s%d:%s" % (i, hx(REQ[nxt[1]][0])))
        else:
            steps.append("r%d" % i)
            if i in failadd:
                exp[i].append("EOF")
                queues[i] = []
                ended[i] = True
                continue
            exp[i].append(resp)
            if closes:
                if resp != "EOF":
                    steps.append("r%d" % i); exp[i].append("EOF")
                queues[i] = []
                ended[i] = True
    for i in range(k):
        steps.append(r.choice(["x%d" % i, "h%d" % i] if not ended[i] else ["x%d" % i]))
        if r.random() < 0.3:
            steps.append("w")
    steps.append("z")
    return workers, failadd, steps, exp, k


def burst_plans(r, tier, big=True):
    """several clients connect while the event loop is busy (held inside the set-up hook of the first one): their arrivals
    reach the edge-triggered listener as ONE readiness event, after which nothing more happens on the listener.  Every one
    of them has a complete request waiting and must be served."""
    out = []
    # (70: more arrivals under one readiness edge than any plausible per-round bound of the accept loop — and its double)
    for k in [x for x in ([3, 4, 70] if tier == "quick" else [2, 3, 4, 5, 6, 8, 33, 70, 130]) if big or x <= 8]:
        for workers in ([2] if tier == "quick" else [1, 2, 4]):
            steps = ["H", "O0", "q1"] + ["O%d" % i for i in range(1, k)] + ["U"]
            exp = []
            order = list(range(k)); r.shuffle(order)
            for i in order:
                kd = r.choice(["p", "echo", "nf"])
                steps += ["s%d:%s" % (i, hx(REQ[kd][0])), "r%d" % i]
            exp = [None] * k
            # (expected answers are filled per connection below)
            for i in range(k):
                pass
            # recompute expectations in connection order
            sent = {}
            for st in steps:
                if st.startswith("s"):
                    i = int(st[1:].split(":")[0]); sent[i] = st.split(":")[1]
            rev = {hx(v[0]): v[1] for v in REQ.values()}
            exp = [[rev[sent[i]]] for i in range(k)]
            steps += ["x%d" % i for i in range(k)] + ["z"]
            out.append((workers, [], steps, exp, k))
    return out


def accept_events(toks, k):
    """burst plan -> event list of the listener model (Khttp/Model/Accept.lean): connection 0 arrives alone; connections 1..k-1
    arrive while the loop is held inside the set-up hook of connection 0, i.e. inside the accept loop, right after the first accept.
    a = arrive, r = listener event harvested (batch token with member L), x = accept returned a connection (AC / AF),
    e = the accept loop ended (next loop-thread token after the listener's turn)."""
    ev = ["a"]
    in_loop, before, n_acc = False, 0, 0
    for t in toks:
        if t.startswith("B") and t != "BE":
            if in_loop:
                ev.append("e"); in_loop = False
            members = t[1:].split("+")
            if "L" in members:
                ev.append("r"); in_loop = True
                before = members.index("L")
            continue
        if re.fullmatch(r"A[CF]\d+", t):
            ev.append("x"); n_acc += 1
            if n_acc == 1:
                ev += ["a"] * (k - 1)
            continue
        if in_loop and (re.fullmatch(r"L[KFD]\d+", t) or t in ("LW", "BE", "ST")):
            if before > 0 and t != "BE":
                before -= 1            # an event of the batch that is handled before the listener's turn
            else:
                ev.append("e"); in_loop = False
    return ev


def canon(ev, ports):
    """raw hook events -> model trace tokens (connection ids in accept order; WT hoisted to the dequeue point)"""
    port2c = {}
    ptr2c = {}
    nextc = [0]
    out = []
    held = {}
    evs = [e for e in ev if e]
    used = set()
    # pool: U<w> followed (same worker) by r<w>:<dec ptr>  ==> worker w dequeued the job of that record at U's position
    for i, e in enumerate(evs):
        if i in used:
            continue
        m = re.fullmatch(r"(AC|AF)([0-9a-f]+):(\d+)", e)
        if m:
            c = nextc[0]; nextc[0] += 1
            ptr2c[int(m.group(2), 16)] = c
            port2c[int(m.group(3))] = c
            out.append("%s%d" % (m.group(1), c))
            # client activity logged before the server got round to accepting the connection takes effect now
            for kind in held.pop(int(m.group(3)), []):
                out.append("%s%d" % (kind, c))
            continue
        m = re.fullmatch(r"(CS|CC):(\d+)", e)
        if m:
            p = int(m.group(2))
            if p in port2c:
                out.append("%s%d" % (m.group(1), port2c[p]))
            else:
                held.setdefault(p, []).append(m.group(1))
            continue
        if e.startswith("B") and e != "BE":
            toks = []
            for t in e[1:].split("+"):
                if t in ("L", "W"):
                    toks.append(t)
                elif t:
                    toks.append(str(ptr2c.get(int(t, 16), "?")))
            out.append("B" + "+".join(toks)); continue
        m = re.fullmatch(r"(LK|LF|LD)([0-9a-f]+)", e)
        if m:
            out.append("%s%s" % (m.group(1), ptr2c.get(int(m.group(2), 16), "?"))); continue
        m = re.fullmatch(r"(WK|WD|WS|WC|WR|WP|WW)(\d+):([0-9a-f]+)", e)
        if m:
            out.append("%s%s:%s" % (m.group(1), m.group(2), ptr2c.get(int(m.group(3), 16), "?"))); continue
        if e in ("BE", "ST", "LW"):
            out.append(e); continue
        m = re.fullmatch(r"U(\d+)", e)
        if m:
            w = m.group(1)
            for k in range(i + 1, len(evs)):
                f = evs[k]
                m2 = re.fullmatch(r"r" + w + r":(\d+)", f)
                if m2:
                    used.add(k)
                    out.append("WT%s:%s" % (w, ptr2c.get(int(m2.group(1)), "?")))
                    break
                if f == "x" + w or re.fullmatch(r"[AU]" + w, f):
                    break
            continue
        # pool-only events (A, r, x, F, S, D, J, T) and the raw WT are not epoll model steps
    out = [t for t in out if not t.startswith("?")]
    # The loop logs a batch some time after epoll_wait harvested it. If a connection of the batch was deregistered
    # (WD = EPOLL_CTL_DEL done) between the previous end of batch and the batch's log entry, the harvest happened
    # before that DEL: move the batch token there (the loop thread does nothing between BE and the harvest).
    res = []
    last_be = -1
    pend, peer_closed, dereg = {}, set(), set()
    snaps = []   # snaps[k] = eligibility state AFTER res[k] (only kept since the previous batch end)

    def snap():
        return (dict(pend), set(peer_closed), set(dereg))

    def elig(state, c):
        pd, pc, dr = state
        return c not in dr and (pd.get(c, 0) > 0 or c in pc)

    def apply(t):
        m = re.fullmatch(r"(CS|CC)(\d+)", t)
        if m:
            if m.group(1) == "CS": pend[m.group(2)] = pend.get(m.group(2), 0) + 1
            else: peer_closed.add(m.group(2))
            return
        m = re.fullmatch(r"(WK|WD)\d+:(\d+)", t)
        if m:
            pend[m.group(2)] = pend.get(m.group(2), 0) - 1
            if m.group(1) == "WD": dereg.add(m.group(2))

    base = snap()
    for t in out:
        if t.startswith("B") and t != "BE":
            members = [x for x in t[1:].split("+") if x.isdigit()]
            cur = snap()
            if not all(elig(cur, c) for c in members):
                # latest earlier point since the previous batch end at which every member was registered and readable
                pos = None
                for k in range(len(res) - 1, last_be - 1, -1):
                    st = snaps[k - last_be - 1] if k > last_be else base
                    if all(elig(st, c) for c in members):
                        pos = k + 1
                        break
                if pos is not None and pos < len(res):
                    res.insert(pos, t)
                    snaps.insert(pos - last_be - 1, snaps[pos - last_be - 2] if pos - last_be - 2 >= 0 else base)
                    continue
        apply(t)
        res.append(t)
        if t == "BE":
            last_be = len(res) - 1
            snaps = []
            base = snap()
        else:
            snaps.append(snap())
    return res


def parse(ans):
    if not ans.startswith("E "):
        return None
    d = {}
    for w in ans.split()[1:]:
        k, _, v = w.partition("=")
        d[k] = v
    return d


def spurious_dispatch(tokens):
    """known finding K14: a job dispatched (LD) for a connection that has nothing to read (all requests answered, peer not
    closed) — the worker that takes it blocks in read() on an idle connection"""
    pending, closed = {}, set()
    for t in tokens:
        m = re.fullmatch(r"(CS|CC|LD)(\d+)", t)
        if m:
            c = m.group(2)
            if m.group(1) == "CS": pending[c] = pending.get(c, 0) + 1
            elif m.group(1) == "CC": closed.add(c)
            elif pending.get(c, 0) <= 0 and c not in closed:
                return True
            continue
        m = re.fullmatch(r"(WK|WD)\d+:(\d+)", t)
        if m:
            pending[m.group(2)] = pending.get(m.group(2), 0) - 1
    return False


def overlap_check(tokens):
    """direct check on the real trace: two workers inside EpollJob::run for the same connection at once"""
    active = {}
    for t in tokens:
        m = re.fullmatch(r"WT(\d+):(\d+)", t)
        if m:
            c = m.group(2)
            if c in active:
                return "connection %s taken by worker %s while worker %s is still processing it" % (c, m.group(1), active[c])
            active[c] = m.group(1); continue
        m = re.fullmatch(r"(WK|WP)(\d+):(\d+)", t)
        if m:
            active.pop(m.group(3), None)
    return None


def run(pid):
    def run_(o, ctx, tier, seed, replay=None):
        t = "thorough" if tier in ("thorough", "search") else "quick"
        r = rng_for(seed, "epoll")
        n = 40 if t == "quick" else 1500
        plans = [gen_plan(r, t) for _ in range(n)] + burst_plans(r, t, big=(pid == "C14"))   # (the resource census of C15 is taken after a fixed quiesce: small bursts only)
        lines = ["EPOLL w=%d failadd=%s plan=%s" % (w, ",".join(map(str, fa)) or "-", ",".join(st)) for w, fa, st, _, _ in plans]
        # the same plans with a one-slot event buffer (`epoll_queue_max_events(1)`: every batch is full)
        k1 = 6 if t == "quick" else 200
        lines += [l.replace("EPOLL ", "EPOLL maxev=1 ", 1) for l in lines[:k1]]
        plans += plans[:k1]
        if replay is not None:
            lines = [replay["case"]]; plans = [None]
        impl = C.run_sharded(ctx["kimpl"], lines, shards=min(C.NCPU, 8))
        traces = []
        accept_lines = []
        for (plan, c, a) in zip(plans, lines, impl):
            o.evaluations += 1
            d = parse(a)
            if d is None:
                o.violations.append({"case": c, "impl": a[:200], "why": "epoll scenario crashed: " + a[:60]}); continue
            ports = [int(x) for x in d["ports"].split(",") if x]
            toks = canon([] if d["ev"] == "e" else d["ev"].split(","), ports)
            tl = "EPOLLTRACE w=%s ev=%s" % (next(x for x in c.split() if x.startswith("w=")).split("=")[1], ",".join(toks))
            if spurious_dispatch(toks):
                # known finding K14: after a spurious dispatch a worker sits in a blocking read on an idle connection until the
                # client acts or the socket's read timeout fires (timeouts are outside the model): the rest of the trace is not replayed
                o.extra["known_class_spurious_dispatch_traces"] = o.extra.get("known_class_spurious_dispatch_traces", 0) + 1
            else:
                traces.append((c, tl))
            if plan is not None and plan[2] and plan[2][0] == "H" and ctx.get("have_model"):
                accept_lines.append((c, "ACCEPT cap=- ev=" + ",".join(accept_events(toks, plan[4])), plan[4]))
            if len(toks) > 12:
                o.nontrivial.add(",".join(toks))
            if len(o.samples) < 3:
                o.samples.append({"case": c[:300], "trace": ",".join(toks)[:500]})
            why = None
            if plan is not None:
                w, fa, st, exp, k = plan
                o.count("conns=%d,workers=%d" % (k, w))
                if fa:
                    o.count("with-add-failure")
                got = [x.split(",") if x != "-" else [] for x in d["tr"].split("/")]
                want = exp
                if pid == "C14":
                    # K14: after a spurious dispatch a worker sits in a blocking read on an idle connection; what the clients then see
                    # depends on the race with that connection's read time-out (requests queued behind it hang, or the idle
                    # connection is closed by the time-out and its next request finds EOF)
                    # … but only deviations that a pinned worker can explain belong to that class: every connection was ACCEPTED and
                    # registered (the event loop itself is never blocked by K14), and each connection's answers are a prefix of the
                    # expected ones followed by nothing but HANG / EOF.  A connection that was never accepted, a wrong or re-ordered
                    # answer is a different violation and is reported.
                    n_acc = sum(1 for t_ in toks if re.fullmatch(r"A[CF]\d+", t_))
                    explainable = n_acc >= k and len(got) == len(want) and all(
                        [x for x in g_ if x.startswith("R")] == w_[:len([x for x in g_ if x.startswith("R")])] for g_, w_ in zip(got, want))
                    if got != want and n_acc < k:
                        why = "%d of %d connections were never accepted although each has a complete request waiting (answers %s)" % (k - n_acc, k, "/".join(",".join(g_) for g_ in got if g_ and not g_[0].startswith("R"))[:60])
                    elif got != want and spurious_dispatch(toks) and explainable:
                        o.extra["known_class_spurious_dispatch_cases"] = o.extra.get("known_class_spurious_dispatch_cases", 0) + 1
                    elif got != want:
                        j = next(x for x in range(len(want)) if x >= len(got) or got[x] != want[x])
                        why = "connection %d: answers %s, expected (in arrival order) %s" % (j, ",".join(got[j])[:80] if j < len(got) else "-", ",".join(want[j])[:80])
                    else:
                        why = overlap_check(toks)
                elif spurious_dispatch(toks):
                    # K14 (known finding of C14): a worker sits in a blocking read on an idle connection until that client acts or
                    # the read time-out fires; connections queued behind it are served and closed LATER, possibly after this
                    # scenario's census. Their release is delayed, not missing: the case says nothing about C15.
                    o.extra["inconclusive_after_spurious_dispatch"] = o.extra.get("inconclusive_after_spurious_dispatch", 0) + 1
                else:
                    closes = dict((int(x.split(":")[0]), int(x.split(":")[1])) for x in d["closes"].split(",") if ":" in x)
                    for j, p in enumerate(ports):
                        if closes.get(p, 0) != 1:
                            why = "socket of connection %d was closed %d times (exactly once expected%s)" % (j, closes.get(p, 0), "; EPOLL_CTL_ADD failed for it" if j in fa else "")
                            break
                    if why is None and int(d["live_before_stop"]) != 0:
                        why = "%s connection records still allocated after all connections ended" % d["live_before_stop"]
                    if why is None and d["returned"] != "1":
                        why = "serve_epoll did not return after StopAccepting"
            if why and len(o.violations) < 20:
                o.violations.append({"case": c, "impl": a[:400], "why": why})
        if pid == "C15" and replay is None:
            # descriptor re-use between a connection's close and the rest of its clean-up: every later connection is still served
            # and every socket closed (a late EPOLL_CTL_DEL would deregister the NEXT connection that got the same number)
            from . import serve as S
            ls, wants = S.fd_reuse_lines(3 if t == "quick" else 30)
            for c, a, w in zip(ls, C.run_sharded(ctx["kimpl"], ls, shards=min(C.NCPU, len(ls))), wants):
                o.evaluations += 1
                pz = a.split()
                got = pz[1].split("/") if len(pz) >= 2 and pz[0] == "V" else None
                if got != w and len(o.violations) < 20:
                    j = next((x for x in range(len(w)) if got is None or x >= len(got) or got[x] != w[x]), 0)
                    o.violations.append({"case": c, "impl": a[:400], "why": "a connection accepted while the previous one was being cleaned up (descriptor number re-used) was not served: connection %d got %s, expected %s"
                                         % (j, (got[j] if got and j < len(got) else "-")[:60], w[j][:60])})
        model = C.run_sharded(ctx["kmodel"], [t_[1] for t_ in traces]) if ctx.get("have_model") else []
        ok = 0
        for (c, tl), m in zip(traces, model):
            if m.strip() == "OK":
                ok += 1
            elif len(o.mismatches) < 10:
                o.mismatches.append({"case": c, "impl": tl[:1500], "model": m})
        o.extra["traces_validated_against_impl"] = ok
        o.extra["traces_total"] = len(traces)
        # listener side (Khttp/Model/Accept.lean): the accept rounds of the burst plans replayed through the model of the edge-triggered
        # listener + accept loop.  Not an execution of the model (an accept round that ends while connections are queued) = broken
        # correspondence; an execution that ends with queued connections nobody will look at = stranded connections.
        if accept_lines:
            am = C.run_sharded(ctx["kmodel"], [l for _, l, _ in accept_lines])
            okc = 0
            for (c, l, k), m in zip(accept_lines, am):
                _, d = kv(m)
                if m.startswith("OK") and d.get("stranded") == "0" and d.get("backlog") == "0" and d.get("accepted") == str(k):
                    okc += 1
                elif m.startswith("OK") and pid == "C14" and len(o.violations) < 20:
                    o.violations.append({"case": c, "impl": l[:600], "model": m, "why": "listener: %s of %d connections accepted, %s left in the listen queue (stranded=%s)" % (d.get("accepted"), k, d.get("backlog"), d.get("stranded"))})
                elif not m.startswith("OK") and len(o.mismatches) < 10:
                    o.mismatches.append({"case": c, "impl": l[:1500], "model": m})
            o.extra["accept_rounds_validated_against_listener_model"] = okc
    return run_


def known_c14(o, ctx, k):
    return True   # the witness is an interleaving of the MODEL (C14_not_stuck_full_false); reproduced on the real server with a delayed loop (DESIGN.md §7)


RULE = ("EPOLL scenarios on the real serve_epoll: 40 (quick) / 1500 (thorough) plans of 1-3 concurrent connections x 1-4 workers x 1-3 requests per connection (fast, 25 ms slow handler so that readiness events "
        "arrive for an in-flight connection, bodies, 404, close tokens either side, handler error, malformed head) randomly interleaved, endings {close, half-close}, injected EPOLL_CTL_ADD failures. "
        "The hook trace (accept, batches, per-event outcome, dequeue, re-arm, DEL, teardown, closed, reaper) is replayed through the model's step?. distinct_nontrivial = distinct canonical traces with > 12 events.")
ASSUME = ["level-triggered epoll, syscalls synchronise, mpsc FIFO (modelled)", "handlers terminate; scheduling/fairness of the OS not modelled: interleavings are those the scenarios provoke (partial for 'every interleaving' on the real code)",
          "liveness ('eventually dispatched') holds under the fairness assumptions F1-F4 stated in Props/C14; the unconditional form is refuted (known finding K14-spurious-dispatch)"]
register("C14", lean=["Khttp.Props.C14", "Khttp.Props.C14Accept", "Khttp.Props.C14Skeleton"], run=run("C14"), rule=RULE, assumptions=ASSUME, search=False, known_check=known_c14,
         explanation="Theorems over the epoll transition system for any number of connections and workers (inductive invariant, 25 step kinds): one worker per connection, answers in arrival order, no lost wake-up, "
                     "not stuck (conditional; the unconditional form is refuted by a spurious-dispatch trace). Listener side (Model/Accept, Props/C14Accept): with the code's accept loop (drain until accept() fails) on the EDGE-triggered listener no reachable state strands a queued connection and the server always has an enabled step towards accepting it; every per-event cap k strands one (refuted variant).  Tie: extracted skeleton of epoll.rs incl. memory orderings = annotated steps of the model (decide), "
                     "trace conformance of the instrumented real server. Oracle: per-connection transcripts in order, no overlapping workers per connection.")
register("C15", lean=["Khttp.Props.C15", "Khttp.Props.C14Skeleton"], run=run("C15"), rule=RULE, assumptions=ASSUME, search=False,
         explanation="Theorems: socket closed exactly once, record freed exactly once, no use after free (a record is queued for freeing only after EPOLL_CTL_DEL and freed only between batches), quiescent state holds "
                     "nothing for ended connections, ADD failure releases both, reaper drains. Stop-with-open-connections refuted (known finding, listed under C16). Oracle: interposed close() counts per client port, "
                     "census of live 64-byte-aligned records (counting allocator), injected EPOLL_CTL_ADD failures.")
