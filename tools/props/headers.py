"""C19: header collection (HDR domain)."""
from . import register
from .common import *
from gen import hdr as G

OWS = b" \t"


def parse_cl(v):
    d = v.strip(b"\t\n\x0c\r ")
    if d and d.isdigit() and d.isascii() and int(d) < 2 ** 64:
        return int(d)
    return None


def has_token(fields, name, tok):
    for n, v in fields:
        if n.lower() == name:
            for t in v.split(b","):
                if t.strip(OWS).lower() == tok:
                    return True
    return False


def ref(ops):
    """fresh evaluation, written from the C19 statement"""
    fields, cl = [], None
    def rm(n):
        nonlocal fields, cl
        if n.lower() == b"content-length":
            cl = None
        fields = [(k, v) for k, v in fields if k.lower() != n.lower()]
    def add(n, v):
        nonlocal cl
        if n.lower() == b"content-length":
            cl = parse_cl(v)
        else:
            fields.append((n, v))
    for op in ops:
        if op[0] == "add": add(op[1], op[2])
        elif op[0] == "rep": rm(op[1]); add(op[1], op[2])
        elif op[0] == "rm": rm(op[1])
        elif op[0] == "scl": cl = op[1]
        elif op[0] == "ste": fields.append((b"transfer-encoding", b"chunked"))
        elif op[0] == "scc": fields.append((b"connection", b"close"))
    return fields, cl


def parse_fields(tok):
    if tok == "e":
        return []
    return [(unhex(a), unhex(b)) for a, b in (x.split(":", 1) for x in tok.split(","))]


def oracle(ops, gets, impl):
    if impl.startswith(("BAD", "CRASH", "PANIC")):
        return "harness/impl failure: " + impl[:40]
    _, d = kv("X " + impl)
    if not G.in_quantifier(ops):
        return None  # outside the property's quantifier: only the model/impl correspondence is checked
    fields, cl = ref(ops)
    got = parse_fields(d["f"])
    if got != fields:
        return "stored fields differ from what the operations stored"
    if (None if d["cl"] == "-" else int(d["cl"])) != cl:
        return "declared content length differs from the last content-length operation"
    if (d["ch"] == "1") != has_token(got, b"transfer-encoding", b"chunked"):
        return "'transfer-encoding includes chunked' disagrees with the stored fields"
    if (d["cc"] == "1") != has_token(got, b"connection", b"close"):
        return "'connection includes close' disagrees with the stored fields"
    gs = d["g"].split(",") if d["g"] != "e" else []
    for name, g in zip(gets, gs):
        want = None
        for k, v in fields:
            if k.lower() == name.lower():
                want = v
        if (None if g == "-" else unhex(g)) != want:
            return "lookup is not the last stored value for that name (ignoring case)"
    return None


def run(o, ctx, tier, seed, replay=None):
    if replay is not None:
        diff_run(o, ctx, [replay["case"]])
        return
    t = "thorough" if tier in ("thorough", "search") else "quick"
    metas, lines = [], []
    for ops, gets, nodate in G.cases(seed, t):
        metas.append((ops, gets)); lines.append(G.line(ops, gets, nodate))
    for fl in fuzz_cases(o, ctx, "hdr", tier, seed):
        pl = G.parse_line(fl)
        if pl is not None:
            metas.append(pl); lines.append(fl)
    impl, model = diff_run(o, ctx, lines, nontrivial=lambda c, a: c.count(";") >= 1,
                           tags=lambda c, a: "ops=%d" % min(9, c.split("|")[0].count(";") + 1))
    for (ops, gets), c, a in zip(metas, lines, impl):
        why = oracle(ops, gets, a)
        if why and len(o.violations) < 50:
            o.violations.append({"case": c, "impl": a, "why": why})
    o.extra["exhaustive_depth_small_alphabet"] = 2 if t == "quick" else 3
    # "after parsing a head": the collection a parser hands out answers like a fresh evaluation of the field lines of that head,
    # whatever the request line says (HTTP/1.0 and 1.1, every method and target form of the guided corpus)
    from . import parser as P
    from gen import parse as GP
    r = G.rng_for(seed, "c19-parsed")
    heads = []
    for _ in range(400 if t == "quick" else 20000):
        w = GP.gen_wf_request(r)
        heads.append("REQ " + hx(w))
        heads.append("REQ " + hx(w.replace(b" HTTP/1.1\r\n", b" HTTP/1.0\r\n", 1)))
    heads += [l for l in fuzz_cases(o, ctx, "req", tier, seed) if l.startswith("REQ ")]
    diff_run(o, ctx, heads, oracle=P.oracle_c04, nontrivial=lambda c, a: a.startswith("OK"), tags=lambda c, a: "parsed:" + a.split()[0])


register("C19", lean=["Khttp.Props.C19"], run=run,
         rule="HDR cases: every op sequence up to length 2 (quick) / 3 (thorough) over {add,replace,remove} x 6 names x 8 list values + set_* ops (exhaustive), plus random "
              "sequences of length 1..30 over a larger alphabet incl. malformed values (only correspondence is checked for values outside tchar/OWS/comma). "
              "distinct_nontrivial = distinct case lines with at least two operations.",
         assumptions=["values restricted to tchar / SP / HTAB / ',' for the OWS-based statement (C19_flags); for arbitrary values the theorems are stated with the code's ASCII-whitespace set",
                      "iter_mut() can change stored fields without updating flags: outside the operation set of the property"],
         explanation="Theorems (Props/C19): for s = ops.foldl apply new: s.fields = evalFields ops; get/getAll = lookupLast/lookupAll ignoring case; chunked/close flags = fresh evaluation of s.fields; "
                     "cl = effect of the last content-length operation, never stored as a field; after parsing (Spec.collect) likewise; OWS/case invariance of the evaluation. "
                     "Oracle: independent Python evaluation of the same op sequence against the real Headers API.")
