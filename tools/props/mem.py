"""C20: bounded memory while streaming bodies (MEM domain: counting allocator around real transfers)."""
from . import register
from .common import *
import check as C

K_ABS = 512 * 1024   # generous absolute ceiling for "a few fixed-size buffers" (measured peaks are <= ~140 KiB)


def run(o, ctx, tier, seed, replay=None):
    t = "thorough" if tier in ("thorough", "search") else "quick"
    sizes = [1024, 8191, 8192, 8193, 100_000, 1 << 20, 10_000_000, 64 << 20]
    if t != "quick":
        sizes += [256 << 20, 1 << 30]
    lines = ["MEM dir=%s framing=%s n=%d" % (d, f, n) for d in ("req", "reqdrain", "resp") for f in ("cl", "chunked", "auto") for n in sizes if not (d != "resp" and f == "auto")]
    # the same response transfers asked for by an HTTP/1.0 request line
    lines += ["MEM dir=resp framing=%s n=%d ver=0" % (f, n) for f in ("cl", "chunked", "auto") for n in sizes if n >= 100_000]
    # sources that hand out small pieces (100, 300, 511 bytes per read — not powers of two), chunked and auto framing
    lines += ["MEM dir=resp framing=%s n=%d piece=%d" % (f, n, pc) for f in ("chunked", "auto") for n in (1 << 20, 10_000_000 if t == "quick" else 64 << 20) for pc in (100, 300, 511)]
    # chunked request bodies made of many small chunks, with and without a chunk extension on every chunk (what the decoder keeps
    # per chunk must not add up)
    lines += ["MEM dir=%s framing=chunked n=%d csize=%d ext=%d" % (d, n, cs, e) for d in ("req", "reqdrain") for n in (1 << 20, 8 << 20 if t == "quick" else 64 << 20)
              for cs, e in ((64, 1), (64, 0), (1000, 1))]
    if replay is not None:
        lines = [replay["case"]]
    impl = C.run_sharded(ctx["kimpl"], lines, shards=4)
    def mline(l):
        d_, f_, n_ = (x.split("=")[1] for x in l.split()[1:4])
        # the harness handler streams through a STACK buffer and the thread's request buffer exists before the measurement starts:
        # compare with the model's BufReader + line buffers only (count=transfer)
        return "MEMMODEL dir=%s framing=%s n=%s piece=8192%s" % ("req" if d_.startswith("req") else d_, f_, n_, " count=transfer" if d_.startswith("req") else "")
    mlines = [mline(l) for l in lines]
    model = C.run_sharded(ctx["kmodel"], mlines) if ctx.get("have_model") else ["NOMODEL"] * len(lines)
    peaks = {}
    for c, a, m in zip(lines, impl, model):
        o.evaluations += 1
        _, d = kv("X " + a)
        _, f = kv("X " + c.split(" ", 1)[1])
        o.count("dir=%s,framing=%s" % (f["dir"], f["framing"]))
        o.nontrivial.add(c)
        if len(o.samples) < 6:
            o.samples.append({"case": c, "impl": a, "model": m})
        if "peak" not in d:
            o.violations.append({"case": c, "impl": a[:200], "why": "transfer failed: " + a[:60]}); continue
        peak, n = int(d["peak"]), int(f["n"])
        peaks[(f["dir"] + ("/1.0" if f.get("ver") == "0" else "") + ("/piece%s" % f["piece"] if "piece" in f else "") + ("/csize%s-ext%s" % (f["csize"], f.get("ext", "0")) if "csize" in f else ""), f["framing"], n)] = peak
        why = None
        if d.get("ok") != "1":
            why = "transfer of %d bytes incomplete (other side saw %s)" % (n, d.get("n"))
        elif peak > K_ABS:
            why = "peak heap while streaming a %d-byte body: %d bytes (> %d): memory grows with the body" % (n, peak, K_ABS)
        else:
            _, md = kv("X " + m)
            if "bound" in md and peak > int(md["bound"]) + 65536:
                # the model's bound (+ slack for allocator rounding / std internals) is exceeded: model and code disagree
                o.mismatches.append({"case": c, "impl": a, "model": m})
        if why and len(o.violations) < 20:
            o.violations.append({"case": c, "impl": a, "why": why})
    # flat growth: the peak at the largest size is not larger than the peak at 1 MiB by more than a small slack
    for (d_, f_, n), p in peaks.items():
        small = peaks.get((d_, f_, 1 << 20))
        if small is not None and n > (1 << 20) and p > small + 128 * 1024 and len(o.violations) < 20:
            o.violations.append({"case": "MEM dir=%s framing=%s n=%d" % (d_, f_, n), "impl": "peak=%d vs %d at 1 MiB" % (p, small), "why": "peak heap grows with the body length"})
    o.extra["peaks"] = {"%s/%s/%d" % k: v for k, v in sorted(peaks.items())}


register("C20", lean=["Khttp.Props.C20"], run=run, search=False, technique="machine-checked proof (Lean 4) over a buffer-level state-machine model + measured peak heap of the real transfers (partial: allocator/std behaviour measured, not proved)",
         rule="MEM cases: real transfers through Server::handle on a loopback socket pair with a counting global allocator: directions {request body streamed by a handler through an 8 KiB buffer, response body from a reader} x "
              "framing {declared length, chunked, auto} x body lengths {1 KiB, 8191..8193, 100 kB, 1 MiB, 10 MB, 64 MiB (+256 MiB, 1 GiB thorough)}, bodies generated and discarded on the fly. distinct_nontrivial = all cases.",
         assumptions=["allocator behaviour, Vec growth policy and std internals are measured, not proved (partial)", "well-formed messages; a chunk-size / trailer line of unbounded length is outside the quantifier"],
         explanation="PARTIAL. Theorems (Props/C20) over explicit state machines of the streaming paths whose state holds every buffer with its capacity (probe Vec, head Vec, BufWriter, chunk-size line, BufReader, "
                     "REQUEST_BUFFER, size/trailer line String, caller buffer; Vec growth = any capacity in [needed, max(8, 2*needed)]): in every state reached, for every body length, piece schedule and framing, heapBytes <= Ksend / Krecv, "
                     "closed expressions in the thresholds and the head length that do not mention the body length; only REQUEST_BUFFER depends on the request (exactly max_request_head); byte accounting (read = emitted + buffered + dropped); "
                     "parametric in all thresholds. Oracle + tie: counting global allocator around real transfers from 1 KiB to 64 MiB (1 GiB thorough) in every direction/framing incl. an unread body discarded by the drop-drain; "
                     "measured peak <= model bound + 64 KiB slack and <= 512 KiB absolute, flat in the body length.")
