"""C01–C04: head parsers (REQ / RESP domains)."""
import itertools
from . import register
from .common import *
from gen import parse as G
from gen.common import rng_for
import check as C

TCHAR = set(b"!#$%&'*+-.^_`|~ABCDEFGHIJKLMNOPQRSTUVWXYZabcdefghijklmnopqrstuvwxyz0123456789")
ALPHA = set(b"ABCDEFGHIJKLMNOPQRSTUVWXYZabcdefghijklmnopqrstuvwxyz")
WS = b"\t\n\x0c\r "


def parse_hdrs(tok):
    if tok == "e":
        return []
    out = []
    for item in tok.split(","):
        k, v = item.split(":", 1)
        out.append((unhex(k), unhex(v)))
    return out


# ---------------------------------------------------------------- independent reference (C04 oracle)
def ref_strict(buf: bytes):
    """Strict tokenizer written from the C04 statement (not from the code, not from the model):
    method SP target SP HTTP/1.x CRLF *(name ":" value CRLF) CRLF.  Returns dict or None."""
    eol = buf.find(b"\r\n")
    if eol < 0:
        return None
    parts = buf[:eol].split(b" ")
    if len(parts) != 3:
        return None
    m, t, ver = parts
    if not m or any(c not in ALPHA for c in m):
        return None
    if not t or any(not (0x21 <= c <= 0x7e) for c in t):
        return None
    if ver not in (b"HTTP/1.0", b"HTTP/1.1"):
        return None
    pos = eol + 2
    fields = []
    while True:
        if buf[pos:pos + 2] == b"\r\n":
            pos += 2
            break
        nl = buf.find(b"\n", pos)
        if nl < 0 or nl == pos or buf[nl - 1:nl] != b"\r":
            return None
        line = buf[pos:nl - 1]
        colon = line.find(b":")
        if colon <= 0 or any(c not in TCHAR for c in line[:colon]):
            return None
        fields.append((line[:colon], line[colon + 1:]))
        pos = nl + 1
    return {"m": m, "t": t, "v": 1 if ver.endswith(b"1") else 0, "fields": fields, "off": pos}


def collect_view(fields):
    """what the collection must expose for the given lines: non-content-length fields in order with leading
    whitespace removed, and the content length as a number (None if absent)"""
    hs, cl = [], None
    for k, v in fields:
        if k.lower() == b"content-length":
            d = v.strip(WS)
            cl = int(d) if d.isdigit() and d.isascii() else None
        else:
            hs.append((k, v.lstrip(WS)))
    return hs, cl


def oracle_c01(case, impl, model):
    if impl.startswith("PANIC") or impl.startswith("CRASH"):
        return "parser panicked / crashed: " + impl[:60]
    if impl.startswith("OK"):
        _, d = kv(impl)
        if d.get("safe") != "1":
            return "returned field outside the input / not ASCII / accessor panicked"
        buf = unhex(case.split()[1])
        if int(d["off"]) > len(buf):
            return "reported head length exceeds input length"
    return None


def oracle_c04(case, impl, model):
    dom, hexs = case.split()[:2]
    if dom != "REQ" or not impl.startswith("OK"):
        return None
    buf = unhex(hexs)
    _, d = kv(impl)
    r = ref_strict(buf)
    if r is None:
        return "accepted head is not strictly well-formed (reference tokenizer rejects it)"
    if r["off"] != int(d["off"]):
        return f"consumed {d['off']} bytes but the well-formed head is {r['off']} bytes long"
    if unhex(d["m"]) != r["m"] or unhex(d["t"]) != r["t"] or int(d["v"]) != r["v"]:
        return "reported method/target/version differ from the request line"
    hs, cl = collect_view(r["fields"])
    if parse_hdrs(d["h"]) != hs:
        return "reported header fields differ from the field lines of the head (dropped/merged/invented)"
    if (None if d["cl"] == "-" else int(d["cl"])) != cl:
        return "reported content length differs from the Content-Length line"
    # the derived answers of the parsed collection are a fresh evaluation of the reported field lines, for every version of the
    # request line (nothing but the fields decides them)
    def has_tok(name, tok):
        return any(t.strip(b" \t").lower() == tok for k, v in hs if k.lower() == name for t in v.split(b","))
    if all(all(c == 9 or 32 <= c <= 126 for c in v) for _, v in hs):
        if "cc" in d and (d["cc"] == "1") != has_tok(b"connection", b"close"):
            return "'connection includes close' (%s) is not what the reported Connection fields say" % d["cc"]
        if "ch" in d and (d["ch"] == "1") != has_tok(b"transfer-encoding", b"chunked"):
            return "'transfer-encoding includes chunked' (%s) is not what the reported Transfer-Encoding fields say" % d["ch"]
    return None


# ---------------------------------------------------------------- C02: grammar-derived heads with expected view
def gen_rfc_head(r, force_fr=None):
    m = r.choice(G.METHODS) if r.random() < 0.7 else G.rstr(r, bytes(sorted(ALPHA)), 1 + G.rlen(r) % 14)
    form = r.choice(["origin", "origin", "absolute", "absolute", "abs-nopath", "authority", "asterisk"])
    q = G.rstr(r, G.QCHAR, G.rlen(r)) if r.random() < 0.5 else None
    qb = b"" if q is None else b"?" + q
    if form == "origin":
        p = b"".join(b"/" + G.rstr(r, G.PCHAR, G.rlen(r) % 20) for _ in range(r.randrange(1, 5)))
        t, path, query = p + qb, p, q
    elif form in ("absolute", "abs-nopath"):
        sch = r.choice([b"http", b"https", b"ws", b"a+b.c-1"])
        auth = G.rstr(r, G.HOSTCH, 1 + G.rlen(r) % 30) + r.choice([b"", b":80", b":", b":8080"])
        if r.random() < 0.1:
            auth = b"user@" + auth
        if r.random() < 0.1:
            auth = b"[::1]:443"
        p = b"" if form == "abs-nopath" else b"".join(b"/" + G.rstr(r, G.PCHAR, G.rlen(r) % 12) for _ in range(r.randrange(1, 4)))
        t, path, query = sch + b"://" + auth + p + qb, p, q
    elif form == "authority":
        t, path, query = G.rstr(r, G.HOSTCH, 1 + G.rlen(r) % 30) + b":443", b"", None
    else:
        t, path, query = b"*", b"*", None
    minor = r.choice([b"1", b"1", b"0"])
    fields = []
    for _ in range(r.choice([0, 1, 2, 3, 6, 12, 30])):
        name = G.rstr(r, bytes(sorted(TCHAR)), 1 + G.rlen(r) % 20)
        if name.lower() in (b"content-length", b"transfer-encoding"):
            name += b"x"
        val = G.rstr(r, b" \t", r.choice([0, 1, 1, 3])) + G.rstr(r, G.VCH + b" \t" + bytes(range(0x80, 0x100)), G.rlen(r)) + G.rstr(r, b" \t", r.choice([0, 0, 2]))
        fields.append((name, val))
    fr = r.choice([[], [], [(b"Content-Length", b" 0")], [(b"content-length", b"42 ")], [(b"Content-Length", b"7"), (b"CONTENT-LENGTH", b"\t7")],
                   [(b"Transfer-Encoding", b" chunked")], [(b"Transfer-Encoding", b"gzip"), (b"transfer-encoding", b"deflate , Chunked ")],
                   [(b"Transfer-Encoding", b"gzip,chunked,"), (b"Content-Length", b"18446744073709551615")]])
    if force_fr is not None:
        fr = force_fr
    pos = 0
    for f in fr:  # keep the relative order of the framing fields (the final coding is in the LAST TE line)
        pos = r.randrange(pos, len(fields) + 1)
        fields.insert(pos, f)
        pos += 1
    head = m + b" " + t + b" HTTP/1." + minor + b"\r\n" + b"".join(k + b":" + v + b"\r\n" for k, v in fields) + b"\r\n"
    tail = G.rstr(r, bytes(range(256)), r.choice([0, 0, 1, 9, 50]))
    hs, cl = collect_view(fields)
    exp = {"m": m, "t": t, "p": path, "q": query, "v": int(minor), "h": hs, "cl": cl, "off": len(head)}
    return head + tail, exp


def check_c02(exp, impl):
    if not impl.startswith("OK"):
        return "well-formed head not accepted: " + impl[:40]
    _, d = kv(impl)
    if unhex(d["m"]) != exp["m"]: return "method differs"
    if unhex(d["t"]) != exp["t"]: return "target differs"
    if unhex(d["p"]) != exp["p"]: return "path split differs: got %r want %r" % (unhex(d["p"]), exp["p"])
    got_q = None if d["q"] == "-" else unhex(d["q"])
    if got_q != exp["q"]: return "query split differs: got %r want %r" % (got_q, exp["q"])
    if int(d["v"]) != exp["v"]: return "version differs"
    if parse_hdrs(d["h"]) != exp["h"]: return "header fields differ"
    if (None if d["cl"] == "-" else int(d["cl"])) != exp["cl"]: return "content length differs"
    if int(d["off"]) != exp["off"]: return "head length differs: got %s want %d" % (d["off"], exp["off"])
    return None


# ---------------------------------------------------------------- C03: verdicts over all prefixes
def verdict(ans):
    if ans.startswith("OK"):
        return ("ok", ans)
    if ans.startswith("ERR eof"):
        return ("inc", None)
    if ans.startswith("ERR"):
        return ("rej", None)
    return ("bad", ans)


def check_prefix_chain(dom, base, answers):
    """answers[k] = verdict on base[:k], k = 0..len(base). Returns violation text or None."""
    decided = None
    for k, a in enumerate(answers):
        v = verdict(a)
        if v[0] == "bad":
            return f"prefix {k}: {a[:40]}"
        if decided is None:
            if v[0] != "inc":
                decided = (k, v)
        else:
            if v[0] != decided[1][0]:
                return f"prefix of length {decided[0]} was {decided[1][0]} but length {k} is {v[0]}"
            if v[0] == "ok" and v[1] != decided[1][1]:
                return f"accepted prefix of length {decided[0]} is interpreted differently at length {k}"
    return None


def run_client_segmentations(o, ctx, t, r):
    """C03, client side: the same response stream cut in different ways must give Client::exchange the same result
    (CLI domain: scripted origin server; kmodel = the read_response loop model)."""
    streams = [
        b"HTTP/1.1 200 OK\r\nContent-Length: 5\r\n\r\nhello",
        b"HTTP/1.1 404 Not Found\r\nA: b\r\nContent-Length: 0\r\n\r\n",
        b"HTTP/1.0 200 OK\r\nX: y\r\n\r\nbody until close",
        b"HTTP/1.1 200 OK\r\nTransfer-Encoding: chunked\r\n\r\n5\r\nhello\r\n0\r\n\r\n",
        b"HTTP/1.1 204 \r\n\r\n",
        b"HTTP/1.1 200 OK\r\nBig: " + b"v" * 300 + b"\r\nContent-Length: 2\r\n\r\nok",
        # an interim response followed by the final one: whatever the client makes of it, it must not depend on the cuts
        b"HTTP/1.1 100 Continue\r\n\r\nHTTP/1.1 200 OK\r\nContent-Length: 2\r\n\r\nhi",
        b"HTTP/1.1 100 Continue\r\nX: y\r\n\r\nHTTP/1.1 204 No Content\r\n\r\n",
        b"HTTP/1.1 103 Early Hints\r\nLink: </s.css>\r\n\r\nHTTP/1.1 200 OK\r\nTransfer-Encoding: chunked\r\n\r\n2\r\nhi\r\n0\r\n\r\n",
        b"HTTP/1.1 2000 OK\r\n\r\n",
        b"HTTP/1.1 200 OK\r\nbad header\r\n\r\n",
    ]
    for _ in range(2 if t == "quick" else 30):
        streams.append(G.gen_wf_response(r)[:600])
    lines, groups = [], []
    for st in streams:
        he = st.find(b"\r\n\r\n")
        cutsets = [[]]
        if he >= 0:
            for c in range(max(1, he - 2), min(len(st), he + 6)):   # every cut around the blank line
                cutsets.append([c])
        for _ in range(4 if t == "quick" else 12):
            k = r.choice([1, 2, 3, 5])
            cutsets.append(sorted(set(r.randrange(1, max(2, len(st))) for _ in range(k))))
        if len(st) < 80:
            cutsets.append(list(range(1, len(st))))
        start = len(lines)
        for cs in cutsets:
            segs, p = [], 0
            for c in cs + [len(st)]:
                if c > p:
                    segs.append(st[p:c]); p = c
            lines.append("CLI segs=%s close=1" % ",".join(hx(x) for x in segs))
        groups.append((st, start, len(lines)))
    impl = C.run_sharded(ctx["kimpl"], lines, shards=min(C.NCPU, 16))
    model = C.run_sharded(ctx["kmodel"], lines) if ctx.get("have_model") else None
    for st, a, b in groups:
        ref = impl[a]
        for i in range(a, b):
            o.evaluations += 1
            o.count("client-seg:" + impl[i].split()[0] + (" " + impl[i].split()[1] if impl[i].startswith("ERR") else ""))
            if b - a > 1:
                o.nontrivial.add(lines[i])
            if impl[i] != ref and len(o.violations) < 50:
                o.violations.append({"case": lines[i], "cases": [lines[a], lines[i]], "impl": impl[i], "expected": ref,
                                     "why": "client outcome depends on how the response stream is segmented: %s vs %s (one segment)" % (impl[i][:60], ref[:60])})
            if model is not None:
                mi = model[i]
                # the body read through BodyReader::from_response is compared too (model: Body.BodyReader.fromResponse) whenever
                # the model delivers one (peer closes after the scripted bytes); a failed body read is compared as "failed"
                def canon(ws, with_body):
                    out = []
                    for w in ws.split():
                        if w.startswith("cc="):
                            continue
                        if w.startswith(("body=", "bodyerr")):
                            if with_body:
                                out.append(w if w.startswith("body=") else "bodyerr")
                            continue
                        out.append(w)
                    return " ".join(out)
                wb = "body" in mi
                proj, projm = canon(impl[i], wb), canon(mi, wb)
                if proj != projm and len(o.mismatches) < 20:
                    o.mismatches.append({"case": lines[i], "impl": impl[i], "model": mi})
    o.extra["client_segmentation_groups"] = len(groups)


def run_server_segmentations(o, ctx, t, r):
    """C03, server side: the same request stream (head, then body) cut in different ways — including not at all, so that the
    first socket read returns head and body together and may fill the head buffer to the brim — must get the same answer from
    the real Server::handle (CONN domain; kmodel = the read_request loop + handle_connection model)."""
    body6k = bytes(r.choice(b"abcdefghij") for _ in range(6000))
    streams = []   # (max_head, head, body, expected first item or None = only equality across segmentations is checked)
    h_p = b"GET /p/alpha/beta HTTP/1.1\r\nHost: x\r\n\r\n"
    streams.append((4096, h_p, b"", "R200:0:" + hx(b"alpha,beta")))
    for mx in (len(h_p), len(h_p) + 1, len(h_p) + 7, 64):
        streams.append((mx, h_p, b"", "R200:0:" + hx(b"alpha,beta") if len(h_p) <= mx else "R431:1:e"))
    h_e = b"POST /echo HTTP/1.1\r\nContent-Length: 6000\r\nX-Pad: " + b"p" * r.choice([0, 10, 100]) + b"\r\n\r\n"
    streams.append((4096, h_e, body6k, "R200:0:" + hx(body6k)))
    for pad_to in (4096, 4095, 4090):
        hh = b"POST /echo HTTP/1.1\r\nContent-Length: 20\r\nX-Pad: "
        hh = hh + b"p" * (pad_to - len(hh) - 4) + b"\r\n\r\n"
        streams.append((4096, hh, body6k[:20], "R200:0:" + hx(body6k[:20])))
    for mx in (60, 100, 300):
        hh = b"POST /echo HTTP/1.1\r\nContent-Length: 500\r\n\r\n"
        streams.append((mx, hh, body6k[:500], "R200:0:" + hx(body6k[:500]) if len(hh) <= mx else "R431:1:e"))
    streams.append((4096, b"POST /echo HTTP/1.1\r\nTransfer-Encoding: chunked\r\n\r\n", b"5\r\nhello\r\n1;x=y\r\n!\r\n0\r\nT: v\r\n\r\n", "R200:0:" + hx(b"hello!")))
    streams.append((4096, b"GET /\x01 HTTP/1.1\r\n\r\n", b"", "R400:1:e"))
    # malformed before the first line feed, and nothing follows (the peer waits for the answer): rejected wherever the cuts fall
    for bad in (b"GET /\x01", b"G\x01T / HTTP/1.1", b"GET /a b", b"GET / HTTP/9", b"GET /ok HTTP/1.1\r\nbad\x01name: v"):
        # (WHEN a doomed prefix is rejected — at once, or only when its line is complete — is the parser's choice; what must not
        # happen is that the answer depends on where the stream was cut)
        streams.append((4096, bad, b"", None))
    streams.append((4096, b"CONNECT example.com:443 HTTP/1.1\r\nHost: example.com\r\n\r\n", b"", "R404:0:e"))
    streams.append((4096, b"GET http://example.com/p/1/2?q=1 HTTP/1.1\r\n\r\n", b"", "R200:0:" + hx(b"1,2")))
    # random well-formed heads: exactly one request and nothing after it (bytes that follow a head in the same segment are not
    # a pipelined request for this server: they are dropped with the head buffer — by design, see DESIGN.md §7), no body
    k = 0
    while k < (2 if t == "quick" else 40):
        w = G.gen_wf_request(r)
        he = w.find(b"\r\n\r\n")
        low = w[:he + 4].lower()
        if he < 0 or he > 3000 or b"content-length" in low or b"transfer-encoding" in low:
            continue
        streams.append((4096, w[:he + 4], b"", None))
        k += 1
    # long field lines under a larger (non-default) head limit: lines of 4 KiB, 8 KiB and just above 8190 bytes, cut at every position
    # near the END of the long line (a verdict on an unfinished line must be `incomplete`, however long the line already is)
    long_cuts = {}
    for L in ((4100, 8186, 8195, 8300) if t == "quick" else (1000, 4095, 4100, 8180, 8186, 8190, 8191, 8195, 8200, 8300, 12000)):
        line_ = b"Authorization: Bearer " + b"t" * (L - 22)
        hd = b"GET /p/1/2 HTTP/1.1\r\n" + line_ + b"\r\nHost: x\r\n\r\n"
        streams.append((16384, hd, b"", "R200:0:" + hx(b"1,2")))
        eol = hd.index(line_) + len(line_)
        long_cuts[hd] = [[c] for c in range(eol - 18, eol + 3)]
    lines, groups = [], []
    for mx, head, body, exp in streams:
        st = head + body
        cutsets = [[], [len(head)]] + long_cuts.get(head, [])
        for c in range(max(1, len(head) - 3), min(len(st), len(head) + 3)):
            cutsets.append([c])
        if mx < len(st):
            cutsets += [[mx], [mx - 1], [mx + 1]] if mx > 1 else []
        for _ in range(3 if t == "quick" else 10):
            cutsets.append(sorted(set(r.randrange(1, max(2, len(st))) for _ in range(r.choice([1, 2, 3, 6])))))
        if len(st) < 70:
            cutsets.append(list(range(1, len(st))))
        start = len(lines)
        for cs in cutsets:
            segs, p = [], 0
            for c in [c for c in cs if 0 < c < len(st)] + [len(st)]:
                if c > p:
                    segs.append(st[p:c]); p = c
            lines.append("CONN max=%d script=%s,r,c,e" % (mx, ",".join("s:" + hx(x) for x in segs)))
        groups.append((exp, start, len(lines)))
    impl = C.run_sharded(ctx["kimpl"], lines, shards=min(C.NCPU, 16))
    model = C.run_sharded(ctx["kmodel"], lines) if ctx.get("have_model") else None
    for exp, a, b in groups:
        ref = impl[a].split()[1] if len(impl[a].split()) > 1 else impl[a]
        for i in range(a, b):
            o.evaluations += 1
            got = impl[i].split()[1] if len(impl[i].split()) > 1 else impl[i]
            o.count("server-seg:" + got.split(":")[0][:5])
            o.nontrivial.add(lines[i])
            why = None
            if got != ref:
                why = "server outcome depends on how the request stream is segmented: %s vs %s (one segment)" % (got[:60], ref[:60])
            elif exp is not None and got.split(",")[0] != exp:
                why = "server answered %s, the request stream calls for %s" % (got.split(",")[0][:60], exp[:60])
            if why and len(o.violations) < 50:
                o.violations.append({"case": lines[i], "cases": [lines[a], lines[i]], "impl": impl[i][:300], "expected": ref[:300], "why": why})
            if model is not None and model[i].split()[:2] != impl[i].split()[:2] and len(o.mismatches) < 20:
                o.mismatches.append({"case": lines[i], "impl": impl[i][:300], "model": model[i][:300]})
    o.extra["server_segmentation_groups"] = len(groups)


def tags_parse(c, a):
    return c.split()[0] + ":" + (" ".join(a.split()[:2]) if a.startswith("ERR") else a.split()[0] if a else "?")


def nontriv(c, a):
    return a.startswith("OK") or len(c) > 40


RULE = ("[+ guided generation: the committed libFuzzer corpora req/resp (coverage + behaviour features) and the inputs a 6 s run on the current tree keeps, through the same diff and oracles] " +
        "REQ/RESP cases: corpus witnesses with all their prefixes; 256-value (thorough) / nasty-value (quick) substitution sweeps at every "
        "position of request lines padded so the byte falls in each SWAR lane and in the scalar tail; grammar-built heads (4 target forms, "
        "0-30 fields, framing fields) with trailing bytes, their 1-2 edit mutations and truncations; random strings. distinct_nontrivial = "
        "distinct case lines whose verdict is OK or whose input is longer than 16 bytes.")


def run_parse(pid, oracle):
    def run(o, ctx, tier, seed, replay=None):
        if replay is not None:
            lines = [replay["case"]] if isinstance(replay.get("case"), str) else list(replay.get("cases", []))
            diff_run(o, ctx, lines, oracle=oracle, nontrivial=nontriv, tags=tags_parse)
            return
        t = "thorough" if tier in ("thorough", "search") else "quick"
        lines = [f"{d} {hx(b)}" for d, b in G.cases(seed, t)]
        diff_run(o, ctx, lines, oracle=oracle, nontrivial=nontriv, tags=tags_parse)
        # inputs kept by the coverage- and behaviour-guided generator (committed corpus + a short run on the current tree)
        fl = fuzz_cases(o, ctx, "req", tier, seed) + fuzz_cases(o, ctx, "resp", tier, seed)
        diff_run(o, ctx, fl, oracle=oracle, nontrivial=nontriv, tags=lambda c, a: "fuzz-" + tags_parse(c, a))
        if pid == "C01":
            # inputs that END at a page boundary with an inaccessible page behind them (real code only): heads cut inside the
            # target, the version, a field line — at every length, so that every word-at-a-time scan meets every remainder
            gl = []
            for stem in (b"GET /", b"GET /a?", b"GET http://h", b"CONNECT h", b"GET /p HTTP/1.", b"GET /p HTTP/1.1\r\nHost: ", b"GET /p HTTP/1.1\r\nx-y"):
                for pad in range(0, 41):
                    gl.append("REQG " + hx(stem + b"o" * pad))
            for stem in (b"HTTP/1.1 200 ", b"HTTP/1.1 200 OK\r\nServer: ", b"HTTP/1."):
                for pad in range(0, 24):
                    gl.append("RESPG " + hx(stem + b"k" * pad))
            for full in (b"GET /index.html?x=1 HTTP/1.1\r\nHost: a\r\n\r\n", b"POST http://h.example:80/p/q?z HTTP/1.0\r\nContent-Length: 3\r\n\r\n"):
                gl += ["REQG " + hx(full[:k_]) for k_ in range(len(full) + 1)]
            for c, a in zip(gl, C.run_sharded(ctx["kimpl"], gl, shards=1)):
                o.evaluations += 1
                o.count("guard-page:" + a.split()[0])
                if not a.startswith("G ") and len(o.violations) < 50:
                    o.violations.append({"case": c, "impl": a[:200], "why": "the parser touched memory outside its input (the input ends at an inaccessible page) or panicked: " + a[:40]})
            # very long targets: real code only
            ll = ["REQ " + hx(b) for b in G.long_target_cases(seed, t)]
            for c, a in zip(ll, C.run_sharded(ctx["kimpl"], ll, shards=min(C.NCPU, len(ll)))):
                o.evaluations += 1
                o.count("long-target:" + a.split()[0])
                why = oracle_c01(c, a, None)
                if not why and not a.startswith("OK"):
                    why = "a well-formed request with a long target was not accepted: " + a[:60]
                if why and len(o.violations) < 50:
                    o.violations.append({"case": c[:2000] + "...", "impl": a[:300], "why": why + " (target longer than 65535 bytes)"})
        if pid == "C04":
            # the same strictness wherever a head is read on a connection: stray CR / LF bytes in front of the request line are
            # not skipped — not for the first request and not for a later one on a kept-alive connection (any serve path that
            # reads heads goes through the same parser on the bytes as they are)
            get = b"GET /p/1/2 HTTP/1.1\r\n\r\n"
            post = b"POST /echo HTTP/1.1\r\nContent-Length: 3\r\n\r\nabc"
            ok1, ok2 = "R200:0:" + hx(b"1,2"), "R200:0:" + hx(b"abc")
            cl, cw = [], []
            for pre in (b"\n", b"\r", b"\r\n", b"\n\r", b"\r\r\n", b"\n\n", b" ", b"\t"):
                cl.append("CONN max=4096 script=s:%s,r,e" % hx(pre + get)); cw.append(["R400:1:e", "EOF"])
                cl.append("CONN max=4096 script=s:%s,r,s:%s,r,e" % (hx(get), hx(pre + get))); cw.append([ok1, "R400:1:e", "EOF"])
                cl.append("CONN max=4096 script=s:%s,r,s:%s,r,e" % (hx(post), hx(pre + get))); cw.append([ok2, "R400:1:e", "EOF"])
                cl.append("CONN max=4096 script=s:%s,s:%s,r,s:%s,r,e" % (hx(post[:-3]), hx(post[-3:]), hx(pre + post))); cw.append([ok2, "R400:1:e", "EOF"])
            for c, a, w in zip(cl, C.run_sharded(ctx["kimpl"], cl, shards=min(C.NCPU, 8)), cw):
                o.evaluations += 1
                pz = a.split()
                got = pz[1].split(",") if len(pz) >= 2 and pz[0] == "T" else None
                if got != w and len(o.violations) < 50:
                    o.violations.append({"case": c, "impl": a[:200], "expected": ",".join(w), "why": "bytes in front of a request line were skipped or misread on a connection: got %s, expected %s" % (",".join(got or [a[:30]])[:80], ",".join(w))})
        if pid == "C02":
            r = rng_for(seed, "c02")
            n = 3000 if t == "quick" else 120000
            exps, ls = [], []
            for _ in range(n):
                b, e = gen_rfc_head(r)
                exps.append(e); ls.append("REQ " + hx(b))
            # Content-Length numerals of every width (1*DIGIT: leading zeros, no length limit) up to u64::MAX
            from gen.common import cl_numeral_grid
            for v in cl_numeral_grid():
                if v.isdigit() and int(v) < 2 ** 64:
                    b, e = gen_rfc_head(r, force_fr=[(r.choice([b"Content-Length", b"content-length"]), r.choice([b"", b" ", b"\t "]) + v + r.choice([b"", b" "]))])
                    exps.append(e); ls.append("REQ " + hx(b))
            impl, model = diff_run(o, ctx, ls, nontrivial=nontriv, tags=lambda c, a: "rfc-head:" + a.split()[0])
            for c, a, e in zip(ls, impl, exps):
                why = check_c02(e, a)
                if why and len(o.violations) < 50:
                    o.violations.append({"case": c, "impl": a, "why": why})
        if pid == "C03":
            r = rng_for(seed, "c03")
            bases = [("REQ", c) for c in G.CORPUS_REQ] + [("RESP", c) for c in G.CORPUS_RESP]
            n = 150 if t == "quick" else 3000
            for _ in range(n):
                w = G.gen_wf_request(r)
                bases.append(("REQ", w if r.random() < 0.5 else G.mutate(r, w)))
                w = G.gen_wf_response(r)
                bases.append(("RESP", w if r.random() < 0.5 else G.mutate(r, w)))
            ls, idx = [], []
            for dom, b in bases:
                idx.append((dom, b, len(ls)))
                ls += [f"{dom} {hx(b[:k])}" for k in range(len(b) + 1)]
            impl, model = diff_run(o, ctx, ls, nontrivial=nontriv, tags=lambda c, a: "prefix:" + a.split()[0])
            o.extra["prefix_chains"] = len(bases)
            run_client_segmentations(o, ctx, t, r)
            run_server_segmentations(o, ctx, t, r)
            for dom, b, st in idx:
                why = check_prefix_chain(dom, b, impl[st:st + len(b) + 1])
                if why and len(o.violations) < 50:
                    o.violations.append({"case": f"{dom} {hx(b)}", "cases": [f"{dom} {hx(b[:k])}" for k in range(len(b) + 1)], "why": "segmentation-dependent verdict: " + why})
    return run


PENDING = "theorem files being merged (StageUri proofs pending)"
COMMON_ASSUME = ["64-bit little-endian target (usize = u64)", "std slice/str primitives behave as documented (modelled, not verified)"]

register("C01", replay_with_oracle=True, lean=["Khttp.Props.C01"], run=run_parse("C01", oracle_c01), rule=RULE, assumptions=COMMON_ASSUME,
         explanation="Theorems: Request.parse / Response.parse of the model never yield panic/ub (all loops terminate within their fuel, every index, slice, "
                     "read_unaligned, get_unchecked and from_utf8_unchecked precondition holds), returned fields are ASCII infixes of the input, off <= len, "
                     "every RequestUri accessor is panic-free. SWAR block loop + tail proved equal to takeWhile via two kernel-checked lane lemmas (Lemmas/SwarKernel.lean: per-lane bitwise ops, no-borrow subtraction, 8-bit truth tables by decide). "
                     "Oracle on the real code: no panic (catch_unwind), pointer containment of every returned slice, ASCII, accessors.")
register("C02", replay_with_oracle=True, lean=["Khttp.Props.C02", "Khttp.Props.C02Method"], run=run_parse("C02", None), rule=RULE + " Plus grammar-derived heads with the expected decoding computed by the generator.",
         assumptions=COMMON_ASSUME + ["absolute-form restricted to scheme://authority path-abempty [?query]; pct-encoding checked as '%' anywhere"],
         explanation="Theorem C02_accepts_exactly: for every RfcHead satisfying the RFC grammar predicate Wf and any tail, the model accepts render(h)++tail and reports exactly "
                     "method, target, path/query split, version, all field lines via the collection, off = |render h|. Oracle: generator-side expected decoding vs real code.")
register("C03", replay_with_oracle=True, lean=["Khttp.Props.C03", "Khttp.Props.C03Loop", "Khttp.Props.ClientExchange"], run=run_parse("C03", None), rule=RULE + " Plus full prefix chains (every prefix length 0..n) of corpus, well-formed and mutated heads.",
         assumptions=COMMON_ASSUME + ["TCP itself is outside the model; server/client read loops are covered by the CONN domain (C07/C10 checks) and Props/C03 loop theorems"],
         explanation="Theorems: accept-stability, reject-stability and 'proper prefix of an accepted head is incomplete' for both parsers. Plus C03Loop: the server's read_request loop and the client's read_response loop give the same head, body start and remaining bytes (or the same error) for every segmentation of the same stream; "
                     "ClientExchange.client_reads_back: a response rendered by the printer whose head fits the client's head buffer is read back by read_response under ANY segmentation as exactly that status, reason and header collection, "
                     "and the body reader is handed exactly the encoded body (composition of the loop theorem with the printer -> parser round trip). "
                     "Oracle: verdict monotonicity over every prefix chain on the real code; Client::exchange against a scripted origin server under many segmentations of the same response stream (cuts at every position around the blank line).")
register("C04", replay_with_oracle=True, lean=["Khttp.Props.C04"], run=run_parse("C04", oracle_c04), rule=RULE, assumptions=COMMON_ASSUME,
         explanation="Theorems: C04_accepted_is_rendered (consumed bytes = render of a WfStrict head; reported parts are that head's parts, all lines handed to the collection in order) and "
                     "C04_render_injective (unique decoding). Oracle: independent strict tokenizer on every accepted input.")
