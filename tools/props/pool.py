"""C13: worker pool (POOL domain: trace conformance of the real pool against the Lean transition system)."""
import re
from . import register
from .common import *
from gen.common import rng_for
import check as C


def canon_trace(evs):
    """hook events -> model events.  `U<w>` (about to release the receiver lock) is replaced by what the worker
    received while holding it (`r<w>:<j>` -> `R<w>:<j>`, `x<w>` -> `X<w>`), which the worker logs right after."""
    evs = list(evs)
    out = []
    used = set()
    for i, e in enumerate(evs):
        if i in used:
            continue
        if e.startswith("U"):
            w = e[1:]
            repl = None
            for k in range(i + 1, len(evs)):
                if k in used:
                    continue
                f = evs[k]
                if f.startswith("r" + w + ":"):
                    repl = "R" + f[1:]; used.add(k); break
                if f == "x" + w:
                    repl = "X" + w; used.add(k); break
                if re.match(r"[AUFrx]" + w + r"(:|$)", f):
                    break
            if repl is None:
                # the worker was still blocked in recv() when the log was taken (pool did not return)
                continue
            out.append(repl)
        elif e[0] in "rx":
            out.append("?" + e)  # a receipt without a preceding unlock marker: malformed log
        else:
            out.append(e)
    return out


def gen_cases(seed, tier):
    r = rng_for(seed, "pool")
    out = []
    for n in (1, 2, 3):
        for jobs in (0, 1, 2, 3, 4):
            for mode in ("plain", "sleep", "barrier", "blocker", "unwind"):
                out.append((n, jobs, mode))
    # a long queue behind fully occupied workers: every job still runs exactly once
    for n, jobs in ([(1, 70), (1, 200), (2, 150), (3, 400)] if tier == "quick" else [(1, 64), (1, 65), (1, 66), (1, 200), (2, 129), (2, 300), (3, 400), (4, 1000), (8, 3000)]):
        out.append((n, jobs, "flood"))
    k = 60 if tier == "quick" else 1500
    for _ in range(k):
        n = r.choice([1, 2, 3, 4, 5, 8, 16])
        jobs = r.choice([0, 1, 2, 5, 9, 17, 40, 120])
        out.append((n, jobs, r.choice(["plain", "sleep", "sleep", "barrier", "blocker", "unwind"])))
    return out


def run(o, ctx, tier, seed, replay=None):
    t = "thorough" if tier in ("thorough", "search") else "quick"
    if replay is not None:
        lines = [replay["case"]]
    else:
        lines = ["POOL n=%d jobs=%d mode=%s" % c for c in gen_cases(seed, t)]
    impl = C.run_sharded(ctx["kimpl"], lines, shards=4)
    traces = []
    for c, a in zip(lines, impl):
        o.evaluations += 1
        _, d = kv("X " + a)
        if "ev" not in d:
            o.violations.append({"case": c, "impl": a[:200], "why": "pool scenario crashed: " + a[:60]}); continue
        o.count("mode=" + d["mode"] + ",n=" + ("1" if d["n"] == "1" else "2-3" if d["n"] in ("2", "3") else "4+"))
        runs = [] if d["runs"] == "e" else d["runs"].split(",")
        why = None
        if d["returned"] != "1":
            why = "shutdown did not return / jobs did not make progress in parallel (mode=%s, n=%s, jobs=%s)" % (d["mode"], d["n"], d["jobs"])
        elif any(x != "1" for x in runs):
            why = "a submitted job ran %s times" % sorted(set(runs))
        elif d.get("doneatreturn") not in (None, d["jobs"]):
            why = "the pool's shutdown%s returned when only %s of %s submitted jobs had finished" % (" (owner thread unwinding from a panic)" if d["mode"] == "unwind" else "", d["doneatreturn"], d["jobs"])
        evs = [] if d["ev"] == "e" else d["ev"].split(",")
        ct = canon_trace(evs)
        traces.append((c, a, "POOLTRACE n=%s ev=%s" % (d["n"], ",".join(ct))))
        if len(ct) > 3:
            o.nontrivial.add(",".join(ct))
        if len(o.samples) < 4 and len(ct) > 6:
            o.samples.append({"case": c, "trace": ",".join(ct)[:400]})
        if why and len(o.violations) < 20:
            o.violations.append({"case": c, "impl": a[:300], "why": why})
    model = C.run_sharded(ctx["kmodel"], [t_[2] for t_ in traces]) if ctx.get("have_model") else []
    ok = 0
    for (c, a, tl), m in zip(traces, model):
        if m.strip() == "OK":
            ok += 1
        elif len(o.mismatches) < 20:
            # the real pool produced a trace that is not an execution of the model
            o.mismatches.append({"case": c, "impl": tl[:600], "model": m})
    o.extra["traces_validated_against_impl"] = ok
    o.extra["traces_total"] = len(traces)


register("C13", lean=["Khttp.Props.C13", "Khttp.Props.C13Skeleton"], run=run, search=False,
         rule="POOL scenarios on the real ThreadPool (cfg-gated VerifPool): pool sizes 1-3 x 0-4 jobs x {plain, sleeping, barrier of min(n,jobs) jobs (completes only if they really run in parallel), "
              "blocker (job 0 waits until all others finished: needs the others to proceed on other workers), unwind (the pool's owner panics after submitting sleeping jobs: shutdown by an unwinding thread), flood (every worker pinned while 70-400 jobs queue up)} enumerated; in every scenario the number of finished jobs is read the moment the shutdown returns, plus 60 (quick) / 1500 (thorough) random configurations up to 16 workers / 120 jobs. "
              "The recorded synchronisation trace of every run is replayed through the model's step?; distinct_nontrivial = distinct canonical traces with more than 3 events.",
         assumptions=["jobs terminate and do not panic", "mpsc is an unbounded FIFO; Mutex gives mutual exclusion; join waits for the thread (std, modelled)",
                      "OS scheduling and fairness are not modelled: the interleavings seen are those the harness provokes (partial for 'every interleaving' on the real code; the theorems cover every interleaving of the model)"],
         explanation="Theorems over the transition system for ALL pool sizes and job counts (inductive invariant PoolInv): at most once, exactly once after shutdown, lock never held while a job runs, "
                     "parallel progress (a blocked job occupies only its own worker), drop returns only after all jobs finished, no deadlock, shutdown terminates. Tie: extracted skeleton of threadpool.rs = "
                     "the action sequence the model's steps abstract (decide), and trace conformance of the instrumented real pool. Oracle: per-job run counts, rendezvous scenarios, shutdown returns.")
