"""C08: serialized messages (PRINT domain)."""
import re
from . import register
from .common import *
from gen import printer as G
from gen.common import rng_for
import check as C


def fields_of(line):
    d = {}
    for w in line.split()[1:]:
        if "=" in w:
            k, v = w.split("=", 1)
            d[k] = v
    return d


def decode_message(wire: bytes):
    """independent reference decoder: returns dict or (None, reason)"""
    he = wire.find(b"\r\n\r\n")
    if he < 0:
        return None, "no blank line"
    lines = wire[:he].split(b"\r\n")
    start = lines[0]
    hdrs = []
    for l in lines[1:]:
        if b":" not in l:
            return None, "header line without colon"
        k, v = l.split(b":", 1)
        hdrs.append((k, v.strip(b" \t")))
    cls = [v for k, v in hdrs if k.lower() == b"content-length"]
    tes = [v for k, v in hdrs if k.lower() == b"transfer-encoding"]
    rest = wire[he + 4:]
    # several Transfer-Encoding field lines are ONE list-valued field (RFC 9110 section 5.3); Content-Length must be alone
    if not ((len(cls) == 1 and not tes) or (not cls and len(tes) >= 1)):
        return None, "framing headers: %d content-length, %d transfer-encoding" % (len(cls), len(tes))
    if tes:
        tes = [b", ".join(tes)]
    if cls:
        if not cls[0].isdigit():
            return None, "bad content-length"
        n = int(cls[0])
        if len(rest) < n:
            return None, "body shorter than content-length"
        body, rest = rest[:n], rest[n:]
    else:
        codings = [t.strip(b" \t").lower() for t in tes[0].split(b",")]
        codings = [t for t in codings if t]          # empty list elements are ignored (RFC 9110 section 5.6.1)
        if not codings or codings[-1] != b"chunked":
            return None, "transfer-encoding without final chunked"
        body = b""
        while True:
            nl = rest.find(b"\r\n")
            if nl < 0:
                return None, "chunk size line not terminated"
            try:
                size = int(rest[:nl], 16)
            except ValueError:
                return None, "bad chunk size"
            rest = rest[nl + 2:]
            if size == 0:
                if rest[:2] != b"\r\n":
                    return None, "no CRLF after last chunk"
                rest = rest[2:]
                break
            if len(rest) < size + 2 or rest[size:size + 2] != b"\r\n":
                return None, "chunk data not followed by CRLF"
            body += rest[:size]
            rest = rest[size + 2:]
    return {"start": start, "hdrs": hdrs, "body": body, "rest": rest, "chunked": bool(tes)}, None


OWS = b" \t"


def ref_headers(ops):
    """list-based reference evaluation of the header operations (what the collection must contain afterwards): returns
    (field lines in order, declared content length or None).  Content-Length is a number, never a stored line."""
    fields, cl = [], None

    def rm(nm):
        nonlocal fields, cl
        fields = [(k, v) for k, v in fields if k.lower() != nm.lower()]
        if nm.lower() == b"content-length":
            cl = None

    def add(nm, v):
        nonlocal cl
        if nm.lower() == b"content-length":
            d = v.strip(b" \t\r\n\x0c")
            cl = int(d) if d.isdigit() and d.isascii() and int(d) < 2 ** 64 else None
        else:
            fields.append((nm, v))

    for o_ in ops:
        p = o_.split(":")
        if p[0] == "add":
            add(unhex(p[1]), unhex(p[2]))
        elif p[0] == "rep":
            rm(unhex(p[1])); add(unhex(p[1]), unhex(p[2]))
        elif p[0] == "rm":
            rm(unhex(p[1]))
        elif p[0] == "scl":
            cl = int(p[1])
        elif p[0] == "ste":
            fields.append((b"transfer-encoding", b"chunked"))
        elif p[0] == "scc":
            fields.append((b"connection", b"close"))
    return fields, cl


def has_token(v, tok):
    return any(t.strip(OWS).lower() == tok for t in v.split(b","))


def oracle(line, impl):
    f = fields_of(line)
    body = G.body_of(line)
    ops = [] if f.get("hdr", "-") == "-" else [o_ for o_ in f["hdr"].split(";") if o_ != "nodate"]
    fields, cl = ref_headers(ops)
    te_fields = [v for k, v in fields if k.lower() == b"transfer-encoding"]
    chunked_decl = any(has_token(v, b"chunked") for v in te_fields)
    if any(not has_token(v, b"chunked") for v in te_fields):
        return "KNOWN"  # class user_transfer_encoding_without_chunked: some stored TE field has no chunked token
    entry = f["entry"]
    if impl.startswith("PANIC") or impl.startswith("CRASH") or impl.startswith("BAD"):
        return "printer failed: " + impl[:40]
    # a declared length governs only the reader entry points; for a byte-slice body the length of the slice is the length
    declared = cl if (entry in ("reader", "request") and not chunked_decl) else None
    if impl.startswith("ERR"):
        if declared is not None and declared > len(body):
            return None  # under-run must be an error
        return "printer returned an error for a well-formed message"
    if declared is not None and declared > len(body):
        return "declared content-length %d exceeds the %d-byte body but the printer reported success" % (declared, len(body))
    wire = unhex(impl)
    m, why = decode_message(wire)
    if m is None:
        return "emitted bytes are not one well-framed message: " + why
    if m["rest"]:
        return "%d stray bytes after the message" % len(m["rest"])
    want_body = body if declared is None else body[:declared]
    if entry == "empty":
        want_body = b""
    if m["body"] != want_body:
        return "decoded body (%d bytes) differs from the input body (%d bytes)" % (len(m["body"]), len(want_body))
    reason = unhex(f.get("reason", "e"))
    if entry == "request":
        want_start = f.get("method", "GET").encode() + b" " + unhex(f.get("uri", "2f")) + b" HTTP/1.1"
    else:
        want_start = b"HTTP/1.1 " + f.get("code", "200").encode() + b" " + reason
    if m["start"] != want_start:
        return "start line %r differs from %r" % (m["start"][:60], want_start[:60])
    # every stored field line is reproduced in order; the printer adds only date, content-length or (when it chooses chunked
    # itself) one transfer-encoding: chunked line
    got_user = [(k, v) for k, v in m["hdrs"] if k.lower() not in (b"content-length", b"date") and not (k.lower() == b"transfer-encoding" and not te_fields)]
    want_user = [(k, v.strip(OWS)) for k, v in fields]
    if got_user != want_user:
        return "user header fields are not reproduced in order"
    # which framing the printer picks when nothing is declared (content-length after a bounded probe, else chunked) is its own
    # business: the property asks for exactly one framing header that delimits the body (checked by the decoder above)
    if chunked_decl and not m["chunked"]:
        return "transfer-encoding: chunked was declared but the body is not chunk-encoded"
    return None


def run(o, ctx, tier, seed, replay=None):
    t = "thorough" if tier in ("thorough", "search") else "quick"
    lines = [replay["case"]] if replay is not None else G.cases(seed, t)
    # every possible short count of the first vectored write, for three body sizes (two passes: learn the wire length first)
    if replay is None:
        sweep = []
        for n in ([2048, 2100] if t == "quick" else [2048, 2049, 3000]):
            base = "PRINT entry=bytes code=200 reason=4f4b nodate=1 hdr=add:78:79 bodyrep=61*%d pieces=-" % n
            head_len = len("HTTP/1.1 200 OK\r\nx: y\r\ncontent-length: %d\r\n\r\n" % n)
            step = 1 if t != "quick" else 7
            for a in list(range(0, head_len + 3)) + list(range(head_len + 3, head_len + n + 1, step)) + [head_len + n]:
                sweep.append(base + " accept=%d" % a)
        lines = lines + sweep
        # messages kept by the coverage- and behaviour-guided generator (header operations x entry points x body sizes x framing)
        lines = lines + fuzz_cases(o, ctx, "print", tier, seed)
    known = 0
    impl, model = diff_run(o, ctx, lines, nontrivial=lambda c, a: "bodyrep" in c or "pieces=-" not in c or "accept" in c,
                           tags=lambda c, a: fields_of(c)["entry"] + ":" + ("ERR" if a.startswith("ERR") else "ok"))
    for c, a in zip(lines, impl):
        if a == "BAD-ACCEPT":
            continue
        why = oracle(c, a)
        if why == "KNOWN":
            known += 1
            continue
        if why and len(o.violations) < 40:
            o.violations.append({"case": c, "impl": a[:300], "why": why})
    o.extra["known_class_user_te_without_chunked_cases"] = known
    # a body source that is not ready at some read (WouldBlock / TimedOut / Interrupted / another error, once, nothing handed over):
    # the printer may give up with an error — but if it reports success, what it put on the wire is still exactly one message
    if replay is None:
        r = rng_for(seed, "print-rerr")
        base = [l for l in lines if (" entry=reader " in l or " entry=request " in l) and " accept=" not in l and " pre=" not in l]
        rl = [l + " rerr=%s:%d" % (r.choice(["wouldblock", "timedout", "interrupted", "other"]), r.choice([0, 0, 1, 2]))
              for l in r.sample(base, min(len(base), 300 if t == "quick" else 6000))]
        for c, a in zip(rl, C.run_sharded(ctx["kimpl"], rl, shards=min(C.NCPU, 8))):
            o.evaluations += 1
            o.count("reader-fault:" + ("ERR" if a.startswith("ERR") else "ok"))
            if a.startswith("ERR"):
                continue
            why = oracle(c, a)
            if why and why != "KNOWN" and len(o.violations) < 40:
                o.violations.append({"case": c, "impl": a[:300], "why": why + " (after a body source that was not ready at one read)"})
    # `Status::of(code)` for every u16 (quick: all three-digit codes + a sample): the model's table lookup (Model/Status.lean over
    # the extracted table) against the real function; the table's well-formedness is Props/C08Status
    if replay is None:
        codes = list(range(0, 1000)) + ([65535, 1000, 9999, 20800] if t == "quick" else list(range(1000, 65536)))
        sl = ["STATUS %d" % c_ for c_ in codes]
        si, sm = diff_run(o, ctx, sl, nontrivial=lambda c, a: 100 <= int(c.split()[1]) <= 599, tags=lambda c, a: "status:" + ("listed" if a.split()[-1] != "e" else "unlisted"))
        for c, a in zip(sl, si):
            p_ = a.split()
            if len(p_) != 3 or p_[1] != c.split()[1]:
                o.violations.append({"case": c, "impl": a[:80], "why": "Status::of(%s) does not carry the code it was asked for" % c.split()[1]})
            elif any(b_ in (13, 10) for b_ in unhex(p_[2])):
                o.violations.append({"case": c, "impl": a[:80], "why": "the reason phrase of Status::of(%s) contains CR/LF" % c.split()[1]})


def known_c08(o, ctx, k):
    line = "PRINT entry=bytes code=200 reason=4f4b nodate=1 hdr=add:%s:%s body=616263 pieces=-" % (b"transfer-encoding".hex(), b"gzip".hex())
    a = C.run_sharded(ctx["kimpl"], [line])[0]
    if a.startswith(("ERR", "PANIC", "BAD", "CRASH")):
        return False
    w = unhex(a).lower()
    return b"content-length" in w and b"transfer-encoding" in w


register("C08", lean=["Khttp.Props.C08", "Khttp.Props.RoundTrip", "Khttp.Props.C08Status"], run=run, known_check=known_c08,
         rule="PRINT cases: 1500 (quick) / 40000 (thorough) random messages over the four entry points + write_request x statuses 100-999 x standard/custom/empty reasons x 0-4 user fields x "
              "{nothing declared, chunked (set or added), content-length =, <, > body length, 0} x body lengths {0,1,2,5,100,2047,2048,2049,8191,8192,8193,9000 (+4096,16384,131071..131073,262145 thorough)} "
              "x reader piece schedules x short plain writes; plus EVERY accepted count 0..head+body of the first vectored write for 2-3 body sizes. distinct_nontrivial = distinct cases with a large body, a piece schedule or a partial first write.",
         assumptions=["statuses 100..999; reasons/values without CR/LF; token names", "BufWriter/write_all deliver all bytes in order; writer errors out of scope",
                      "known finding: a user-supplied transfer-encoding field without 'chunked' (class user_transfer_encoding_without_chunked) is excluded (C08_partial)"],
         explanation="Theorems (Props/C08, for arbitrary positive thresholds): exact wire bytes = spec rendering for all entry points, exactly one framing header and nothing after the body (reference decoder round-trip), "
                     "declared length never exceeded, under-run is an error, partial first vectored write irrelevant, decimal/hex numerals correct. C08_full refuted by the known-finding witness; C08_partial proved. "
                     "Oracle: independent Python decoder applied to the real wire bytes.")
