"""C11 / C12: router (ROUTE domain)."""
from . import register
from .common import *
from gen import route as G

STD = {"GET", "POST", "HEAD", "PUT", "PATCH", "DELETE", "OPTIONS", "TRACE"}


def parse_pat(p: bytes):
    if p.startswith(b"/"):
        p = p[1:]
    segs = []
    for s in p.split(b"/"):
        if s == b"*": segs.append(("star",))
        elif s == b"**": segs.append(("dstar",))
        elif s.startswith(b":"): segs.append(("param", s[1:]))
        else: segs.append(("lit", s))
    return segs


def wf(segs):
    return all(s[0] != "dstar" for s in segs[:-1])


def equiv(a, b):
    return len(a) == len(b) and all(x[0] == y[0] and (x[0] != "lit" or x[1] == y[1]) for x, y in zip(a, b))


def seg_matches(pat, path):
    i = 0
    for k, s in enumerate(pat):
        if s[0] == "dstar":
            return True  # (well-formed: last)
        if i >= len(path):
            return False
        if s[0] == "lit" and s[1] != path[i]:
            return False
        i += 1
    return i == len(path)


PREC = {"dstar": 0, "star": 1, "param": 2, "lit": 3}


def rank(pat):
    n = 0
    for s in pat:
        if s[0] == "lit": n += 1
        else: break
    return (n, PREC[pat[-1][0]] if pat else 0)


def ref_select(regs, m, path):
    """the C11/C12 statement, written independently: returns (id|None, params)"""
    eff = []  # (id, method, pat)
    for i, (mm, p) in enumerate(regs):
        pat = parse_pat(p)
        eff = [e for e in eff if not (e[1] == mm and equiv(e[2], pat))]
        eff.append((i, mm, pat))
    if path.startswith(b"/"):
        path = path[1:]
    segs = path.split(b"/")
    cands = [e for e in eff if e[1] == m and seg_matches(e[2], segs)]
    if not cands:
        return None, []
    exact = [e for e in cands if all(s[0] == "lit" for s in e[2]) and [s[1] for s in e[2]] == segs]
    if exact:
        return exact[-1][0], []
    cands = [e for e in cands if not all(s[0] == "lit" for s in e[2])]
    if not cands:
        return None, []
    best = max(rank(e[2]) for e in cands)
    win = [e for e in cands if rank(e[2]) == best][0]
    params = [(s[1], segs[i]) for i, s in enumerate(win[2]) if s[0] == "param" and i < len(segs)]
    return win[0], params


def run(pid):
    def run_(o, ctx, tier, seed, replay=None):
        if replay is not None:
            diff_run(o, ctx, [replay["case"]])
            return
        t = "thorough" if tier in ("thorough", "search") else "quick"
        metas, lines = [], []
        for regs, qs in G.cases(seed, t):
            metas.append((regs, qs)); lines.append(G.line(regs, qs))
        for fl in fuzz_cases(o, ctx, "route", tier, seed):
            try:
                rg, qq = fl.split(" ", 1)[1].split("|")
                regs_ = [(x.split(":")[0], unhex(x.split(":")[1])) for x in rg.strip().split(";") if x.strip() and x.strip() != "-"]
                qs_ = [(x.split(":")[0], unhex(x.split(":")[1])) for x in qq.strip().split(";") if x.strip()]
            except Exception:
                continue
            metas.append((regs_, qs_)); lines.append(fl)
        impl, model = diff_run(o, ctx, lines, nontrivial=lambda c, a: ";" in c.split("|")[0] and ("=" in a or "0/" in a or "1/" in a),
                               tags=lambda c, a: "routes=%d" % min(9, 0 if c.split()[1] == "-" else c.split("|")[0].count(";") + 1))
        nq = 0
        for (regs, qs), c, a in zip(metas, lines, impl):
            if not all(wf(parse_pat(p)) for _, p in regs):
                continue  # inner '**' is outside the claim (WfTable)
            answers = a.split(";")
            for (m, path), ans in zip(qs, answers):
                nq += 1
                if ans == "PANIC":
                    why = "match_route panicked"
                else:
                    ident, _, ps = ans.partition("/")
                    want_id, want_ps = ref_select(regs, m, path)
                    got_id = None if ident == "F" else int(ident)
                    got_ps = [] if ps == "e" else [tuple(unhex(x) for x in kvp.split("=")) for kvp in ps.split(",")]
                    why = None
                    if pid == "C11" and got_id != want_id:
                        why = f"selected route {got_id} but the most specific match is {want_id} for {m} {path!r}"
                    if pid == "C12" and got_id == want_id and got_ps != want_ps:
                        why = f"params {got_ps} but the matched segments are {want_ps} for {m} {path!r}"
                if why and len(o.violations) < 50:
                    o.violations.append({"case": c, "impl": a, "why": why})
        o.extra["lookups_checked_by_oracle"] = nq
        if pid == "C12" and replay is None:
            # through the server: what a handler is handed on the SECOND and later requests of a connection is still exactly the
            # winner's bindings — the fallback (also for an extension method that has no table at all) gets none
            import check as C
            lines_, wants = [], []
            for m2, p2, w2 in ((b"PROPFIND", b"/nothing", "R404:0:e"), (b"GET", b"/nowhere/at/all", "R404:0:e"), (b"MKCOL", b"/p/1/2", "R404:0:e"),
                               (b"GET", b"/p/7/8", "R200:0:" + hx(b"7,8"))):
                for a_, b_ in ((b"x", b"y"), (b"abc", b"zz")):
                    first = b"GET /p/" + a_ + b"/" + b_ + b" HTTP/1.1\r\n\r\n"
                    second = m2 + b" " + p2 + b" HTTP/1.1\r\n\r\n"
                    lines_.append("CONN max=4096 script=s:%s,r,s:%s,r,c,e" % (hx(first), hx(second)))
                    wants.append(["R200:0:" + hx(a_ + b"," + b_), w2, "EOF"])
            for c, a, w in zip(lines_, C.run_sharded(ctx["kimpl"], lines_, shards=4), wants):
                o.evaluations += 1
                pz = a.split()
                got = pz[1].split(",") if len(pz) >= 2 and pz[0] == "T" else None
                if got != w and len(o.violations) < 50:
                    o.violations.append({"case": c, "impl": a[:200], "expected": ",".join(w), "why": "parameters handed to the handler of a later request on the same connection: got %s, expected %s (a fallback that sees parameters answers 'stale-params')" % (",".join(got or [a[:30]])[:80], ",".join(w))})
    return run_


RULE = ("ROUTE cases: all tables of 2 (quick: every third) / 2-3 (thorough) patterns over segments {a, :p, *, trailing **} of length 1-2 x 11 paths incl. empty/trailing/repeated slashes (enumerated); "
        "random tables of 0-40 routes over all methods incl. custom ones, duplicates and equivalent re-registrations with other parameter names, each with 8 paths derived from the patterns. "
        "distinct_nontrivial = distinct case lines with >= 2 routes in which some query selected a route.")
ASSUME = ["'**' only as last pattern segment (WfTable); ASCII paths", "binary_search_by_key / sort_unstable_by / HashMap semantics as documented (modelled)"]
register("C11", lean=["Khttp.Props.C11"], run=run("C11"), rule=RULE, assumptions=ASSUME,
         explanation="Theorems: matchRoute of the built router = select regs m path (first maximal-rank matching entry of the effective table, exact literal first), fallback iff nothing matches, "
                     "re-registration replaces, literals sorted and duplicate-free after build (what the binary search needs). Oracle: independent Python select on every lookup of well-formed tables.")
register("C12", lean=["Khttp.Props.C12"], run=run("C12"), rule=RULE, assumptions=ASSUME,
         explanation="Theorems: params = bindParams (winner's pattern) (path segments), [] for literal winners and the fallback; nothing survives from rejected candidates. Oracle: independent Python binding.")
