"""C16 / C17: lifecycle hooks and equivalence of the three serve modes (SERVE domain)."""
from . import register
from .common import *
from gen import conn as G
from gen.common import rng_for
import check as C

KINDS = ["echo", "echo", "noread", "p", "notfound", "close", "err", "errclose", "bigr", "reqclose", "reqnoclose", "silent", "errkind", "cont", "gecho"]
MODES = ["serve", "threaded", "epoll"]


def gen_plans(seed, tier, small=False):
    r = rng_for(seed, "serve")
    n = 25 if tier == "quick" else 120 if small else 600
    plans = []
    for _ in range(n):
        conns = []
        for _ in range(r.choice([1, 2, 3, 4])):
            d = r.choice(["P", "P", "P", "D"])
            if d == "D":
                conns.append(("D", "e", ["EOF"], {"kinds": []}))
            else:
                while True:
                    script, exp, meta = G.history(r, max_reqs=3, kinds=KINDS)
                    if not meta["early_chunked"]:
                        break
                conns.append(("P", script, exp, meta))
        conns.append(("S", "e", ["EOF"], {"kinds": []}))
        plans.append((r.choice([1, 2, 4]), conns, False))
    # (a) the last request of a connection is sent together with the half-close (FIN already in the socket when the
    #     request is picked up); (b) a teardown hook that closes the stream and then works for 40 ms while the next
    #     connection is accepted (its descriptor number may be the one just freed) and sends its request afterwards
    p1 = b"GET /p/1/2 HTTP/1.1\r\n\r\n"
    pc = b"GET /close HTTP/1.1\r\n\r\n"
    r200 = "R200:0:" + hx(b"1,2")
    for _ in range(4 if tier == "quick" else 40):
        conns = [("P", "S:%s,r,e" % hx(p1), [r200, "EOF"], {"kinds": ["p"]}),
                 ("P", "s:%s,r,S:%s,r,e" % (hx(p1), hx(p1)), [r200, r200, "EOF"], {"kinds": ["p", "p"]}),
                 ("S", "e", ["EOF"], {"kinds": []})]
        plans.append((r.choice([1, 2]), conns, False))
        conns = [("P", "s:%s,r,e" % hx(pc), ["R200:1:" + hx(b"bye"), "EOF"], {"kinds": ["close"]}),
                 ("P", "w,s:%s,r,s:%s,r,c,e" % (hx(p1), hx(p1)), [r200, r200, "EOF"], {"kinds": ["p", "p"]}),
                 ("P", "s:%s,r,e" % hx(pc), ["R200:1:" + hx(b"bye"), "EOF"], {"kinds": ["close"]}),
                 ("P", "w,s:%s,r,c,e" % hx(p1), [r200, "EOF"], {"kinds": ["p"]}),
                 ("S", "e", ["EOF"], {"kinds": []})]
        plans.append((2, conns, True))
    # two requests on one connection whose handler sends the interim 100 Continue before reading the body, then a plain one
    pc_ = lambda body: b"POST /continue HTTP/1.1\r\nExpect: 100-continue\r\nContent-Length: %d\r\n\r\n" % len(body) + body
    for _ in range(2 if tier == "quick" else 20):
        b1, b2 = b"abc", b"defgh"
        conns = [("P", "s:%s,r,r,s:%s,r,r,s:%s,r,c,e" % (hx(pc_(b1)), hx(pc_(b2)), hx(p1)),
                  ["R100:0:e", "R200:0:" + hx(b1), "R100:0:e", "R200:0:" + hx(b2), r200, "EOF"], {"kinds": ["cont", "cont", "p"]}),
                 ("S", "e", ["EOF"], {"kinds": []})]
        plans.append((r.choice([1, 2]), conns, False))
    # an idle keep-alive connection stays open while T-1 .. T+1 further connections come and go (T pool threads): independent
    # connections, never more open at a time than threads — each is served at once
    for T in (2, 3):
        for extra in (T - 1, T):
            conns = [("P", "s:%s,r,|,s:%s,r,c,e" % (hx(p1), hx(p1)), [r200, r200, "EOF"], {"kinds": ["p", "p"]})]
            conns += [("P", "s:%s,r,c,e" % hx(p1), [r200, "EOF"], {"kinds": ["p"]}) for _ in range(extra)]
            conns.append(("S", "e", ["EOF"], {"kinds": []}))
            plans.append((T, conns, False))
    # more open connections than pool threads: a kept-alive connection keeps its worker until IT ends — a connection waiting in the
    # queue is no reason to close one that neither side asked to close (serve); the other modes serve both at once
    for T in (1, 2):
        conns = [("P", "s:%s,r,|,s:%s,r,s:%s,r,c,e" % (hx(p1), hx(p1), hx(p1)), [r200, r200, r200, "EOF"], {"kinds": ["p", "p", "p"]}) for _ in range(T)]
        conns += [("P", "s:%s,|,r,c,e" % hx(p1), [r200, "EOF"], {"kinds": ["p"]})]
        conns.append(("S", "e", ["EOF"], {"kinds": []}))
        plans.append((T, conns, "noepoll"))       # (epoll mode with every worker busy can run into the recorded finding K14)
    # connections that end with a reset (RST) instead of a FIN: (a) while idle after an answered request; (b) while still waiting
    # in the queue behind a busy worker (one worker, a slow request on another connection in front). Either way the connection was
    # handed to request handling, so it is torn down exactly once (result either way; whether its request was still read is a race)
    slow = b"GET /slow/150 HTTP/1.1\r\n\r\n"
    rst = {"kinds": [], "rst": True}
    for _ in range(3 if tier == "quick" else 30):
        conns = [("P", "s:%s,r,X" % hx(p1), [r200], {"kinds": ["p"], "rst": True}),
                 ("P", "s:%s,r,c,e" % hx(p1), [r200, "EOF"], {"kinds": ["p"]}),
                 ("S", "e", ["EOF"], {"kinds": []})]
        plans.append((r.choice([1, 2]), conns, False))
        conns = [("P", "s:%s,|,r,c,e" % hx(slow), ["R200:0:" + hx(b"slow"), "EOF"], {"kinds": ["p"]}),
                 ("P", "s:%s,X" % hx(p1), [], rst),
                 ("P", "s:%s,r,c,e" % hx(p1), [r200, "EOF"], {"kinds": ["p"]}),
                 ("S", "e", ["EOF"], {"kinds": []})]
        plans.append((1, conns, False))
    # StopAccepting while proceeded connections are still in progress or still QUEUED behind a busy worker (pool mode, one and two
    # workers): accepting ends, but every connection that was handed to request handling is still served and torn down exactly once
    # (the pool's shutdown finishes every submitted job).  Not run in epoll mode (known finding K16: open connections are abandoned).
    for threads, nq in ((1, 1), (1, 2), (2, 1)):
        conns = [("P", "s:%s,|,r,c,e" % hx(slow), ["R200:0:" + hx(b"slow"), "EOF"], {"kinds": ["p"]}) for _ in range(threads)]
        conns += [("P", "s:%s,|,r,c,e" % hx(p1), [r200, "EOF"], {"kinds": ["p"]}) for _ in range(nq)]
        conns.append(("S", "e", ["EOF"], {"kinds": []}))
        plans.append((threads, conns, "late"))
    return plans


def fd_reuse_lines(n):
    """epoll mode: a connection ends (its teardown hook closes the socket and then works for a while) while the next
    connection is accepted — possibly under the descriptor number just freed — and sends its request afterwards.
    returns (case lines, expected per-connection transcripts)"""
    p1 = b"GET /p/1/2 HTTP/1.1\r\n\r\n"
    pc = b"GET /close HTTP/1.1\r\n\r\n"
    r200 = "R200:0:" + hx(b"1,2")
    conns = [("P", "s:%s,r,e" % hx(pc), ["R200:1:" + hx(b"bye"), "EOF"]),
             ("P", "w,s:%s,r,s:%s,r,c,e" % (hx(p1), hx(p1)), [r200, r200, "EOF"]),
             ("P", "s:%s,r,e" % hx(pc), ["R200:1:" + hx(b"bye"), "EOF"]),
             ("P", "w,s:%s,r,c,e" % hx(p1), [r200, "EOF"]),
             ("S", "e", ["EOF"])]
    plan = "/".join("%s:%s" % (d, sc) for d, sc, _ in conns)
    want = [",".join(e) for _, _, e in conns]
    return ["SERVE mode=epoll threads=2 slowtd=1 plan=%s" % plan] * n, [want] * n


def expected_hooks(conns):
    out = []
    for d, script, exp, meta in conns:
        if d != "P":
            out.append("s1p0t0-")
            continue
        if meta.get("rst"):
            out.append("s1p[01]t1[oe]")     # a reset connection: torn down exactly once; the rest depends on what was read before the RST
            continue
        # pre-routing runs once per parsed request = once per request that got as far as a handler
        served = 0
        ei = 0
        for k in meta["kinds"]:
            if ei >= len(exp):
                break
            e = exp[ei]
            ei += 2 if k == "cont" else 1      # an Expect request is answered by an interim and a final response
            served += 1
            if e == "EOF" or k in ("close", "reqclose", "err", "errclose", "errkind", "silent"):
                break
        err = bool({"err", "errclose", "errkind"} & set(meta["kinds"][:served]))
        out.append("s1p%dt1%s" % (served, "e" if err else "o"))
    return out


def parse(ans):
    p = ans.split()
    if len(p) < 4 or p[0] != "V":
        return None
    return {"tr": p[1].split("/"), "hooks": p[2].split("=")[1].split("/"), "returned": p[3].split("=")[1]}


def run(pid):
    def run_(o, ctx, tier, seed, replay=None):
        t = "thorough" if tier in ("thorough", "search") else "quick"
        plans = gen_plans(seed, t, small=(tier == "search"))
        lines, meta = [], []
        for threads, conns, slowtd in plans:
            plan = "/".join("%s:%s" % (d, sc) for d, sc, _, _ in conns)
            for m in MODES:
                # (a `late` plan in epoll mode would be the known finding K16: run it in serve mode instead, keeping groups of three)
                lines.append("SERVE mode=%s threads=%d%s plan=%s" % ("serve" if (slowtd in ("late", "noepoll") and m == "epoll") else m, threads, " late=1" if slowtd == "late" else "" if slowtd == "noepoll" else " slowtd=1" if slowtd else "", plan))
                meta.append((m, conns))
        impl = C.run_sharded(ctx["kimpl"], lines, shards=min(C.NCPU, 12))
        # The scenarios run a dozen servers side by side and have deadlines (a response within 4 s, the end of a connection within
        # 2.2 s): on an overloaded machine a deadline can pass although the server is right.  A group that deviates is therefore
        # run once more, alone; only a deviation that shows again counts (a real defect reproduces, a missed deadline does not).
        suspects = judge_all(o, pid, lines, meta, impl, record=False)
        if suspects:
            again = sorted({j for i in suspects for j in range(i - i % 3, i - i % 3 + 3)})
            for j in again:
                impl[j] = C.run_sharded(ctx["kimpl"], [lines[j]], shards=1)[0]
            o.extra["scenarios_rerun_alone_after_a_deviation"] = len(again)
        judge_all(o, pid, lines, meta, impl, record=True)
    return run_


def judge_all(o, pid, lines, meta, impl, record):
    """evaluate every (plan, mode) line; returns the indices of deviating lines; violations are recorded only if `record`"""
    bad = []
    if True:
        for i in range(0, len(lines), 3):
            group = [parse(a) for a in impl[i:i + 3]]
            conns = meta[i][1]
            for k, (g, m) in enumerate(zip(group, MODES)):
                c = lines[i + k]
                if record:
                    o.evaluations += 1
                    o.count("mode=" + m)
                    o.count("conns=%d" % len(conns))
                    if len(conns) >= 3:
                        o.nontrivial.add(c)
                    if len(o.samples) < 4 and i % 60 == 0 and k == 0:
                        o.samples.append({"case": c[:300], "impl": impl[i + k][:300]})
                if g is None:
                    bad.append(i + k)
                    if record:
                        o.violations.append({"case": c, "impl": impl[i + k][:200], "why": "serve scenario crashed: " + impl[i + k][:60]})
                    continue
                why = None
                if pid == "C16":
                    want = expected_hooks(conns)
                    import re as _re
                    hook_ok = lambda got_, want_: bool(_re.fullmatch(want_, got_)) if "[" in want_ else got_ == want_
                    if len(g["hooks"]) != len(want) or not all(hook_ok(a_, b_) for a_, b_ in zip(g["hooks"], want)):
                        j = next(x for x in range(len(want)) if x >= len(g["hooks"]) or not hook_ok(g["hooks"][x], want[x]))
                        why = "mode %s, connection %d: hook calls %s, documented behaviour %s (s=setup p=pre-routing t=teardown o/e=result)" % (m, j, g["hooks"][j] if j < len(g["hooks"]) else "-", want[j])
                    elif g["returned"] != "1":
                        why = "mode %s: the serve call did not return after StopAccepting" % m
                    else:
                        for j, (d, sc, exp, mt) in enumerate(conns):
                            if d == "D" and g["tr"][j] != "EOF":
                                why = "mode %s: a dropped connection got %s instead of a silent close" % (m, g["tr"][j])
                else:
                    want_tr = [",".join(exp) if exp else "-" for _, _, exp, _ in conns]
                    if g["tr"] != want_tr:
                        j = next(x for x in range(len(want_tr)) if x >= len(g["tr"]) or g["tr"][x] != want_tr[x])
                        why = "mode %s, connection %d: transcript %s differs from the specification %s" % (m, j, (g["tr"][j] if j < len(g["tr"]) else "-")[:80], want_tr[j][:80])
                    elif group[0] is not None and g["tr"] != group[0]["tr"]:
                        why = "mode %s answers differently from mode serve" % m
                if why:
                    bad.append(i + k)
                    if record and len(o.violations) < 30:
                        o.violations.append({"case": c, "impl": impl[i + k][:300], "why": why})
    return bad


def known_c16(o, ctx, k):
    """K16: an idle open connection while StopAccepting arrives: serve_epoll returns and abandons it (socket never closed)"""
    req = b"GET /p/1/2 HTTP/1.1\r\n\r\n"
    # (no request is sent: with one, a spurious dispatch (K14) can pin a worker on the idle connection, whose read time-out then
    # closes it after 3 s — the abandonment would depend on that race)
    a = C.run_sharded(ctx["kimpl"], ["EPOLL w=1 failadd=- plan=o0,w,w"])[0]
    d = {}
    for w in a.split()[1:]:
        kk, _, v = w.partition("=")
        d[kk] = v
    ports = [x for x in d.get("ports", "").split(",") if x]
    closes = dict(x.split(":") for x in d.get("closes", "").split(",") if ":" in x)
    # (whether the serve call itself has returned by then depends on K14: a worker pinned in a read on the idle connection
    # delays the pool shutdown by its read time-out; the finding is the abandoned socket)
    return bool(ports) and closes.get(ports[0], "0") == "0"


RULE = ("SERVE plans: 25 (quick) / 600 (thorough) plans of 1-4 sequential connections with per-connection setup decisions {Proceed, Drop} followed by a StopAccepting connection, each proceeded connection running a "
        "1-3 request keep-alive history (read all / nothing, close tokens either side, handler error, reader responses, segmentations), executed against serve, serve_threaded and serve_epoll with 1, 2 or 4 threads. "
        "distinct_nontrivial = distinct (mode, plan) lines with at least 3 connections.")
ASSUME = ["connections are independent and sequential (no more simultaneously open connections than pool threads)", "OS scheduling not modelled: the interleavings are those the scenarios provoke"]
register("C16", lean=["Khttp.Props.C16", "Khttp.Props.C14Skeleton"], soft_lean=["Khttp.Props.C07Skeleton"], run=run("C16"), rule=RULE, assumptions=ASSUME, known_check=known_c16,
         explanation="Theorems (Props/C16) over the hook-event logs of the three accept loops (any cfg, any list of incoming connections): setup exactly once and first per accepted connection; Drop = [setup, closed silently]; "
                     "StopAccepting = log ends with setup, returned and nothing of later connections; pre-routing once per parsed request before its responses; teardown exactly once, last, with the final result, for every "
                     "proceeded connection that ended; none for dropped/stopping ones. Known finding K16: serve_epoll abandons connections still open at StopAccepting (refuted in Props/C15: C15_after_stop_full_false). "
                     "Tie: control skeleton of serve / serve_threaded / handle_one_request and of epoll.rs (decide) + SERVE correspondence across the three real modes. Oracle: hook counters per connection and the serve call returning.")
register("C17", lean=["Khttp.Props.C17", "Khttp.Props.C14Skeleton"], soft_lean=["Khttp.Props.C07Skeleton"], run=run("C17"), rule=RULE, assumptions=ASSUME,
         explanation="Theorems (Props/C17): the sequence of one-request epoll jobs is the handle_connection loop (C17_jobs_are_the_loop), hence the three modes produce the same per-connection event streams and close at the same point "
                     "(C17_modes_equal, C17_streams_equal); scheduling (who runs the per-connection code) is the subject of C13/C14. Oracle: byte-identical transcripts of the same plan under serve, serve_threaded and serve_epoll on the real code, "
                     "each equal to the specified transcript.")
