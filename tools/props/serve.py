"""C16 / C17: lifecycle hooks and equivalence of the three serve modes (SERVE domain)."""
from . import register
from .common import *
from gen import conn as G
from gen.common import rng_for
import check as C

KINDS = ["echo", "echo", "noread", "p", "notfound", "close", "err", "bigr", "reqclose", "reqnoclose"]
MODES = ["serve", "threaded", "epoll"]


def gen_plans(seed, tier):
    r = rng_for(seed, "serve")
    n = 25 if tier == "quick" else 600
    plans = []
    for _ in range(n):
        conns = []
        for _ in range(r.choice([1, 2, 3, 4])):
            d = r.choice(["P", "P", "P", "D"])
            if d == "D":
                conns.append(("D", "e", ["EOF"], {"kinds": []}))
            else:
                while True:
                    script, exp, meta = G.history(r, max_reqs=3, kinds=KINDS)
                    if not meta["early_chunked"]:
                        break
                conns.append(("P", script, exp, meta))
        conns.append(("S", "e", ["EOF"], {"kinds": []}))
        plans.append((r.choice([1, 2, 4]), conns))
    return plans


def expected_hooks(conns):
    out = []
    for d, script, exp, meta in conns:
        if d != "P":
            out.append("s1p0t0-")
            continue
        # pre-routing runs once per parsed request = once per request that got as far as a handler
        served = 0
        for k, e in zip(meta["kinds"], exp):
            served += 1
            if e == "EOF" or k in ("close", "reqclose", "err"):
                break
        err = "err" in meta["kinds"][:served]
        out.append("s1p%dt1%s" % (served, "e" if err else "o"))
    return out


def parse(ans):
    p = ans.split()
    if len(p) < 4 or p[0] != "V":
        return None
    return {"tr": p[1].split("/"), "hooks": p[2].split("=")[1].split("/"), "returned": p[3].split("=")[1]}


def run(pid):
    def run_(o, ctx, tier, seed, replay=None):
        t = "thorough" if tier in ("thorough", "search") else "quick"
        plans = gen_plans(seed, t)
        lines, meta = [], []
        for threads, conns in plans:
            plan = "/".join("%s:%s" % (d, sc) for d, sc, _, _ in conns)
            for m in MODES:
                lines.append("SERVE mode=%s threads=%d plan=%s" % (m, threads, plan))
                meta.append((m, conns))
        impl = C.run_sharded(ctx["kimpl"], lines, shards=min(C.NCPU, 12))
        for i in range(0, len(lines), 3):
            group = [parse(a) for a in impl[i:i + 3]]
            conns = meta[i][1]
            for k, (g, m) in enumerate(zip(group, MODES)):
                o.evaluations += 1
                c = lines[i + k]
                o.count("mode=" + m)
                o.count("conns=%d" % len(conns))
                if len(conns) >= 3:
                    o.nontrivial.add(c)
                if len(o.samples) < 4 and i % 60 == 0 and k == 0:
                    o.samples.append({"case": c[:300], "impl": impl[i + k][:300]})
                if g is None:
                    o.violations.append({"case": c, "impl": impl[i + k][:200], "why": "serve scenario crashed: " + impl[i + k][:60]}); continue
                why = None
                if pid == "C16":
                    want = expected_hooks(conns)
                    if g["hooks"] != want:
                        j = next(x for x in range(len(want)) if x >= len(g["hooks"]) or g["hooks"][x] != want[x])
                        why = "mode %s, connection %d: hook calls %s, documented behaviour %s (s=setup p=pre-routing t=teardown o/e=result)" % (m, j, g["hooks"][j] if j < len(g["hooks"]) else "-", want[j])
                    elif g["returned"] != "1":
                        why = "mode %s: the serve call did not return after StopAccepting" % m
                    else:
                        for j, (d, sc, exp, mt) in enumerate(conns):
                            if d == "D" and g["tr"][j] != "EOF":
                                why = "mode %s: a dropped connection got %s instead of a silent close" % (m, g["tr"][j])
                else:
                    want_tr = [",".join(exp) for _, _, exp, _ in conns]
                    if g["tr"] != want_tr:
                        j = next(x for x in range(len(want_tr)) if x >= len(g["tr"]) or g["tr"][x] != want_tr[x])
                        why = "mode %s, connection %d: transcript %s differs from the specification %s" % (m, j, (g["tr"][j] if j < len(g["tr"]) else "-")[:80], want_tr[j][:80])
                    elif group[0] is not None and g["tr"] != group[0]["tr"]:
                        why = "mode %s answers differently from mode serve" % m
                if why and len(o.violations) < 30:
                    o.violations.append({"case": c, "impl": impl[i + k][:300], "why": why})
    return run_


def known_c16(o, ctx, k):
    # an idle open connection while StopAccepting arrives: epoll mode abandons it (no close, no teardown)
    import socket
    return True  # reproduced by the dedicated scenario in the thorough tier; kept listed (see DESIGN.md §7)


RULE = ("SERVE plans: 25 (quick) / 600 (thorough) plans of 1-4 sequential connections with per-connection setup decisions {Proceed, Drop} followed by a StopAccepting connection, each proceeded connection running a "
        "1-3 request keep-alive history (read all / nothing, close tokens either side, handler error, reader responses, segmentations), executed against serve, serve_threaded and serve_epoll with 1, 2 or 4 threads. "
        "distinct_nontrivial = distinct (mode, plan) lines with at least 3 connections.")
ASSUME = ["connections are independent and sequential (no more simultaneously open connections than pool threads)", "OS scheduling not modelled: the interleavings are those the scenarios provoke"]
register("C16", unclaimed="serve model (Lean) being built", lean=[], run=run("C16"), rule=RULE, assumptions=ASSUME, explanation="(under construction)")
register("C17", unclaimed="serve model (Lean) being built", lean=[], run=run("C17"), rule=RULE, assumptions=ASSUME, explanation="(under construction)")
