#!/usr/bin/env python3
"""Confirm and evaluate seeded breaking changes (produced by independent sub-agents under /tmp/seeded/<ID>/<X>).

  tools/seeded.py confirm <ID> <X>     confirm in the scratch worktree /tmp/wt/<ID>: tests pass with the patch, demo fails with it and
                                        passes without; then keep it as /verif/seeded/<ID>-<X>/ (patch.diff, demo, meta.json)
  tools/seeded.py eval <ID>-<X> [Cxx…] apply the kept patch to /repo, run the quick check of the property (and any others named),
                                        undo it straight afterwards; records which checks raised the alarm in meta.json
"""
import glob, json, os, shutil, subprocess, sys

ROOT = os.path.normpath(os.path.join(os.path.dirname(os.path.abspath(__file__)), ".."))


def sh(cmd, cwd=None, env=None, timeout=3600):
    e = dict(os.environ); e["CARGO_NET_OFFLINE"] = "true"
    if env: e.update(env)
    p = subprocess.run(cmd, shell=True, cwd=cwd, env=e, stdout=subprocess.PIPE, stderr=subprocess.STDOUT, timeout=timeout)
    return p.returncode, p.stdout.decode("utf-8", "replace")


def find_manifest(d):
    for cand in (os.path.join(d, "demo", "Cargo.toml"), os.path.join(d, "Cargo.toml")):
        if os.path.exists(cand):
            return cand
    m = glob.glob(os.path.join(d, "**", "Cargo.toml"), recursive=True)
    return m[0] if m else None


def run_demo(src, wt):
    man = find_manifest(src)
    if not man:
        return None, "no Cargo.toml"
    # one target directory per variant: two demo packages with the same name and version would otherwise share a binary
    return sh(f"cargo run --offline --quiet --manifest-path {man}", env={"CARGO_TARGET_DIR": os.path.join(wt, "target-demo-" + os.path.basename(src.rstrip("/"))), "KHTTP_ROOT": wt})


def confirm(pid, x):
    src = f"/tmp/seeded/{pid}/{x}"
    wt = f"/tmp/wt/{pid}"
    patch = os.path.join(src, "patch.diff")
    res = {"property": pid, "variant": x}
    sh("git checkout -- .", cwd=wt)
    rc0, out0 = run_demo(src, wt)
    res["demo_without_patch_rc"] = rc0
    rc, out = sh(f"git apply {patch}", cwd=wt)
    if rc != 0:
        print("patch does not apply:", out); return 1
    rct, outt = sh("cargo test --workspace --no-fail-fast --offline 2>&1 | grep -E '^test result' ", cwd=wt)
    passed = sum(int(l.split(" passed")[0].split()[-1]) for l in outt.splitlines() if " passed" in l)
    failed = sum(int(l.split(" failed")[0].split()[-1]) for l in outt.splitlines() if " failed" in l)
    res["tests_with_patch"] = {"passed": passed, "failed": failed}
    rc1, out1 = run_demo(src, wt)
    res["demo_with_patch_rc"] = rc1
    res["demo_with_patch_tail"] = out1.strip().splitlines()[-3:] if out1 else []
    sh("git checkout -- .", cwd=wt)
    ok = rc0 == 0 and rc1 not in (0, None) and passed == 87 and failed == 0
    res["confirmed"] = ok
    print(json.dumps(res, indent=1))
    if not ok:
        return 1
    dst = os.path.join(ROOT, "seeded", f"{pid}-{x}")
    if os.path.exists(dst):
        shutil.rmtree(dst)
    shutil.copytree(src, dst, ignore=shutil.ignore_patterns("target", "target-demo"))
    notes = open(os.path.join(src, "notes.md")).read() if os.path.exists(os.path.join(src, "notes.md")) else ""
    meta = {"breaks_property": pid, "variant": x, "needs_to_manifest": notes[:1500],
            "confirmed_by": {"worktree": wt, "base_commit": sh("git rev-parse HEAD", cwd=wt)[1].strip(),
                             "ran": ["demo without patch -> rc %s" % rc0, "git apply patch.diff", "cargo test --workspace --no-fail-fast --offline -> %d passed, %d failed" % (passed, failed),
                                     "demo with patch -> rc %s" % rc1, "git checkout -- ."]},
            "detected_by": {}}
    json.dump(meta, open(os.path.join(dst, "meta.json"), "w"), indent=1)
    return 0


def evaluate(name, props):
    d = os.path.join(ROOT, "seeded", name)
    meta = json.load(open(os.path.join(d, "meta.json")))
    props = props or [meta["breaks_property"]]
    rc, out = sh(f"git -C /repo apply {os.path.join(d, 'patch.diff')}")
    if rc != 0:
        print("patch does not apply to /repo:", out); return 1
    # the evidence files must describe runs on the UNCHANGED tree: keep them aside while the patched tree is being checked
    ev = os.path.join(ROOT, "evidence")
    saved = {f: open(os.path.join(ev, f), "rb").read() for f in os.listdir(ev) if f.endswith(".json")}
    try:
        for p in props:
            rc, out = sh(f"python3 tools/check.py {p} --tier quick", cwd=ROOT)
            lines = [l for l in out.splitlines() if l.startswith("VIOLATION") or "violating" in l or "broken obligation" in l or l.startswith("KNOWN")]
            meta["detected_by"][p] = {"rc": rc, "lines": lines[:4]}
            print(p, "rc=%d" % rc, lines[:3])
    finally:
        sh("git -C /repo checkout -- .")
        for f, b in saved.items():
            open(os.path.join(ev, f), "wb").write(b)
        # regenerate what the translators derived from the patched sources
        sh(f"{sys.executable} tools/gen_consts.py; {sys.executable} tools/extract_skeleton.py", cwd=ROOT)
    json.dump(meta, open(os.path.join(d, "meta.json"), "w"), indent=1)
    return 0


if __name__ == "__main__":
    if sys.argv[1] == "confirm":
        sys.exit(confirm(sys.argv[2], sys.argv[3]))
    sys.exit(evaluate(sys.argv[2], sys.argv[3:]))
